//go:build verif

// Package c08 binds specs/Cred/CredStore.tla to the real credential manager, the real
// Shadowsocks 2022 TCP/UDP servers' credential stores and the real management API handlers.
//
// TestSeqReplay replays TLC's sequential behaviours (NextSeq alphabet) inside testing/synctest
// and compares every view with the model after every step.
// TestStress runs concurrent API traffic with real scheduling (perturbed at the verifhook
// points) and checks the property's quiescent statement: the three views agree.
package c08

import (
	"context"
	"encoding/json"
	"fmt"
	"math/rand/v2"
	"os"
	"reflect"
	"sync"
	"testing"
	"testing/synctest"
	"time"

	"github.com/database64128/shadowsocks-go/verifhook"

	"verif/harness/internal/credenv"
	"verif/harness/internal/vio"
)

type opRec struct {
	N string `json:"n"`
	U string `json:"u"`
	K string `json:"k"`
}

type action struct {
	N    string          `json:"n"`
	O    opRec           `json:"o"`
	Out  string          `json:"out"`
	C    credenv.Content `json:"c"`
	Path credenv.Content `json:"path"`
}

type obs struct {
	Cache map[string]string            `json:"cache"`
	Live  map[string]map[string]string `json:"live"`
	Path  credenv.Content              `json:"path"`
	Queue int                          `json:"queue"`
}

var users = []string{"A", "B"}
var keyNames = []string{"k1", "k2"}

func same(a, b map[string]string) bool { return reflect.DeepEqual(a, b) }

// views collects the three views of the real system.
func views(e *credenv.Env, stores []string) (list map[string]string, live map[string]map[string]string, hs map[string]map[string]string, file credenv.Content, err error) {
	list, err = e.List(users)
	if err != nil {
		return
	}
	live = map[string]map[string]string{}
	hs = map[string]map[string]string{}
	for _, s := range stores {
		live[s] = e.Lookup(s)
		hs[s] = map[string]string{}
		for _, k := range keyNames {
			var u string
			if s == "tcp" {
				u, err = e.HandshakeTCP(k)
			} else {
				u, err = e.HandshakeUDP(k)
			}
			if err != nil {
				return
			}
			hs[s][k] = u
		}
	}
	file = e.File(users)
	return
}

func inverse(cache map[string]string) map[string]string {
	m := map[string]string{}
	for _, k := range keyNames {
		m[k] = credenv.None
	}
	for u, k := range cache {
		if k != credenv.None {
			m[k] = u
		}
	}
	return m
}

func runSeq(t *testing.T, in *vio.Input, bi int, b vio.Behaviour, res *vio.Result, stores []string) {
	synctest.Test(t, func(t *testing.T) {
		dir := t.TempDir()
		keyLen := 32
		if (in.Seed+int64(bi))%2 == 1 {
			keyLen = 16
		}
		has := func(s string) bool {
			for _, x := range stores {
				if x == s {
					return true
				}
			}
			return false
		}
		e, err := credenv.New(dir, keyLen, has("tcp"), has("udp"), credenv.Render(credenv.Content{Kind: "doc", M: map[string]string{}}, keyLen), keyNames, nil)
		if err != nil {
			res.Break("behaviour %d: %v", bi, err)
			return
		}
		ctx, cancel := context.WithCancel(context.Background())
		if err := e.Mgr.Start(ctx); err != nil {
			res.Break("start: %v", err)
			return
		}
		defer func() {
			cancel()
			_ = e.Mgr.Stop()
		}()
		var hist []any
		for si, st := range b.Steps {
			var a action
			var o obs
			if err := json.Unmarshal(st.A, &a); err != nil {
				res.Break("bad action: %v", err)
				return
			}
			if err := json.Unmarshal(st.O, &o); err != nil {
				res.Break("bad obs: %v", err)
				return
			}
			hist = append(hist, json.RawMessage(st.A))
			got := ""
			switch a.N {
			case "Enqueue", "Locked":
				switch a.O.N {
				case "Add":
					got = e.Add(a.O.U, a.O.K)
				case "Update":
					got = e.Update(a.O.U, a.O.K)
				case "Delete":
					got = e.Delete(a.O.U)
				case "Load":
					got = e.Reload()
					if a.Out == "skip" || a.Out == "swap" {
						a.Out = "ok"
					}
				}
			case "EditFile":
				if err := os.WriteFile(e.Path, credenv.Render(a.C, keyLen), 0o644); err != nil {
					res.Break("edit: %v", err)
					return
				}
			case "Flush":
				time.Sleep(6 * time.Second)
				synctest.Wait()
			default:
				res.Break("unknown action %s", a.N)
				return
			}
			fail := func(key, text string, exp, obsv any) {
				res.Violation(vio.Finding{Key: key, Text: text, Behaviour: bi, Step: si, Expected: exp, Observed: obsv, Replay: hist})
			}
			if got != "" && got != a.Out {
				// an operation the model refuses must be refused (duplicate key, existing user, ...),
				// one it accepts must be accepted: the outcome decides which keys work afterwards
				fail("cred.api/outcome", fmt.Sprintf("%s(%s,%s): expected %s, API answered %s", a.O.N, a.O.U, a.O.K, a.Out, got), a.Out, got)
				res.AddSteps(1, si+1)
				return
			}
			list, live, hs, file, err := views(e, stores)
			if err != nil {
				res.Break("behaviour %d step %d: %v", bi, si, err)
				return
			}
			bad := false
			if !same(list, o.Cache) {
				fail("cred.views/api-list", "the API lists a different user set than the model after "+a.N+" "+a.O.N, o.Cache, list)
				bad = true
			}
			for _, s := range stores {
				if !same(live[s], o.Live[s]) {
					fail("cred.views/live-"+s, "the "+s+" server's live lookup map differs from the model after "+a.N+" "+a.O.N, o.Live[s], live[s])
					bad = true
				}
				if !same(hs[s], o.Live[s]) {
					fail("cred.views/handshake-"+s, "real "+s+" handshakes are accepted/attributed differently from the model after "+a.N+" "+a.O.N, o.Live[s], hs[s])
					bad = true
				}
			}
			if file.Kind != o.Path.Kind || (file.Kind == "doc" && !same(file.M, o.Path.M)) {
				fail("cred.views/file", "the store file differs from the model after "+a.N+" "+a.O.N, o.Path, file)
				bad = true
			}
			res.Seen(fmt.Sprintf("%s/%s/%s/%v/%s", a.N, a.O.N, a.Out, len(o.Cache), o.Path.Kind))
			if bad {
				res.AddSteps(1, si+1)
				return
			}
		}
		res.AddSteps(1, len(b.Steps))
		res.Sample(map[string]any{"behaviour": bi, "actions": hist}, 2)
	})
}

func TestSeqReplay(t *testing.T) {
	in, err := vio.ReadInput()
	if err != nil {
		t.Skip(err)
	}
	res := vio.NewResult()
	defer func() {
		if err := res.Write(); err != nil {
			t.Fatal(err)
		}
	}()
	stores := []string{"tcp", "udp"}
	in.Param("stores", &stores)
	for bi, b := range in.Behaviours {
		runSeq(t, in, bi, b, res, stores)
	}
}

// TestStress: concurrent API clients, reloads and file edits with real scheduling; the hook
// points yield/sleep at random so that code placed outside a critical section shows.  Oracle: after
// everything returned and the saver flushed, the three views agree (C08's statement), and every
// acknowledged outcome sequence is consistent with the final state per user.
func TestStress(t *testing.T) {
	in, err := vio.ReadInput()
	if err != nil {
		t.Skip(err)
	}
	res := vio.NewResult()
	defer func() {
		if err := res.Write(); err != nil {
			t.Fatal(err)
		}
	}()
	rounds := 200
	in.Param("rounds", &rounds)
	var events []map[string]any
	for round := 0; round < rounds; round++ {
		events = append(events, stressRound(t, in, round, res)...)
	}
	var traceOut string
	if in.Param("trace_out", &traceOut) && traceOut != "" {
		f, err := os.Create(traceOut)
		if err != nil {
			t.Fatal(err)
		}
		enc := json.NewEncoder(f)
		for _, e := range events {
			_ = enc.Encode(e)
		}
		_ = f.Close()
	}
}

func stressRound(t *testing.T, in *vio.Input, round int, res *vio.Result) (events []map[string]any) {
	rnd := rand.New(rand.NewPCG(uint64(in.Seed), uint64(round)))
	dir := t.TempDir()
	keyLen := 32
	if round%2 == 1 {
		keyLen = 16
	}
	withTCP, withUDP := true, true
	switch round % 5 {
	case 3:
		withUDP = false
	case 4:
		withTCP = false
	}
	stores := []string{}
	if withTCP {
		stores = append(stores, "tcp")
	}
	if withUDP {
		stores = append(stores, "udp")
	}
	e, err := credenv.New(dir, keyLen, withTCP, withUDP, credenv.Render(credenv.Content{Kind: "doc", M: map[string]string{"A": "k1"}}, keyLen), keyNames, nil)
	if err != nil {
		res.Break("round %d: %v", round, err)
		return
	}
	var evMu sync.Mutex
	events = append(events, map[string]any{"e": "init", "list": map[string]string{"A": "k1", "B": credenv.None}})
	var hookMu sync.Mutex
	hrnd := rand.New(rand.NewPCG(uint64(in.Seed)+7, uint64(round)))
	verifhook.Set(func(point string, args ...any) {
		hookMu.Lock()
		d := hrnd.IntN(4)
		us := hrnd.IntN(200)
		hookMu.Unlock()
		switch d {
		case 0:
		case 1:
			for range 3 {
				time.Sleep(0)
			}
		default:
			time.Sleep(time.Duration(us) * time.Microsecond)
		}
	})
	defer verifhook.Set(nil)
	ctx, cancel := context.WithCancel(context.Background())
	_ = e.Mgr.Start(ctx)
	nworkers := 2 + rnd.IntN(3)
	type rec struct {
		W   int    `json:"w"`
		Op  string `json:"op"`
		U   string `json:"u,omitempty"`
		K   string `json:"k,omitempty"`
		Out string `json:"out"`
	}
	var mu sync.Mutex
	var log []rec
	var wg sync.WaitGroup
	for w := 0; w < nworkers; w++ {
		seq := make([]rec, 3+rnd.IntN(4))
		for i := range seq {
			u := users[rnd.IntN(2)]
			k := keyNames[rnd.IntN(2)]
			switch rnd.IntN(8) {
			case 0, 1:
				seq[i] = rec{Op: "Add", U: u, K: k}
			case 2, 3:
				seq[i] = rec{Op: "Update", U: u, K: k}
			case 4, 5:
				seq[i] = rec{Op: "Delete", U: u}
			default:
				seq[i] = rec{Op: "Load"}
			}
		}
		wg.Add(1)
		go func() {
			defer wg.Done()
			for _, r := range seq {
				u, k := r.U, r.K
				if u == "" {
					u = credenv.None
				}
				if k == "" {
					k = credenv.None
				}
				evMu.Lock()
				events = append(events, map[string]any{"e": "call", "w": fmt.Sprintf("w%d", w), "op": r.Op, "u": u, "k": k})
				evMu.Unlock()
				switch r.Op {
				case "Add":
					r.Out = e.Add(r.U, r.K)
				case "Update":
					r.Out = e.Update(r.U, r.K)
				case "Delete":
					r.Out = e.Delete(r.U)
				case "Load":
					r.Out = e.Reload()
				}
				r.W = w
				evMu.Lock()
				events = append(events, map[string]any{"e": "ret", "w": fmt.Sprintf("w%d", w), "out": r.Out})
				evMu.Unlock()
				mu.Lock()
				log = append(log, r)
				mu.Unlock()
			}
		}()
	}
	wg.Wait()
	if fl, err := e.List(users); err == nil {
		events = append(events, map[string]any{"e": "final", "list": fl})
	}
	// shut down: acknowledged changes must be saved before Stop returns
	cancel()
	_ = e.Mgr.Stop()
	list, live, hs, file, err := views(e, stores)
	if err != nil {
		res.Break("round %d: %v", round, err)
		return
	}
	fail := func(key, text string, exp, got any) {
		res.Violation(vio.Finding{Key: key, Text: text, Behaviour: round, Expected: exp, Observed: got, Replay: map[string]any{"round": round, "seed": in.Seed, "log": log}})
	}
	inv := inverse(list)
	dup := false
	seen := map[string]string{}
	for u, k := range list {
		if k == credenv.None {
			continue
		}
		if o, ok := seen[k]; ok {
			dup = true
			fail("cred.views/duplicate-key", fmt.Sprintf("users %s and %s are both listed with key %s", o, u, k), nil, list)
		}
		seen[k] = u
	}
	if !dup {
		for _, s := range stores {
			if !same(live[s], inv) {
				fail("cred.views/live-"+s, "after concurrent API traffic quiesced, the "+s+" live map differs from the listed users", inv, live[s])
			}
			if !same(hs[s], inv) {
				fail("cred.views/handshake-"+s, "after concurrent API traffic quiesced, real "+s+" handshakes disagree with the listed users", inv, hs[s])
			}
		}
		if file.Kind != "doc" || !same(file.M, list) {
			fail("cred.views/file", "after the service stopped, the store file differs from the listed users", list, file)
		}
	}
	res.AddSteps(1, len(log))
	res.Seen(fmt.Sprintf("%v", list))
	res.Sample(map[string]any{"round": round, "log": log, "final": list}, 2)
	return events
}
