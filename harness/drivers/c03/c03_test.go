//go:build verif

// Package c03 replays behaviours of specs/Replay/TcpReplay.tla on the real
// ss2022.StreamServer.HandleStream inside testing/synctest (virtual clock), with the
// verifhook gates executing TLC's interleavings of concurrent presenters exactly.
package c03

import (
	"crypto/sha256"
	"encoding/binary"
	"encoding/json"
	"errors"
	"fmt"
	"net/netip"
	"testing"
	"testing/synctest"
	"time"

	"github.com/database64128/shadowsocks-go/conn"
	"github.com/database64128/shadowsocks-go/netio"
	"github.com/database64128/shadowsocks-go/ss2022"
	"github.com/database64128/shadowsocks-go/verifhook"
	"go.uber.org/zap"

	"verif/harness/internal/vio"
)

type action struct {
	N   string `json:"n"`
	P   string `json:"p"`
	R   string `json:"r"`
	K   string `json:"k"`
	Ts  int64  `json:"ts"`
	D   int64  `json:"d"`
	Now int64  `json:"now"`
	Out string `json:"out"`
}

const ticksPerSec = 3

// tickTime maps a model tick to a virtual instant: the three ticks of a second are .000000000,
// .000000001 and .999999999.
func tickTime(base time.Time, tick int64) time.Time {
	sec, frac := tick/ticksPerSec, tick%ticksPerSec
	t := base.Add(time.Duration(sec) * time.Second)
	switch frac {
	case 1:
		t = t.Add(1)
	case 2:
		t = t.Add(time.Second - 1)
	}
	return t
}

type presenter struct {
	name    string
	pl, pr  *netio.PipeConn
	gate    chan struct{} // released by the driver
	at      string        // gate currently reached ("" = running / none)
	done    bool
	err     error
	req     netio.ConnRequest
	r       string
	kind    string
	authAt  time.Time
	started bool
}

type world struct {
	t       *testing.T
	server  *ss2022.StreamServer
	ucc     ss2022.UserCipherConfig
	base    time.Time
	byConn  map[any]*presenter
	procs   map[string]*presenter
	reqTs   map[string]int64
	accepts map[string]int
	failed  map[string]bool // a non-genuine presentation of this salt happened
	seed    int64
	bi      int
}

func psk(seed int64, n int) []byte {
	h := sha256.Sum256(binary.LittleEndian.AppendUint64([]byte("psk"), uint64(seed)))
	return h[:n]
}

func (w *world) saltFor(r string) []byte {
	h := sha256.Sum256(fmt.Appendf(nil, "salt/%d/%d/%s", w.seed, w.bi, r))
	return h[:len(w.ucc.PSK)]
}

// craft builds the bytes of request r with the given timestamp, as StreamClient.DialStream does.
func (w *world) craft(r string, ts int64, kind string) []byte {
	salt := w.saltFor(r)
	target := conn.AddrFromIPPort(netip.AddrPortFrom(netip.AddrFrom4([4]byte{10, 0, 0, 1}), 443))
	payload := []byte("hello")
	const tag = 16
	varLen := 1 + 4 + 2 + 2 + 7 + len(payload) // ATYP+IPv4+port+padlen+padding(7)+payload
	b := make([]byte, len(salt)+ss2022.TCPRequestFixedLengthHeaderLength+tag+varLen+tag)
	copy(b, salt)
	fixed := b[len(salt) : len(salt)+ss2022.TCPRequestFixedLengthHeaderLength]
	vstart := len(salt) + ss2022.TCPRequestFixedLengthHeaderLength + tag
	variable := b[vstart : vstart+varLen]
	// variable-length header with 7 bytes of padding
	padded := make([]byte, 7+len(payload))
	_ = padded
	ss2022.PutTCPRequestVariableLengthHeader(variable, target, payload)
	ss2022.PutTCPRequestFixedLengthHeader(fixed, time.Unix(ts, 0), varLen)
	if kind == "badtype" {
		fixed[0] = ss2022.HeaderTypeServerStream
	}
	c, err := w.ucc.ShadowStreamCipher(salt)
	if err != nil {
		w.t.Fatal(err)
	}
	c.EncryptInPlace(fixed)
	c.EncryptInPlace(variable)
	if kind == "forged" {
		b[len(salt)+3] ^= 0x10
	}
	return b
}

func classify(err error) string {
	switch {
	case err == nil:
		return "accept"
	case errors.Is(err, ss2022.ErrRepeatedSalt):
		return "repeat"
	case errors.Is(err, ss2022.ErrBadTimestamp):
		return "badts"
	case errors.Is(err, ss2022.ErrTypeMismatch):
		return "typeerr"
	default:
		return "autherr"
	}
}

func (w *world) hook(point string, args ...any) {
	if point != "ss2022.tcp.afterTryContains" && point != "ss2022.tcp.beforeAdd" {
		return
	}
	if len(args) == 0 {
		return
	}
	p := w.byConn[args[0]]
	if p == nil {
		return
	}
	p.at = point
	<-p.gate
	p.at = ""
}

func (w *world) start(name, r, kind string, ts int64) *presenter {
	pl, pr := netio.NewPipe()
	p := &presenter{name: name, pl: pl, pr: pr, gate: make(chan struct{}), r: r, kind: kind}
	w.byConn[pr] = p
	w.procs[name] = p
	b := w.craft(r, ts, kind)
	go func() {
		_, _ = pl.Write(b)
	}()
	go func() {
		req, err := w.server.HandleStream(pr, zap.NewNop())
		p.req, p.err, p.done = req, err, true
		// unblock the writer whatever happened
		_ = pr.Close()
		_ = pl.Close()
	}()
	return p
}

// observe waits until every goroutine is parked and reports where presenter p is.
func (p *presenter) observe() string {
	synctest.Wait()
	if p.done {
		return classify(p.err)
	}
	if p.at != "" {
		return "pending"
	}
	return "stuck"
}

func runBehaviour(t *testing.T, in *vio.Input, bi int, b vio.Behaviour, res *vio.Result) {
	synctest.Test(t, func(t *testing.T) {
		w := &world{t: t, base: time.Now(), byConn: map[any]*presenter{}, procs: map[string]*presenter{},
			reqTs: map[string]int64{}, accepts: map[string]int{}, failed: map[string]bool{}, seed: in.Seed, bi: bi}
		keyLen := 32
		if (in.Seed+int64(bi))%2 == 1 {
			keyLen = 16
		}
		ucc, err := ss2022.NewUserCipherConfig(psk(in.Seed, keyLen), false)
		if err != nil {
			t.Fatal(err)
		}
		w.ucc = ucc
		w.server = (&ss2022.StreamServerConfig{UserCipherConfig: ucc}).NewStreamServer()
		verifhook.Set(w.hook)
		defer verifhook.Set(nil)
		defer func() {
			// release everything still parked so the bubble can end
			for _, p := range w.procs {
				if !p.done {
					_ = p.pl.Close()
					_ = p.pr.Close()
					for range 2 {
						synctest.Wait()
						if p.at != "" {
							p.gate <- struct{}{}
						}
					}
				}
			}
			synctest.Wait()
		}()

		var hist []any
		for si, st := range b.Steps {
			var a action
			if err := json.Unmarshal(st.A, &a); err != nil {
				res.Break("behaviour %d step %d: %v", bi, si, err)
				return
			}
			hist = append(hist, a)
			var got string
			switch a.N {
			case "Advance":
				target := tickTime(w.base, a.Now)
				d := target.Sub(time.Now())
				if d < 0 {
					res.Break("behaviour %d step %d: clock would go backwards", bi, si)
					return
				}
				time.Sleep(d)
				continue
			case "Try":
				w.reqTs[a.R] = a.Ts
				p := w.start(a.P, a.R, a.K, w.base.Unix()+a.Ts)
				got = p.observe()
			case "Auth", "Add":
				p := w.procs[a.P]
				if p == nil {
					res.Break("behaviour %d step %d: presenter %s never started", bi, si, a.P)
					return
				}
				if p.done || p.at == "" {
					// the real server already finished this presentation (model drift, noted when it happened)
					continue
				}
				if p.at == "ss2022.tcp.afterTryContains" {
					p.authAt = time.Now()
				}
				p.gate <- struct{}{}
				got = p.observe()
			default:
				res.Break("unknown action %q", a.N)
				return
			}
			if pp := w.procs[a.P]; got == "pending" && a.Out != "pending" && pp != nil {
				for range 2 {
					if pp.done || pp.at == "" {
						break
					}
					if pp.at == "ss2022.tcp.afterTryContains" {
						pp.authAt = time.Now()
					}
					pp.gate <- struct{}{}
					got = pp.observe()
				}
				res.DriftNote(vio.Finding{Key: "tcp.replay/model-drift", Behaviour: bi, Step: si, Expected: a.Out, Observed: "pending->" + got,
					Text: fmt.Sprintf("%s(%s): model expects %q, server went on and did %q", a.N, a.P, a.Out, got), Replay: hist})
				a.Out = got
			}
			if got == "stuck" {
				res.Break("behaviour %d step %d (%s): presenter neither returned nor reached a gate", bi, si, a.N)
				return
			}
			p := w.procs[a.P]
			// ---- the property, evaluated on what the real server did ----
			if p.done {
				genuine := p.kind == "good"
				switch got {
				case "accept":
					nowSec := p.authAt.Unix() - w.base.Unix()
					diff := w.reqTs[p.r] - nowSec
					if !genuine {
						res.Violation(vio.Finding{Key: "tcp.replay/non-genuine-accepted", Behaviour: bi, Step: si,
							Text: fmt.Sprintf("a %s presentation was accepted", p.kind), Replay: hist})
					}
					if diff > 30 || diff < -30 {
						res.Violation(vio.Finding{Key: "tcp.replay/accepted-outside-tolerance", Behaviour: bi, Step: si,
							Text: fmt.Sprintf("request with timestamp %+ds relative to the server second was accepted", diff), Replay: hist})
					}
					w.accepts[p.r]++
					diffNow := w.reqTs[p.r] - (time.Now().Unix() - w.base.Unix())
					if w.accepts[p.r] > 1 && diffNow <= 30 && diffNow >= -30 {
						res.Violation(vio.Finding{Key: "tcp.replay/accepted-twice", Behaviour: bi, Step: si,
							Text:   fmt.Sprintf("request %s (same salt) accepted a second time, timestamp %+ds from the server second", p.r, diffNow),
							Replay: hist})
					}
					if p.req.Addr.String() != "10.0.0.1:443" || string(p.req.Payload) != "hello" {
						res.Violation(vio.Finding{Key: "tcp.replay/request-garbled", Behaviour: bi, Step: si,
							Text: "accepted request does not carry the crafted target/payload", Replay: hist})
					}
				case "repeat":
					if genuine && w.accepts[p.r] == 0 && w.failed[p.r] {
						res.Violation(vio.Finding{Key: "tcp.replay/failed-presentation-poisons", Behaviour: bi, Step: si,
							Text:   fmt.Sprintf("genuine request %s refused as repeated although only failed presentations of its salt were seen before", p.r),
							Replay: hist})
					}
				}
				if got != "accept" && (!genuine || got == "badts") {
					w.failed[p.r] = true
				}
			}
			if got != a.Out {
				res.DriftNote(vio.Finding{Key: "tcp.replay/model-drift", Behaviour: bi, Step: si, Expected: a.Out, Observed: got,
					Text: fmt.Sprintf("%s(%s): model expects %q, server did %q", a.N, a.P, a.Out, got), Replay: hist})
			}
			res.Seen(fmt.Sprintf("%s/%s/%s", a.N, p.kind, got))
		}
		res.AddSteps(1, len(b.Steps))
		res.Sample(map[string]any{"behaviour": bi, "actions": hist}, 3)
	})
}

func TestReplay(t *testing.T) {
	in, err := vio.ReadInput()
	if err != nil {
		t.Skip(err)
	}
	res := vio.NewResult()
	defer func() {
		if err := res.Write(); err != nil {
			t.Fatal(err)
		}
	}()
	for bi, b := range in.Behaviours {
		runBehaviour(t, in, bi, b, res)
	}
}
