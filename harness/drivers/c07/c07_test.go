//go:build verif

// Package c07 replays behaviours of specs/Wire/Handshake.tla against the real SOCKS5, HTTP CONNECT and
// Shadowsocks-none servers and clients of the repository.  The two parties talk over a scripted
// connection (fragconn_test.go) whose segmentation is dictated by the model's Deliver actions; the
// whole run happens inside testing/synctest, so "both parties are blocked" (the model's Quiet) is
// observable exactly (synctest.Wait).  Each behaviour is executed in every mode its scenario allows:
//
//	A  real server, client scripted from the model (method lists, bad credentials, pipelining ...)
//	B  real client, server scripted from the model (foreign BND.ADDR types, extra headers, every reply)
//	C  real client against real server
package c07

import (
	"bytes"
	"context"
	"encoding/base64"
	"encoding/json"
	"errors"
	"fmt"
	"io"
	"math/rand"
	"net/netip"
	"os"
	"strconv"
	"strings"
	"testing"
	"testing/synctest"

	"github.com/database64128/shadowsocks-go"
	"github.com/database64128/shadowsocks-go/conn"
	"github.com/database64128/shadowsocks-go/httpproxy"
	"github.com/database64128/shadowsocks-go/netio"
	"github.com/database64128/shadowsocks-go/socks5"
	"github.com/database64128/shadowsocks-go/ssnone"
	"go.uber.org/zap"

	"verif/harness/internal/vio"
)

// ---------------------------------------------------------------- JSON shapes emitted by MCHandshake.tla

type addrJ struct {
	K    string `json:"k"`
	B    []int  `json:"b"`
	Port int    `json:"port"`
}

type attJ struct {
	Cred  int  `json:"cred"`
	Close bool `json:"close"`
}

type planJ struct {
	Atts []attJ `json:"atts"`
	Pipe bool   `json:"pipe"`
	Meth string `json:"meth"`
	Xh   int    `json:"xh"`
}

type scnJ struct {
	Proto string `json:"proto"`
	Auth  bool   `json:"auth"`
	En    []bool `json:"en"`
	Addr  addrJ  `json:"addr"`
	Cmd   int    `json:"cmd"`
	Ml    []int  `json:"ml"`
	Cred  int    `json:"cred"`
	Bnd   string `json:"bnd"`
	Plan  planJ  `json:"plan"`
}

type outcomeJ struct {
	St   string `json:"st"`
	Addr addrJ  `json:"addr"`
	User []int  `json:"user"`
}

type obsJ struct {
	Spc   string `json:"spc"`
	Sst   string `json:"sst"`
	Suser []int  `json:"suser"`
	Cpc   string `json:"cpc"`
	Cst   string `json:"cst"`
	Ccode int    `json:"ccode"`
	Cwhy  string `json:"cwhy"`
	Eof   bool   `json:"eof"`
	Quiet bool   `json:"quiet"`
}

type initJ struct {
	Scn  scnJ `json:"scn"`
	Conf struct {
		C bool `json:"c"`
		S bool `json:"s"`
	} `json:"conf"`
	Exp outcomeJ `json:"exp"`
	Obs obsJ     `json:"obs"`
}

type msgJ struct {
	M  string `json:"m"`
	J  int    `json:"j"`
	K  int    `json:"k"`
	St int    `json:"st"`
	B  []int  `json:"b"`
}

type sndJ struct {
	D   string `json:"d"`
	Msg msgJ   `json:"msg"`
	B   []int  `json:"b"`
}

type actJ struct {
	N    string          `json:"n"`
	Side string          `json:"side"`
	Snd  []sndJ          `json:"snd"`
	Out  json.RawMessage `json:"out"`
	D    string          `json:"d"`
	K    int             `json:"k"`
	Code int             `json:"code"`
}

type credJ struct {
	U []int `json:"u"`
	P []int `json:"p"`
}

func bs(v []int) []byte {
	b := make([]byte, len(v))
	for i, x := range v {
		b[i] = byte(x)
	}
	return b
}

// ---------------------------------------------------------------- concretisation

func (a addrJ) wellFormed() bool { return a.K == "v4" || a.K == "v6" || a.K == "dom" }

func (a addrJ) connAddr() (conn.Addr, error) {
	switch a.K {
	case "v4":
		return conn.AddrFromIPAndPort(netip.AddrFrom4([4]byte(bs(a.B))), uint16(a.Port)), nil
	case "v6":
		return conn.AddrFromIPAndPort(netip.AddrFrom16([16]byte(bs(a.B))), uint16(a.Port)), nil
	case "dom":
		return conn.AddrFromDomainPort(string(bs(a.B)), uint16(a.Port))
	}
	return conn.Addr{}, fmt.Errorf("address class %q has no conn.Addr", a.K)
}

// sameAddr is the property's notion of "the address the server extracts equals what the client asked
// for": same kind, same bytes, same port (an IPv4-mapped IPv6 address and its IPv4 form name the same
// endpoint; SOCKS5 documents that conversion).
func sameAddr(got conn.Addr, want addrJ) bool {
	w, err := want.connAddr()
	if err != nil || !got.IsValid() {
		return false
	}
	if w.IsIP() != got.IsIP() || w.Port() != got.Port() {
		return false
	}
	if w.IsIP() {
		return w.IP().Unmap() == got.IP().Unmap()
	}
	return w.Domain() == got.Domain()
}

// hostPort is the CONNECT request target / Host header of an address; malformed classes give a target
// without a port.
func (a addrJ) hostPort() string {
	if c, err := a.connAddr(); err == nil {
		return c.String()
	}
	return "no-port.example"
}

// pattern is data byte i (1-based) of direction d: position-dependent, so loss, duplication and
// reordering all show.
func pattern(d string, seed int64, from, n int) []byte {
	b := make([]byte, n)
	off := int64(0)
	if d == "s2c" {
		off = 101
	}
	for i := range b {
		p := int64(from + i)
		b[i] = byte((p*131 + p*p*7 + seed*13 + off) % 251)
	}
	return b
}

// ---------------------------------------------------------------- the world of one replay

type srvCmd struct {
	proceed bool
	code    int
}

type expMsg struct {
	msg   msgJ
	bytes []byte
}

type world struct {
	t     *testing.T
	res   *vio.Result
	bi    int
	mode  string
	seed  int64
	rnd   *rand.Rand
	init  initJ
	scn   scnJ
	users []credJ
	creds []credJ
	hist  []vio.Step

	realC, realS bool
	cEnd, sEnd   *end
	q            map[string]*queue // "c2s", "s2c"

	// real server
	sDone, sDecided bool
	sReq            netio.ConnRequest
	sErr, sDecErr   error
	sCmd            chan srvCmd
	sConn           netio.Conn
	// real client
	cDone   bool
	cClosed bool
	cConn   netio.Conn
	cErr    error

	exp     map[string][]expMsg // handshake messages the model has sent, per direction
	hsUnits map[string]int
	nd, got map[string]int
	stopped bool
	step    int
}

func (w *world) key(what string) string { return "hs." + w.scn.Proto + "/" + what }

func (w *world) replay() any {
	return map[string]any{"init": w.init, "steps": w.hist, "mode": w.mode, "users": w.users, "creds": w.creds, "seed": w.seed}
}

func (w *world) violation(what, format string, a ...any) {
	w.res.Violation(vio.Finding{Key: w.key(what), Behaviour: w.bi, Step: w.step,
		Text: fmt.Sprintf("[mode %s] ", w.mode) + fmt.Sprintf(format, a...), Replay: w.replay()})
	w.stopped = true
}

func (w *world) drift(what, format string, a ...any) {
	w.res.DriftNote(vio.Finding{Key: w.key("drift-" + what), Behaviour: w.bi, Step: w.step,
		Text: fmt.Sprintf("[mode %s] ", w.mode) + fmt.Sprintf(format, a...), Replay: w.replay()})
	w.stopped = true
}

// judged reports a difference between model and code: a violation when the scenario lies in the
// property's domain (well-formed request, credential fields of length >= 1), a drift note otherwise.
func (w *world) judged(what, format string, a ...any) {
	if w.inDomain() {
		w.violation(what, format, a...)
	} else {
		w.drift(what, format, a...)
	}
}

func (w *world) cred(i int) (u, p []byte) {
	if i == 0 {
		return nil, nil
	}
	return bs(w.creds[i-1].U), bs(w.creds[i-1].P)
}

func (w *world) credMatches(i int) bool {
	if i == 0 {
		return false
	}
	u, p := w.cred(i)
	for _, x := range w.users {
		if bytes.Equal(bs(x.U), u) && bytes.Equal(bs(x.P), p) {
			return true
		}
	}
	return false
}

func (w *world) inDomain() bool {
	if !w.scn.Addr.wellFormed() {
		return false
	}
	if w.scn.Proto == "socks5" && w.scn.Cred != 0 {
		u, p := w.cred(w.scn.Cred)
		if len(u) == 0 || len(p) == 0 {
			return false
		}
	}
	return true
}

// anyMatchingCred: the client presents, somewhere in this scenario, credentials of a configured user.
func (w *world) anyMatchingCred() bool {
	if w.scn.Proto == "http" {
		for _, a := range w.scn.Plan.Atts {
			if w.credMatches(a.Cred) {
				return true
			}
		}
		return false
	}
	return w.credMatches(w.scn.Cred)
}

// ---------------------------------------------------------------- HTTP text

const ua = "User-Agent: shadowsocks-go/" + shadowsocks.Version + "\r\n"

func (w *world) httpRequest(j int) []byte {
	at := w.scn.Plan.Atts[j-1]
	target := w.scn.Addr.hostPort()
	var b strings.Builder
	if w.scn.Plan.Meth == "CONNECT" {
		fmt.Fprintf(&b, "CONNECT %s HTTP/1.1\r\nHost: %s\r\n", target, target)
	} else {
		host := target
		if w.scn.Addr.wellFormed() && w.scn.Addr.Port == 80 && w.seed%2 == 0 {
			// the port-less forms of hostHeaderToAddr: example.com, 1.1.1.1, [2606::1]
			c, _ := w.scn.Addr.connAddr()
			host = c.Host()
			if w.scn.Addr.K == "v6" {
				host = "[" + host + "]"
			}
		}
		if !w.scn.Addr.wellFormed() {
			fmt.Fprintf(&b, "GET / HTTP/1.1\r\nHost: \r\n")
		} else {
			fmt.Fprintf(&b, "GET http://%s/index.html HTTP/1.1\r\nHost: %s\r\n", host, host)
		}
	}
	b.WriteString(ua)
	if at.Cred != 0 {
		u, p := w.cred(at.Cred)
		scheme := "Basic"
		if !w.realC { // serverHandleBasicAuth matches the scheme case-insensitively; the repository's client writes "Basic"
			scheme = []string{"Basic", "basic", "BASIC", "bAsIc"}[int(w.seed+int64(j)+int64(w.bi))%4]
		}
		b.WriteString("Proxy-Authorization: " + scheme + " " + base64.StdEncoding.EncodeToString(append(append(u, ':'), p...)) + "\r\n")
	}
	if at.Close {
		b.WriteString("Connection: close\r\n")
	}
	b.WriteString("\r\n")
	return []byte(b.String())
}

func (w *world) httpResponse(m msgJ) []byte {
	switch m.St {
	case 200:
		if w.scn.Plan.Xh == 1 {
			return []byte("HTTP/1.1 200 Connection established\r\nProxy-Agent: foreign/1.0\r\n\r\n")
		}
		return []byte("HTTP/1.1 200 OK\r\n\r\n")
	case 400:
		return []byte("HTTP/1.1 400 Bad Request\r\nConnection: close\r\n\r\n")
	case 407:
		return []byte("HTTP/1.1 407 Proxy Authentication Required\r\nProxy-Authenticate: Basic realm=\"shadowsocks-go\", charset=\"UTF-8\"\r\n\r\n")
	case 502:
		return []byte("HTTP/1.1 502 Bad Gateway\r\nConnection: close\r\n\r\n")
	}
	return []byte("HTTP/1.1 " + strconv.Itoa(m.St) + " Status\r\nConnection: close\r\n\r\n")
}

func (w *world) msgBytes(s sndJ) []byte {
	switch s.Msg.M {
	case "hreq":
		return w.httpRequest(s.Msg.J)
	case "hresp":
		return w.httpResponse(s.Msg)
	}
	return bs(s.B)
}

func statusOf(b []byte) int {
	f := strings.Fields(string(b))
	if len(f) < 2 {
		return -1
	}
	n, err := strconv.Atoi(f[1])
	if err != nil {
		return -1
	}
	return n
}

// ---------------------------------------------------------------- real parties

type innerClient struct{ c netio.Conn }

func (i innerClient) DialStream(_ context.Context, _ conn.Addr, payload []byte) (netio.Conn, error) {
	if len(payload) > 0 {
		if _, err := i.c.Write(payload); err != nil {
			return nil, err
		}
	}
	return i.c, nil
}

func (i innerClient) NewStreamDialer() (netio.StreamDialer, netio.StreamDialerInfo) {
	return i, netio.StreamDialerInfo{Name: "scripted"}
}

func (w *world) newServer() (netio.StreamServer, error) {
	switch w.scn.Proto {
	case "socks5":
		cfg := socks5.StreamServerConfig{EnableUserPassAuth: w.scn.Auth, EnableTCP: w.scn.En[0], EnableUDP: w.scn.En[1]}
		for _, u := range w.users {
			cfg.Users = append(cfg.Users, socks5.UserInfo{Username: string(bs(u.U)), Password: string(bs(u.P))})
		}
		return cfg.NewStreamServer()
	case "http":
		cfg := httpproxy.ServerConfig{EnableBasicAuth: w.scn.Auth}
		for _, u := range w.users {
			cfg.Users = append(cfg.Users, httpproxy.ServerUserCredentials{Username: string(bs(u.U)), Password: string(bs(u.P))})
		}
		return cfg.NewProxyServer()
	}
	return ssnone.StreamServer{}, nil
}

func (w *world) startServer() {
	srv, err := w.newServer()
	if err != nil {
		w.res.Break("behaviour %d: cannot build the %s server: %v", w.bi, w.scn.Proto, err)
		w.stopped = true
		return
	}
	w.sCmd = make(chan srvCmd)
	go func() {
		req, err := srv.HandleStream(w.sEnd, zap.NewNop())
		w.sReq, w.sErr, w.sDone = req, err, true
		if err != nil || req.PendingConn == nil {
			return
		}
		cmd, ok := <-w.sCmd
		if !ok {
			return
		}
		if cmd.proceed {
			w.sConn, w.sDecErr = req.PendingConn.Proceed()
		} else {
			w.sDecErr = req.PendingConn.Abort(conn.DialResult{Code: conn.DialResultCode(cmd.code), Err: errors.New("scripted dial failure")})
		}
		w.sDecided = true
	}()
}

func (w *world) startClient() {
	target, err := w.scn.Addr.connAddr()
	if err != nil {
		w.res.Break("behaviour %d: conformant client with a malformed address", w.bi)
		w.stopped = true
		return
	}
	var raw netio.Conn = w.cEnd
	if w.rnd.Intn(2) == 0 {
		raw = endRF{w.cEnd} // as *net.TCPConn: also an io.ReaderFrom
	}
	ctx := context.Background()
	inner := innerClient{raw}
	server := conn.AddrFromIPAndPort(netip.AddrFrom4([4]byte{127, 0, 0, 1}), 1080)
	u, p := w.cred(w.scn.Cred)
	if w.scn.Proto == "http" {
		u, p = w.cred(w.scn.Plan.Atts[0].Cred)
	}
	hasCred := len(u) > 0 || len(p) > 0
	go func() {
		defer func() { w.cDone = true }()
		switch w.scn.Proto {
		case "socks5":
			var authMsg []byte
			if hasCred {
				authMsg = socks5.UserInfo{Username: string(u), Password: string(p)}.AppendAuthMsg(nil)
			}
			if w.scn.Cmd == socks5.CmdUDPAssociate {
				if hasCred {
					_, w.cErr = socks5.ClientUDPAssociateUsernamePassword(raw, authMsg, target)
				} else {
					_, w.cErr = socks5.ClientUDPAssociate(raw, target)
				}
				if w.cErr == nil {
					w.cConn = raw
				}
				return
			}
			cfg := socks5.StreamClientConfig{Name: "c", InnerClient: inner, Addr: server, AuthMsg: authMsg}
			w.cConn, w.cErr = cfg.NewStreamClient().DialStream(ctx, target, nil)
		case "none":
			cfg := ssnone.StreamClientConfig{Name: "c", InnerClient: inner, Addr: server}
			w.cConn, w.cErr = cfg.NewStreamClient().DialStream(ctx, target, nil)
		default:
			cfg := httpproxy.ClientConfig{Name: "c", InnerClient: inner, Addr: server, Username: string(u), Password: string(p), UseBasicAuth: hasCred}
			cl, err := cfg.NewProxyClient()
			if err != nil {
				w.cErr = err
				return
			}
			w.cConn, w.cErr = cl.DialStream(ctx, target, nil)
		}
	}()
}

// ---------------------------------------------------------------- unit <-> byte offsets

// unitEnd is the byte offset at which unit u (counted from the start of direction d) ends in what has
// actually been written.  SOCKS5 / ss-none units are bytes; HTTP handshake units are lines.
func (w *world) unitEnd(d string, u int) (off int, next int, ok bool) {
	buf, _, _ := w.q[d].snapshot()
	if w.scn.Proto != "http" {
		return u, 0, u <= len(buf)
	}
	hs := w.hsUnits[d]
	lines := min(u, hs)
	for i := 0; i < lines; i++ {
		j := bytes.Index(buf[off:], []byte("\r\n"))
		if j < 0 {
			return 0, 0, false
		}
		off += j + 2
	}
	if u > hs {
		off += u - hs
	}
	if off > len(buf) {
		return 0, 0, false
	}
	if u < hs { // length of the following handshake line, if it has been written
		if j := bytes.Index(buf[off:], []byte("\r\n")); j >= 0 {
			next = j + 2
		}
	}
	return off, next, true
}

// ---------------------------------------------------------------- comparison at quiescence

func (w *world) expected(d string) []byte {
	var b []byte
	for _, m := range w.exp[d] {
		b = append(b, m.bytes...)
	}
	return append(b, pattern(d, w.seed, 1, w.nd[d])...)
}

// checkServerOutput compares what the real server has written with the model, message by message.
func (w *world) checkServerOutput() {
	real, _, _ := w.q["s2c"].snapshot()
	want := w.expected("s2c")
	if bytes.Equal(real, want) {
		return
	}
	off := 0
	for _, m := range w.exp["s2c"] {
		if off+len(m.bytes) > len(real) {
			// the model's server has said more than the real one
			if w.scn.Proto == "http" && off < len(real) {
				if rs, ms := statusOf(real[off:]), statusOf(m.bytes); rs != ms {
					w.judged("reply-mismatch", "server answered status %d, the model expects %d", rs, ms)
					return
				}
			}
			if w.sDone && w.sErr == nil && w.scn.Auth && !w.anyMatchingCred() {
				w.violation("auth-bypass", "authentication is on and no presented credential pair matches a configured user, yet the server accepted the request for %s as user %q",
					w.sReq.Addr, w.sReq.Username)
				return
			}
			w.judged("reply-missing", "server wrote %d bytes %x, the model expects %d bytes %x", len(real), trunc(real), len(want), trunc(want))
			return
		}
		r := real[off : off+len(m.bytes)]
		off += len(m.bytes)
		if bytes.Equal(r, m.bytes) {
			continue
		}
		if w.scn.Proto == "http" {
			if rs, ms := statusOf(r), statusOf(m.bytes); rs != ms {
				switch {
				case ms == 407:
					w.judged("auth-bypass", "the request carries no credentials of a configured user; the server answered %d instead of 407", rs)
				case rs == 407:
					w.judged("auth-valid-refused", "the server answered 407 to a request carrying the credentials of a configured user")
				default:
					w.judged("reply-mismatch", "server answered status %d, the model expects %d", rs, ms)
				}
			} else {
				w.drift("reply-text", "server response %q differs from the model's %q", r, m.bytes)
			}
			return
		}
		n := min(len(r), 2)
		if len(m.bytes) == 2 && r[0] == socks5.UsernamePasswordAuthVersion && m.bytes[0] == r[0] && r[1] != m.bytes[1] && w.inDomain() {
			// RFC 1929 status
			if r[1] == 0 {
				w.violation("auth-bypass", "the presented credentials match no configured user, yet the server answered the authentication with status 0")
			} else {
				w.violation("auth-valid-refused", "the presented credentials are those of a configured user, yet the server answered status %d", r[1])
			}
			return
		}
		if !bytes.Equal(r[:n], m.bytes[:n]) {
			w.judged("reply-mismatch", "server message %x, the model expects %x (VER/METHOD, VER/STATUS or VER/REP differ)", r, m.bytes)
		} else {
			w.drift("reply-bytes", "server message %x differs from the model's %x beyond the reply code", r, m.bytes)
		}
		return
	}
	if len(real) > len(want) {
		if w.scn.Proto == "http" && statusOf(real[len(want):]) == 407 {
			w.judged("auth-valid-refused", "the server answered 407 to a request carrying the credentials of a configured user (or with authentication off)")
			return
		}
		w.judged("reply-extra", "server wrote %d bytes more than the model: %x", len(real)-len(want), trunc(real[len(want):]))
		return
	}
	w.violation("stream-corrupt", "bytes written into the tunnel by the far side differ on the wire: %x vs %x", trunc(real[off:]), trunc(want[off:]))
}

func trunc(b []byte) []byte {
	if len(b) > 48 {
		return b[:48]
	}
	return b
}

func (w *world) checkServerState(o obsJ) {
	model := "none"
	switch o.Spc {
	case "pending", "est", "aborted":
		model = "pending"
	case "failed":
		model = "failed"
	case "done":
		model = "done"
	}
	real := "none"
	switch {
	case !w.sDone:
	case w.sErr == nil && w.sReq.PendingConn != nil:
		real = "pending"
	case errors.Is(w.sErr, netio.ErrHandleStreamDone):
		real = "done"
	default:
		real = "failed"
	}
	if real == "pending" {
		// the property, on what the real server handed to the relay
		if w.scn.Auth && !w.anyMatchingCred() {
			w.violation("auth-bypass", "authentication is on and no presented credential pair matches a configured user, yet the server accepted the request for %s as user %q",
				w.sReq.Addr, w.sReq.Username)
			return
		}
		if w.scn.Addr.wellFormed() && !sameAddr(w.sReq.Addr, w.scn.Addr) {
			w.violation("addr-mismatch", "client asked for %s, server extracted %s", w.scn.Addr.hostPort(), w.sReq.Addr)
			return
		}
		if model == "pending" {
			if want := string(bs(o.Suser)); w.sReq.Username != want {
				w.violation("user-mismatch", "client authenticated as %q, server reports user %q", want, w.sReq.Username)
				return
			}
		}
	}
	if real == "done" && model == "done" && w.scn.Addr.wellFormed() && !sameAddr(w.sReq.Addr, w.scn.Addr) {
		w.violation("addr-mismatch", "client asked (UDP ASSOCIATE) for %s, server extracted %s", w.scn.Addr.hostPort(), w.sReq.Addr)
		return
	}
	if real != model && real != "pending" && model != "pending" && real != "done" && model != "done" {
		// both refuse, in different ways (blocked in a read vs. gave up): not something the property speaks about
		w.drift("refusal", "server is %q (err=%v), the model says %q", real, w.sErr, model)
		return
	}
	if real != model {
		w.judged("outcome-mismatch", "server is %q (err=%v) where the model, and the scenario alone, say %q (expected outcome %q)", real, w.sErr, model, w.init.Exp.St)
		return
	}
	switch o.Spc {
	case "est":
		if !w.sDecided || w.sDecErr != nil || w.sConn == nil {
			w.judged("proceed-failed", "Proceed did not return a connection: decided=%v err=%v", w.sDecided, w.sDecErr)
		}
	case "aborted":
		if !w.sDecided || w.sDecErr != nil {
			w.judged("abort-failed", "Abort did not complete: decided=%v err=%v", w.sDecided, w.sDecErr)
		}
	}
}

func (w *world) checkClientOutput() {
	real, _, _ := w.q["c2s"].snapshot()
	want := w.expected("c2s")
	if bytes.Equal(real, want) {
		return
	}
	if w.scn.Proto != "http" {
		w.violation("client-encoding-mismatch", "client wrote %x, the protocol encoding of its request is %x", trunc(real), trunc(want))
		return
	}
	// HTTP: line by line; the User-Agent line is the client's own business
	rl, wl := strings.SplitAfter(string(real), "\r\n"), strings.SplitAfter(string(want), "\r\n")
	if len(rl) != len(wl) {
		w.drift("request-lines", "client wrote %d lines %q, the model's request has %d", len(rl), real, len(wl))
		return
	}
	for i := range rl {
		if rl[i] != wl[i] && !strings.HasPrefix(wl[i], "User-Agent:") {
			if strings.HasPrefix(wl[i], "CONNECT ") || strings.HasPrefix(wl[i], "Proxy-Authorization:") || i >= w.hsUnits["c2s"] {
				w.violation("client-encoding-mismatch", "client wrote %q where its request calls for %q", rl[i], wl[i])
			} else {
				w.drift("request-text", "client wrote %q, the model %q", rl[i], wl[i])
			}
			return
		}
	}
}

func (w *world) checkClientState(o obsJ) {
	model := "none"
	switch o.Cpc {
	case "est", "udpok":
		model = "ok"
	case "failed":
		model = "fail"
	}
	real := "none"
	switch {
	case !w.cDone:
	case w.cErr == nil:
		real = "ok"
	default:
		real = "fail"
	}
	if real != model {
		w.violation("client-outcome-mismatch", "client is %q (err=%v) where the replies it was sent mean %q (code %d)", real, w.cErr, model, o.Ccode)
		return
	}
	if real == "fail" {
		switch o.Cwhy {
		case "reply":
			var re socks5.ReplyError
			if !errors.As(w.cErr, &re) || int(re) != o.Ccode {
				w.violation("client-misreports-reply", "server replied REP=%d, client reports %v", o.Ccode, w.cErr)
			}
		case "status":
			var se httpproxy.ConnectNonSuccessfulResponseError
			if !errors.As(w.cErr, &se) || se.StatusCode != o.Ccode {
				w.violation("client-misreports-reply", "proxy answered %d, client reports %v", o.Ccode, w.cErr)
			}
		case "authfail":
			if !errors.Is(w.cErr, socks5.ErrIncorrectUsernamePassword) {
				w.violation("client-misreports-reply", "server refused the credentials, client reports %v", w.cErr)
			}
		}
	}
}

func (w *world) compare(o obsJ) {
	synctest.Wait()
	if w.stopped || !o.Quiet {
		return
	}
	if w.realS {
		w.checkServerOutput()
		if !w.stopped {
			w.checkServerState(o)
		}
	}
	if w.realC && !w.stopped {
		w.checkClientOutput()
		if !w.stopped {
			w.checkClientState(o)
		}
	}
}

// ---------------------------------------------------------------- application reads and writes

func (w *world) conns(d string) (writer, reader netio.Conn, realW, realR bool) {
	if d == "c2s" {
		return w.cConn, w.sConn, w.realC, w.realS
	}
	return w.sConn, w.cConn, w.realS, w.realC
}

func (w *world) appWrite(d string, n int) {
	data := pattern(d, w.seed, w.nd[d]+1, n)
	wc, _, realW, _ := w.conns(d)
	w.nd[d] += n
	if !realW {
		_, _ = w.q[d].Write(data)
		return
	}
	if wc == nil {
		w.judged("no-connection", "the model's %s side is established, the real one has no connection", d[:1])
		return
	}
	var err error
	if rf, ok := wc.(io.ReaderFrom); ok && w.rnd.Intn(2) == 0 {
		_, err = rf.ReadFrom(bytes.NewReader(data)) // the relay's io.Copy takes this path when it exists
	} else {
		_, err = wc.Write(data)
	}
	if err != nil {
		w.violation("stream-write-failed", "write of %d bytes into the established connection failed: %v", n, err)
	}
}

type collector struct{ b []byte }

func (c *collector) Write(p []byte) (int, error) { c.b = append(c.b, p...); return len(p), nil }

// appRead reads n bytes (0: everything available, through io.Copy, i.e. WriteTo where implemented) on
// the reading side of d and holds them against the bytes written, in order.
func (w *world) appRead(d string, n, modelGot int) {
	_, rc, _, realR := w.conns(d)
	var gotBytes []byte
	if !realR {
		// scripted reader: look at the wire itself, at the model's position
		buf, _, _ := w.q[d].snapshot()
		var hs int
		for _, m := range w.exp[d] {
			hs += len(m.bytes)
		}
		lo := hs + w.got[d]
		if lo+modelGot > len(buf) {
			w.violation("stream-loss", "%d data bytes expected on the wire at offset %d, only %d bytes were written", modelGot, lo, len(buf))
			return
		}
		gotBytes = buf[lo : lo+modelGot]
	} else {
		if rc == nil {
			w.judged("no-connection", "the model's reader of %s is established, the real one has no connection", d)
			return
		}
		var (
			done bool
			rerr error
		)
		in := w.q[d]
		if n == 0 {
			in.setNonblock(true)
		}
		go func() {
			if n == 0 {
				var c collector
				_, rerr = io.Copy(&c, rc)
				gotBytes = c.b
			} else {
				b := make([]byte, n)
				var k int
				k, rerr = rc.Read(b)
				gotBytes = b[:k]
			}
			done = true
		}()
		synctest.Wait()
		in.setNonblock(false)
		if !done {
			w.violation("stream-loss", "the model hands the application %d byte(s) of %s here, the real connection has nothing to read", modelGot, d)
			return
		}
		if rerr != nil && !errors.Is(rerr, os.ErrDeadlineExceeded) {
			w.violation("stream-read-failed", "read on the established connection failed: %v", rerr)
			return
		}
	}
	want := pattern(d, w.seed, w.got[d]+1, len(gotBytes))
	if !bytes.Equal(gotBytes, want) {
		w.violation("stream-corrupt", "%s application read %x, the next bytes written were %x (after %d bytes)", d, trunc(gotBytes), trunc(want), w.got[d])
		return
	}
	w.got[d] += len(gotBytes)
	if len(gotBytes) != modelGot {
		w.drift("read-size", "application read returned %d bytes, the model %d", len(gotBytes), modelGot)
	}
}

// finish delivers everything, drains both applications and checks that nothing written into an
// established connection is missing.
func (w *world) finish(last obsJ) {
	if w.stopped {
		return
	}
	synctest.Wait()
	for _, d := range []string{"c2s", "s2c"} {
		w.q[d].deliverTo(1 << 30)
	}
	synctest.Wait()
	for _, d := range []string{"c2s", "s2c"} {
		_, rc, _, realR := w.conns(d)
		if !realR || rc == nil || w.got[d] == w.nd[d] {
			continue
		}
		if d == "s2c" && last.Cpc != "est" && !(w.cDone && w.cErr == nil) {
			continue
		}
		var (
			c    collector
			done bool
		)
		w.q[d].setNonblock(true)
		go func() { _, _ = io.Copy(&c, rc); done = true }()
		synctest.Wait()
		w.q[d].setNonblock(false)
		if !done {
			w.violation("stream-loss", "draining %s never returned", d)
			return
		}
		want := pattern(d, w.seed, w.got[d]+1, w.nd[d]-w.got[d])
		if !bytes.Equal(c.b, want) {
			w.violation("stream-corrupt", "after the handshake %d data bytes were written on %s; draining the connection gave %x, expected %x",
				w.nd[d], d, trunc(c.b), trunc(want))
			return
		}
		w.got[d] = w.nd[d]
	}
}

// ---------------------------------------------------------------- one behaviour in one mode

func isEnv(n string) bool {
	switch n {
	case "Deliver", "AppWrite", "AppRead", "Proceed", "Abort", "ClientClose":
		return true
	}
	return false
}

func outInt(raw json.RawMessage) int {
	var n int
	_ = json.Unmarshal(raw, &n)
	return n
}

func runMode(t *testing.T, in *vio.Input, res *vio.Result, bi int, b vio.Behaviour, init initJ, users, creds []credJ, mode string, seed int64) {
	synctest.Test(t, func(t *testing.T) {
		w := &world{t: t, res: res, bi: bi, mode: mode, seed: seed, rnd: rand.New(rand.NewSource(seed*1000003 + int64(bi)*31 + int64(mode[0]))),
			init: init, scn: init.Scn, users: users, creds: creds,
			realC: mode != "A", realS: mode != "B",
			exp: map[string][]expMsg{}, hsUnits: map[string]int{}, nd: map[string]int{}, got: map[string]int{}}
		var c2s, s2c *queue
		w.cEnd, w.sEnd, c2s, s2c = newPair()
		w.q = map[string]*queue{"c2s": c2s, "s2c": s2c}
		defer func() {
			if w.sCmd != nil {
				close(w.sCmd)
			}
			_ = w.cEnd.Close()
			_ = w.sEnd.Close()
			c2s.tearDown()
			s2c.tearDown()
			synctest.Wait()
		}()
		if w.realS {
			w.startServer()
		}
		prev := init.Obs
		for si, st := range b.Steps {
			if w.stopped {
				break
			}
			w.step = si
			var a actJ
			if err := json.Unmarshal(st.A, &a); err != nil {
				res.Break("behaviour %d step %d: %v", bi, si, err)
				return
			}
			w.hist = append(w.hist, st)
			if isEnv(a.N) {
				w.compare(prev)
				if w.stopped {
					break
				}
			}
			// messages the model sends in this step: written by the scripted side, expected of the real one
			for _, s := range a.Snd {
				mb := w.msgBytes(s)
				w.exp[s.D] = append(w.exp[s.D], expMsg{msg: s.Msg, bytes: mb})
				w.hsUnits[s.D] += len(s.B)
				scripted := (s.D == "c2s" && !w.realC) || (s.D == "s2c" && !w.realS)
				if scripted {
					_, _ = w.q[s.D].Write(mb)
				}
			}
			switch a.N {
			case "C_Start":
				if w.realC {
					w.startClient()
				}
			case "Deliver":
				off, next, ok := w.unitEnd(a.D, outInt(a.Out))
				if !ok {
					w.judged("short-write", "the model has %d units written on %s, the real writer has not written that much", outInt(a.Out), a.D)
					break
				}
				if next > 1 && w.rnd.Intn(2) == 0 {
					off += w.rnd.Intn(next) // a segment boundary inside the following header line
				}
				w.q[a.D].deliverTo(off)
			case "Proceed":
				if w.realS {
					if !w.sDone || w.sErr != nil {
						w.judged("outcome-mismatch", "no pending connection to proceed with (err=%v)", w.sErr)
						break
					}
					w.sCmd <- srvCmd{proceed: true}
				}
			case "Abort":
				if w.realS {
					if !w.sDone || w.sErr != nil {
						w.judged("outcome-mismatch", "no pending connection to abort (err=%v)", w.sErr)
						break
					}
					w.sCmd <- srvCmd{code: a.Code}
				}
			case "AppWrite":
				w.appWrite(a.D, a.K)
			case "AppRead":
				w.appRead(a.D, a.K, outInt(a.Out))
			case "ClientClose":
				_ = w.cEnd.CloseWrite()
			}
			var o obsJ
			if err := json.Unmarshal(st.O, &o); err != nil {
				res.Break("behaviour %d step %d: observation: %v", bi, si, err)
				return
			}
			prev = o
			if o.Eof && !w.realC && !w.cClosed {
				// the scripted client gives up as the repository's does: it closes the connection
				w.cClosed = true
				_ = w.cEnd.Close()
			}
			res.Seen(w.scn.Proto + "/" + mode + "/" + a.N + "/" + string(a.Out))
		}
		if !w.stopped {
			w.compare(prev)
		}
		w.finish(prev)
		res.AddSteps(1, len(w.hist))
		res.Count("mode"+mode, 1)
		var trace []json.RawMessage
		for i, h := range w.hist {
			if i < 40 {
				trace = append(trace, h.A)
			}
		}
		res.Sample(map[string]any{"behaviour": bi, "mode": mode, "scenario": w.scn, "steps": len(w.hist), "actions": trace}, 2)
	})
}

func TestHandshake(t *testing.T) {
	in, err := vio.ReadInput()
	if err != nil {
		t.Skip(err)
	}
	res := vio.NewResult()
	defer func() {
		if err := res.Write(); err != nil {
			t.Fatal(err)
		}
	}()
	var users, creds []credJ
	if err := in.Const("Users", &users); err != nil {
		res.Break("%v", err)
		return
	}
	if err := in.Const("Creds", &creds); err != nil {
		res.Break("%v", err)
		return
	}
	var only string
	in.Param("mode", &only)
	for bi, b := range in.Behaviours {
		var init initJ
		if err := json.Unmarshal(b.Init, &init); err != nil {
			res.Break("behaviour %d: init: %v", bi, err)
			continue
		}
		modes := []string{}
		if init.Conf.S {
			modes = append(modes, "A")
		}
		if init.Conf.C {
			modes = append(modes, "B")
		}
		if init.Conf.S && init.Conf.C {
			modes = append(modes, "C")
		}
		for _, m := range modes {
			if only != "" && only != m {
				continue
			}
			runMode(t, in, res, bi, b, init, users, creds, m, in.Seed)
		}
	}
}
