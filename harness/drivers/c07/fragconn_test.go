//go:build verif

package c07

import (
	"io"
	"net"
	"os"
	"sync"
	"time"

	"github.com/database64128/shadowsocks-go/netio"
)

// queue is one direction of the scripted transport.  The writer never blocks (everything written is
// kept), the reader sees only what the script has delivered so far: a Read returns at most the
// delivered-but-unread bytes and blocks (durably, sync.Cond) when there are none.  The script thus
// decides the segmentation every reader observes.
type queue struct {
	mu        sync.Mutex
	cond      *sync.Cond
	buf       []byte // everything written
	delivered int    // bytes released to the reader
	read      int    // bytes consumed by the reader
	wclosed   bool   // writer closed its side: EOF once everything has been delivered and read
	rclosed   bool   // torn down: blocked readers return
	nonblock  bool   // a read deadline in the past: an empty read fails with os.ErrDeadlineExceeded
	reads     int    // number of successful Read calls
}

func newQueue() *queue {
	q := &queue{}
	q.cond = sync.NewCond(&q.mu)
	return q
}

func (q *queue) Read(p []byte) (int, error) {
	q.mu.Lock()
	defer q.mu.Unlock()
	for q.read == q.delivered {
		switch {
		case q.rclosed:
			return 0, io.ErrClosedPipe
		case q.wclosed && q.delivered == len(q.buf):
			return 0, io.EOF
		case q.nonblock:
			return 0, os.ErrDeadlineExceeded
		}
		q.cond.Wait()
	}
	if len(p) == 0 {
		return 0, nil
	}
	n := copy(p, q.buf[q.read:q.delivered])
	q.read += n
	q.reads++
	return n, nil
}

func (q *queue) Write(p []byte) (int, error) {
	q.mu.Lock()
	defer q.mu.Unlock()
	if q.wclosed || q.rclosed {
		return 0, io.ErrClosedPipe
	}
	q.buf = append(q.buf, p...)
	return len(p), nil
}

// deliverTo releases the stream up to byte offset n to the reader.
func (q *queue) deliverTo(n int) {
	q.mu.Lock()
	if n > len(q.buf) {
		n = len(q.buf)
	}
	if n > q.delivered {
		q.delivered = n
	}
	q.mu.Unlock()
	q.cond.Broadcast()
}

func (q *queue) closeWrite() {
	q.mu.Lock()
	q.wclosed = true
	q.mu.Unlock()
	q.cond.Broadcast()
}

func (q *queue) tearDown() {
	q.mu.Lock()
	q.rclosed = true
	q.mu.Unlock()
	q.cond.Broadcast()
}

func (q *queue) setNonblock(v bool) {
	q.mu.Lock()
	q.nonblock = v
	q.mu.Unlock()
	q.cond.Broadcast()
}

func (q *queue) snapshot() (written []byte, delivered, read int) {
	q.mu.Lock()
	defer q.mu.Unlock()
	return append([]byte(nil), q.buf...), q.delivered, q.read
}

// end is one end of the scripted connection.  It implements netio.Conn.
type end struct {
	in, out *queue
}

var _ netio.Conn = (*end)(nil)

func (e *end) Read(p []byte) (int, error)  { return e.in.Read(p) }
func (e *end) Write(p []byte) (int, error) { return e.out.Write(p) }
func (e *end) CloseWrite() error           { e.out.closeWrite(); return nil }
func (e *end) Close() error                { e.out.closeWrite(); e.in.tearDown(); return nil }
func (e *end) LocalAddr() net.Addr {
	return &net.TCPAddr{IP: net.IPv4(127, 0, 0, 1).To4(), Port: 1080}
}
func (e *end) RemoteAddr() net.Addr {
	return &net.TCPAddr{IP: net.IPv4(127, 0, 0, 1).To4(), Port: 50000}
}
func (e *end) SetDeadline(time.Time) error      { return nil }
func (e *end) SetReadDeadline(time.Time) error  { return nil }
func (e *end) SetWriteDeadline(time.Time) error { return nil }

// endRF is an end that also implements io.ReaderFrom, as *net.TCPConn does (the HTTP client wraps such
// connections differently: readBufferedNetioConnReaderFrom).
type endRF struct{ *end }

func (e endRF) ReadFrom(r io.Reader) (int64, error) {
	var total int64
	b := make([]byte, 512)
	for {
		n, err := r.Read(b)
		if n > 0 {
			if _, werr := e.end.Write(b[:n]); werr != nil {
				return total, werr
			}
			total += int64(n)
		}
		if err != nil {
			if err == io.EOF {
				err = nil
			}
			return total, err
		}
	}
}

func newPair() (client, server *end, c2s, s2c *queue) {
	c2s, s2c = newQueue(), newQueue()
	return &end{in: s2c, out: c2s}, &end{in: c2s, out: s2c}, c2s, s2c
}
