//go:build verif

// Package c16 replays behaviours of specs/Http/Forwarder.tla on the real
// httpproxy.ServerHandle(...).Proceed() with a scripted client and a scripted origin on netio
// pipes inside testing/synctest.  Every environment action of the model (ClientSend, ClientClose,
// ClientAbort, Proceed, Abort, OriginSend, OriginClose) is executed, synctest.Wait() lets the two
// forwarding goroutines run until they block, and whenever the model is quiescent too the bytes
// the origin and the client received are parsed back into messages and compared with the model's
// observation and, field by field, with what C16 says the peer must receive.
package c16

import (
	"bytes"
	"encoding/json"
	"fmt"
	"io"
	"math/rand/v2"
	"slices"
	"strings"
	"sync"
	"sync/atomic"
	"testing"
	"testing/synctest"

	"github.com/database64128/shadowsocks-go/conn"
	"github.com/database64128/shadowsocks-go/httpproxy"
	"github.com/database64128/shadowsocks-go/netio"
	"go.uber.org/zap"

	"verif/harness/internal/vio"
)

// ---------------------------------------------------------------- plumbing

// sink collects what one peer receives.
type sink struct {
	mu  sync.Mutex
	b   []byte
	eof bool
	err error
}

func (s *sink) drain(c *netio.PipeConn) {
	buf := make([]byte, 32768)
	for {
		n, err := c.Read(buf)
		s.mu.Lock()
		s.b = append(s.b, buf[:n]...)
		if err != nil {
			s.eof, s.err = true, err
			s.mu.Unlock()
			return
		}
		s.mu.Unlock()
	}
}

func (s *sink) snapshot() ([]byte, bool, error) {
	s.mu.Lock()
	defer s.mu.Unlock()
	return slices.Clone(s.b), s.eof, s.err
}

// writerQ writes queued items in order from its own goroutine; nil = CloseWrite.
type writerQ struct {
	ch   chan []byte
	done chan struct{}
}

func newWriterQ(c *netio.PipeConn) *writerQ {
	q := &writerQ{ch: make(chan []byte, 256), done: make(chan struct{})}
	go func() {
		defer close(q.done)
		failed := false
		for b := range q.ch {
			if b == nil {
				_ = c.CloseWrite()
				continue
			}
			if failed {
				continue
			}
			if _, err := c.Write(b); err != nil {
				failed = true
			}
		}
	}()
	return q
}

// watchConn is the proxy's side of the client connection; it records the proxy's Close/CloseWrite calls.
type watchConn struct {
	*netio.PipeConn
	closed      atomic.Bool
	closedWrite atomic.Bool
}

func (c *watchConn) Close() error {
	c.closed.Store(true)
	return c.PipeConn.Close()
}

func (c *watchConn) CloseWrite() error {
	c.closedWrite.Store(true)
	return c.PipeConn.CloseWrite()
}

// ---------------------------------------------------------------- the world of one behaviour

type action struct {
	N    string          `json:"n"`
	I    int             `json:"i"`
	J    int             `json:"j"`
	For  int             `json:"for"`
	Head bool            `json:"head"`
	How  string          `json:"how"`
	Out  string          `json:"out"`
	Msg  json.RawMessage `json:"msg"`
}

type obsReq struct {
	I   int    `json:"i"`
	Msg absReq `json:"msg"`
}

type obsResp struct {
	K   string  `json:"k"`
	J   int     `json:"j"`
	Q   int     `json:"q"`
	Msg absResp `json:"msg"`
}

type obs struct {
	Auth  bool      `json:"auth"`
	Orx   []obsReq  `json:"orx"`
	Crx   []obsResp `json:"crx"`
	Ceof  bool      `json:"ceof"`
	Oeof  string    `json:"oeof"`
	Phase string    `json:"phase"`
	Q     bool      `json:"q"`
}

type world struct {
	t      *testing.T
	res    *vio.Result
	rnd    *rand.Rand
	bi     int
	si     int
	authOn bool
	hist   []any
	beh    *vio.Behaviour

	cl  *netio.PipeConn
	rw  *watchConn
	pr  *netio.PipeConn
	cs  sink
	os  sink
	cw  *writerQ
	ow  *writerQ
	hnd struct {
		done bool
		pc   netio.PendingConn
		addr conn.Addr
		user string
		err  error
	}
	proceeded bool
	connect   bool
	cAborted  bool // the client closed its read side itself: its EOF says nothing about the proxy
	oAborted  bool // the origin closed its read side itself

	sent    []*wantMsg // client script, index i-1
	osent   []*wantMsg // origin script, index j-1
	credAt  int        // index of the first request with valid credentials (0 = none yet); 1 when auth is off
	deadAt  int        // index of the client message at which the handshake ended without a forwarding connection (0 = none)
	endAt   int        // index of the first client message after which nothing may be forwarded (0 = none)
	softAt  int        // index of the first follow-up that names the first request's origin in another spelling (0 = none):
	// C16 lets the proxy forward it or end the connection; the model (like the code) ends it
	flagged map[string]bool
}

// replay is what --replay re-executes: the behaviour up to the current step, with the model's observations.
func (w *world) replay() any {
	var steps []vio.Step
	if w.beh != nil {
		steps = w.beh.Steps[:min(w.si+1, len(w.beh.Steps))]
	}
	return map[string]any{"auth": w.authOn, "actions": w.hist, "steps": steps}
}

func (w *world) violation(key, text string, exp, got any) {
	if w.flagged[key] {
		return
	}
	w.flagged[key] = true
	w.res.Violation(vio.Finding{Key: key, Text: text, Behaviour: w.bi, Step: w.si, Expected: exp, Observed: got,
		Replay: w.replay()})
}

// issue reports a difference in the fields of a forwarded message.  C16's filtering sentence is about what the
// origin receives; for responses it promises order, interim before final, and bodies: differences in response
// fields are recorded as notes (counted per key), never as violations.
func (w *world) issue(dir, key, text string, exp, got any) {
	if dir == "request" {
		w.violation(key, text, exp, got)
		return
	}
	w.res.Count("note:"+key, 1)
	if w.flagged["note:"+key] {
		return
	}
	w.flagged["note:"+key] = true
	w.res.DriftNote(vio.Finding{Key: key, Text: "(response direction, outside C16) " + text, Behaviour: w.bi, Step: w.si, Expected: exp, Observed: got,
		Replay: w.replay()})
}

func (w *world) drift(text string, exp, got any) {
	if w.flagged["drift"] {
		return
	}
	w.flagged["drift"] = true
	w.res.DriftNote(vio.Finding{Key: "http.forward/model-drift", Text: text, Behaviour: w.bi, Step: w.si, Expected: exp, Observed: got,
		Replay: w.replay()})
}

func newWorld(t *testing.T, res *vio.Result, seed uint64, bi int, authOn bool) *world {
	w := &world{t: t, res: res, rnd: rand.New(rand.NewPCG(seed, uint64(bi)*7919+1)), bi: bi, authOn: authOn, flagged: map[string]bool{}}
	if !authOn {
		w.credAt = 1
	}
	cl, rw := netio.NewPipe()
	w.cl, w.rw = cl, &watchConn{PipeConn: rw}
	go w.cs.drain(cl)
	w.cw = newWriterQ(cl)
	var users map[string]string
	if authOn {
		users = map[string]string{userToken: "user"}
	}
	go func() {
		pc, addr, user, err := httpproxy.ServerHandle(w.rw, zap.NewNop(), users)
		w.hnd.pc, w.hnd.addr, w.hnd.user, w.hnd.err = pc, addr, user, err
		w.hnd.done = true
		if err != nil {
			// what the service does with a failed handshake
			_ = w.rw.PipeConn.Close()
		}
	}()
	return w
}

// teardown closes everything the driver owns and reports goroutines of the proxy that do not end.
func (w *world) teardown() {
	w.cw.ch <- nil
	close(w.cw.ch)
	_ = w.cl.CloseRead()
	if w.ow != nil {
		w.ow.ch <- nil
		close(w.ow.ch)
		_ = w.pr.CloseRead()
	}
	synctest.Wait()
	_ = w.cl.Close()
	if w.pr != nil {
		_ = w.pr.Close()
	}
	synctest.Wait()
	if w.proceeded && !w.connect && !w.rw.closed.Load() {
		w.violation("http.forward/not-terminated", "client and origin closed their connections but the proxy did not close the client connection "+
			"(a forwarding goroutine is still running)", "rw.Close()", "none")
		// the leaked goroutine makes the bubble panic on exit: save the verdict first
		_ = w.res.Write()
	}
	if !w.hnd.done {
		w.res.Break("behaviour %d: ServerHandle did not return after the client connection was closed", w.bi)
		_ = w.res.Write()
	}
	_ = w.rw.PipeConn.Close()
	synctest.Wait()
}

// ---------------------------------------------------------------- environment actions

func (w *world) clientSend(a action) {
	var m absReq
	if err := json.Unmarshal(a.Msg, &m); err != nil {
		w.res.Break("behaviour %d step %d: %v", w.bi, w.si, err)
		return
	}
	b, want := renderReq(w.rnd, m, len(w.sent)+1, w.authOn)
	w.sent = append(w.sent, want)
	i := len(w.sent)
	switch {
	case w.deadAt != 0:
		// the handshake is over; what becomes of later bytes is not C16's business
		want.exempt = true
	case w.credAt == 0 || i == w.credAt:
		// still in ServerHandle's loop (i == credAt only when authentication is off and this is the first message)
		switch {
		case m.M == "BAD", want.refused && m.Cl:
			w.deadAt = i
			want.exempt = m.M == "BAD"
		case want.refused:
		default:
			w.credAt = i
			if m.M == "CONNECT" || m.H == "" {
				w.deadAt = i
				want.exempt = true
			}
		}
	case w.endAt == 0:
		// "a request for a different host": another destination (domain, address or port), judged on the rendered
		// spellings by the harness's own reading (originOf), not by the model's table
		first := w.sent[w.credAt-1]
		switch {
		case m.M == "BAD" || m.M == "CONNECT" || !sameOrigin(want.host, first.host):
			w.endAt = i
		case want.host != first.host && w.softAt == 0:
			w.softAt = i
		}
	}
	w.cw.ch <- b
}

func (w *world) proceed() {
	if !w.hnd.done || w.hnd.err != nil || w.hnd.pc == nil {
		w.drift("model proceeds but ServerHandle has not returned a pending connection", "pending", fmt.Sprint(w.hnd.done, w.hnd.err))
		return
	}
	c, err := w.hnd.pc.Proceed()
	if err != nil {
		if !w.cAborted {
			w.drift("Proceed failed: "+err.Error(), nil, nil)
		}
		return
	}
	w.proceeded = true
	pr, ok := c.(*netio.PipeConn)
	if !ok || pr == w.rw.PipeConn {
		// CONNECT: the raw connection is handed over
		w.connect = true
		return
	}
	w.pr = pr
	go w.os.drain(pr)
	w.ow = newWriterQ(pr)
}

func (w *world) abort() {
	if !w.hnd.done || w.hnd.pc == nil {
		w.drift("model aborts but ServerHandle has not returned a pending connection", nil, nil)
		return
	}
	_ = w.hnd.pc.Abort(conn.DialResult{})
	_ = w.rw.PipeConn.Close()
}

func (w *world) originSend(a action) {
	var m absResp
	if err := json.Unmarshal(a.Msg, &m); err != nil {
		w.res.Break("behaviour %d step %d: %v", w.bi, w.si, err)
		return
	}
	reqHost := hostA
	switch {
	case a.For >= 1 && a.For <= len(w.sent) && w.sent[a.For-1].host != "":
		reqHost = w.sent[a.For-1].host
	case w.credAt >= 1 && w.credAt <= len(w.sent) && w.sent[w.credAt-1].host != "":
		reqHost = w.sent[w.credAt-1].host
	}
	b, want := renderResp(w.rnd, m, len(w.osent)+1, a.Head, reqHost)
	w.osent = append(w.osent, want)
	if w.ow == nil {
		return
	}
	w.ow.ch <- b
	if m.Bd == "eof" {
		w.ow.ch <- nil
	}
}

// ---------------------------------------------------------------- the oracle

func fieldsOf(m *rawMsg, name string) []string { return m.values(name) }

// checkFields compares one forwarded message with what the property says the peer must receive.
// dir is "request" or "response".
func (w *world) checkMessage(dir string, got *rawMsg, want *wantMsg) {
	pfx := "http.forward/"
	dpfx := pfx // keys of field leaks name the direction
	if dir == "response" {
		dpfx = pfx + "response-"
	}
	what := fmt.Sprintf("%s %d", dir, want.idx)
	if dir == "request" {
		parts := strings.SplitN(got.start, " ", 3)
		if len(parts) != 3 || parts[0] != want.method {
			key := pfx + "request-line-changed"
			if w.authOn && w.refusedBodyBefore(want.idx) {
				key = "http.auth/unauthenticated-body-forwarded"
			}
			w.violation(key, fmt.Sprintf("%s: the origin received the request line %q, the client sent method %s target %s", what, got.start, want.method, want.target),
				want.method+" "+want.target, got.start)
			return
		}
		if parts[1] != want.target {
			w.violation(pfx+"request-line-changed", fmt.Sprintf("%s: target %q reached the origin as %q", what, want.target, parts[1]), want.target, parts[1])
		}
		if h := fieldsOf(got, "Host"); len(h) != 1 || h[0] != want.host {
			w.violation(pfx+"request-line-changed", fmt.Sprintf("%s: Host %q reached the origin as %q", what, want.host, h), want.host, h)
		}
	} else if got.status() != want.status {
		w.violation(pfx+"response-status-changed", fmt.Sprintf("%s: status %d reached the client as %q", what, want.status, got.start), want.status, got.start)
		return
	}
	// end-to-end fields: every value, in order per name
	wantBy := map[string][]string{}
	var names []string
	for _, f := range want.keep {
		n := canon(f.name)
		if _, ok := wantBy[n]; !ok {
			names = append(names, n)
		}
		wantBy[n] = append(wantBy[n], f.value)
	}
	for _, n := range names {
		if g := fieldsOf(got, n); !slices.Equal(g, wantBy[n]) {
			w.issue(dir, pfx+"end-to-end-field-changed", fmt.Sprintf("%s: end-to-end field %s sent as %q was received as %q", what, n, wantBy[n], g), wantBy[n], g)
		}
	}
	// nothing that must not travel
	for _, f := range got.fields {
		n := canon(f.name)
		switch {
		case n == "Connection":
			for tok := range strings.SplitSeq(f.value, ",") {
				if t := strings.ToLower(strings.TrimSpace(tok)); t != "close" && t != "" {
					w.issue(dir, dpfx+"hop-by-hop-forwarded", fmt.Sprintf("%s: Connection: %s was forwarded", what, f.value), nil, f.value)
				}
			}
		case slices.Contains(want.nominated, n):
			w.issue(dir, dpfx+"connection-nominated-forwarded", fmt.Sprintf("%s: field %s is nominated by Connection and was forwarded", what, n), nil, f.name+": "+f.value)
		case n == "Upgrade" && dir == "request":
			w.issue(dir, pfx+"upgrade-forwarded", fmt.Sprintf("%s: Upgrade: %s was forwarded", what, f.value), nil, f.value)
		case n == "Proxy-Authorization" || n == "Proxy-Authenticate" || n == "Proxy-Authentication-Info":
			w.issue(dir, dpfx+"proxy-credentials-forwarded", fmt.Sprintf("%s: %s was forwarded", what, n), nil, f.name+": "+f.value)
		case n == "Keep-Alive" || n == "Proxy-Connection" || n == "Te":
			w.issue(dir, dpfx+"hop-by-hop-forwarded", fmt.Sprintf("%s: hop-by-hop field %s was forwarded", what, n), nil, f.name+": "+f.value)
		case n == "Host" || n == "Content-Length" || n == "Transfer-Encoding" || n == "Trailer":
			// framing and target: net/http's business
		case n == "User-Agent" && dir == "request" && !want.uaSent:
			w.issue(dir, pfx+"user-agent-injected", fmt.Sprintf("%s: the client sent no User-Agent, the origin received User-Agent: %s", what, f.value), nil, f.value)
		default:
			if _, ok := wantBy[n]; !ok {
				w.issue(dir, pfx+"field-injected", fmt.Sprintf("%s: field %s: %s was not sent by the peer", what, f.name, f.value), nil, f.name+": "+f.value)
			}
		}
	}
	// body and trailers
	if want.noBody {
		if len(got.body) != 0 {
			w.violation(pfx+"body-changed", fmt.Sprintf("%s: a message without body was forwarded with %d body bytes", what, len(got.body)), 0, len(got.body))
		}
		return
	}
	if !bytes.Equal(got.body, want.body) {
		w.violation(pfx+"body-changed", fmt.Sprintf("%s: body of %d bytes was received as %d bytes (first difference at %d)", what, len(want.body), len(got.body),
			firstDiff(got.body, want.body)), len(want.body), len(got.body))
	}
	tr := map[string][]string{}
	for _, f := range got.trailers {
		tr[canon(f.name)] = append(tr[canon(f.name)], f.value)
	}
	for _, f := range want.trailerOK {
		if g := tr[canon(f.name)]; len(g) != 1 || g[0] != f.value {
			w.issue(dir, pfx+"trailer-changed", fmt.Sprintf("%s: end-to-end trailer %s: %s was received as %q", what, f.name, f.value, g), f.value, g)
		}
	}
	for _, n := range want.trailerNo {
		if g, ok := tr[canon(n)]; ok {
			w.issue(dir, pfx+"connection-nominated-trailer", fmt.Sprintf("%s: trailer field %s is nominated by Connection and was forwarded (%q)", what, n, g), nil, g)
		}
	}
	for n, g := range tr {
		ok := slices.Contains(want.trailerNo, n)
		for _, f := range want.trailerOK {
			ok = ok || canon(f.name) == n
		}
		if !ok {
			w.issue(dir, pfx+"field-injected", fmt.Sprintf("%s: trailer field %s: %q was not sent by the peer", what, n, g), nil, g)
		}
	}
}

func firstDiff(a, b []byte) int {
	for i := range min(len(a), len(b)) {
		if a[i] != b[i] {
			return i
		}
	}
	return min(len(a), len(b))
}

// refusedBodyBefore: the request just before idx was refused (407) and carried a body.
func (w *world) refusedBodyBefore(idx int) bool {
	for i := idx - 1; i >= 1; i-- {
		p := w.sent[i-1]
		if !p.refused {
			return false
		}
		if p.hasBody {
			return true
		}
	}
	return false
}

// markerIndex finds which client message a request received by the origin is (by its unique marker).
func (w *world) markerIndex(raw []byte) int {
	for _, s := range w.sent {
		if s.marker != "" && bytes.Contains(raw, []byte(s.marker)) {
			return s.idx
		}
	}
	return 0
}

// observe compares the real connection with the model's observation o (nil: property-only checks).
func (w *world) observe(o *obs) {
	oraw, oeof, oerr := w.os.snapshot()
	craw, ceof, _ := w.cs.snapshot()

	// ---- origin side
	reqs, orest := parseStream(oraw, false, nil, oeof)
	// C16: nothing of a request without valid credentials, of a request for another host, of a later CONNECT, or
	// of anything after those, reaches the origin
	for _, s := range w.sent {
		if s.exempt {
			continue
		}
		marks := []string{s.marker}
		if s.bodyMark != "" {
			marks = append(marks, s.bodyMark)
		}
		for _, mk := range marks {
			if mk == "" || !bytes.Contains(oraw, []byte(mk)) {
				continue
			}
			switch {
			case w.credAt == 0 || s.idx < w.credAt:
				key := "http.auth/forwarded-without-credentials"
				if mk == s.bodyMark {
					key = "http.auth/unauthenticated-body-forwarded"
				}
				w.violation(key, fmt.Sprintf("bytes of client message %d (%v), which carried no valid credentials, reached the origin", s.idx, s.abs), nil, mk)
			case w.endAt != 0 && s.idx >= w.endAt:
				w.violation("http.forward/wrong-host-sent", fmt.Sprintf("bytes of client message %d (%v) reached the origin of %s although message %d must end the connection",
					s.idx, s.abs, w.sent[w.credAt-1].host, w.endAt), nil, mk)
			}
		}
	}
	var methods []string
	for k, m := range reqs {
		i := w.markerIndex(m.raw)
		methods = append(methods, strings.SplitN(m.start, " ", 2)[0])
		if i == 0 {
			w.violation("http.forward/request-line-changed", fmt.Sprintf("the origin received a request that is none of the client's: %q", m.start), nil, m.start)
			continue
		}
		if w.credAt != 0 && i != w.credAt+k {
			w.violation("http.forward/request-order", fmt.Sprintf("the %d-th request at the origin is client message %d, expected message %d", k+1, i, w.credAt+k), w.credAt+k, i)
			continue
		}
		w.checkMessage("request", m, w.sent[i-1])
	}
	if len(orest) > 0 && o != nil && o.Q {
		if w.authOn && len(reqs) < len(w.sent) && w.refusedBodyBefore(w.credAt) {
			w.violation("http.auth/unauthenticated-body-forwarded", fmt.Sprintf("the origin received %d bytes that are not a complete request: %q", len(orest), clip(orest)), nil, clip(orest))
		} else {
			w.violation("http.forward/request-truncated", fmt.Sprintf("the origin received %d bytes that are not a complete request: %q", len(orest), clip(orest)), nil, clip(orest))
		}
	}

	// ---- client side
	heads := func(k int) bool { return k < len(methods) && methods[k] == "HEAD" }
	resps, crest := parseStream(craw, true, heads, ceof)
	var fwd []*rawMsg
	var own []string
	afterFwdOwn := ""
	for _, m := range resps {
		if m.own != "" {
			own = append(own, m.own)
			if len(fwd) > 0 {
				afterFwdOwn = m.own
			}
			continue
		}
		fwd = append(fwd, m)
	}
	_ = afterFwdOwn
	for p, m := range fwd {
		if p >= len(w.osent) {
			w.violation("http.forward/response-invented", fmt.Sprintf("the client received a response the origin never sent: %q", m.start), nil, m.start)
			break
		}
		want := w.osent[p]
		// identify it by the marker in its body, else by the marker field, else (no body, field gone) by its status
		same := m.status() == want.status
		switch {
		case want.bodyMark != "":
			same = bytes.Contains(m.body, []byte(want.bodyMark))
		case len(m.values("X-Resp-Marker")) > 0:
			same = bytes.Contains(m.raw, []byte(want.marker))
		}
		if !same {
			w.violation("http.forward/response-order", fmt.Sprintf("the %d-th forwarded response at the client is not the %d-th response of the origin: %q", p+1, p+1, m.start), want.marker, m.start)
			break
		}
		w.checkMessage("response", m, want)
	}
	if len(crest) > 0 && o != nil && o.Q {
		w.violation("http.forward/response-truncated", fmt.Sprintf("the client received %d bytes that are not a complete response: %q", len(crest), clip(crest)), nil, clip(crest))
	}

	if o == nil || !o.Q {
		return
	}
	// ---- against the model (quiescent on both sides)
	// A follow-up that names the first request's origin in another spelling (letter case, default port written out,
	// another form of the address): the model, like the code it was written from, ends the connection; C16 allows
	// forwarding it to that same origin just as well.  If the proxy did, model and proxy part ways here: from now on
	// the model's expectations about what is delivered and when the connection ends are notes, and only what C16
	// states without the model (fields, order, credentials, nothing for another origin) is judged.
	diverged := w.softAt != 0 && bytes.Contains(oraw, []byte(w.sent[w.softAt-1].marker))
	if diverged {
		w.drift(fmt.Sprintf("client message %d names the origin of %s as %s: the proxy forwarded it to that origin, the model ends the connection (C16 decides neither)",
			w.softAt, w.sent[w.credAt-1].host, w.sent[w.softAt-1].host), "connection ended", "forwarded")
	}
	modelViolation := func(key, text string, exp, got any) {
		if diverged {
			w.drift(text, exp, got)
			return
		}
		w.violation(key, text, exp, got)
	}
	// requests: the property demands that exactly the model's requests reach the origin
	if len(reqs) < len(o.Orx) {
		lost := o.Orx[len(reqs)]
		key := "http.forward/request-lost"
		if w.authOn && w.refusedBodyBefore(lost.I) {
			key = "http.auth/unauthenticated-body-forwarded"
		}
		modelViolation(key, fmt.Sprintf("client message %d (%v) never reached the origin (origin has %d requests, handshake error: %v)", lost.I, lost.Msg, len(reqs), w.hnd.err),
			len(o.Orx), len(reqs))
	} else if len(reqs) > len(o.Orx) {
		w.drift(fmt.Sprintf("the origin received %d requests, the model forwards %d", len(reqs), len(o.Orx)), len(o.Orx), len(reqs))
	}
	// responses
	var mfwd []obsResp
	var mown []string
	for _, e := range o.Crx {
		if e.K == "fwd" {
			mfwd = append(mfwd, e)
		} else {
			mown = append(mown, e.K)
		}
	}
	if len(fwd) < len(mfwd) {
		miss := mfwd[len(fwd)]
		key := "http.forward/response-lost"
		if len(fwd) > 0 && w.osent[len(fwd)-1].interim {
			key = "http.forward/final-response-lost-after-interim"
		}
		modelViolation(key, fmt.Sprintf("origin response %d (%v, answering client message %d) never reached the client: the client has %d forwarded responses, eof=%v",
			miss.J, miss.Msg, miss.Q, len(fwd), ceof), len(mfwd), len(fwd))
	} else if len(fwd) > len(mfwd) {
		// delivered although the model's connection had ended: only a violation if a close condition preceded
		if w.closeCondition(len(mfwd)) {
			w.violation("http.forward/response-after-close", fmt.Sprintf("the client received %d forwarded responses although the exchange %d ended the connection", len(fwd), len(mfwd)),
				len(mfwd), len(fwd))
		} else {
			w.drift(fmt.Sprintf("the client received %d forwarded responses, the model delivers %d", len(fwd), len(mfwd)), len(mfwd), len(fwd))
		}
	}
	if !slices.Equal(own, mown) {
		w.drift(fmt.Sprintf("responses generated by the proxy itself: %v, model: %v", own, mown), mown, own)
	}
	// end of the connection
	redirectOnly := false // the model ended the exchange only because of a redirect to another host
	if n := len(mfwd); n > 0 && elsewhere[mfwd[n-1].Msg.St] && !w.closeCondition(n) {
		redirectOnly = true
	}
	if w.cAborted {
		// nothing to observe
	} else if o.Ceof && !ceof {
		if redirectOnly {
			// closing after a redirect to another host is the proxy's own choice, not a close indication
			w.drift("the model closes after a redirect to another host, the proxy keeps the connection", true, false)
		} else {
			modelViolation("http.forward/connection-not-ended", fmt.Sprintf("the proxy connection must have ended (model phase %s) but the client sees no EOF", o.Phase), true, false)
		}
	} else if !o.Ceof && ceof {
		w.drift("the proxy ended the client connection, the model keeps it open", false, true)
	}
	if o.Phase == "done" && !w.rw.closed.Load() && redirectOnly {
		w.drift("the model finishes after a redirect to another host, the proxy keeps forwarding", "done", "open")
	} else if o.Phase == "done" && !w.rw.closed.Load() {
		modelViolation("http.forward/not-terminated", "both forwarding goroutines must have ended but the proxy has not closed the client connection", "rw.Close()", "none")
	} else if o.Phase != "done" && w.proceeded && !w.connect && w.rw.closed.Load() {
		w.drift("the proxy closed the client connection, the model has not finished (phase "+o.Phase+")", o.Phase, "closed")
	}
	switch {
	case w.oAborted:
	case o.Oeof == "open" && oeof, o.Oeof != "open" && !oeof && w.pr != nil:
		w.drift(fmt.Sprintf("origin reader: eof=%v err=%v, model: %s", oeof, oerr, o.Oeof), o.Oeof, fmt.Sprint(oeof, oerr))
	case o.Oeof == "eof" && oeof && oerr != io.EOF, o.Oeof == "err" && oeof && oerr == io.EOF:
		w.drift(fmt.Sprintf("origin reader ended with %v, model: %s", oerr, o.Oeof), o.Oeof, fmt.Sprint(oerr))
	}
	switch o.Phase {
	case "pending", "cpending":
		if !w.hnd.done || w.hnd.err != nil {
			w.drift(fmt.Sprintf("model: ServerHandle returned a pending connection; real: done=%v err=%v", w.hnd.done, w.hnd.err), o.Phase, fmt.Sprint(w.hnd.err))
		}
	case "failed":
		if !w.hnd.done || w.hnd.err == nil {
			w.drift(fmt.Sprintf("model: ServerHandle failed; real: done=%v err=%v", w.hnd.done, w.hnd.err), o.Phase, fmt.Sprint(w.hnd.done))
		}
	case "auth":
		if w.hnd.done {
			w.drift(fmt.Sprintf("model: ServerHandle still waiting; real: returned err=%v", w.hnd.err), o.Phase, fmt.Sprint(w.hnd.err))
		}
	}
}

// closeCondition: the n-th delivered response (1-based) completes an exchange that carries a close indication.
func (w *world) closeCondition(n int) bool {
	if n == 0 || n > len(w.osent) {
		return false
	}
	s := w.osent[n-1]
	if s.interim {
		return false
	}
	if s.closeInd {
		return true
	}
	// the request it answers: the k-th final response answers the k-th forwarded request
	k := 0
	for _, x := range w.osent[:n] {
		if !x.interim {
			k++
		}
	}
	if w.credAt != 0 && w.credAt+k-1 <= len(w.sent) && k > 0 {
		return w.sent[w.credAt+k-2].closeInd
	}
	return false
}

func clip(b []byte) string {
	if len(b) > 120 {
		b = b[:120]
	}
	return string(b)
}

// ---------------------------------------------------------------- replay

func runBehaviour(t *testing.T, in *vio.Input, bi int, b vio.Behaviour, res *vio.Result) {
	synctest.Test(t, func(t *testing.T) {
		// authOn is part of every observation; a replay file carries it as a parameter
		authOn := false
		var o0 obs
		if len(b.Init) > 0 && json.Unmarshal(b.Init, &o0) == nil {
			authOn = o0.Auth
		} else if len(b.Steps) > 0 && len(b.Steps[0].O) > 0 && json.Unmarshal(b.Steps[0].O, &o0) == nil {
			authOn = o0.Auth
		} else {
			in.Param("auth", &authOn)
		}
		w := newWorld(t, res, uint64(in.Seed), b.ID*1000003+bi, authOn)
		w.beh = &b
		defer w.teardown()
		synctest.Wait()
		for si, st := range b.Steps {
			w.si = si
			var a action
			if err := json.Unmarshal(st.A, &a); err != nil {
				res.Break("behaviour %d step %d: %v", bi, si, err)
				return
			}
			env := true
			switch a.N {
			case "ClientSend":
				w.hist = append(w.hist, map[string]any{"n": a.N, "i": a.I, "msg": a.Msg})
				w.clientSend(a)
			case "ClientClose":
				w.hist = append(w.hist, map[string]any{"n": a.N})
				w.cw.ch <- nil
			case "ClientAbort":
				w.hist = append(w.hist, map[string]any{"n": a.N})
				w.cAborted = true
				_ = w.cl.CloseRead()
				w.cw.ch <- nil
			case "Proceed":
				w.hist = append(w.hist, map[string]any{"n": a.N})
				w.proceed()
			case "Abort":
				w.hist = append(w.hist, map[string]any{"n": a.N})
				w.abort()
			case "OriginSend":
				w.hist = append(w.hist, map[string]any{"n": a.N, "j": a.J, "for": a.For, "head": a.Head, "msg": a.Msg})
				w.originSend(a)
			case "OriginClose":
				w.hist = append(w.hist, map[string]any{"n": a.N, "how": a.How})
				if w.pr != nil {
					if a.How == "orw" {
						w.oAborted = true
						_ = w.pr.CloseRead()
					}
					w.ow.ch <- nil
				}
			default:
				env = false // a step of the proxy itself: it already ran
			}
			if env {
				synctest.Wait()
			}
			var o obs
			if len(st.O) > 0 {
				if err := json.Unmarshal(st.O, &o); err != nil {
					res.Break("behaviour %d step %d: observation: %v", bi, si, err)
					return
				}
				if o.Q {
					w.observe(&o)
					res.Seen(fmt.Sprintf("%s/%s/%d/%d/%v", a.N, o.Phase, len(o.Orx), len(o.Crx), o.Ceof))
				}
			} else if env {
				w.observe(nil)
			}
			if len(res.Broken) > 0 {
				return
			}
		}
		res.AddSteps(1, len(b.Steps))
		res.Sample(map[string]any{"behaviour": bi, "auth": authOn, "actions": w.hist, "origin_received": clip(w.os.b), "client_received": clip(w.cs.b)}, 3)
	})
}

func TestReplay(t *testing.T) {
	in, err := vio.ReadInput()
	if err != nil {
		t.Skip(err)
	}
	res := vio.NewResult()
	defer func() {
		if err := res.Write(); err != nil {
			t.Fatal(err)
		}
	}()
	for bi, b := range in.Behaviours {
		runBehaviour(t, in, bi, b, res)
		if len(res.Broken) > 0 {
			return
		}
	}
}
