//go:build verif

package c16

import (
	"bytes"
	"fmt"
	"math/rand/v2"
	"net/netip"
	"net/textproto"
	"slices"
	"strconv"
	"strings"
)

// ---------------------------------------------------------------- abstract messages (Forwarder.tla)

// absReq is a request record of the model: [m, h, cl, au, hs, bd].
type absReq struct {
	M  string   `json:"m"`
	H  string   `json:"h"`
	Cl bool     `json:"cl"`
	Au string   `json:"au"`
	Hs []string `json:"hs"`
	Bd string   `json:"bd"`
}

// absResp is a response record of the model: [st, cl, hs, bd].
type absResp struct {
	St string   `json:"st"`
	Cl bool     `json:"cl"`
	Hs []string `json:"hs"`
	Bd string   `json:"bd"`
}

func has(hs []string, c string) bool { return slices.Contains(hs, c) }

type field struct{ name, value string }

// wantMsg is the concrete expectation for one forwarded message: what the property says the other side
// must receive for the rendered bytes.
type wantMsg struct {
	idx       int     // index in the sender's script (1-based)
	marker    string  // unique token in the request target / a response header
	method    string  // requests
	target    string  // requests: origin-form target (path?query)
	host      string  // requests: Host
	status    int     // responses
	keep      []field // end-to-end fields, in order per name
	forbidden []string
	nominated []string // canonical names nominated by Connection
	uaSent    bool
	body      []byte
	bodyMark  string // marker inside the body ("" = none)
	trailerOK []field
	trailerNo []string // trailer fields that must not be forwarded (nominated by Connection)
	noBody    bool     // response to HEAD / 1xx / 204 / 304
	interim   bool
	closeInd  bool // the message carries a close indication
	abs       any
	refused   bool // request without valid credentials while authentication is on
	hasBody   bool
	exempt    bool // sent after the handshake had ended without a forwarding connection
}

const (
	userToken  = "dXNlcjpwYXNz" // user:pass
	hostA      = "origin-a.test:8080"
	hostB      = "origin-b.test"
	hostOther  = "elsewhere.test"
	literal407 = "HTTP/1.1 407 Proxy Authentication Required\r\nProxy-Authenticate: Basic realm=\"shadowsocks-go\", charset=\"UTF-8\"\r\n\r\n"
	literal400 = "HTTP/1.1 400 Bad Request\r\nConnection: close\r\n\r\n"
	literal502 = "HTTP/1.1 502 Bad Gateway\r\nConnection: close\r\n\r\n"
	literal200 = "HTTP/1.1 200 OK\r\n\r\n"
)

var paths = []string{"/", "/index.html", "/a/b%2Fc/d?x=1&y=%20z", "/p?q=a+b&r=", "/%E2%9C%93/caf%C3%A9", "/a//b/./c;param", "/x?u=http://elsewhere.test/"}

var reqE2E = [][]field{
	{{"Accept", "text/html, */*;q=0.8"}},
	{{"Accept-Encoding", "gzip, br"}},
	{{"Authorization", "Bearer origin-token-123"}},
	{{"Cookie", "k=v; k2=v2"}},
	{{"X-Multi", "one"}, {"X-Multi", "two, three"}, {"X-Multi", "four"}},
	{{"Cache-Control", "no-cache"}},
	{{"If-None-Match", "\"abc\", W/\"def\""}},
	{{"Referer", "http://origin-a.test:8080/prev?x=1"}},
	{{"X-Forwarded-For", "192.0.2.7"}},
	{{"Via", "1.1 upstream-proxy"}},
	{{"Accept-Language", "de-CH, en;q=0.7"}},
}

var respE2E = [][]field{
	{{"Content-Type", "text/plain; charset=utf-8"}},
	{{"Set-Cookie", "a=1; Path=/"}, {"Set-Cookie", "b=2; HttpOnly"}},
	{{"Etag", "\"v1\""}},
	{{"Cache-Control", "max-age=60, public"}},
	{{"Www-Authenticate", "Basic realm=\"origin\""}},
	{{"Date", "Sat, 01 Jan 2000 00:00:00 GMT"}},
	{{"Vary", "Accept-Encoding"}},
	{{"Server", "origin/1.0"}},
	{{"X-Multi-R", "r1"}, {"X-Multi-R", "r2"}},
}

var nomPool = []string{"X-Hop-Secret", "X-Session-Hint", "X-Internal-Route", "Pragma", "X-Debug-Conn"}

func canon(s string) string { return textproto.CanonicalMIMEHeaderKey(s) }

// randCase flips the case of letters at random.
func randCase(r *rand.Rand, s string) string {
	b := []byte(s)
	for i, c := range b {
		if r.IntN(2) == 0 {
			continue
		}
		switch {
		case c >= 'a' && c <= 'z':
			b[i] = c - 32
		case c >= 'A' && c <= 'Z':
			b[i] = c + 32
		}
	}
	return string(b)
}

func ows(r *rand.Rand) string { return []string{"", " ", " ", "  ", "\t", " \t "}[r.IntN(6)] }

func token(r *rand.Rand, n int) string {
	const al = "abcdefghijklmnopqrstuvwxyzABCDEFGHIJKLMNOPQRSTUVWXYZ0123456789"
	b := make([]byte, n)
	for i := range b {
		b[i] = al[r.IntN(len(al))]
	}
	return string(b)
}

// randBody returns a body that starts with a unique alphanumeric marker.  Bodies of requests that will be
// refused (407) stay alphanumeric, so that whatever becomes of them downstream is recognisable.
func randBody(r *rand.Rand, mark string, alnum bool) []byte {
	var n int
	switch r.IntN(5) {
	case 0:
		n = 0
	case 1:
		n = 1 + r.IntN(40)
	case 2:
		n = 4000 + r.IntN(300) // around the bufio buffer size
	case 3:
		n = 9000 + r.IntN(3000)
	default:
		n = 100 + r.IntN(900)
	}
	b := []byte(mark)
	if alnum {
		return append(b, token(r, n%64)...)
	}
	for range n {
		b = append(b, byte(r.IntN(256)))
	}
	// make sure message syntax inside bodies is harmless
	if r.IntN(3) == 0 {
		b = append(b, "\r\n\r\nGET http://elsewhere.test/smuggled HTTP/1.1\r\nHost: elsewhere.test\r\n\r\n"...)
	}
	return b
}

func chunked(r *rand.Rand, body []byte) []byte {
	var out []byte
	for len(body) > 0 {
		n := 1 + r.IntN(min(len(body), 5000))
		if r.IntN(2) == 0 {
			out = fmt.Appendf(out, "%x\r\n", n)
		} else {
			out = fmt.Appendf(out, "%X;ext=%d\r\n", n, r.IntN(9))
		}
		out = append(out, body[:n]...)
		out = append(out, "\r\n"...)
		body = body[n:]
	}
	return append(out, "0\r\n"...)
}

type lines struct {
	r  *rand.Rand
	ls []field
}

func (l *lines) add(name, value string) { l.ls = append(l.ls, field{name, value}) }

// render shuffles the fields (keeping the relative order of fields with the same name) and writes them with
// random name casing and optional whitespace.
func (l *lines) render(b *bytes.Buffer) {
	order := l.r.Perm(len(l.ls))
	// stable per name: sort positions of equal names back into their original relative order
	out := make([]field, len(l.ls))
	for i, p := range order {
		out[i] = l.ls[p]
	}
	byName := map[string][]field{}
	for _, f := range l.ls {
		byName[canon(f.name)] = append(byName[canon(f.name)], f)
	}
	for i, f := range out {
		q := byName[canon(f.name)]
		out[i] = q[0]
		byName[canon(f.name)] = q[1:]
	}
	for _, f := range out {
		fmt.Fprintf(b, "%s:%s%s%s\r\n", randCase(l.r, f.name), ows(l.r), f.value, ows(l.r))
	}
}

// connectionLines spreads the tokens over one or two Connection fields, shuffled, random case.
func connectionLines(r *rand.Rand, l *lines, tokens []string) {
	if len(tokens) == 0 {
		return
	}
	r.Shuffle(len(tokens), func(i, j int) { tokens[i], tokens[j] = tokens[j], tokens[i] })
	cut := len(tokens)
	if len(tokens) > 1 && r.IntN(3) == 0 {
		cut = 1 + r.IntN(len(tokens)-1)
	}
	for _, part := range [][]string{tokens[:cut], tokens[cut:]} {
		if len(part) == 0 {
			continue
		}
		var sb strings.Builder
		for i, t := range part {
			if i > 0 {
				sb.WriteString(ows(r) + "," + ows(r))
			}
			sb.WriteString(randCase(r, t))
		}
		l.add("Connection", sb.String())
	}
}

func pick[T any](r *rand.Rand, pool []T, lo, hi int) []T {
	n := lo + r.IntN(hi-lo+1)
	p := r.Perm(len(pool))
	out := make([]T, 0, n)
	for _, i := range p[:min(n, len(pool))] {
		out = append(out, pool[i])
	}
	return out
}

// hostSpelling renders the host spelling ids of Forwarder.tla (HostDef).
var hostSpelling = map[string]string{
	"a": hostA, "aP": "origin-a.test:8081", "aC": "ORIGIN-A.Test:8080", "aCP": "Origin-A.TEST:8081", "aN": "origin-a.test",
	"b": hostB,
	"d": "origin-d.test", "dE": "origin-d.test:80", "dC": "Origin-D.Test", "dP": "origin-d.test:8080",
	"i": "192.0.2.10:8080", "iP": "192.0.2.10:8081", "iO": "192.0.2.11:8080", "iN": "192.0.2.10", "iE": "192.0.2.10:80",
	"v": "[2001:db8::1]:8080", "vP": "[2001:db8::1]:8081", "vC": "[2001:DB8:0:0::1]:8080",
}

func hostOf(h string) string { return hostSpelling[h] }

// splitHost splits a host[:port] spelling; port is "" when the spelling has none.
func splitHost(host string) (name, port string, bracket bool) {
	if strings.HasPrefix(host, "[") {
		if e := strings.IndexByte(host, ']'); e > 0 {
			return host[1:e], strings.TrimPrefix(host[e+1:], ":"), true
		}
	}
	if c := strings.LastIndexByte(host, ':'); c >= 0 {
		return host[:c], host[c+1:], false
	}
	return host, "", false
}

func joinHost(name, port string, bracket bool) string {
	if bracket {
		name = "[" + name + "]"
	}
	if port == "" {
		return name
	}
	return name + ":" + port
}

// originOf is the harness's own reading of which destination a host spelling names: the address (in canonical
// form) or the case-folded domain name, and the port, 80 when none is written.  It does not use the code under test.
func originOf(host string) (string, bool) {
	name, port, _ := splitHost(host)
	if name == "" {
		return "", false
	}
	if port == "" {
		port = "80"
	}
	n, err := strconv.ParseUint(port, 10, 16)
	if err != nil {
		return "", false
	}
	if ip, err := netip.ParseAddr(name); err == nil {
		name = ip.Unmap().String()
	} else {
		name = strings.ToLower(name)
	}
	return fmt.Sprintf("%s|%d", name, n), true
}

// sameOrigin: both spellings name a destination and it is the same one.
func sameOrigin(a, b string) bool {
	oa, ok1 := originOf(a)
	ob, ok2 := originOf(b)
	return ok1 && ok2 && oa == ob
}

// otherPort: the same host on another port.
func otherPort(host string) string {
	name, port, br := splitHost(host)
	if port == "8081" {
		return joinHost(name, "8082", br)
	}
	return joinHost(name, "8081", br)
}

// otherCase: the same host with the case of every letter flipped (an IPv4 address has none).
func otherCase(host string) string {
	b := []byte(host)
	for i, c := range b {
		switch {
		case c >= 'a' && c <= 'z':
			b[i] = c - 32
		case c >= 'A' && c <= 'Z':
			b[i] = c + 32
		}
	}
	return string(b)
}

// toggleDefaultPort: ":80" written out <-> left off (only meaningful for hosts on port 80).
func toggleDefaultPort(host string) string {
	name, port, br := splitHost(host)
	if port == "" {
		return joinHost(name, "80", br)
	}
	return joinHost(name, "", br)
}

// renderReq turns a request record into bytes and the expectation at the origin.
func renderReq(r *rand.Rand, a absReq, idx int, authOn bool) ([]byte, *wantMsg) {
	w := &wantMsg{idx: idx, abs: a, method: a.M, closeInd: a.Cl}
	w.marker = fmt.Sprintf("q%dx%s", idx, token(r, 10))
	var b bytes.Buffer
	if a.M == "BAD" {
		b.WriteString("\x16\x03\x01\x02\x00\x01\x00\x01\xfc\x03\x03" + w.marker + "\r\n\r\n")
		return b.Bytes(), w
	}
	w.refused = authOn && a.Au != "good"
	host := hostOf(a.H)
	w.host = host
	l := &lines{r: r}
	if a.M == "CONNECT" {
		// a CONNECT to host "a" names exactly the authority of the plain requests to "a"
		target := host
		if a.H == "" {
			target = "badtarget-" + w.marker
		} else if !strings.Contains(target, ":") {
			target += ":443"
		}
		fmt.Fprintf(&b, "CONNECT %s HTTP/1.1\r\n", target)
		l.add("Host", target)
		l.add("X-Marker", w.marker)
	} else {
		p := paths[r.IntN(len(paths))]
		sep := "?"
		if strings.Contains(p, "?") {
			sep = "&"
		}
		w.target = p + sep + "m=" + w.marker
		if host != "" && r.IntN(3) != 0 {
			fmt.Fprintf(&b, "%s http://%s%s HTTP/1.1\r\n", a.M, host, w.target)
		} else {
			fmt.Fprintf(&b, "%s %s HTTP/1.1\r\n", a.M, w.target)
		}
		if host != "" {
			l.add("Host", host)
		}
	}
	var conn []string
	if a.Cl {
		conn = append(conn, "close")
	}
	if has(a.Hs, "ua") {
		f := field{"User-Agent", "curl/8.5.0 (" + token(r, 4) + ")"}
		l.add(f.name, f.value)
		w.keep = append(w.keep, f)
		w.uaSent = true
	}
	if has(a.Hs, "e2e") {
		for _, g := range pick(r, reqE2E, 1, 4) {
			for _, f := range g {
				l.add(f.name, f.value)
				w.keep = append(w.keep, f)
			}
		}
		f := field{"X-Trace-Id", token(r, 12)}
		l.add(f.name, f.value)
		w.keep = append(w.keep, f)
	}
	if has(a.Hs, "hop") {
		hop := pick(r, []field{{"Keep-Alive", "timeout=5, max=100"}, {"Proxy-Connection", "keep-alive"}, {"TE", "trailers, deflate;q=0.5"}}, 1, 3)
		for _, f := range hop {
			l.add(f.name, f.value)
			w.forbidden = append(w.forbidden, canon(f.name))
			if r.IntN(2) == 0 && f.name != "Proxy-Connection" {
				conn = append(conn, f.name)
			}
		}
	}
	if has(a.Hs, "nom") {
		for _, n := range pick(r, nomPool, 1, 2) {
			l.add(n, "hop-"+token(r, 8))
			conn = append(conn, n)
			w.forbidden = append(w.forbidden, canon(n))
			w.nominated = append(w.nominated, canon(n))
		}
	}
	if has(a.Hs, "upg") {
		l.add("Upgrade", []string{"websocket", "h2c", "HTTP/3.0"}[r.IntN(3)])
		if r.IntN(2) == 0 {
			conn = append(conn, "upgrade")
		}
		w.forbidden = append(w.forbidden, "Upgrade")
	}
	switch a.Au {
	case "good":
		l.add("Proxy-Authorization", randCase(r, "Basic")+" "+userToken)
	case "bad":
		l.add("Proxy-Authorization", []string{"Basic d3Jvbmc6d3Jvbmc=", "Digest username=\"user\"", "Bas1c " + userToken, "Basic", "Bearer " + userToken}[r.IntN(5)])
	}
	w.forbidden = append(w.forbidden, "Proxy-Authorization", "Proxy-Authenticate", "Proxy-Authentication-Info", "Proxy-Connection", "Keep-Alive", "Te", "Upgrade")
	// body
	var tail []byte
	bodyMark := fmt.Sprintf("B%dx%s", idx, token(r, 12))
	switch a.Bd {
	case "none":
		if a.M == "POST" {
			l.add("Content-Length", "0")
		}
	case "len":
		w.body, w.bodyMark, w.hasBody = randBody(r, bodyMark, w.refused), bodyMark, true
		l.add("Content-Length", strconv.Itoa(len(w.body)))
		tail = w.body
	case "chunked", "trailer", "nomtrailer":
		w.body, w.bodyMark, w.hasBody = randBody(r, bodyMark, w.refused), bodyMark, true
		l.add("Transfer-Encoding", "chunked")
		tail = chunked(r, w.body)
		var names []string
		if a.Bd != "chunked" {
			f := field{"X-Checksum", "sum-" + token(r, 8)}
			w.trailerOK = append(w.trailerOK, f)
			names = append(names, f.name)
			tail = fmt.Appendf(tail, "%s:%s%s\r\n", randCase(r, f.name), ows(r), f.value)
		}
		if a.Bd == "nomtrailer" {
			n := "X-Hop-Trailer"
			names = append(names, n)
			conn = append(conn, n)
			w.trailerNo = append(w.trailerNo, n)
			w.nominated = append(w.nominated, n)
			tail = fmt.Appendf(tail, "%s: trail-%s\r\n", randCase(r, n), token(r, 6))
		}
		if len(names) > 0 {
			r.Shuffle(len(names), func(i, j int) { names[i], names[j] = names[j], names[i] })
			l.add("Trailer", strings.Join(names, ", "))
		}
		tail = append(tail, "\r\n"...)
	}
	if w.hasBody && r.IntN(2) == 0 {
		f := field{"Content-Type", "application/octet-stream"}
		l.add(f.name, f.value)
		w.keep = append(w.keep, f)
	}
	connectionLines(r, l, conn)
	l.render(&b)
	b.WriteString("\r\n")
	b.Write(tail)
	return b.Bytes(), w
}

var statusOf = map[string]int{"100": 100, "103": 103, "200": 200, "404": 404, "204": 204, "304": 304, "301s": 301, "302o": 302, "302p": 302, "302c": 302,
	"302d": 302, "307r": 307}

// elsewhere: redirects whose Location does not spell the request's Host (Forwarder.tla ElsewhereRedirects).
var elsewhere = map[string]bool{"302o": true, "302p": true, "302c": true, "302d": true}
var reasonOf = map[int]string{100: "Continue", 103: "Early Hints", 200: "OK", 404: "Not Found", 204: "No Content", 304: "Not Modified",
	301: "Moved Permanently", 302: "Found", 307: "Temporary Redirect"}

// renderResp turns a response record into the bytes the origin sends and the expectation at the client.
// head: the response answers a HEAD request (no body bytes on the wire).
// reqHost: the Host of the request it answers (redirect Locations are variants of it).
func renderResp(r *rand.Rand, a absResp, idx int, head bool, reqHost string) ([]byte, *wantMsg) {
	w := &wantMsg{idx: idx, abs: a}
	w.marker = fmt.Sprintf("s%dx%s", idx, token(r, 10))
	var b bytes.Buffer
	if a.St == "BAD" {
		b.WriteString("HTP/1.1 two hundred " + w.marker + "\r\n\r\n")
		return b.Bytes(), w
	}
	code := statusOf[a.St]
	w.status = code
	w.interim = code < 200
	w.closeInd = a.Cl || (a.Bd == "eof" && !head) // explicit close indications only (not the proxy's own redirect rule)
	fmt.Fprintf(&b, "HTTP/1.1 %d %s\r\n", code, reasonOf[code])
	l := &lines{r: r}
	mk := field{"X-Resp-Marker", w.marker}
	l.add(mk.name, mk.value)
	w.keep = append(w.keep, mk)
	var conn []string
	if a.Cl {
		conn = append(conn, "close")
	}
	switch a.St {
	case "301s":
		f := field{"Location", "http://" + reqHost + "/moved/" + token(r, 5)}
		l.add(f.name, f.value)
		w.keep = append(w.keep, f)
	case "302o":
		f := field{"Location", "http://" + hostOther + "/moved/" + token(r, 5)}
		l.add(f.name, f.value)
		w.keep = append(w.keep, f)
	case "302p", "302c", "302d":
		loc := map[string]func(string) string{"302p": otherPort, "302c": otherCase, "302d": toggleDefaultPort}[a.St](reqHost)
		f := field{"Location", "http://" + loc + "/moved/" + token(r, 5)}
		l.add(f.name, f.value)
		w.keep = append(w.keep, f)
	case "307r":
		f := field{"Location", "/relative/" + token(r, 5)}
		l.add(f.name, f.value)
		w.keep = append(w.keep, f)
	case "103":
		f := field{"Link", "</style.css>; rel=preload; as=style"}
		l.add(f.name, f.value)
		w.keep = append(w.keep, f)
	}
	if has(a.Hs, "e2e") {
		for _, g := range pick(r, respE2E, 1, 4) {
			for _, f := range g {
				l.add(f.name, f.value)
				w.keep = append(w.keep, f)
			}
		}
	}
	if has(a.Hs, "hop") {
		for _, f := range pick(r, []field{{"Keep-Alive", "timeout=15"}, {"Proxy-Connection", "keep-alive"}}, 1, 2) {
			l.add(f.name, f.value)
			if r.IntN(2) == 0 && f.name == "Keep-Alive" {
				conn = append(conn, "keep-alive")
			}
		}
	}
	if has(a.Hs, "nom") {
		for _, n := range pick(r, nomPool, 1, 2) {
			l.add(n, "hop-"+token(r, 8))
			conn = append(conn, n)
			w.forbidden = append(w.forbidden, canon(n))
			w.nominated = append(w.nominated, canon(n))
		}
	}
	if has(a.Hs, "pauth") {
		for _, f := range pick(r, []field{{"Proxy-Authenticate", "Basic realm=\"upstream\""}, {"Proxy-Authentication-Info", "nextnonce=\"abc\""}}, 1, 2) {
			l.add(f.name, f.value)
		}
	}
	w.forbidden = append(w.forbidden, "Proxy-Authorization", "Proxy-Authenticate", "Proxy-Authentication-Info", "Proxy-Connection", "Keep-Alive", "Te")
	bodyAllowed := code >= 200 && code != 204 && code != 304
	w.noBody = !bodyAllowed || head
	var tail []byte
	bodyMark := fmt.Sprintf("R%dx%s", idx, token(r, 12))
	if bodyAllowed {
		switch a.Bd {
		case "none":
			l.add("Content-Length", "0")
		case "len":
			w.body, w.bodyMark = randBody(r, bodyMark, false), bodyMark
			l.add("Content-Length", strconv.Itoa(len(w.body)))
			tail = w.body
		case "eof":
			w.body, w.bodyMark = randBody(r, bodyMark, false), bodyMark
			tail = w.body
		case "chunked", "trailer", "nomtrailer":
			w.body, w.bodyMark = randBody(r, bodyMark, false), bodyMark
			l.add("Transfer-Encoding", "chunked")
			tail = chunked(r, w.body)
			var names []string
			if a.Bd != "chunked" {
				f := field{"X-Checksum", "sum-" + token(r, 8)}
				w.trailerOK = append(w.trailerOK, f)
				names = append(names, f.name)
				tail = fmt.Appendf(tail, "%s:%s%s\r\n", randCase(r, f.name), ows(r), f.value)
			}
			if a.Bd == "nomtrailer" {
				n := "X-Hop-Trailer"
				names = append(names, n)
				conn = append(conn, n)
				w.trailerNo = append(w.trailerNo, n)
				w.nominated = append(w.nominated, n)
				tail = fmt.Appendf(tail, "%s: trail-%s\r\n", randCase(r, n), token(r, 6))
			}
			if len(names) > 0 {
				r.Shuffle(len(names), func(i, j int) { names[i], names[j] = names[j], names[i] })
				l.add("Trailer", strings.Join(names, ", "))
			}
			tail = append(tail, "\r\n"...)
		}
		if head {
			tail = nil
			w.body, w.bodyMark, w.trailerOK, w.trailerNo = nil, "", nil, nil
		}
	}
	connectionLines(r, l, conn)
	l.render(&b)
	b.WriteString("\r\n")
	b.Write(tail)
	return b.Bytes(), w
}

// ---------------------------------------------------------------- parsing what a peer received

// rawMsg is one HTTP/1.1 message as found on the wire.
type rawMsg struct {
	start    string // request line / status line
	fields   []field
	body     []byte
	trailers []field
	framing  string // "none", "len", "chunked", "eof"
	own      string // response generated by the proxy itself: "407", "400", "502", "200c"
	raw      []byte
}

func (m *rawMsg) values(name string) []string {
	var out []string
	for _, f := range m.fields {
		if canon(f.name) == name {
			out = append(out, f.value)
		}
	}
	return out
}

func (m *rawMsg) status() int {
	p := strings.SplitN(m.start, " ", 3)
	if len(p) < 2 {
		return 0
	}
	n, _ := strconv.Atoi(p[1])
	return n
}

func parseFields(block string) []field {
	var out []field
	for ln := range strings.SplitSeq(block, "\r\n") {
		if ln == "" {
			continue
		}
		n, v, _ := strings.Cut(ln, ":")
		out = append(out, field{strings.TrimSpace(n), strings.Trim(v, " \t")})
	}
	return out
}

// parseChunked decodes a chunked body starting at b; ok=false means incomplete.
func parseChunked(b []byte) (body []byte, trailers []field, n int, ok bool) {
	pos := 0
	for {
		e := bytes.Index(b[pos:], []byte("\r\n"))
		if e < 0 {
			return nil, nil, 0, false
		}
		szs, _, _ := strings.Cut(string(b[pos:pos+e]), ";")
		sz, err := strconv.ParseInt(strings.TrimSpace(szs), 16, 32)
		if err != nil {
			return nil, nil, 0, false
		}
		pos += e + 2
		if sz == 0 {
			// trailer section up to the empty line
			if bytes.HasPrefix(b[pos:], []byte("\r\n")) {
				return body, nil, pos + 2, true
			}
			e := bytes.Index(b[pos:], []byte("\r\n\r\n"))
			if e < 0 {
				return nil, nil, 0, false
			}
			return body, parseFields(string(b[pos : pos+e])), pos + e + 4, true
		}
		if len(b) < pos+int(sz)+2 {
			return nil, nil, 0, false
		}
		body = append(body, b[pos:pos+int(sz)]...)
		pos += int(sz) + 2
	}
}

// parseStream splits the bytes a peer received into complete messages.  For responses, heads reports
// whether the k-th final response not generated by the proxy answers a HEAD request; eof tells whether the
// stream has ended (a body delimited by EOF is complete only then).
func parseStream(b []byte, isResp bool, heads func(k int) bool, eof bool) (msgs []*rawMsg, rest []byte) {
	finals := 0
	for len(b) > 0 {
		if isResp {
			own := ""
			for _, lit := range [][2]string{{literal407, "407"}, {literal400, "400"}, {literal502, "502"}, {literal200, "200c"}} {
				if bytes.HasPrefix(b, []byte(lit[0])) {
					own = lit[1]
					msgs = append(msgs, &rawMsg{start: lit[0][:strings.Index(lit[0], "\r\n")], own: own, framing: "none", raw: b[:len(lit[0])]})
					b = b[len(lit[0]):]
					break
				}
			}
			if own != "" {
				continue
			}
		}
		e := bytes.Index(b, []byte("\r\n\r\n"))
		if e < 0 {
			return msgs, b
		}
		head := string(b[:e])
		start, block, _ := strings.Cut(head, "\r\n")
		m := &rawMsg{start: start, fields: parseFields(block), framing: "none"}
		pos := e + 4
		noBody := false
		if isResp {
			st := m.status()
			if st >= 200 {
				if heads != nil && heads(finals) {
					noBody = true
				}
				finals++
			}
			if st < 200 || st == 204 || st == 304 {
				noBody = true
			}
		}
		te := strings.ToLower(strings.Join(m.values("Transfer-Encoding"), ","))
		cl := m.values("Content-Length")
		switch {
		case noBody:
		case strings.Contains(te, "chunked"):
			body, tr, n, ok := parseChunked(b[pos:])
			if !ok {
				return msgs, b
			}
			m.body, m.trailers, m.framing = body, tr, "chunked"
			pos += n
		case len(cl) > 0:
			n, err := strconv.Atoi(cl[0])
			if err != nil || len(b) < pos+n {
				return msgs, b
			}
			m.body, m.framing = b[pos:pos+n], "len"
			pos += n
		case isResp:
			if !eof {
				return msgs, b
			}
			m.body, m.framing = b[pos:], "eof"
			pos = len(b)
		}
		m.raw = b[:pos]
		msgs = append(msgs, m)
		b = b[pos:]
	}
	return msgs, nil
}
