//go:build verif

package c16

import (
	"fmt"
	"testing"
	"testing/synctest"

	"verif/harness/internal/vio"
)

// TestConsts measures, on the compiled code, the constant Forwarder.tla takes as QueueCap: the capacity of
// reqCh in serverNonConnectPendingConn.Proceed (a literal, not an exported constant).  A client pipelines
// many requests, the origin reads everything and answers nothing: R stays in Peek, F announces and writes
// until reqCh is full, so the number of requests the origin receives is cap(reqCh).  One answer then frees
// exactly one slot.
func TestConsts(t *testing.T) {
	in, err := vio.ReadInput()
	if err != nil {
		t.Skip(err)
	}
	res := vio.NewResult()
	defer func() {
		if err := res.Write(); err != nil {
			t.Fatal(err)
		}
	}()
	const pipelined = 80
	synctest.Test(t, func(t *testing.T) {
		w := newWorld(t, res, uint64(in.Seed), 0, false)
		defer w.teardown()
		plain := []byte(`{"m":"GET","h":"a","cl":false,"au":"none","hs":["ua"],"bd":"none"}`)
		for range pipelined {
			w.clientSend(action{N: "ClientSend", Msg: plain})
		}
		synctest.Wait()
		w.proceed()
		synctest.Wait()
		if w.pr == nil {
			res.Break("probe: Proceed did not return a forwarding connection (%v)", w.hnd.err)
			return
		}
		count := func() int {
			raw, _, _ := w.os.snapshot()
			reqs, _ := parseStream(raw, false, nil, false)
			return len(reqs)
		}
		n := count()
		if n == 0 || n >= pipelined {
			res.Break("probe: the origin received %d of %d pipelined requests without answering; cannot measure the queue capacity", n, pipelined)
			return
		}
		w.originSend(action{N: "OriginSend", Msg: []byte(`{"st":"200","cl":false,"hs":[],"bd":"len"}`)})
		synctest.Wait()
		if m := count(); m != n+1 {
			res.Break("probe: after one answer the origin has %d requests, expected %d", m, n+1)
			return
		}
		res.Count("QueueCap", n)
		res.Sample(fmt.Sprintf("origin received %d of %d pipelined requests before answering", n, pipelined), 1)
	})
}
