//go:build verif

// Package c20: shutdown requested at every phase of the debounced credential save.
//
// TestShutdown replays prefixes of behaviours of specs/Cred/CredStore.tla (one API client, the
// saver goroutine stepped through its verifhook gates) up to the Cancel action, then lets the real
// shutdown run freely and checks C20's statement: every change acknowledged before shutdown began
// is in the store file when Stop has returned.
package c20

import (
	"context"
	"encoding/json"
	"fmt"
	"reflect"
	"testing"
	"testing/synctest"
	"time"

	"github.com/database64128/shadowsocks-go/verifhook"

	"verif/harness/internal/credenv"
	"verif/harness/internal/vio"
)

type opRec struct {
	N string `json:"n"`
	U string `json:"u"`
	K string `json:"k"`
}

type action struct {
	N   string `json:"n"`
	P   string `json:"p"`
	O   opRec  `json:"o"`
	Out string `json:"out"`
}

var users = []string{"A", "B"}
var keyNames = []string{"k1", "k2"}

type gates struct {
	free    bool
	at      map[string]string        // goroutine role -> gate it is parked at
	release map[string]chan struct{} // role -> channel
}

func role(point string) string {
	switch point {
	case "cred.op.afterUnlock", "cred.load.afterUnlock":
		return "api"
	}
	return "saver"
}

func runShutdown(t *testing.T, in *vio.Input, bi int, b vio.Behaviour, res *vio.Result) {
	synctest.Test(t, func(t *testing.T) {
		dir := t.TempDir()
		keyLen := 32
		if (in.Seed+int64(bi))%2 == 1 {
			keyLen = 16
		}
		e, err := credenv.New(dir, keyLen, true, true, credenv.Render(credenv.Content{Kind: "doc", M: map[string]string{}}, keyLen), keyNames, nil)
		if err != nil {
			res.Break("behaviour %d: %v", bi, err)
			return
		}
		g := &gates{at: map[string]string{}, release: map[string]chan struct{}{"api": make(chan struct{}), "saver": make(chan struct{})}}
		// only these saver points are scheduling gates; the file-operation points pass through
		gated := map[string]bool{"cred.saver.wait": true, "cred.saver.cooldown": true, "cred.saver.beforeSave": true, "cred.saver.afterSave": true, "cred.op.afterUnlock": true}
		verifhook.Set(func(point string, args ...any) {
			if g.free || !gated[point] {
				return
			}
			r := role(point)
			g.at[r] = point
			<-g.release[r]
			g.at[r] = ""
		})
		defer verifhook.Set(nil)
		ctx, cancel := context.WithCancel(context.Background())
		_ = e.Mgr.Start(ctx)
		stopped := false
		defer func() {
			if !stopped {
				g.free = true
				cancel()
				for r, p := range g.at {
					if p != "" {
						g.release[r] <- struct{}{}
					}
				}
				_ = e.Mgr.Stop()
			}
		}()
		synctest.Wait()
		step := func(r string) bool {
			if g.at[r] == "" {
				return false
			}
			g.release[r] <- struct{}{}
			synctest.Wait()
			return true
		}
		var hist []any
		var apiOut chan string
		acked := map[string]string{"A": credenv.None, "B": credenv.None}
		var pending opRec
		phase := "idle"
		lost := false // the real saver left the model's behaviour; only the final property check remains
		for si, st := range b.Steps {
			var a action
			if err := json.Unmarshal(st.A, &a); err != nil {
				res.Break("bad action: %v", err)
				return
			}
			hist = append(hist, json.RawMessage(st.A))
			switch a.N {
			case "Begin":
				// nothing observable happens before the lock is taken
			case "Locked":
				if a.O.N == "Load" {
					if got := e.Reload(); (got == "ok") != (a.Out != "error") {
						res.Break("behaviour %d step %d: reload outcome %s vs model %s", bi, si, got, a.Out)
						return
					}
					continue
				}
				apiOut = make(chan string, 1)
				o := a.O
				go func() {
					switch o.N {
					case "Add":
						apiOut <- e.Add(o.U, o.K)
					case "Update":
						apiOut <- e.Update(o.U, o.K)
					case "Delete":
						apiOut <- e.Delete(o.U)
					}
				}()
				synctest.Wait()
				if a.Out == "error" {
					select {
					case got := <-apiOut:
						if got != "error" {
							res.Break("behaviour %d step %d: model refuses %v, API said %s", bi, si, o, got)
							return
						}
					default:
						res.Break("behaviour %d step %d: refused operation did not return", bi, si)
						return
					}
				} else {
					if g.at["api"] != "cred.op.afterUnlock" {
						res.Break("behaviour %d step %d: accepted operation %v is not parked after the unlock (at %q)", bi, si, o, g.at["api"])
						return
					}
					pending = o
				}
			case "Enqueue":
				if !step("api") {
					res.Break("behaviour %d step %d: no API call parked", bi, si)
					return
				}
				select {
				case got := <-apiOut:
					if got != "ok" {
						res.Break("behaviour %d step %d: API said %s", bi, si, got)
						return
					}
				default:
					res.Break("behaviour %d step %d: API call did not return after enqueue", bi, si)
					return
				}
				switch pending.N {
				case "Add", "Update":
					acked[pending.U] = pending.K
				case "Delete":
					acked[pending.U] = credenv.None
				}
			case "SvTake":
				// a finished save leaves the saver parked after the unlock; let it loop back to the first select
				if g.at["saver"] == "cred.saver.afterSave" {
					step("saver")
				}
				if g.at["saver"] != "cred.saver.wait" || !step("saver") || g.at["saver"] != "cred.saver.cooldown" {
					// the saver did not pick up a queued job: not the model's behaviour; go on to shutdown and let the
					// property decide (the acknowledged change must still be in the file when Stop returns)
					res.DriftNote(vio.Finding{Key: "cred.saver/job-not-taken", Behaviour: bi, Step: si, Text: "a queued save job was not picked up by the saver (at " + g.at["saver"] + ")"})
					phase = "job-not-taken"
					lost = true
				} else {
					phase = "cooling"
				}
			case "SvCool":
				if lost {
					continue
				}
				if g.at["saver"] != "cred.saver.cooldown" {
					res.Break("behaviour %d step %d: saver not at cool-down", bi, si)
					return
				}
				g.release["saver"] <- struct{}{}
				time.Sleep(5 * time.Second)
				synctest.Wait()
				if g.at["saver"] != "cred.saver.beforeSave" {
					res.Break("behaviour %d step %d: saver did not reach the save after the cool-down (at %q)", bi, si, g.at["saver"])
					return
				}
				phase = "presave"
			case "SvBeginSave":
				if lost {
					continue
				}
				if g.at["saver"] != "cred.saver.beforeSave" || !step("saver") || g.at["saver"] != "cred.saver.afterSave" {
					res.Break("behaviour %d step %d: saver did not run the save (at %q)", bi, si, g.at["saver"])
					return
				}
				phase = "idle"
			case "SvFileOp":
				// the save ran as one step at SvBeginSave (its file operations are C20's fault enumeration)
			case "Cancel":
				// shutdown begins: from here the real code runs freely
				cancel()
				synctest.Wait()
				g.free = true
				for _, r := range []string{"saver", "api"} {
					if g.at[r] != "" {
						g.release[r] <- struct{}{}
					}
				}
				_ = e.Mgr.Stop()
				stopped = true
				list, err := e.List(users)
				if err != nil {
					res.Break("list: %v", err)
					return
				}
				file := e.File(users)
				if !reflect.DeepEqual(list, acked) {
					res.Break("behaviour %d: harness bookkeeping differs from the API list: %v vs %v", bi, acked, list)
					return
				}
				if file.Kind != "doc" || !reflect.DeepEqual(file.M, acked) {
					res.Violation(vio.Finding{Key: "cred.shutdown/acknowledged-change-not-saved", Behaviour: bi, Step: si,
						Text:     fmt.Sprintf("shutdown requested while the saver was %s: the store file does not hold the changes acknowledged before shutdown began", phase),
						Expected: acked, Observed: file, Replay: hist})
				}
				res.Seen(fmt.Sprintf("%s/%d/%v", phase, len(hist), acked))
				res.AddSteps(1, si+1)
				res.Sample(map[string]any{"behaviour": bi, "phase_at_cancel": phase, "actions": hist}, 3)
				return
			default:
				res.Break("unexpected action %s", a.N)
				return
			}
		}
		res.AddSteps(1, len(b.Steps))
	})
}

func TestShutdown(t *testing.T) {
	in, err := vio.ReadInput()
	if err != nil {
		t.Skip(err)
	}
	res := vio.NewResult()
	defer func() {
		if err := res.Write(); err != nil {
			t.Fatal(err)
		}
	}()
	for bi, b := range in.Behaviours {
		runShutdown(t, in, bi, b, res)
	}
}
