//go:build verif

// Package c14 binds specs/Stats/Collector.tla to the real stats collector and the real
// api/ssm handlers:
//
//   - TestReplay steps TLC's sequential histories (Collect* calls, GET stats, GET stats?clear,
//     GET users/{u}, refused requests) through a real serverCollector served by the real ssm
//     handlers mounted in-process, and compares every JSON answer with the figures the model expects;
//   - TestRecord runs seeded plans of concurrent real Collect*/Snapshot/SnapshotAndReset calls
//     (directly and through the API) under the Go scheduler and records call start/end events with
//     arguments and results for TLC trace validation (specs/Stats/TraceCollector.tla), and checks
//     the quiescent conservation sums of every trace;
//   - TestLongRun hammers one collector from many goroutines (users first seen mid-run, by several
//     goroutines at once) while others reset and snapshot, and checks the conservation sums.
package c14

import (
	"bytes"
	"crypto/sha256"
	"encoding/json"
	"fmt"
	"math/rand/v2"
	"net/http"
	"net/http/httptest"
	"os"
	"path/filepath"
	"runtime"
	"slices"
	"sort"
	"strconv"
	"strings"
	"sync"
	"sync/atomic"
	"testing"

	"github.com/database64128/shadowsocks-go/api/ssm"
	"github.com/database64128/shadowsocks-go/cred"
	"github.com/database64128/shadowsocks-go/stats"
	"go.uber.org/zap"

	"verif/harness/internal/vio"
)

const (
	serverName = "s"
	otherName  = "other"
	apiPrefix  = "/api/ssm/v1"
	none       = "-"

	keyUserTotals = "stats.api/user-endpoint-returns-server-totals"
)

// ---------------------------------------------------------------- the real API, mounted in-process

var (
	regMu  sync.Mutex
	regMux *http.ServeMux
)

// register is handed to (*ssm.ServerManager).RegisterHandlers; the type parameter lets the compiler
// infer the handler type of the internal package api/internal/restapi.  It mounts the handlers the
// way api.(*Config).NewServer does (method + " " + /api/ssm/v1 + path).
func register[F ~func(http.ResponseWriter, *http.Request) (int, error)](method, path string, h F) {
	regMux.HandleFunc(method+" "+apiPrefix+path, func(w http.ResponseWriter, r *http.Request) {
		_, _ = h(w, r)
	})
}

type env struct {
	sc    stats.Collector // the server under observation
	other stats.Collector // a second server of the same API; its traffic must never show up under "s"
	mux   *http.ServeMux
}

var credFiles sync.Map // key: joined creds -> path

func credFile(dir string, creds []string) (string, error) {
	k := strings.Join(creds, "\x00")
	if p, ok := credFiles.Load(k); ok {
		return p.(string), nil
	}
	m := map[string][]byte{}
	for _, u := range creds {
		h := sha256.Sum256([]byte("c14/upsk/" + u))
		m[u] = h[:16]
	}
	b, err := json.Marshal(m)
	if err != nil {
		return "", err
	}
	h := sha256.Sum256([]byte(k))
	p := filepath.Join(dir, fmt.Sprintf("c14-creds-%x.json", h[:6]))
	if err := os.WriteFile(p, b, 0o644); err != nil {
		return "", err
	}
	credFiles.Store(k, p)
	return p, nil
}

func newEnv(dir string, creds []string) (*env, error) {
	p, err := credFile(dir, creds)
	if err != nil {
		return nil, err
	}
	mgr := cred.NewManager(zap.NewNop())
	ms, err := mgr.RegisterServer(serverName, p, 16, nil, nil)
	if err != nil {
		return nil, err
	}
	mo, err := mgr.RegisterServer(otherName, p, 16, nil, nil)
	if err != nil {
		return nil, err
	}
	e := &env{
		sc:    stats.Config{Enabled: true}.Collector(),
		other: stats.Config{Enabled: true}.Collector(),
		mux:   http.NewServeMux(),
	}
	sm := ssm.NewServerManager(map[string]ssm.Server{
		serverName: {CredentialManager: ms, StatsCollector: e.sc},
		otherName:  {CredentialManager: mo, StatsCollector: e.other},
	}, []string{serverName, otherName})
	regMu.Lock()
	regMux = e.mux
	sm.RegisterHandlers(register)
	regMux = nil
	regMu.Unlock()
	return e, nil
}

func (e *env) get(path string) (int, []byte) {
	req := httptest.NewRequest(http.MethodGet, apiPrefix+path, nil)
	rec := httptest.NewRecorder()
	e.mux.ServeHTTP(rec, req)
	return rec.Code, rec.Body.Bytes()
}

// ---------------------------------------------------------------- answers

type figures map[string]uint64

type snapshot struct {
	Tot   figures            `json:"tot"`
	Users map[string]figures `json:"users"`
}

type names struct {
	Fields     []string `json:"fields"`
	UserName   string   `json:"userName"`
	UsersField string   `json:"usersField"`
}

func (n *names) defaults() {
	if len(n.Fields) == 0 {
		n.Fields = []string{"downlinkPackets", "downlinkBytes", "uplinkPackets", "uplinkBytes", "tcpSessions", "udpSessions"}
	}
	if n.UserName == "" {
		n.UserName = "username"
	}
	if n.UsersField == "" {
		n.UsersField = "users"
	}
}

func (n *names) figuresOf(m map[string]json.RawMessage) (figures, error) {
	f := figures{}
	for _, k := range n.Fields {
		raw, ok := m[k]
		if !ok {
			return nil, fmt.Errorf("figure %q missing", k)
		}
		v, err := strconv.ParseUint(string(bytes.TrimSpace(raw)), 10, 64)
		if err != nil {
			return nil, fmt.Errorf("figure %q: %v", k, err)
		}
		f[k] = v
	}
	return f, nil
}

// parseStats decodes the body of GET /servers/{s}/stats.
func (n *names) parseStats(body []byte) (*snapshot, error) {
	var m map[string]json.RawMessage
	if err := json.Unmarshal(body, &m); err != nil {
		return nil, err
	}
	tot, err := n.figuresOf(m)
	if err != nil {
		return nil, err
	}
	s := &snapshot{Tot: tot, Users: map[string]figures{}}
	if raw, ok := m[n.UsersField]; ok && string(bytes.TrimSpace(raw)) != "null" {
		var us []map[string]json.RawMessage
		if err := json.Unmarshal(raw, &us); err != nil {
			return nil, err
		}
		for _, um := range us {
			var name string
			if err := json.Unmarshal(um[n.UserName], &name); err != nil {
				return nil, fmt.Errorf("user entry without name: %v", err)
			}
			if _, dup := s.Users[name]; dup {
				return nil, fmt.Errorf("user %q listed twice", name)
			}
			f, err := n.figuresOf(um)
			if err != nil {
				return nil, err
			}
			s.Users[name] = f
		}
	}
	return s, nil
}

// parseUser decodes the body of GET /servers/{s}/users/{u}.
func (n *names) parseUser(body []byte) (string, figures, error) {
	var m map[string]json.RawMessage
	if err := json.Unmarshal(body, &m); err != nil {
		return "", nil, err
	}
	var name string
	if err := json.Unmarshal(m[n.UserName], &name); err != nil {
		return "", nil, err
	}
	f, err := n.figuresOf(m)
	return name, f, err
}

func fromServer(n *names, s stats.Server) *snapshot {
	b, _ := json.Marshal(s)
	r, err := n.parseStats(b)
	if err != nil {
		panic(err)
	}
	return r
}

func isCount(field string) bool { return strings.HasSuffix(field, "Sessions") }

// ---------------------------------------------------------------- collect

func collect(sc stats.Collector, kind, user string, x, y uint64) error {
	switch kind {
	case "tcp":
		sc.CollectTCPSession(user, x, y)
	case "udpdown":
		sc.CollectUDPSessionDownlink(user, x, y)
	case "udpup":
		sc.CollectUDPSessionUplink(user, x, y)
	default:
		return fmt.Errorf("unknown collect kind %q", kind)
	}
	return nil
}

// contribution is what the property says a session of this kind adds (SessionProg of the spec).
func contribution(kind string, x, y uint64) figures {
	switch kind {
	case "tcp":
		return figures{"downlinkBytes": x, "uplinkBytes": y, "tcpSessions": 1}
	case "udpdown":
		return figures{"downlinkPackets": x, "downlinkBytes": y, "udpSessions": 1}
	case "udpup":
		return figures{"uplinkPackets": x, "uplinkBytes": y}
	}
	return nil
}

// ---------------------------------------------------------------- TestReplay

type action struct {
	N    string          `json:"n"`
	P    string          `json:"p"`
	K    string          `json:"k"`
	U    string          `json:"u"`
	X    uint64          `json:"x"`
	Y    uint64          `json:"y"`
	Op   string          `json:"op"`
	What string          `json:"what"`
	Out  json.RawMessage `json:"out"`
}

type snapOut struct {
	Tot    figures            `json:"tot"`
	Users  map[string]figures `json:"users"`
	Listed []string           `json:"listed"`
}

type userOut struct {
	User figures `json:"user"`
	Tot  figures `json:"tot"`
}

type obs struct {
	Cnt  map[string]figures `json:"cnt"`
	Made map[string]bool    `json:"made"`
}

type replayer struct {
	n     names
	scale uint64
	dir   string
	creds []string
	res   *vio.Result
}

func (r *replayer) scaled(field string, v uint64) uint64 {
	if isCount(field) {
		return v
	}
	return v * r.scale
}

// diff compares real figures with the model's (scaled); figures the model does not carry must be zero.
func (r *replayer) diff(real figures, model figures) string {
	var d []string
	for _, f := range r.n.Fields {
		want := r.scaled(f, model[f])
		if real[f] != want {
			d = append(d, fmt.Sprintf("%s=%d want %d", f, real[f], want))
		}
	}
	return strings.Join(d, ", ")
}

type pending struct {
	status int
	body   []byte
}

func (r *replayer) run(bi int, b vio.Behaviour) {
	e, err := newEnv(r.dir, r.creds)
	if err != nil {
		r.res.Break("behaviour %d: cannot build the API: %v", bi, err)
		return
	}
	// decoy traffic on the other server of the same API
	e.other.CollectTCPSession("u1", 1000003, 2000003)
	e.other.CollectUDPSessionDownlink("", 77, 7777)
	decoy := fromServer(&r.n, e.other.Snapshot())

	var hist []any
	pend := map[string]*pending{}
	inflight := map[string]bool{} // Collect* calls the model has not finished yet (the real call is already complete)
	viol := func(si int, key, text string, exp, got any) {
		r.res.Violation(vio.Finding{Key: key, Text: text, Behaviour: bi, Step: si, Expected: exp, Observed: got,
			Replay: map[string]any{"actions": hist, "scale": r.scale, "creds": r.creds}})
	}
	var lastObs *obs
	for si, st := range b.Steps {
		var a action
		if err := json.Unmarshal(st.A, &a); err != nil {
			r.res.Break("behaviour %d step %d: %v", bi, si, err)
			return
		}
		hist = append(hist, json.RawMessage(st.A))
		if len(st.O) > 0 {
			var o obs
			if json.Unmarshal(st.O, &o) == nil {
				lastObs = &o
			}
		}
		switch a.N {
		case "CallCollect":
			if err := collect(e.sc, a.K, a.U, a.X*r.scale, a.Y*r.scale); err != nil {
				r.res.Break("behaviour %d step %d: %v", bi, si, err)
				return
			}
			inflight[a.P] = true
			r.res.Seen("collect/" + a.K + "/" + strconv.FormatBool(a.U == ""))
		case "CallSnap":
			var path string
			switch a.Op {
			case "snap":
				path = "/servers/" + serverName + "/stats"
			case "reset":
				// both spellings handleGetStats accepts
				if (bi+si)%2 == 0 {
					path = "/servers/" + serverName + "/stats?clear"
				} else {
					path = "/servers/" + serverName + "/stats?clear=true"
				}
			case "user":
				path = "/servers/" + serverName + "/users/" + a.U
			default:
				r.res.Break("behaviour %d step %d: unknown snapshot op %q", bi, si, a.Op)
				return
			}
			code, body := e.get(path)
			pend[a.P] = &pending{code, body}
		case "UcLookup", "UcCreate", "AddField", "SnapAnon", "SnapRLock", "SnapUserField", "SnapRUnlock":
			// internal steps of a call that has already been executed atomically (sequential history)
		case "ApiNotFound":
			var path string
			if a.What == "server" {
				path = "/servers/nosuchserver/stats"
				if si%2 == 1 {
					path = "/servers/nosuchserver/users/u1"
				}
			} else {
				path = "/servers/" + serverName + "/users/" + a.U
			}
			code, body := e.get(path)
			if code != http.StatusNotFound {
				viol(si, "stats.api/unexpected-status", fmt.Sprintf("GET %s answered %d, expected 404", path, code), 404, code)
			}
			_ = body
			r.res.Seen("404/" + a.What)
		case "Return":
			if a.Op == "collect" {
				delete(inflight, a.P)
				continue
			}
			p := pend[a.P]
			delete(pend, a.P)
			if p == nil {
				r.res.Break("behaviour %d step %d: Return without a pending request", bi, si)
				return
			}
			if p.status != http.StatusOK {
				viol(si, "stats.api/unexpected-status", fmt.Sprintf("%s request answered %d: %s", a.Op, p.status, p.body), 200, p.status)
				continue
			}
			if a.Op == "user" {
				var want userOut
				if err := json.Unmarshal(a.Out, &want); err != nil {
					r.res.Break("behaviour %d step %d: %v", bi, si, err)
					return
				}
				name, got, err := r.n.parseUser(p.body)
				if err != nil {
					viol(si, "stats.api/malformed-answer", fmt.Sprintf("GET users/%s: %v: %s", a.U, err, p.body), nil, string(p.body))
					continue
				}
				if name != a.U {
					viol(si, "stats.api/wrong-user-named", fmt.Sprintf("GET users/%s answered for %q", a.U, name), a.U, name)
				}
				if d := r.diff(got, want.User); d != "" {
					key, what := "stats.api/user-figures-wrong", "neither the user's figures nor the server totals"
					if r.diff(got, want.Tot) == "" {
						key, what = keyUserTotals, "the server totals"
					}
					viol(si, key, fmt.Sprintf("GET /servers/%s/users/%s shows %s instead of the traffic recorded for %s: %s",
						serverName, a.U, what, a.U, d), want.User, got)
				}
				nontrivial := false
				for _, f := range r.n.Fields {
					if want.User[f] != want.Tot[f] {
						nontrivial = true
					}
				}
				r.res.Seen("user/" + strconv.FormatBool(nontrivial))
				continue
			}
			var want snapOut
			if err := json.Unmarshal(a.Out, &want); err != nil {
				r.res.Break("behaviour %d step %d: %v", bi, si, err)
				return
			}
			got, err := r.n.parseStats(p.body)
			if err != nil {
				viol(si, "stats.api/malformed-answer", fmt.Sprintf("GET stats: %v: %s", err, p.body), nil, string(p.body))
				continue
			}
			r.checkSnapshot(si, a.Op, got, &want, viol)
			r.res.Seen(fmt.Sprintf("%s/%d", a.Op, len(want.Listed)))
		default:
			r.res.Break("behaviour %d step %d: unknown action %q", bi, si, a.N)
			return
		}
	}
	// the state the model ends in, read back through a plain GET stats (a history cut in the middle of a call has
	// no such state)
	if lastObs != nil && len(pend) == 0 && len(inflight) == 0 {
		want := snapOut{Tot: figures{}, Users: map[string]figures{}}
		for b, fs := range lastObs.Cnt {
			for f, v := range fs {
				want.Tot[f] += v
			}
			if b != "" && lastObs.Made[b] {
				want.Users[b] = fs
				want.Listed = append(want.Listed, b)
			}
		}
		code, body := e.get("/servers/" + serverName + "/stats")
		if code != http.StatusOK {
			viol(len(b.Steps), "stats.api/unexpected-status", fmt.Sprintf("final GET stats answered %d", code), 200, code)
		} else if got, err := r.n.parseStats(body); err != nil {
			viol(len(b.Steps), "stats.api/malformed-answer", fmt.Sprintf("final GET stats: %v", err), nil, string(body))
		} else {
			r.checkSnapshot(len(b.Steps), "final", got, &want, viol)
		}
	}
	// the other server of the same API is untouched
	if now := fromServer(&r.n, e.other.Snapshot()); !sameSnapshot(now, decoy) {
		viol(len(b.Steps), "stats.api/other-server-changed", "traffic recorded for server s changed the figures of another server", decoy, now)
	}
	code, body := e.get("/servers/" + otherName + "/stats")
	if code != http.StatusOK {
		viol(len(b.Steps), "stats.api/unexpected-status", fmt.Sprintf("GET stats of the other server answered %d", code), 200, code)
	} else if got, err := r.n.parseStats(body); err != nil || !sameSnapshot(got, decoy) {
		viol(len(b.Steps), "stats.api/wrong-server", "GET /servers/other/stats does not show the other server's figures", decoy, got)
	}
	r.res.AddSteps(1, len(b.Steps))
	r.res.Sample(map[string]any{"behaviour": bi, "scale": r.scale, "actions": hist}, 2)
}

func sameSnapshot(a, b *snapshot) bool {
	x, _ := json.Marshal(a)
	y, _ := json.Marshal(b)
	return bytes.Equal(x, y)
}

// checkSnapshot: the property on one GET stats answer.  A user that is not listed and a user listed with zeros
// are the same to the property; a difference in the listing alone is model drift.
func (r *replayer) checkSnapshot(si int, op string, got *snapshot, want *snapOut, viol func(int, string, string, any, any)) {
	if d := r.diff(got.Tot, want.Tot); d != "" {
		viol(si, "stats.api/server-totals-wrong", fmt.Sprintf("GET stats (%s): server totals differ from the sessions recorded: %s", op, d), want.Tot, got.Tot)
	}
	listed := map[string]bool{}
	for _, u := range want.Listed {
		listed[u] = true
	}
	for u, f := range got.Users {
		var m figures
		if listed[u] {
			m = want.Users[u]
		}
		if d := r.diff(f, m); d != "" {
			viol(si, "stats.api/user-entry-wrong", fmt.Sprintf("GET stats (%s): entry of user %q differs from the sessions recorded for it: %s", op, u, d), m, f)
		}
		if !listed[u] {
			r.res.DriftNote(vio.Finding{Key: "stats.api/listing-drift", Step: si, Text: fmt.Sprintf("user %q listed (with zeros) although the model has no collector for it", u)})
		}
	}
	for u := range listed {
		if _, ok := got.Users[u]; !ok {
			if d := r.diff(figures{}, want.Users[u]); d != "" {
				viol(si, "stats.api/user-entry-missing", fmt.Sprintf("GET stats (%s): user %q with recorded traffic is not listed: %s", op, u, d), want.Users[u], nil)
			} else {
				r.res.DriftNote(vio.Finding{Key: "stats.api/listing-drift", Step: si, Text: fmt.Sprintf("user %q not listed although the model has a collector (all zero) for it", u)})
			}
		}
	}
	// totals = anonymous + users can only be observed as "not less than the users"
	for _, f := range r.n.Fields {
		var sum uint64
		for _, uf := range got.Users {
			sum += uf[f]
		}
		if got.Tot[f] < sum {
			viol(si, "stats.snapshot/total-less-than-users", fmt.Sprintf("%s: total %d is less than the sum of the users' figures %d", f, got.Tot[f], sum), nil, got)
		}
	}
}

func TestReplay(t *testing.T) {
	in, err := vio.ReadInput()
	if err != nil {
		t.Skip(err)
	}
	res := vio.NewResult()
	res.Samples = []any{}
	defer func() {
		if err := res.Write(); err != nil {
			t.Fatal(err)
		}
	}()
	r := &replayer{res: res, dir: t.TempDir(), scale: 1}
	in.Param("names", &r.n)
	r.n.defaults()
	in.Param("creds", &r.creds)
	var scales []uint64
	in.Param("scales", &scales)
	if len(scales) == 0 {
		scales = []uint64{1}
	}
	for bi, b := range in.Behaviours {
		r.scale = scales[(int(in.Seed)+bi)%len(scales)]
		r.run(bi, b)
	}
}

// ---------------------------------------------------------------- TestRecord

type planOp struct {
	Op   string `json:"op"` // collect | snap | reset | user
	Via  string `json:"via,omitempty"`
	K    string `json:"k,omitempty"`
	U    string `json:"u,omitempty"`
	X    uint64 `json:"x,omitempty"`
	Y    uint64 `json:"y,omitempty"`
	Spin int    `json:"spin,omitempty"`
}

type event struct {
	Seq    uint64             `json:"seq"`
	T      string             `json:"t"`
	E      string             `json:"e"` // call | ret
	P      string             `json:"p"`
	Op     string             `json:"op,omitempty"`
	Via    string             `json:"via,omitempty"`
	K      string             `json:"k,omitempty"`
	U      string             `json:"u,omitempty"`
	X      uint64             `json:"x,omitempty"`
	Y      uint64             `json:"y,omitempty"`
	Status int                `json:"status,omitempty"`
	Tot    figures            `json:"tot,omitempty"`
	Users  map[string]figures `json:"users,omitempty"`
	User   figures            `json:"user,omitempty"`
	Final  bool               `json:"final,omitempty"`
}

type recordParams struct {
	Traces     int          `json:"traces"`
	Goroutines int          `json:"goroutines"`
	Ops        int          `json:"ops"`
	Users      []string     `json:"users"` // named users; "" is always used as well
	Creds      []string     `json:"creds"`
	UserOps    int          `json:"userOps"` // every n-th trace contains GET users/{u} requests (0 = never)
	MaxAmount  uint64       `json:"maxAmount"`
	Out        string       `json:"out"`
	Plans      [][][]planOp `json:"plans,omitempty"` // replay: explicit plans (trace, goroutine, op)
	Repeat     int          `json:"repeat,omitempty"`
}

var sink atomic.Uint64

func spin(n int) {
	var x uint64
	for i := range n {
		x += uint64(i)
	}
	sink.Add(x)
}

func makePlan(rnd *rand.Rand, p *recordParams, withUser bool) [][]planOp {
	kinds := []string{"tcp", "udpdown", "udpup"}
	buckets := append([]string{""}, p.Users...)
	// a late user: nobody touches it in the first half of any goroutine's plan
	late := ""
	if len(p.Users) > 1 {
		late = p.Users[len(p.Users)-1]
	}
	plan := make([][]planOp, p.Goroutines)
	// roles differ per trace: between one and half of the goroutines mostly snapshot/reset
	nsnap := 1 + rnd.IntN(max(1, p.Goroutines/2))
	for g := range plan {
		snapper := g < nsnap
		for j := range p.Ops {
			var o planOp
			r := rnd.IntN(100)
			doSnap := (snapper && r < 70) || (!snapper && r < 10)
			if doSnap {
				switch q := rnd.IntN(100); {
				case q < 45:
					o.Op = "reset"
				case withUser && q < 65 && len(p.Creds) > 0:
					o.Op = "user"
					o.U = p.Creds[rnd.IntN(len(p.Creds))]
				default:
					o.Op = "snap"
				}
				if o.Op != "user" && rnd.IntN(2) == 0 {
					o.Via = "direct"
				} else {
					o.Via = "api"
				}
			} else {
				o.Op = "collect"
				o.K = kinds[rnd.IntN(len(kinds))]
				for {
					o.U = buckets[rnd.IntN(len(buckets))]
					if o.U != late || late == "" || j >= p.Ops/2 {
						break
					}
				}
				o.X = 1 + rnd.Uint64N(p.MaxAmount)
				o.Y = 1 + rnd.Uint64N(p.MaxAmount)
			}
			if rnd.IntN(3) != 0 {
				o.Spin = rnd.IntN(300)
			}
			plan[g] = append(plan[g], o)
		}
	}
	return plan
}

// runPlan executes one plan on a fresh collector and returns the events ordered by sequence number.
func runPlan(n *names, dir string, creds []string, tid string, plan [][]planOp) ([]event, error) {
	e, err := newEnv(dir, creds)
	if err != nil {
		return nil, err
	}
	var seq atomic.Uint64
	var start sync.WaitGroup
	var done sync.WaitGroup
	var gate atomic.Bool
	var arrived atomic.Int64
	yield := runtime.GOMAXPROCS(0) <= len(plan) // busy-wait at the start line only when every goroutine has a thread
	logs := make([][]event, len(plan))
	errs := make([]error, len(plan))
	start.Add(len(plan))
	done.Add(len(plan))
	for g := range plan {
		go func() {
			defer done.Done()
			name := fmt.Sprintf("g%d", g+1)
			log := make([]event, 0, 2*len(plan[g]))
			start.Done()
			for !gate.Load() {
				if yield {
					runtime.Gosched()
				}
			}
			for j, o := range plan[g] {
				// every goroutine fires its j-th call at (nearly) the same moment; the spin varies the alignment
				arrived.Add(1)
				for arrived.Load() < int64((j+1)*len(plan)) {
					if yield {
						runtime.Gosched()
					}
				}
				if o.Spin > 0 {
					spin(o.Spin)
				}
				ev := event{T: tid, E: "call", P: name, Op: o.Op, Via: o.Via, K: o.K, U: o.U, X: o.X, Y: o.Y}
				ret := event{T: tid, E: "ret", P: name, Op: o.Op}
				switch o.Op {
				case "collect":
					ev.Seq = seq.Add(1)
					err := collect(e.sc, o.K, o.U, o.X, o.Y)
					ret.Seq = seq.Add(1)
					if err != nil {
						errs[g] = err
						return
					}
				case "snap", "reset":
					if o.Via == "direct" {
						var s stats.Server
						ev.Seq = seq.Add(1)
						if o.Op == "reset" {
							s = e.sc.SnapshotAndReset()
						} else {
							s = e.sc.Snapshot()
						}
						ret.Seq = seq.Add(1)
						r := fromServer(n, s)
						ret.Status, ret.Tot, ret.Users = 200, r.Tot, r.Users
					} else {
						path := "/servers/" + serverName + "/stats"
						if o.Op == "reset" {
							path += "?clear"
						}
						ev.Seq = seq.Add(1)
						code, body := e.get(path)
						ret.Seq = seq.Add(1)
						ret.Status = code
						if code == 200 {
							r, err := n.parseStats(body)
							if err != nil {
								errs[g] = fmt.Errorf("GET %s: %v: %s", path, err, body)
								return
							}
							ret.Tot, ret.Users = r.Tot, r.Users
						}
					}
				case "user":
					path := "/servers/" + serverName + "/users/" + o.U
					ev.Seq = seq.Add(1)
					code, body := e.get(path)
					ret.Seq = seq.Add(1)
					ret.Status = code
					ret.U = o.U
					if code == 200 {
						_, f, err := n.parseUser(body)
						if err != nil {
							errs[g] = fmt.Errorf("GET %s: %v: %s", path, err, body)
							return
						}
						ret.User = f
					}
				default:
					errs[g] = fmt.Errorf("unknown op %q", o.Op)
					return
				}
				log = append(log, ev, ret)
			}
			logs[g] = log
		}()
	}
	start.Wait()
	gate.Store(true)
	done.Wait()
	for _, err := range errs {
		if err != nil {
			return nil, err
		}
	}
	var all []event
	for _, l := range logs {
		all = append(all, l...)
	}
	// quiescent: one last plain snapshot after everything returned
	s := seq.Add(1)
	r := fromServer(n, e.sc.Snapshot())
	all = append(all, event{Seq: s, T: tid, E: "call", P: "g1", Op: "snap", Via: "direct", Final: true},
		event{Seq: seq.Add(1), T: tid, E: "ret", P: "g1", Op: "snap", Status: 200, Tot: r.Tot, Users: r.Users, Final: true})
	sort.Slice(all, func(i, j int) bool { return all[i].Seq < all[j].Seq })
	return all, nil
}

// conservation on one finished trace: the resets that returned + the final snapshot = everything recorded,
// per bucket and figure and for the totals.  Returns a description of the first difference.
func conservation(n *names, evs []event) string {
	recorded := map[string]figures{}
	reported := map[string]figures{}
	totRep := figures{}
	add := func(m map[string]figures, b string, f figures) {
		if m[b] == nil {
			m[b] = figures{}
		}
		for k, v := range f {
			m[b][k] += v
		}
	}
	for _, ev := range evs {
		switch {
		case ev.E == "call" && ev.Op == "collect":
			add(recorded, ev.U, contribution(ev.K, ev.X, ev.Y))
		case ev.E == "ret" && (ev.Op == "reset" || ev.Final) && ev.Status == 200:
			for u, f := range ev.Users {
				add(reported, u, f)
			}
			for k, v := range ev.Tot {
				totRep[k] += v
			}
		}
	}
	var users []string
	for u := range recorded {
		users = append(users, u)
	}
	for u := range reported {
		if _, ok := recorded[u]; !ok {
			users = append(users, u)
		}
	}
	slices.Sort(users)
	for _, f := range n.Fields {
		var totRec uint64
		for _, u := range users {
			totRec += recorded[u][f]
			if u != "" && recorded[u][f] != reported[u][f] {
				return fmt.Sprintf("user %q %s: sessions recorded %d, resets + final snapshot reported %d", u, f, recorded[u][f], reported[u][f])
			}
		}
		if totRec != totRep[f] {
			return fmt.Sprintf("server total %s: sessions recorded %d, resets + final snapshot reported %d", f, totRec, totRep[f])
		}
	}
	return ""
}

func TestRecord(t *testing.T) {
	in, err := vio.ReadInput()
	if err != nil {
		t.Skip(err)
	}
	res := vio.NewResult()
	res.Samples = []any{}
	defer func() {
		if err := res.Write(); err != nil {
			t.Fatal(err)
		}
	}()
	var n names
	in.Param("names", &n)
	n.defaults()
	p := recordParams{Traces: 10, Goroutines: 4, Ops: 6, Users: []string{"u1", "u2"}, Creds: []string{"u1", "u2"}, MaxAmount: 9}
	if !in.Param("record", &p) {
		res.Break("no record parameters")
		return
	}
	if p.Out == "" {
		res.Break("no output file")
		return
	}
	f, err := os.Create(p.Out)
	if err != nil {
		res.Break("%v", err)
		return
	}
	defer f.Close()
	enc := json.NewEncoder(f)
	dir := t.TempDir()
	rnd := rand.New(rand.NewPCG(uint64(in.Seed), 0xc14))
	ntr := p.Traces
	if len(p.Plans) > 0 {
		ntr = len(p.Plans) * max(1, p.Repeat)
	}
	for ti := range ntr {
		var plan [][]planOp
		withUser := p.UserOps > 0 && ti%p.UserOps == 0
		if len(p.Plans) > 0 {
			plan = p.Plans[ti%len(p.Plans)]
		} else {
			plan = makePlan(rnd, &p, withUser)
		}
		// vary the parallelism: the same plan shapes meet different schedules
		procs := []int{0, 2, 4, 0, 3, 8}[ti%6]
		prev := 0
		if procs > 0 {
			prev = runtime.GOMAXPROCS(procs)
		}
		tid := fmt.Sprintf("%d.%d", in.Seed, ti)
		evs, err := runPlan(&n, dir, p.Creds, tid, plan)
		if procs > 0 {
			runtime.GOMAXPROCS(prev)
		}
		if err != nil {
			res.Break("trace %s: %v", tid, err)
			return
		}
		if d := conservation(&n, evs); d != "" {
			res.Violation(vio.Finding{Key: "stats.reset/traffic-lost-or-double-counted", Behaviour: ti,
				Text:   "after all calls returned, " + d,
				Replay: map[string]any{"plans": [][][]planOp{plan}, "events": evs}})
		}
		if err := enc.Encode(map[string]any{"t": tid, "user": withUser, "plan": plan, "events": evs}); err != nil {
			res.Break("%v", err)
			return
		}
		overlap := 0
		open := 0
		for _, ev := range evs {
			if ev.E == "call" {
				open++
				overlap = max(overlap, open)
			} else {
				open--
			}
		}
		res.Count("events", len(evs))
		res.Count(fmt.Sprintf("max_overlap_%d", overlap), 1)
		res.AddSteps(1, len(evs))
	}
}

// ---------------------------------------------------------------- TestLongRun

type longParams struct {
	Rounds     int `json:"rounds"`
	Goroutines int `json:"goroutines"`
	Waves      int `json:"waves"` // each wave introduces a user name that several goroutines hit at once
	PerWave    int `json:"perWave"`
	Resetters  int `json:"resetters"`
	Snappers   int `json:"snappers"`
	Resets     int `json:"resets"` // hot rounds: resets per resetter
}

func TestLongRun(t *testing.T) {
	in, err := vio.ReadInput()
	if err != nil {
		t.Skip(err)
	}
	res := vio.NewResult()
	res.Samples = []any{}
	defer func() {
		if err := res.Write(); err != nil {
			t.Fatal(err)
		}
	}()
	var n names
	in.Param("names", &n)
	n.defaults()
	p := longParams{Rounds: 2, Goroutines: 8, Waves: 20, PerWave: 200, Resetters: 2, Snappers: 1}
	in.Param("long", &p)
	dir := t.TempDir()
	if p.Resets == 0 {
		p.Resets = 200000
	}
	for round := range p.Rounds {
		if round%2 == 0 {
			hotRound(&n, dir, in.Seed, round, &p, res)
		} else {
			longRound(&n, dir, in.Seed, round, &p, res)
		}
	}
}

// fastSnapshot converts without the JSON detour (the long runs take hundreds of thousands of snapshots).
func fastSnapshot(n *names, s stats.Server) *snapshot {
	conv := func(t stats.Traffic) figures {
		return figures{"downlinkPackets": t.DownlinkPackets, "downlinkBytes": t.DownlinkBytes, "uplinkPackets": t.UplinkPackets,
			"uplinkBytes": t.UplinkBytes, "tcpSessions": t.TCPSessions, "udpSessions": t.UDPSessions}
	}
	r := &snapshot{Tot: conv(s.Traffic), Users: make(map[string]figures, len(s.Users))}
	for _, u := range s.Users {
		r.Users[u.Name] = conv(u.Traffic)
	}
	return r
}

type session struct {
	kind int // 0 tcp, 1 udpdown, 2 udpup
	user int // index into the user names; 0 is the anonymous bucket
	x, y uint64
}

var kindNames = [3]string{"tcp", "udpdown", "udpup"}

func longRound(n *names, dir string, seed int64, round int, p *longParams, res *vio.Result) {
	creds := []string{"w1", "w2"}
	e, err := newEnv(dir, creds)
	if err != nil {
		res.Break("long run: %v", err)
		return
	}
	procs := []int{0, 32, 8, 16}[round%4] // more threads than cores: the OS preempts inside the windows too
	if procs > 0 {
		defer runtime.GOMAXPROCS(runtime.GOMAXPROCS(procs))
	}
	// user 0 is the anonymous bucket; wave w introduces user w+1, which every goroutine hits first thing after the barrier
	users := make([]string, p.Waves+1)
	for w := range p.Waves {
		users[w+1] = fmt.Sprintf("w%d", w+1)
	}
	// the sessions are drawn before the race starts so that the collecting loops are as tight as possible
	plans := make([][]session, p.Goroutines)
	for g := range plans {
		rnd := rand.New(rand.NewPCG(uint64(seed), uint64(round*1000+g)))
		plans[g] = make([]session, 0, p.Waves*p.PerWave)
		for w := range p.Waves {
			for j := range p.PerWave {
				u := w + 1
				if j > 0 {
					switch rnd.IntN(4) {
					case 0:
						u = 0
					case 1:
						u = 1 + rnd.IntN(w+1)
					}
				}
				plans[g] = append(plans[g], session{kind: rnd.IntN(3), user: u, x: 1 + rnd.Uint64N(1<<33), y: 1 + rnd.Uint64N(1<<20)})
			}
		}
	}
	var arrived atomic.Int64 // collectors advance together: barrier per wave
	var stop atomic.Bool
	var collectors, readers sync.WaitGroup
	collectors.Add(p.Goroutines)
	for g := range p.Goroutines {
		go func() {
			defer collectors.Done()
			plan := plans[g]
			for w := range p.Waves {
				// barrier: everybody meets the new user name of this wave at the same moment
				arrived.Add(1)
				for arrived.Load() < int64((w+1)*p.Goroutines) {
					runtime.Gosched()
				}
				for _, s := range plan[w*p.PerWave : (w+1)*p.PerWave] {
					switch s.kind {
					case 0:
						e.sc.CollectTCPSession(users[s.user], s.x, s.y)
					case 1:
						e.sc.CollectUDPSessionDownlink(users[s.user], s.x, s.y)
					default:
						e.sc.CollectUDPSessionUplink(users[s.user], s.x, s.y)
					}
				}
			}
		}()
	}
	type tally = map[string]figures
	type acc struct {
		users map[string]*stats.Traffic
		tot   stats.Traffic
		n     int
	}
	accs := make([]*acc, p.Resetters)
	var bad sync.Map
	// totals = anonymous + users can only be observed from outside as "not less than the users"
	checkSum := func(what string, s *stats.Server) {
		var sum stats.Traffic
		for i := range s.Users {
			sum.Add(s.Users[i].Traffic)
		}
		t := s.Traffic
		if t.DownlinkPackets < sum.DownlinkPackets || t.DownlinkBytes < sum.DownlinkBytes || t.UplinkPackets < sum.UplinkPackets ||
			t.UplinkBytes < sum.UplinkBytes || t.TCPSessions < sum.TCPSessions || t.UDPSessions < sum.UDPSessions {
			bad.Store("less", fmt.Sprintf("%s: a server total %+v is less than the sum of the users' figures %+v", what, t, sum))
		}
	}
	readers.Add(p.Resetters + p.Snappers)
	for r := range p.Resetters {
		a := &acc{users: map[string]*stats.Traffic{}}
		accs[r] = a
		go func() {
			defer readers.Done()
			for i := 0; ; i++ {
				last := stop.Load()
				var s stats.Server
				if i%256 != 255 {
					s = e.sc.SnapshotAndReset()
				} else {
					// through the API, decoded into the code's own type
					code, body := e.get("/servers/" + serverName + "/stats?clear")
					if code != 200 {
						bad.Store("status", fmt.Sprintf("GET stats?clear answered %d", code))
						return
					}
					if err := json.Unmarshal(body, &s); err != nil {
						bad.Store("parse", err.Error())
						return
					}
				}
				a.n++
				for j := range s.Users {
					t := a.users[s.Users[j].Name]
					if t == nil {
						t = new(stats.Traffic)
						a.users[s.Users[j].Name] = t
					}
					t.Add(s.Users[j].Traffic)
				}
				a.tot.Add(s.Traffic)
				checkSum("reset", &s)
				if last {
					return
				}
			}
		}()
	}
	for range p.Snappers {
		go func() {
			defer readers.Done()
			for i := 0; !stop.Load(); i++ {
				var s stats.Server
				if i%64 != 63 {
					s = e.sc.Snapshot()
				} else {
					_, body := e.get("/servers/" + serverName + "/stats")
					if err := json.Unmarshal(body, &s); err != nil {
						bad.Store("parse", err.Error())
						return
					}
				}
				checkSum("snapshot", &s)
			}
		}()
	}
	collectors.Wait()
	stop.Store(true)
	readers.Wait()
	final := fastSnapshot(n, e.sc.SnapshotAndReset())
	bad.Range(func(k, v any) bool {
		key := "stats.snapshot/total-less-than-users"
		if k != "less" {
			key = "stats.api/malformed-answer"
		}
		res.Violation(vio.Finding{Key: key, Behaviour: round, Text: v.(string)})
		return true
	})
	rec, rep := tally{}, tally{}
	totRep := figures{}
	merge := func(dst tally, src tally) {
		for u, f := range src {
			if dst[u] == nil {
				dst[u] = figures{}
			}
			for k, v := range f {
				dst[u][k] += v
			}
		}
	}
	for _, plan := range plans {
		for _, s := range plan {
			u := users[s.user]
			if rec[u] == nil {
				rec[u] = figures{}
			}
			for f, v := range contribution(kindNames[s.kind], s.x, s.y) {
				rec[u][f] += v
			}
		}
	}
	nr := 0
	for _, a := range accs {
		nr += a.n
		srv := stats.Server{Traffic: a.tot}
		for u, t := range a.users {
			srv.Users = append(srv.Users, stats.User{Name: u, Traffic: *t})
		}
		part := fastSnapshot(n, srv)
		merge(rep, part.Users)
		for k, v := range part.Tot {
			totRep[k] += v
		}
	}
	merge(rep, final.Users)
	for k, v := range final.Tot {
		totRep[k] += v
	}
	var diffs []string
	names := map[string]bool{}
	for u := range rec {
		names[u] = true
	}
	for u := range rep {
		names[u] = true
	}
	for _, f := range n.Fields {
		var totRec uint64
		for u := range names {
			totRec += rec[u][f]
			if u != "" && rec[u][f] != rep[u][f] {
				diffs = append(diffs, fmt.Sprintf("user %q %s: recorded %d, reported %d (%+d)", u, f, rec[u][f], rep[u][f], int64(rep[u][f]-rec[u][f])))
			}
		}
		if totRec != totRep[f] {
			diffs = append(diffs, fmt.Sprintf("server total %s: recorded %d, reported %d (%+d)", f, totRec, totRep[f], int64(totRep[f]-totRec)))
		}
	}
	if len(diffs) > 0 {
		slices.Sort(diffs)
		nd := len(diffs)
		if nd > 6 {
			diffs = diffs[:6]
		}
		res.Violation(vio.Finding{Key: "stats.reset/traffic-lost-or-double-counted", Behaviour: round,
			Text: fmt.Sprintf("%d goroutines x %d waves x %d sessions against %d concurrent resets: after everything returned, resets + final snapshot differ from the sessions recorded in %d figures: %s",
				p.Goroutines, p.Waves, p.PerWave, nr, nd, strings.Join(diffs, "; ")),
			Replay: map[string]any{"long": p, "round": round}})
	}
	res.Count("long_sessions", p.Goroutines*p.Waves*p.PerWave)
	res.Count("long_resets", nr)
	res.AddSteps(1, p.Goroutines*p.Waves*p.PerWave)
}

// hotRound is driven by the resetters: each performs p.Resets SnapshotAndReset calls back to back on a collector
// with three buckets while the collectors record sessions without pause.  A read-and-clear that is not one atomic
// step loses a session whenever an add lands in (or the resetter is descheduled in) its window; with millions of
// resets this shows even when the machine gives the test little real parallelism.
func hotRound(n *names, dir string, seed int64, round int, p *longParams, res *vio.Result) {
	e, err := newEnv(dir, []string{"w1", "w2"})
	if err != nil {
		res.Break("hot round: %v", err)
		return
	}
	users := []string{"", "w1", "w2"}
	ncoll := max(2, p.Goroutines/2)
	nreset := p.Resetters + 2
	defer runtime.GOMAXPROCS(runtime.GOMAXPROCS(ncoll + nreset + 3))
	const cycle = 1024
	plans := make([][]session, ncoll)
	done := make([]int, ncoll) // sessions each collector recorded
	for g := range plans {
		rnd := rand.New(rand.NewPCG(uint64(seed), uint64(round*1000+g)))
		for range cycle {
			plans[g] = append(plans[g], session{kind: rnd.IntN(3), user: rnd.IntN(3), x: 1 + rnd.Uint64N(1<<24), y: 1 + rnd.Uint64N(1<<16)})
		}
	}
	var stop atomic.Bool
	var collectors, resetters, snappers sync.WaitGroup
	collectors.Add(ncoll)
	for g := range ncoll {
		go func() {
			defer collectors.Done()
			plan := plans[g]
			i := 0
			for ; !stop.Load(); i++ {
				s := &plan[i%cycle]
				switch s.kind {
				case 0:
					e.sc.CollectTCPSession(users[s.user], s.x, s.y)
				case 1:
					e.sc.CollectUDPSessionDownlink(users[s.user], s.x, s.y)
				default:
					e.sc.CollectUDPSessionUplink(users[s.user], s.x, s.y)
				}
			}
			done[g] = i
		}()
	}
	type acc struct {
		users map[string]*stats.Traffic
		tot   stats.Traffic
	}
	accs := make([]*acc, nreset)
	var bad sync.Map
	checkSum := func(what string, s *stats.Server) {
		var sum stats.Traffic
		for i := range s.Users {
			sum.Add(s.Users[i].Traffic)
		}
		t := s.Traffic
		if t.DownlinkPackets < sum.DownlinkPackets || t.DownlinkBytes < sum.DownlinkBytes || t.UplinkPackets < sum.UplinkPackets ||
			t.UplinkBytes < sum.UplinkBytes || t.TCPSessions < sum.TCPSessions || t.UDPSessions < sum.UDPSessions {
			bad.Store("less", fmt.Sprintf("%s: a server total %+v is less than the sum of the users' figures %+v", what, t, sum))
		}
	}
	resetters.Add(nreset)
	for r := range nreset {
		a := &acc{users: map[string]*stats.Traffic{}}
		accs[r] = a
		go func() {
			defer resetters.Done()
			for i := range p.Resets {
				var s stats.Server
				if i%1024 != 1023 {
					s = e.sc.SnapshotAndReset()
				} else {
					code, body := e.get("/servers/" + serverName + "/stats?clear")
					if code != 200 || json.Unmarshal(body, &s) != nil {
						bad.Store("status", fmt.Sprintf("GET stats?clear answered %d: %.200s", code, body))
						return
					}
				}
				for j := range s.Users {
					t := a.users[s.Users[j].Name]
					if t == nil {
						t = new(stats.Traffic)
						a.users[s.Users[j].Name] = t
					}
					t.Add(s.Users[j].Traffic)
				}
				a.tot.Add(s.Traffic)
				if i%16 == 0 {
					checkSum("reset", &s)
				}
			}
		}()
	}
	snappers.Add(1)
	go func() {
		defer snappers.Done()
		for !stop.Load() {
			s := e.sc.Snapshot()
			checkSum("snapshot", &s)
		}
	}()
	resetters.Wait()
	stop.Store(true)
	collectors.Wait()
	snappers.Wait()
	final := fastSnapshot(n, e.sc.SnapshotAndReset())
	bad.Range(func(k, v any) bool {
		key := "stats.snapshot/total-less-than-users"
		if k != "less" {
			key = "stats.api/unexpected-status"
		}
		res.Violation(vio.Finding{Key: key, Behaviour: round, Text: v.(string)})
		return true
	})
	rec := map[string]figures{}
	sessions := 0
	for g, plan := range plans {
		sessions += done[g]
		for j, s := range plan {
			// entry j of the cycle was executed once per full cycle, plus once more if j lies before the cut
			times := uint64(done[g] / cycle)
			if j < done[g]%cycle {
				times++
			}
			u := users[s.user]
			if rec[u] == nil {
				rec[u] = figures{}
			}
			for f, v := range contribution(kindNames[s.kind], s.x, s.y) {
				rec[u][f] += v * times
			}
		}
	}
	rep := map[string]figures{}
	totRep := figures{}
	addSnap := func(part *snapshot) {
		for u, f := range part.Users {
			if rep[u] == nil {
				rep[u] = figures{}
			}
			for k, v := range f {
				rep[u][k] += v
			}
		}
		for k, v := range part.Tot {
			totRep[k] += v
		}
	}
	for _, a := range accs {
		srv := stats.Server{Traffic: a.tot}
		for u, t := range a.users {
			srv.Users = append(srv.Users, stats.User{Name: u, Traffic: *t})
		}
		addSnap(fastSnapshot(n, srv))
	}
	addSnap(final)
	var diffs []string
	for _, f := range n.Fields {
		var totRec uint64
		for _, u := range users {
			totRec += rec[u][f]
			if u != "" && rec[u][f] != rep[u][f] {
				diffs = append(diffs, fmt.Sprintf("user %q %s: recorded %d, reported %d (%+d)", u, f, rec[u][f], rep[u][f], int64(rep[u][f]-rec[u][f])))
			}
		}
		if totRec != totRep[f] {
			diffs = append(diffs, fmt.Sprintf("server total %s: recorded %d, reported %d (%+d)", f, totRec, totRep[f], int64(totRep[f]-totRec)))
		}
	}
	for u := range rep {
		if !slices.Contains(users, u) {
			diffs = append(diffs, fmt.Sprintf("user %q reported although nothing was recorded under that name", u))
		}
	}
	if len(diffs) > 0 {
		slices.Sort(diffs)
		nd := len(diffs)
		if nd > 6 {
			diffs = diffs[:6]
		}
		res.Violation(vio.Finding{Key: "stats.reset/traffic-lost-or-double-counted", Behaviour: round,
			Text: fmt.Sprintf("%d goroutines recording %d sessions against %d x %d back-to-back resets: after everything returned, resets + final snapshot differ from the sessions recorded in %d figures: %s",
				ncoll, sessions, nreset, p.Resets, nd, strings.Join(diffs, "; ")),
			Replay: map[string]any{"long": p, "round": round}})
	}
	res.Count("long_sessions", sessions)
	res.Count("long_resets", nreset*p.Resets)
	res.AddSteps(1, sessions)
}
