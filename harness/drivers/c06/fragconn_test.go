//go:build verif

package c06

import (
	"context"
	"io"
	"net"
	"os"
	"sync"
	"time"

	"github.com/database64128/shadowsocks-go/conn"
	"github.com/database64128/shadowsocks-go/netio"
)

// scriptConn is a netio.Conn whose read side delivers a scripted byte stream in scripted segments
// (one Read never crosses a segment boundary) and then reports EOF, and whose write side keeps
// everything the code under test writes.  Nothing ever blocks: the peer has "already sent"
// everything it is going to send, so a parser that waits for more sees EOF.  A second kind of
// script ("hold") keeps the read side open until Close so that code which parks on the connection
// can be observed parked.
type scriptConn struct {
	mu       sync.Mutex
	cond     *sync.Cond
	in       []byte
	segs     []int // remaining lengths of the scripted segments
	hold     bool  // no EOF after the script: block until closed
	closed   bool
	rdl      time.Time
	out      []byte
	wclosed  bool
	reads    int
	local    net.Addr
	remote   net.Addr
	onWrite  func(c *scriptConn) // called (under mu) after every write: lets a scripted peer react to what was written
	deadline bool
}

func newScriptConn(in []byte, segs []int) *scriptConn {
	c := &scriptConn{in: in, segs: append([]int(nil), segs...),
		local:  &net.TCPAddr{IP: net.IPv4(127, 0, 0, 1).To4(), Port: 1080},
		remote: &net.TCPAddr{IP: net.IPv4(127, 0, 0, 1).To4(), Port: 50000}}
	c.cond = sync.NewCond(&c.mu)
	return c
}

var _ netio.Conn = (*scriptConn)(nil)

func (c *scriptConn) Read(p []byte) (int, error) {
	c.mu.Lock()
	defer c.mu.Unlock()
	for {
		if c.closed {
			return 0, io.ErrClosedPipe
		}
		if len(c.in) > 0 {
			break
		}
		if !c.hold {
			return 0, io.EOF
		}
		if c.deadline {
			return 0, os.ErrDeadlineExceeded
		}
		c.cond.Wait()
	}
	if len(p) == 0 {
		return 0, nil
	}
	n := len(c.in)
	for len(c.segs) > 0 && c.segs[0] == 0 {
		c.segs = c.segs[1:]
	}
	if len(c.segs) > 0 && c.segs[0] < n {
		n = c.segs[0]
	}
	if len(p) < n {
		n = len(p)
	}
	copy(p, c.in[:n])
	c.in = c.in[n:]
	if len(c.segs) > 0 {
		c.segs[0] -= n
	}
	c.reads++
	return n, nil
}

// feed appends bytes to the read side (scripted peers that answer what the code wrote).
func (c *scriptConn) feed(b []byte, segs []int) {
	c.in = append(c.in, b...)
	c.segs = append(c.segs, segs...)
	c.cond.Broadcast()
}

func (c *scriptConn) Write(p []byte) (int, error) {
	c.mu.Lock()
	defer c.mu.Unlock()
	if c.closed || c.wclosed {
		return 0, io.ErrClosedPipe
	}
	c.out = append(c.out, p...)
	if c.onWrite != nil {
		c.onWrite(c)
	}
	return len(p), nil
}

func (c *scriptConn) written() []byte {
	c.mu.Lock()
	defer c.mu.Unlock()
	return append([]byte(nil), c.out...)
}

func (c *scriptConn) CloseWrite() error {
	c.mu.Lock()
	c.wclosed = true
	c.mu.Unlock()
	return nil
}

func (c *scriptConn) Close() error {
	c.mu.Lock()
	c.closed = true
	c.mu.Unlock()
	c.cond.Broadcast()
	return nil
}

func (c *scriptConn) LocalAddr() net.Addr  { return c.local }
func (c *scriptConn) RemoteAddr() net.Addr { return c.remote }
func (c *scriptConn) SetDeadline(t time.Time) error {
	return c.SetReadDeadline(t)
}
func (c *scriptConn) SetReadDeadline(t time.Time) error {
	c.mu.Lock()
	c.deadline = !t.IsZero() && !t.After(time.Now())
	c.mu.Unlock()
	c.cond.Broadcast()
	return nil
}
func (c *scriptConn) SetWriteDeadline(time.Time) error { return nil }

// scriptConnRF also implements io.ReaderFrom, as *net.TCPConn does (some wrappers pick a different
// type when the inner connection has it).
type scriptConnRF struct{ *scriptConn }

func (c scriptConnRF) ReadFrom(r io.Reader) (int64, error) {
	var total int64
	b := make([]byte, 2048)
	for {
		n, err := r.Read(b)
		if n > 0 {
			if _, werr := c.scriptConn.Write(b[:n]); werr != nil {
				return total, werr
			}
			total += int64(n)
		}
		if err != nil {
			if err == io.EOF {
				err = nil
			}
			return total, err
		}
	}
}

// fakeInner is the innermost netio.StreamClient: every dial hands out the next scripted connection.
// It stands for the TCP connection to the (hostile or well-behaved) next hop.
type fakeInner struct {
	mu     sync.Mutex
	name   string
	next   func(addr conn.Addr, payload []byte) (netio.Conn, error)
	dials  int
	native bool
}

func (f *fakeInner) NewStreamDialer() (netio.StreamDialer, netio.StreamDialerInfo) {
	return f, netio.StreamDialerInfo{Name: f.name, NativeInitialPayload: f.native}
}

func (f *fakeInner) DialStream(ctx context.Context, addr conn.Addr, payload []byte) (netio.Conn, error) {
	f.mu.Lock()
	f.dials++
	next := f.next
	f.mu.Unlock()
	c, err := next(addr, payload)
	if err != nil {
		return nil, err
	}
	if len(payload) > 0 {
		if _, err := c.Write(payload); err != nil {
			return nil, err
		}
	}
	return c, nil
}

// sink returns a fakeInner whose connections swallow writes and answer with `reply` (then EOF).
func sink(name string, reply []byte) *fakeInner {
	return &fakeInner{name: name, next: func(conn.Addr, []byte) (netio.Conn, error) {
		return newScriptConn(append([]byte(nil), reply...), nil), nil
	}}
}
