//go:build verif

package c06

import (
	"bytes"
	"context"
	"crypto/cipher"
	"crypto/subtle"
	"encoding/base64"
	"encoding/binary"
	"errors"
	"fmt"
	"io"
	"net/netip"
	"runtime"
	"strings"
	"sync/atomic"
	"time"

	"github.com/database64128/shadowsocks-go/conn"
	"github.com/database64128/shadowsocks-go/direct"
	"github.com/database64128/shadowsocks-go/httpproxy"
	"github.com/database64128/shadowsocks-go/netio"
	"github.com/database64128/shadowsocks-go/socks5"
	"github.com/database64128/shadowsocks-go/ss2022"
	"github.com/database64128/shadowsocks-go/ssnone"
	"github.com/database64128/shadowsocks-go/zerocopy"
)

// ---------------------------------------------------------------- SOCKS5 / none stream servers

func (x *exec) encodePlain(special func(f fieldJ, name, class string, off int) ([]byte, bool)) ([]byte, []int, error) {
	enc := &encoder{rnd: x.rnd, now: time.Now(), special: special}
	b, err := enc.encode(x.c.Wire)
	if err != nil {
		return nil, nil, err
	}
	b = cutTo(b, x.c.Have)
	return b, segments(x.rnd, len(b), enc.offs), nil
}

func (x *exec) randNot(n int, not ...byte) []byte {
	b := make([]byte, n)
	for i := range b {
	again:
		b[i] = byte(x.rnd.Intn(256))
		for _, v := range not {
			if b[i] == v {
				goto again
			}
		}
	}
	return b
}

func (x *exec) mkS5Srv() (netio.StreamServer, []byte, []int, error) {
	m := &x.c.M
	auth := m.B("auth")
	ulen, plen := m.I("ulen"), m.I("plen")
	cfg := socks5.StreamServerConfig{EnableUserPassAuth: auth, EnableTCP: m.B("tcp"), EnableUDP: m.B("udp"),
		Users: []socks5.UserInfo{{Username: "someone", Password: "secret"}}}
	if ulen >= 1 && plen >= 1 {
		cfg.Users = append(cfg.Users, socks5.UserInfo{Username: string(userName(ulen, plen)), Password: string(userPass(ulen, plen))})
	}
	srv, err := cfg.NewStreamServer()
	if err != nil {
		return nil, nil, nil, err
	}
	want := byte(x.w.k["MNoAuth"])
	if auth {
		want = byte(x.w.k["MUserPass"])
	}
	b, segs, err := x.encodePlain(func(f fieldJ, name, class string, _ int) ([]byte, bool) {
		switch name {
		case "methods":
			b := x.randNot(f.N, byte(x.w.k["MNoAuth"]), byte(x.w.k["MUserPass"]))
			switch class {
			case "first":
				b[0] = want
			case "last":
				b[f.N-1] = want
			}
			return b, true
		case "uname":
			if f.N == 0 {
				return nil, true
			}
			if class == "ok" {
				return userName(f.N, plen), true
			}
			b := x.randNot(f.N)
			b[0] = '#'
			return b, true
		case "passwd":
			if f.N == 0 {
				return nil, true
			}
			if class == "ok" {
				return userPass(ulen, f.N), true
			}
			b := x.randNot(f.N)
			b[0] = '#'
			return b, true
		}
		return nil, false
	})
	return srv, b, segs, err
}

func (x *exec) mkNoneSrv() (netio.StreamServer, []byte, []int, error) {
	b, segs, err := x.encodePlain(nil)
	return ssnone.StreamServer{}, b, segs, err
}

// ---------------------------------------------------------------- SOCKS5 / HTTP / ss2022 stream clients

func (x *exec) randomTarget() conn.Addr {
	switch x.rnd.Intn(4) {
	case 0:
		return conn.AddrFromIPAndPort(netip.AddrFrom4([4]byte(ip4Bytes(x.rnd, "typ"))), uint16(x.rnd.Intn(65536)))
	case 1:
		return conn.AddrFromIPAndPort(netip.AddrFrom16([16]byte(ip6Bytes(x.rnd, "typ"))), 443)
	case 2:
		a, _ := conn.AddrFromDomainPort(string(domainBytes(x.rnd, 255, "ldh")), 0)
		return a
	default:
		a, _ := conn.AddrFromDomainPort(string(domainBytes(x.rnd, 1+x.rnd.Intn(40), "hit")), 443)
		return a
	}
}

func (x *exec) streamClient() {
	ctx, cancel := context.WithTimeout(context.Background(), 30*time.Second)
	defer cancel()
	target := x.randomTarget()
	payload := x.randNot(x.rnd.Intn(3) * 7)
	var cc netio.Conn
	var err error
	var sc *scriptConn
	ok := false
	switch x.c.Ep {
	case "s5cli":
		peer, segs, eerr := x.encodePlain(nil)
		if eerr != nil {
			x.res.Break("case %s: %v", x.c.ID, eerr)
			return
		}
		sc = newScriptConn(peer, segs)
		inner := &fakeInner{name: "hostile-socks5", next: func(conn.Addr, []byte) (netio.Conn, error) { return sc, nil }}
		cfg := socks5.StreamClientConfig{Name: "c", InnerClient: inner, Addr: conn.AddrFromIPPort(x.w.nextHop)}
		var authMsg []byte
		if x.c.M.B("auth") {
			authMsg = socks5.UserInfo{Username: "user", Password: "pass"}.AppendAuthMsg(nil)
			cfg.AuthMsg = authMsg
		}
		switch x.k % 3 {
		case 2: // the UDP ASSOCIATE flavour of the same exchange: the bound address of the reply is returned
			ok = x.guard("parse", func() {
				if authMsg != nil {
					_, err = socks5.ClientUDPAssociateUsernamePassword(sc, authMsg, conn.Addr{})
				} else {
					_, err = socks5.ClientUDPAssociate(sc, conn.Addr{})
				}
				cc = sc
			})
		default:
			cl := cfg.NewStreamClient()
			ok = x.guard("parse", func() { cc, err = cl.DialStream(ctx, target, payload) })
		}
	case "httpcli":
		peer, segs := x.httpResponse()
		sc = newScriptConn(peer, segs)
		var in netio.Conn = sc
		if x.rnd.Intn(2) == 0 {
			in = scriptConnRF{sc}
		}
		inner := &fakeInner{name: "hostile-http", next: func(conn.Addr, []byte) (netio.Conn, error) { return in, nil }}
		cl, cerr := (&httpproxy.ClientConfig{Name: "c", InnerClient: inner, Addr: conn.AddrFromIPPort(x.w.nextHop), Username: "u", Password: "p",
			UseBasicAuth: x.rnd.Intn(2) == 0}).NewProxyClient()
		if cerr != nil {
			x.res.Break("%v", cerr)
			return
		}
		ok = x.guard("parse", func() { cc, err = cl.DialStream(ctx, target, payload) })
	case "ss22cli":
		cc, sc, err, ok = x.ssClientFirstRead(ctx, target, payload)
	}
	if !ok {
		return
	}
	o := obs{v: "request"}
	if err != nil {
		o = obs{v: "rejected", err: err.Error()}
	}
	x.verdict(o, false)
	if err != nil || cc == nil {
		if sc != nil {
			_ = sc.Close()
		}
		return
	}
	// relay: whatever else the hostile peer sent is read until the stream ends
	x.guard("relay", func() {
		buf := make([]byte, 1+x.rnd.Intn(70000))
		for i := 0; i < 64; i++ {
			if _, rerr := cc.Read(buf); rerr != nil {
				break
			}
		}
		_, _ = cc.Write([]byte("data after the handshake"))
		_ = cc.Close()
	})
}

// ---------------------------------------------------------------- HTTP text

func (x *exec) httpHost(class string) string {
	switch class {
	case "ip4":
		return netip.AddrFrom4([4]byte(ip4Bytes(x.rnd, []string{"typ", "zero", "pfx"}[x.rnd.Intn(3)]))).String()
	case "ip6":
		return "[" + netip.AddrFrom16([16]byte(ip6Bytes(x.rnd, []string{"typ", "zero", "mapped", "pfx"}[x.rnd.Intn(4)]))).String() + "]"
	case "dom1":
		return "x"
	case "dom255":
		return string(domainBytes(x.rnd, 255, []string{"hit", "ldh"}[x.rnd.Intn(2)]))
	case "dom256":
		return string(domainBytes(x.rnd, 256, "hit"))
	case "empty":
		return ""
	default: // badchar
		return []string{"ex%zz.com", "ex[am]ple.com", "exa\x7fmple.com", "a:b:c", "[", "[]", "[::1", "::1", "]", "[::1]x", "%", "a b"}[x.rnd.Intn(12)]
	}
}

func httpPort(class string) string {
	switch class {
	case "none":
		return ""
	case "alpha":
		return ":http"
	case "neg":
		return ":-1"
	default:
		return ":" + class
	}
}

// httpRequest builds the client's bytes for an httpsrv case.
func (x *exec) httpRequest() ([]byte, []int) {
	m := &x.c.M
	method := m.S("method")
	switch method {
	case "BAD":
		method = "G@T"
	case "EMPTY":
		method = ""
	case "LOWER":
		method = "connect"
	}
	host := x.httpHost(m.S("host"))
	if m.S("host") == "badchar" && m.S("port") == "none" {
		// without a port some of the odd strings are names as far as conn.AddrFromHostPort is concerned
		host = []string{"ex%zz.com", "ex[am]ple.com", "exa\x7fmple.com", "a:b:c"}[x.rnd.Intn(4)]
	}
	hp := host + httpPort(m.S("port"))
	var line string
	origin := false
	switch {
	case m.S("method") == "CONNECT" || m.S("method") == "LOWER":
		line = method + " " + hp
	case m.S("host") == "empty":
		line = method + " /path?q=1"
		origin = true
	default:
		line = method + " http://" + hp + "/path?q=1"
	}
	switch m.S("ver") {
	case "1.1":
		line += " HTTP/1.1"
	case "1.0":
		line += " HTTP/1.0"
	case "2.0":
		line += " HTTP/2.0"
	case "0.9":
		line += " HTTP/0.9"
	case "bad":
		line += " HTPT/1.1"
	}
	var hdrs []string
	switch m.S("hosthdr") {
	case "same":
		if origin {
			hdrs = append(hdrs, "Host: ")
		} else {
			hdrs = append(hdrs, "Host: "+hp)
		}
	case "other":
		hdrs = append(hdrs, "Host: other.example:81")
	case "dup":
		hdrs = append(hdrs, "Host: "+hp, "Host: second.example")
	}
	switch m.S("cred") {
	case "ok":
		hdrs = append(hdrs, "Proxy-Authorization: Basic "+base64.StdEncoding.EncodeToString([]byte("user:pass")))
	case "bad":
		hdrs = append(hdrs, "Proxy-Authorization: basic "+base64.StdEncoding.EncodeToString([]byte("user:wrong")))
	case "nonbasic":
		hdrs = append(hdrs, "Proxy-Authorization: Bearer abcdef")
	case "garbage":
		hdrs = append(hdrs, "Proxy-Authorization: Basic !!!not-base64@@@\x01")
	case "short":
		hdrs = append(hdrs, "Proxy-Authorization: "+[]string{"Basic", "Basic ", "B", ""}[x.rnd.Intn(4)])
	}
	switch m.S("conn") {
	case "close":
		hdrs = append(hdrs, "Connection: close")
	case "keep":
		hdrs = append(hdrs, "Proxy-Connection: keep-alive", "Connection: keep-alive, X-Hop", "X-Hop: 1")
	case "upgrade":
		hdrs = append(hdrs, "Connection: Upgrade", "Upgrade: websocket")
	}
	switch m.S("hdr") {
	case "huge":
		hdrs = append(hdrs, "X-Huge: "+strings.Repeat("h", 70000))
	case "nocolon":
		hdrs = append(hdrs, "ThisLineHasNoColon")
	case "nul":
		hdrs = append(hdrs, "X-Nul: a\x00b")
	case "fold":
		hdrs = append(hdrs, "X-Fold: a", " continued")
	case "dupcl":
		hdrs = append(hdrs, "Content-Length: 3", "Content-Length: 4")
	case "space":
		hdrs = append(hdrs, "X Y: z")
	}
	body := ""
	switch m.S("body") {
	case "cl":
		hdrs = append(hdrs, "Content-Length: 5")
		body = "hello"
	case "chunked":
		hdrs = append(hdrs, "Transfer-Encoding: chunked")
		body = "5\r\nhello\r\n0\r\n\r\n"
	case "clbad":
		hdrs = append(hdrs, "Content-Length: "+[]string{"-5", "abc", "99999999999999999999999"}[x.rnd.Intn(3)])
	case "both":
		hdrs = append(hdrs, "Content-Length: 5", "Transfer-Encoding: chunked")
		body = "5\r\nhello\r\n0\r\n\r\n"
	}
	head := line + "\r\n"
	for _, h := range hdrs {
		head += h + "\r\n"
	}
	full := head + "\r\n" + body
	var out string
	switch m.S("cut") {
	case "line":
		out = line[:len(line)/2]
	case "hdr":
		out = head[:len(line)+2+(len(head)-len(line)-2)/2]
		if len(hdrs) == 0 {
			out = line + "\r"
		}
	case "noend":
		out = head
	case "empty":
		out = ""
	case "body":
		out = head + "\r\n" + body[:len(body)/2]
	default:
		out = full
	}
	b := []byte(out)
	offs := []int{len(line), len(head), len(head) + 2}
	return b, segments(x.rnd, len(b), offs)
}

func (x *exec) mkHTTPSrv() (netio.StreamServer, []byte, []int, error) {
	cfg := httpproxy.ServerConfig{EnableBasicAuth: x.c.M.B("auth"), Users: []httpproxy.ServerUserCredentials{{Username: "user", Password: "pass"}}}
	srv, err := cfg.NewProxyServer()
	if err != nil {
		return nil, nil, nil, err
	}
	b, segs := x.httpRequest()
	return srv, b, segs, nil
}

// httpResponse builds the proxy's answer to CONNECT for an httpcli case.
func (x *exec) httpResponse() ([]byte, []int) {
	m := &x.c.M
	line := ""
	switch m.S("ver") {
	case "1.1":
		line = "HTTP/1.1"
	case "1.0":
		line = "HTTP/1.0"
	case "2.0":
		line = "HTTP/2.0"
	case "bad":
		line = "HTPT/1.1"
	}
	switch code := m.S("code"); code {
	case "none":
	case "neg":
		line += " -200 OK"
	case "abc":
		line += " abc OK"
	default:
		line += " " + code + " Status"
	}
	var hdrs []string
	body := ""
	switch m.S("hdr") {
	case "cl":
		hdrs = append(hdrs, "Content-Length: 5")
		body = "hello"
	case "chunked":
		hdrs = append(hdrs, "Transfer-Encoding: chunked")
		body = "5\r\nhello\r\n0\r\n\r\n"
	case "nocolon":
		hdrs = append(hdrs, "ThisLineHasNoColon")
	case "huge":
		hdrs = append(hdrs, "X-Huge: "+strings.Repeat("h", 70000))
	case "nul":
		hdrs = append(hdrs, "X-Nul: a\x00b")
	}
	head := line + "\r\n"
	for _, h := range hdrs {
		head += h + "\r\n"
	}
	full := head + "\r\n" + body + string(x.randNot(m.I("first")))
	out := full
	switch m.S("cut") {
	case "line":
		out = line[:len(line)/2]
	case "hdr":
		out = head[:len(line)+2+(len(head)-len(line)-2)/2]
		if len(hdrs) == 0 {
			out = line + "\r"
		}
	case "noend":
		out = head
	case "empty":
		out = ""
	}
	b := []byte(out)
	return b, segments(x.rnd, len(b), []int{len(line), len(head), len(head) + 2})
}

var originSeq atomic.Int64

// httpOrigin plays the origin server behind a non-CONNECT request: it reads what the forwarder sends and answers
// with a well-formed, a chunked, an interim-then-final, a redirecting, a malformed or no response.
func (x *exec) httpOrigin(pr netio.Conn) {
	base := runtime.NumGoroutine()
	got := make(chan struct{})
	go func() {
		defer close(got)
		b := make([]byte, 4096)
		var acc []byte
		for len(acc) < 200000 {
			n, err := pr.Read(b)
			acc = append(acc, b[:n]...)
			if err != nil || bytes.Contains(acc, []byte("\r\n\r\n")) {
				return
			}
		}
	}()
	select {
	case <-got:
	case <-time.After(5 * time.Second):
	}
	replies := []string{
		"HTTP/1.1 200 OK\r\nContent-Length: 2\r\n\r\nok",
		"HTTP/1.1 200 OK\r\nTransfer-Encoding: chunked\r\nTrailer: X-T\r\n\r\n2\r\nok\r\n0\r\nX-T: 1\r\n\r\n",
		"HTTP/1.1 100 Continue\r\n\r\nHTTP/1.1 204 No Content\r\nConnection: close\r\n\r\n",
		"HTTP/1.1 301 Moved\r\nLocation: http://elsewhere.example/%zz\r\nContent-Length: 0\r\n\r\n",
		"HTTP/1.1 302 Found\r\nLocation: //other.example/x\r\nContent-Length: 0\r\n\r\n",
		"HTTP/1.1 200 OK\r\nContent-Length: 10\r\n\r\nshort",
		"garbage that is not HTTP\r\n\r\n",
		"HTTP/1.1 200 OK\r\nContent-Length: -1\r\n\r\n",
		"",
	}
	// redirect statuses x what the Location field can be: absent, empty, repeated, unparsable, relative, elsewhere
	for _, st := range []string{"301 Moved Permanently", "302 Found", "303 See Other", "307 Temporary Redirect", "308 Permanent Redirect"} {
		for _, loc := range []string{"", "Location: \r\n", "Location: http://a.example/\r\nLocation: http://b.example/\r\n", "Location: http://[::1/\r\n",
			"Location: /relative\r\n", "Location: http://elsewhere.example:8080/x\r\n"} {
			replies = append(replies, "HTTP/1.1 "+st+"\r\n"+loc+"Content-Length: 0\r\n\r\n")
		}
	}
	// every reply gets its turn (the sequence number makes sure of it), in an order that depends on the seed
	resp := replies[(int(originSeq.Add(1))+x.rnd.Intn(3)*13)%len(replies)]
	_, _ = pr.Write([]byte(resp))
	_ = pr.CloseWrite()
	time.Sleep(2 * time.Millisecond)
	_ = pr.Close()
	// let the forwarding goroutines of this connection finish before the next case starts
	for i := 0; i < 400 && runtime.NumGoroutine() > base; i++ {
		time.Sleep(time.Millisecond)
	}
}

// ---------------------------------------------------------------- Shadowsocks 2022, TCP

func flip(b []byte) {
	if len(b) > 0 {
		b[len(b)/2] ^= 0x21
	}
}

// ssSealStream encodes the wire with plaintext segments and seals them in order with one stream cipher
// (nonce 0, 1, 2 ...): every "tag:*" field closes the segment that started after the previous tag (or at the
// field named start).  A tag of class "bad" is damaged after sealing.
func (x *exec) ssSealStream(wire []fieldJ, start string, c *ss2022.ShadowStreamCipher, special func(f fieldJ, name, class string, off int) ([]byte, bool)) ([]byte, []int, error) {
	enc := &encoder{rnd: x.rnd, now: time.Now(), special: special}
	b, err := enc.encode(wire)
	if err != nil {
		return nil, nil, err
	}
	segStart := -1
	off := 0
	for _, f := range wire {
		name, class, _ := strings.Cut(f.F, ":")
		if name == start && segStart < 0 {
			segStart = off
		}
		if name == "tag" && segStart >= 0 {
			plain := b[segStart:off]
			c.EncryptInPlace(plain[: len(plain) : len(plain)+f.N]) // writes the tag into the tag field
			if class != "ok" {
				flip(b[off : off+f.N])
			}
			segStart = off + f.N
		}
		off += f.N
	}
	return b, enc.offs, nil
}

func (x *exec) ssServerCfg(m *msgRaw) (cfg ss2022.StreamServerConfig, ucc ss2022.UserCipherConfig, icc ss2022.ServerIdentityCipherConfig, ursp []byte, err error) {
	saltlen := m.I("saltlen")
	ucc, err = ss2022.NewUserCipherConfig(x.w.psk[saltlen], true)
	if err != nil {
		return
	}
	ursp = key("ursp", m.I("ursp"))
	cfg = ss2022.StreamServerConfig{AllowSegmentedFixedLengthHeader: m.B("allowseg"), UnsafeRequestStreamPrefix: ursp,
		UnsafeResponseStreamPrefix: key("ursp-resp", m.I("ursp")), RejectPolicy: ss2022.JustClose}
	if m.B("fallback") {
		cfg.UnsafeFallbackAddr = conn.AddrFromIPPort(netip.MustParseAddrPort("10.7.7.7:443"))
	}
	if m.B("eih") {
		icc, err = ss2022.NewServerIdentityCipherConfig(x.w.ipsk[saltlen], true)
		cfg.IdentityCipherConfig = icc
	} else {
		cfg.UserCipherConfig = ucc
	}
	return
}

func (x *exec) ssNewServer(m *msgRaw) (*ss2022.StreamServer, ss2022.UserCipherConfig, ss2022.ServerIdentityCipherConfig, []byte, error) {
	cfg, ucc, icc, ursp, err := x.ssServerCfg(m)
	if err != nil {
		return nil, ucc, icc, nil, err
	}
	srv := cfg.NewStreamServer()
	if m.B("eih") {
		su, err := ss2022.NewServerUserCipherConfig("eih-user", ucc.PSK, true)
		if err != nil {
			return nil, ucc, icc, nil, err
		}
		srv.ReplaceUserLookupMap(ss2022.UserLookupMap{ss2022.PSKHash(ucc.PSK): su})
	}
	return srv, ucc, icc, ursp, nil
}

// ssRequestBytes crafts the client's stream for a ss22srv wire.
func (x *exec) ssRequestBytes(wire []fieldJ, m *msgRaw, ucc ss2022.UserCipherConfig, icc ss2022.ServerIdentityCipherConfig, ursp, salt []byte) ([]byte, []int, error) {
	c, err := ucc.ShadowStreamCipher(salt)
	if err != nil {
		return nil, nil, err
	}
	return x.ssSealStream(wire, "type", c, func(f fieldJ, name, class string, _ int) ([]byte, bool) {
		switch name {
		case "ursp":
			b := append([]byte(nil), ursp...)
			if class != "ok" {
				flip(b)
			}
			return b, true
		case "salt":
			return append([]byte(nil), salt...), true
		case "eih":
			psk := ucc.PSK
			if class != "ok" {
				psk = key("unknown-upsk", len(psk))
			}
			h := ss2022.PSKHash(psk)
			blk, err := icc.TCP(salt)
			if err != nil {
				return make([]byte, f.N), true
			}
			out := make([]byte, f.N)
			blk.Encrypt(out, h[:])
			return out, true
		}
		return nil, false
	})
}

func (x *exec) mkSsSrv() (netio.StreamServer, []byte, []int, bool, error) {
	m := &x.c.M
	srv, ucc, icc, ursp, err := x.ssNewServer(m)
	if err != nil {
		return nil, nil, nil, false, err
	}
	salt := x.randNot(m.I("saltlen"))
	if m.S("salt") == "repeat" {
		// the same salt was accepted a moment ago: a well-formed request from the same client
		wire := make([]fieldJ, 0, len(x.c.Wire))
		for _, f := range x.c.Wire {
			if strings.HasPrefix(f.F, "tail") {
				f.N = 0
			}
			wire = append(wire, f)
		}
		b, _, err := x.ssRequestBytes(wire, m, ucc, icc, ursp, salt)
		if err != nil {
			return nil, nil, nil, false, err
		}
		sc := newScriptConn(b, nil)
		var perr error
		x.guard("parse", func() { _, perr = srv.HandleStream(sc, x.w.logger) })
		if perr != nil {
			x.res.Break("case %s: the prelude request that stores the salt was refused: %v", x.c.ID, perr)
		}
	}
	b, offs, err := x.ssRequestBytes(x.c.Wire, m, ucc, icc, ursp, salt)
	if err != nil {
		return nil, nil, nil, false, err
	}
	b = cutTo(b, x.c.Have)
	var segs []int
	if m.S("seg") == "split" {
		segs = []int{1}
		if len(b) > 1 {
			segs = append(segs, segments(x.rnd, len(b)-1, nil)...)
		}
	} else {
		// "whole": the first Read returns everything there is
		segs = nil
		_ = offs
	}
	return srv, b, segs, m.B("fallback"), nil
}

// ssClientFirstRead dials through the real ss2022 client, answers with the crafted response and performs the first Read.
func (x *exec) ssClientFirstRead(ctx context.Context, target conn.Addr, payload []byte) (cc netio.Conn, sc *scriptConn, err error, ok bool) {
	m := &x.c.M
	saltlen := m.I("saltlen")
	ccc, cerr := ss2022.NewClientCipherConfig(x.w.psk[saltlen], nil, true)
	if cerr != nil {
		x.res.Break("%v", cerr)
		return
	}
	sc = newScriptConn(nil, nil)
	inner := &fakeInner{name: "hostile-ss2022", native: true, next: func(conn.Addr, []byte) (netio.Conn, error) { return sc, nil }}
	ursp := key("ursp-resp", m.I("ursp"))
	cl := (&ss2022.StreamClientConfig{Name: "c", InnerClient: inner, Addr: conn.AddrFromIPPort(x.w.nextHop), CipherConfig: ccc,
		AllowSegmentedFixedLengthHeader: m.B("allowseg"), UnsafeResponseStreamPrefix: ursp}).NewStreamClient()
	if !x.guard("dial", func() { cc, err = cl.DialStream(ctx, target, payload) }) || err != nil {
		if err != nil {
			x.res.Break("case %s: the ss2022 client could not send its request: %v", x.c.ID, err)
		}
		return nil, sc, err, false
	}
	reqBytes := sc.written()
	if len(reqBytes) < saltlen {
		x.res.Break("case %s: the client wrote %d bytes", x.c.ID, len(reqBytes))
		return nil, sc, nil, false
	}
	reqSalt := reqBytes[:saltlen]
	respSalt := x.randNot(saltlen)
	ucc, _ := ss2022.NewUserCipherConfig(x.w.psk[saltlen], true)
	c, _ := ucc.ShadowStreamCipher(respSalt)
	b, _, eerr := x.ssSealStream(x.c.Wire, "type", c, func(f fieldJ, name, class string, _ int) ([]byte, bool) {
		switch name {
		case "ursp":
			b := append([]byte(nil), ursp...)
			if class != "ok" {
				flip(b)
			}
			return b, true
		case "salt":
			return append([]byte(nil), respSalt...), true
		case "reqsalt":
			b := append([]byte(nil), reqSalt...)
			if class != "ok" {
				flip(b)
			}
			return b, true
		}
		return nil, false
	})
	if eerr != nil {
		x.res.Break("case %s: %v", x.c.ID, eerr)
		return nil, sc, nil, false
	}
	b = cutTo(b, x.c.Have)
	var segs []int
	if m.S("seg") == "split" {
		segs = []int{1}
	}
	sc.mu.Lock()
	sc.feed(b, segs)
	sc.mu.Unlock()
	buf := make([]byte, []int{1, 16, 4096, 70000}[x.rnd.Intn(4)])
	ok = x.guard("parse", func() {
		if x.rnd.Intn(4) == 0 {
			// the WriterTo path drains the whole stream: the first payload counts, what follows is the relay's business
			var n int64
			n, err = cc.(io.WriterTo).WriteTo(io.Discard)
			if n > 0 {
				err = nil
			} else if err == nil {
				err = io.EOF
			}
		} else {
			_, err = cc.Read(buf)
		}
	})
	return cc, sc, err, ok
}

// chunk: one length chunk + payload chunk of an established stream, read by the client (even k) or the server (odd k).
func (x *exec) chunk() {
	m := &x.c.M
	ctx, cancel := context.WithTimeout(context.Background(), 30*time.Second)
	defer cancel()
	saltlen := 32
	ucc, _ := ss2022.NewUserCipherConfig(x.w.psk[saltlen], true)
	var rd netio.Conn
	var sc *scriptConn
	var c *ss2022.ShadowStreamCipher
	var prefix []byte
	if x.k%2 == 0 {
		// client side: valid response header and first chunk, then the case
		ccc, _ := ss2022.NewClientCipherConfig(x.w.psk[saltlen], nil, true)
		sc = newScriptConn(nil, nil)
		inner := &fakeInner{name: "ss", native: true, next: func(conn.Addr, []byte) (netio.Conn, error) { return sc, nil }}
		cl := (&ss2022.StreamClientConfig{Name: "c", InnerClient: inner, Addr: conn.AddrFromIPPort(x.w.nextHop), CipherConfig: ccc}).NewStreamClient()
		var err error
		if !x.guard("dial", func() { rd, err = cl.DialStream(ctx, x.randomTarget(), nil) }) || err != nil {
			return
		}
		reqSalt := sc.written()[:saltlen]
		respSalt := x.randNot(saltlen)
		c, _ = ucc.ShadowStreamCipher(respSalt)
		hdr := make([]byte, 0, 128)
		hdr = ss2022.AppendTCPResponseHeader(hdr, time.Now(), reqSalt, 3)
		prefix = append(prefix, respSalt...)
		prefix = append(prefix, c.EncryptInPlace(hdr[:len(hdr):len(hdr)+16])...)
		first := make([]byte, 3, 3+16)
		copy(first, "abc")
		prefix = append(prefix, c.EncryptInPlace(first)...)
	} else {
		// server side: valid request, then the case
		salt := x.randNot(saltlen)
		c, _ = ucc.ShadowStreamCipher(salt)
		target := conn.AddrFromIPPort(netip.MustParseAddrPort("10.1.1.1:443"))
		varLen := socks5.LengthOfAddrFromConnAddr(target) + 2 + 3 + 2
		fixed := make([]byte, ss2022.TCPRequestFixedLengthHeaderLength, ss2022.TCPRequestFixedLengthHeaderLength+16)
		ss2022.PutTCPRequestFixedLengthHeader(fixed, time.Now(), varLen)
		variable := make([]byte, varLen, varLen+16)
		ss2022.PutTCPRequestVariableLengthHeader(variable, target, []byte("hi"))
		prefix = append(prefix, salt...)
		prefix = append(prefix, c.EncryptInPlace(fixed)...)
		prefix = append(prefix, c.EncryptInPlace(variable)...)
		sc = newScriptConn(nil, nil)
	}
	b, _, err := x.ssSealStream(x.c.Wire, "clen", c, nil)
	if err != nil {
		x.res.Break("case %s: %v", x.c.ID, err)
		return
	}
	b = cutTo(b, x.c.Have)
	sc.mu.Lock()
	sc.feed(append(prefix, b...), nil)
	sc.mu.Unlock()
	if x.k%2 == 1 {
		srv := (&ss2022.StreamServerConfig{UserCipherConfig: ucc}).NewStreamServer()
		var req netio.ConnRequest
		var herr error
		if !x.guard("parse", func() { req, herr = srv.HandleStream(sc, x.w.logger) }) {
			return
		}
		if herr != nil {
			x.res.Break("case %s: the well-formed request in front of the chunk was refused: %v", x.c.ID, herr)
			return
		}
		rd, _ = req.Proceed()
	}
	var rerr error
	buf := make([]byte, []int{1, 16, 4096, 70000}[x.rnd.Intn(4)])
	ok := x.guard("parse", func() {
		if x.k%2 == 0 {
			// the first Read delivers the first chunk of the response
			if _, rerr = rd.Read(make([]byte, 70000)); rerr != nil {
				return
			}
		}
		if x.rnd.Intn(4) == 0 {
			var n int64
			n, rerr = rd.(io.WriterTo).WriteTo(io.Discard)
			if n > 0 {
				rerr = nil
			} else if rerr == nil {
				rerr = io.EOF
			}
		} else {
			_, rerr = rd.Read(buf)
		}
	})
	if !ok {
		return
	}
	o := obs{v: "request"}
	if rerr != nil {
		o = obs{v: "rejected", err: rerr.Error()}
	}
	x.verdict(o, false)
	x.guard("relay", func() {
		for i := 0; i < 8; i++ {
			if _, err := rd.Read(buf); err != nil {
				break
			}
		}
		_, _ = rd.Write([]byte("more"))
		_ = rd.Close()
	})
	_ = m
}

// ---------------------------------------------------------------- datagram servers

func (x *exec) srcAddr(class string) netip.AddrPort {
	if class == "other" {
		return netip.MustParseAddrPort("192.0.2.77:5353")
	}
	if x.rnd.Intn(2) == 0 {
		// the same endpoint as an IPv4-mapped IPv6 address (what a dual-stack socket reports)
		return netip.AddrPortFrom(netip.AddrFrom16(x.w.nextHop.Addr().As16()), x.w.nextHop.Port())
	}
	return x.w.nextHop
}

func (x *exec) udpServer() {
	m := &x.c.M
	var up zerocopy.ServerUnpacker
	var hr zerocopy.Headroom
	var pkt []byte
	var err error
	username := ""
	var prelude [][]byte
	var ssrv *ss2022.UDPServer
	switch x.c.Ep {
	case "s5udpsrv":
		s := direct.Socks5UDPNATServer{}
		hr = s.Info().UnpackerHeadroom
		up, _ = s.NewUnpacker()
		pkt, _, err = x.encodePlain(nil)
	case "noneudpsrv":
		s := direct.ShadowsocksNoneUDPNATServer{}
		hr = s.Info().UnpackerHeadroom
		up, _ = s.NewUnpacker()
		pkt, _, err = x.encodePlain(nil)
	case "directudp":
		s := direct.NewDirectUDPNATServer(conn.AddrFromIPPort(netip.MustParseAddrPort("10.3.3.3:53")), false)
		hr = s.Info().UnpackerHeadroom
		up, _ = s.NewUnpacker()
		pkt, _, err = x.encodePlain(nil)
	case "ss22udpsrv":
		ssrv, pkt, prelude, err = x.ssUDPServerPacket()
		if ssrv != nil {
			hr = ssrv.Info().UnpackerHeadroom
		}
	}
	if err != nil {
		x.res.Break("case %s: %v", x.c.ID, err)
		return
	}
	pkt = cutTo(pkt, x.c.Have)
	var target conn.Addr
	var start, length int
	var uerr error
	var buf []byte
	var front int
	ok := x.guard("parse", func() {
		if ssrv != nil {
			// service/udp_session.go: SessionInfo, NewUnpacker for a new session, UnpackInPlace
			for _, p := range append(prelude, pkt) {
				buf, front = x.serverBuf(p, hr)
				packet := buf[front : front+len(p)]
				var csid uint64
				csid, uerr = ssrv.SessionInfo(packet)
				if uerr != nil {
					continue
				}
				if up == nil {
					up, username, uerr = ssrv.NewUnpacker(packet, csid)
					if uerr != nil {
						up = nil
						continue
					}
				}
				target, start, length, uerr = up.UnpackInPlace(buf, x.sourceAddr(), front, len(p))
			}
			return
		}
		buf, front = x.serverBuf(pkt, hr)
		target, start, length, uerr = up.UnpackInPlace(buf, x.sourceAddr(), front, len(pkt))
	})
	if !ok {
		return
	}
	o := obs{v: "request"}
	if uerr != nil {
		o = obs{v: "rejected", err: uerr.Error()}
	}
	x.verdict(o, false)
	if uerr != nil {
		return
	}
	if start < 0 || length < 0 || start+length > len(buf) {
		x.violation(x.c.Ep+"/payload-out-of-buffer", fmt.Sprintf("%s: accepted payload [%d,%d) lies outside the %d-byte buffer", x.c.Ep, start, start+length, len(buf)))
		return
	}
	x.res.Seen(fmt.Sprintf("req/%s/%v/%d/%d", x.c.Ep, target.IsDomain(), lenClass(target), portClass(target.Port())))
	x.routeUDP(buf, target, start, length, username)
	// the reply direction of the same session
	x.guard("relay", func() {
		p, err := up.NewPacker()
		if err != nil {
			return
		}
		front := p.ServerPackerInfo().Headroom.Front
		b := make([]byte, front+64+p.ServerPackerInfo().Headroom.Rear)
		_, _, _ = p.PackInPlace(b, netip.MustParseAddrPort("[2001:db8::5]:53"), front, 64, 1472)
	})
	_ = m
}

// ssUDPServerPacket crafts a client packet for the ss2022 UDP server.  prelude holds well-formed packets of the same
// session that are delivered first (the packet id of the case is then a replay).
func (x *exec) ssUDPServerPacket() (*ss2022.UDPServer, []byte, [][]byte, error) {
	m := &x.c.M
	ucc, err := ss2022.NewUserCipherConfig(x.w.psk[32], true)
	if err != nil {
		return nil, nil, nil, err
	}
	var srv *ss2022.UDPServer
	var sepBlock cipher.Block
	var icc ss2022.ServerIdentityCipherConfig
	if m.B("eih") {
		icc, err = ss2022.NewServerIdentityCipherConfig(x.w.ipsk[32], true)
		if err != nil {
			return nil, nil, nil, err
		}
		srv = ss2022.NewUDPServer(0, ss2022.UserCipherConfig{}, icc, ss2022.PadAll)
		su, _ := ss2022.NewServerUserCipherConfig("eih-user", ucc.PSK, true)
		srv.ReplaceUserLookupMap(ss2022.UserLookupMap{ss2022.PSKHash(ucc.PSK): su})
		sepBlock = icc.UDP()
	} else {
		srv = ss2022.NewUDPServer(0, ucc, ss2022.ServerIdentityCipherConfig{}, ss2022.PadAll)
		sepBlock = ucc.Block()
	}
	sid := x.randNot(8)
	pid := x.randNot(8)
	pid[0] &= 0x7f
	craft := func(wire []fieldJ, damage bool) ([]byte, error) {
		enc := &encoder{rnd: x.rnd, now: time.Now(), special: func(f fieldJ, name, class string, _ int) ([]byte, bool) {
			switch name {
			case "sid":
				return append([]byte(nil), sid...), true
			case "pid":
				return append([]byte(nil), pid...), true
			case "eih":
				return make([]byte, f.N), true
			case "tag":
				return make([]byte, f.N), true
			}
			return nil, false
		}}
		b, err := enc.encode(wire)
		if err != nil {
			return nil, err
		}
		sep := b[:16]
		bodyStart := 16
		if m.B("eih") {
			bodyStart = 32
		}
		aead, err := ucc.AEAD(sep[:8])
		if err != nil {
			return nil, err
		}
		plain := b[bodyStart : len(b)-16]
		aead.Seal(plain[:0], sep[4:16], plain, nil)
		if damage {
			flip(b[len(b)-16:])
		}
		if m.B("eih") {
			psk := ucc.PSK
			if m.S("user") != "ok" {
				psk = key("unknown-upsk", len(psk))
			}
			h := ss2022.PSKHash(psk)
			ih := b[16:32]
			subtle.XORBytes(ih, h[:], sep)
			sepBlock.Encrypt(ih, ih)
		}
		sepBlock.Encrypt(sep, sep)
		return b, nil
	}
	var prelude [][]byte
	if m.S("pid") == "replay" {
		// a well-formed packet with the same session id and packet id arrived before
		ok := make([]fieldJ, 0, len(x.c.Wire))
		for _, f := range x.c.Wire {
			if strings.HasPrefix(f.F, "type") {
				f.V = x.w.k["TypeCliPacket"]
			}
			if strings.HasPrefix(f.F, "ts") {
				f.V = 0
			}
			ok = append(ok, f)
		}
		p, err := craft(ok, false)
		if err != nil {
			return nil, nil, nil, err
		}
		prelude = append(prelude, p)
	}
	pkt, err := craft(x.c.Wire, m.S("auth") != "ok")
	return srv, pkt, prelude, err
}

// ---------------------------------------------------------------- datagram clients

type packerMaker func() (zerocopy.ServerPacker, int)

func (w *world) serverPackers() map[string]packerMaker {
	ucc, _ := ss2022.NewUserCipherConfig(w.psk[32], true)
	return map[string]packerMaker{
		"socks5": func() (zerocopy.ServerPacker, int) {
			p := direct.Socks5PacketServerPacker{}
			return p, p.ServerPackerInfo().Headroom.Front
		},
		"none": func() (zerocopy.ServerPacker, int) {
			p := direct.ShadowsocksNonePacketServerPacker{}
			return p, p.ServerPackerInfo().Headroom.Front
		},
		"direct": func() (zerocopy.ServerPacker, int) {
			p := direct.NewDirectPacketServerPackUnpacker(conn.AddrFromIPPort(netip.MustParseAddrPort("10.3.3.3:53")), true)
			return p, 0
		},
		"ss2022": func() (zerocopy.ServerPacker, int) {
			srv := ss2022.NewUDPServer(0, ucc, ss2022.ServerIdentityCipherConfig{}, ss2022.PadAll)
			pkt := make([]byte, 64)
			up, _, err := srv.NewUnpacker(pkt, 7)
			if err != nil {
				return direct.ShadowsocksNonePacketServerPacker{}, 19
			}
			p, err := up.NewPacker()
			if err != nil {
				return direct.ShadowsocksNonePacketServerPacker{}, 19
			}
			return p, p.ServerPackerInfo().Headroom.Front
		},
	}
}

func (x *exec) udpClient() {
	m := &x.c.M
	ctx, cancel := context.WithTimeout(context.Background(), 30*time.Second)
	defer cancel()
	var un zerocopy.ClientUnpacker
	var pkt []byte
	var prelude [][]byte
	var err error
	switch x.c.Ep {
	case "s5udpcli":
		un = direct.NewSocks5PacketClientUnpacker(x.w.nextHop)
		pkt, _, err = x.encodePlain(nil)
	case "noneudpcli":
		un = direct.NewShadowsocksNonePacketClientUnpacker(x.w.nextHop)
		pkt, _, err = x.encodePlain(nil)
	case "ss22udpcli":
		un, pkt, prelude, err = x.ssUDPClientPacket(ctx)
	}
	if err != nil {
		x.res.Break("case %s: %v", x.c.ID, err)
		return
	}
	pkt = cutTo(pkt, x.c.Have)
	// service/udp_*.go downlink: packetBuf = headroom.Front + natConnRecvBufSize + headroom.Rear, with
	// headroom = UDPRelayHeadroom(server packer headroom, client unpacker headroom); the largest server packer is assumed
	front := 0
	for _, mk := range x.w.serverPackers() {
		_, f := mk()
		if d := f - un.ClientUnpackerInfo().Headroom.Front; d > front {
			front = d
		}
	}
	src := x.srcAddr(m.S("src"))
	var from netip.AddrPort
	var start, length int
	var uerr error
	var buf []byte
	ok := x.guard("parse", func() {
		for _, p := range append(prelude, pkt) {
			recv := 1472
			if len(p) > recv {
				recv = len(p)
			}
			buf = make([]byte, front+recv+16)
			x.rnd.Read(buf)
			copy(buf[front:], p)
			from, start, length, uerr = un.UnpackInPlace(buf, src, front, len(p))
		}
	})
	if !ok {
		return
	}
	o := obs{v: "request"}
	if uerr != nil {
		o = obs{v: "rejected", err: uerr.Error()}
	}
	x.verdict(o, false)
	if uerr != nil {
		return
	}
	if start < 0 || length < 0 || start+length > len(buf) {
		x.violation(x.c.Ep+"/payload-out-of-buffer", fmt.Sprintf("%s: accepted payload [%d,%d) lies outside the %d-byte buffer", x.c.Ep, start, start+length, len(buf)))
		return
	}
	x.res.Seen(fmt.Sprintf("from/%s/%v/%d", x.c.Ep, from.Addr().Is4(), portClass(from.Port())))
	x.downlink(buf, from, start, length)
}

// ssUDPClientPacket crafts a server packet for the ss2022 UDP client session.  The session states of the model:
//
//	new    the first packet of a server session the client has not seen
//	cur    a packet of the current server session (a well-formed packet of it arrived before)
//	old    a packet of the previous server session (well-formed packets of two sessions arrived before)
//	third  a third server session within a minute of the second
func (x *exec) ssUDPClientPacket(ctx context.Context) (zerocopy.ClientUnpacker, []byte, [][]byte, error) {
	m := &x.c.M
	ccc, err := ss2022.NewClientCipherConfig(x.w.psk[32], nil, true)
	if err != nil {
		return nil, nil, nil, err
	}
	cl := ss2022.NewUDPClient("c", "ip", conn.AddrFromIPPort(x.w.nextHop), 1500, conn.DefaultUDPClientListenConfig, 0, ccc, ss2022.NoPadding)
	info, session, err := cl.NewSession(ctx)
	if err != nil {
		return nil, nil, nil, err
	}
	// learn the client session id from a packet of the session
	hr := info.PackerHeadroom
	b := make([]byte, hr.Front+8+hr.Rear)
	_, ps, _, err := session.Packer.PackInPlace(ctx, b, conn.AddrFromIPPort(netip.MustParseAddrPort("10.1.1.1:53")), hr.Front, 8)
	if err != nil {
		return nil, nil, nil, err
	}
	sep := append([]byte(nil), b[ps:ps+16]...)
	ccc.Block().Decrypt(sep, sep)
	csid := sep[:8]
	ucc, _ := ss2022.NewUserCipherConfig(x.w.psk[32], true)
	craft := func(wire []fieldJ, ssid, pid []byte, damage bool) ([]byte, error) {
		enc := &encoder{rnd: x.rnd, now: time.Now(), special: func(f fieldJ, name, class string, _ int) ([]byte, bool) {
			switch name {
			case "sid":
				return append([]byte(nil), ssid...), true
			case "pid":
				return append([]byte(nil), pid...), true
			case "csid":
				c := append([]byte(nil), csid...)
				if class != "ok" {
					flip(c)
				}
				return c, true
			case "tag":
				return make([]byte, f.N), true
			}
			return nil, false
		}}
		b, err := enc.encode(wire)
		if err != nil {
			return nil, err
		}
		sep := b[:16]
		aead, err := ucc.AEAD(sep[:8])
		if err != nil {
			return nil, err
		}
		plain := b[16 : len(b)-16]
		aead.Seal(plain[:0], sep[4:16], plain, nil)
		if damage {
			flip(b[len(b)-16:])
		}
		ucc.Block().Encrypt(sep, sep)
		return b, nil
	}
	good := func() []fieldJ {
		ok := make([]fieldJ, 0, len(x.c.Wire))
		for _, f := range x.c.Wire {
			name, _, _ := strings.Cut(f.F, ":")
			switch name {
			case "type":
				f.V = x.w.k["TypeSrvPacket"]
			case "ts":
				f.V = 0
			case "csid":
				f.F = "csid:ok"
			case "atyp":
				if f.V != x.w.k["AtypV4"] && f.V != x.w.k["AtypV6"] {
					return nil
				}
			}
			ok = append(ok, f)
		}
		return ok
	}
	s1, s2, s3 := x.randNot(8), x.randNot(8), x.randNot(8)
	pidOf := func(n byte) []byte { return []byte{0, 0, 0, 0, 0, 0, 1, n} }
	var prelude [][]byte
	ssid, pid := s1, pidOf(5)
	base := []fieldJ{{F: "sid", N: 8, V: -1}, {F: "pid", N: 8, V: -1}, {F: "type", N: 1, V: x.w.k["TypeSrvPacket"]}, {F: "ts", N: 8, V: 0},
		{F: "csid:ok", N: 8, V: -1}, {F: "padlen", N: 2, V: 0}, {F: "atyp", N: 1, V: x.w.k["AtypV4"]}, {F: "ip4:typ", N: 4, V: -1},
		{F: "port", N: 2, V: 53}, {F: "payload", N: 8, V: -1}, {F: "tag:ok", N: 16, V: -1}}
	_ = good
	add := func(s []byte, n byte) error {
		p, err := craft(base, s, pidOf(n), false)
		prelude = append(prelude, p)
		return err
	}
	switch m.S("sess") {
	case "cur":
		err = add(s1, 1)
	case "old":
		if err = add(s1, 1); err == nil {
			err = add(s2, 1)
		}
	case "third":
		if err = add(s1, 1); err == nil {
			err = add(s2, 1)
		}
		ssid = s3
	}
	if err != nil {
		return nil, nil, nil, err
	}
	if m.S("pid") == "replay" {
		pid = pidOf(1) // the id of the well-formed packet that arrived before
	}
	pkt, err := craft(x.c.Wire, ssid, pid, m.S("auth") != "ok")
	return session.Unpacker, pkt, prelude, err
}

var _ = errors.New
var _ = binary.BigEndian
