//go:build verif

package c06

import (
	"bytes"
	"encoding/binary"
	"encoding/json"
	"fmt"
	"math/rand"
	"net/netip"
	"strings"
	"time"
)

// ---------------------------------------------------------------- JSON shapes emitted by MCLattice.tla

type addrJ struct {
	Atyp int    `json:"atyp"`
	Dlen int    `json:"dlen"`
	Dk   string `json:"dk"`
	Port int    `json:"port"`
}

type fieldJ struct {
	F string `json:"f"`
	N int    `json:"n"`
	V int64  `json:"v"`
}

type reqJ struct {
	Tk       string `json:"tk"`
	Dlen     int    `json:"dlen"`
	Dk       string `json:"dk"`
	Port     int    `json:"port"`
	Fallback bool   `json:"fallback"`
}

type caseJ struct {
	ID    string   `json:"id"`
	Ep    string   `json:"ep"`
	M     msgRaw   `json:"m"`
	Have  int      `json:"have"`
	Wire  []fieldJ `json:"wire"`
	Need  int      `json:"need"`
	V     string   `json:"v"`
	Why   string   `json:"why"`
	Req   reqJ     `json:"req"`
	Rdpos int      `json:"rdpos"`
	Wrote int      `json:"wrote"`
}

// msgRaw keeps the raw object and decodes the fields leniently (the same name has different types in
// different entry points).
type msgRaw struct {
	raw map[string]json.RawMessage
	A   addrJ
}

func (m *msgRaw) UnmarshalJSON(b []byte) error {
	if err := json.Unmarshal(b, &m.raw); err != nil {
		return err
	}
	if a, ok := m.raw["a"]; ok {
		_ = json.Unmarshal(a, &m.A)
	}
	return nil
}

func (m msgRaw) MarshalJSON() ([]byte, error) { return json.Marshal(m.raw) }

func (m *msgRaw) S(k string) string {
	var s string
	_ = json.Unmarshal(m.raw[k], &s)
	return s
}
func (m *msgRaw) I(k string) int {
	var v int
	_ = json.Unmarshal(m.raw[k], &v)
	return v
}
func (m *msgRaw) B(k string) bool {
	var v bool
	_ = json.Unmarshal(m.raw[k], &v)
	return v
}

type routeJ struct {
	Name string `json:"name"`
	Port string `json:"port"`
	Dom  string `json:"dom"`
	Pfx  string `json:"pfx"`
	Cl   string `json:"cl"`
}

type catJ struct {
	Routes  []routeJ   `json:"routes"`
	Clients []string   `json:"clients"`
	Dial    [][2]int64 `json:"dial"`
}

// ---------------------------------------------------------------- concretisation

const (
	wantedNone = -1
)

// userName / userPass give the configured credentials of the SOCKS5 user whose name has ulen bytes and
// whose password has plen bytes (one user per pair, so that every "ok" class has a matching account).
func userName(ulen, plen int) []byte {
	b := bytes.Repeat([]byte{'u'}, ulen)
	if ulen > 0 {
		b[0] = byte('a' + (plen % 23))
	}
	if ulen > 1 {
		b[ulen-1] = byte('A' + (plen*7)%23)
	}
	return b
}

func userPass(ulen, plen int) []byte {
	b := bytes.Repeat([]byte{'p'}, plen)
	if plen > 0 {
		b[0] = byte('k' + (ulen % 11))
	}
	return b
}

var credLens = []int{1, 2, 11, 63, 64, 254, 255}

const hitSuffix = "example.com"

// domainBytes concretises a domain name of n bytes of the given class.
//
//	hit  a name under example.com (or example.com itself), LDH labels
//	ldh  letters, digits, hyphens and dots that do not end in example.com and do not contain the keyword
//	bin  arbitrary bytes (NUL, high bytes, dots, colons, slashes, spaces)
func domainBytes(rnd *rand.Rand, n int, kind string) []byte {
	if n == 0 {
		return nil
	}
	b := make([]byte, n)
	const ldh = "abcdfghijkoqrstuvwyz0123456789-" // no e, l, m, n, p, x: cannot spell the keyword or the suffix
	fillLDH := func(b []byte, dots bool) {
		run := 0
		for i := range b {
			b[i] = ldh[rnd.Intn(len(ldh))]
			run++
			if dots && run > 1 && i > 0 && i < len(b)-1 && (run >= 63 || rnd.Intn(9) == 0) {
				b[i] = '.'
				run = 0
			}
		}
	}
	switch kind {
	case "hit":
		if n < len(hitSuffix) {
			fillLDH(b, false)
			return b
		}
		copy(b[n-len(hitSuffix):], hitSuffix)
		if n > len(hitSuffix) {
			b[n-len(hitSuffix)-1] = '.'
			// labels of legal size, or (one concretisation in four) one over-long label
			fillLDH(b[:n-len(hitSuffix)-1], rnd.Intn(4) != 0)
		}
	case "bin":
		rnd.Read(b)
		specials := []byte{0, '.', ':', '/', ' ', '%', 0xff, '[', ']', '@', '\r', '\n', '*'}
		for i := 0; i < 1+n/8; i++ {
			b[rnd.Intn(n)] = specials[rnd.Intn(len(specials))]
		}
		if n >= len(hitSuffix) && bytes.HasSuffix(b, []byte(hitSuffix)) {
			b[n-1] = 0
		}
	default: // ldh
		fillLDH(b, rnd.Intn(3) != 0)
		if rnd.Intn(5) == 0 {
			b[n-1] = '.' // trailing dot
		}
		if rnd.Intn(7) == 0 {
			b[0] = '.'
		}
	}
	return b
}

func ip4Bytes(rnd *rand.Rand, kind string) []byte {
	switch kind {
	case "zero":
		return []byte{0, 0, 0, 0}
	case "pfx":
		return []byte{10, byte(rnd.Intn(256)), byte(rnd.Intn(256)), byte(1 + rnd.Intn(254))}
	default:
		return []byte{byte(11 + rnd.Intn(100)), byte(rnd.Intn(256)), byte(rnd.Intn(256)), byte(1 + rnd.Intn(254))}
	}
}

func ip6Bytes(rnd *rand.Rand, kind string) []byte {
	b := make([]byte, 16)
	switch kind {
	case "zero":
	case "mapped":
		copy(b, []byte{0, 0, 0, 0, 0, 0, 0, 0, 0, 0, 0xff, 0xff, 192, 0, 2, byte(1 + rnd.Intn(254))})
	case "pfx":
		rnd.Read(b)
		b[0] = 0xfd
		b[1] = 0
	default:
		rnd.Read(b)
		b[0], b[1], b[2], b[3] = 0x20, 0x01, 0x0d, 0xb8
	}
	return b
}

// encoder turns the wire description of a case into bytes.  Fields whose content depends on the entry
// point (credentials, salts, tags ...) are delegated to special.
type encoder struct {
	rnd     *rand.Rand
	now     time.Time
	special func(f fieldJ, name, class string, off int) ([]byte, bool)
	// offs[i] is the offset of field i in the output
	offs []int
}

func (e *encoder) encode(wire []fieldJ) ([]byte, error) {
	var out []byte
	e.offs = e.offs[:0]
	for _, f := range wire {
		e.offs = append(e.offs, len(out))
		name, class, _ := strings.Cut(f.F, ":")
		if e.special != nil {
			if b, ok := e.special(f, name, class, len(out)); ok {
				if len(b) > f.N {
					b = b[:f.N] // the model cut the field short (a sealed prefix)
				}
				if len(b) != f.N {
					return nil, fmt.Errorf("field %s: special encoder produced %d bytes, the model says %d", f.F, len(b), f.N)
				}
				out = append(out, b...)
				continue
			}
		}
		// a field the model cut short (a sealed prefix) carries the first bytes of its full encoding
		full := map[string]int{"ts": 8, "ip4": 4, "ip6": 16, "port": 2, "padlen": 2}[name]
		switch {
		case name == "ts":
			out = append(out, binary.BigEndian.AppendUint64(nil, uint64(e.now.Unix()+f.V))[:f.N]...)
		case name == "dom":
			out = append(out, domainBytes(e.rnd, f.N, class)...)
		case name == "ip4":
			out = append(out, ip4Bytes(e.rnd, class)[:f.N]...)
		case name == "ip6":
			out = append(out, ip6Bytes(e.rnd, class)[:f.N]...)
		case f.V >= 0 && full > f.N:
			var b [8]byte
			binary.BigEndian.PutUint64(b[:], uint64(f.V))
			out = append(out, b[8-full:8-full+f.N]...)
		case f.V >= 0 && f.N <= 8:
			var b [8]byte
			binary.BigEndian.PutUint64(b[:], uint64(f.V))
			out = append(out, b[8-f.N:]...)
		case f.V >= 0:
			return nil, fmt.Errorf("field %s: numeric field of %d bytes", f.F, f.N)
		default:
			b := make([]byte, f.N)
			e.rnd.Read(b)
			out = append(out, b...)
		}
	}
	e.offs = append(e.offs, len(out))
	return out, nil
}

func wireLen(wire []fieldJ) int {
	n := 0
	for _, f := range wire {
		n += f.N
	}
	return n
}

// fieldOffset returns the offset and size of the first field with the given name (without class).
func fieldOffset(wire []fieldJ, name string) (off, n int, ok bool) {
	for _, f := range wire {
		fn, _, _ := strings.Cut(f.F, ":")
		if fn == name {
			return off, f.N, true
		}
		off += f.N
	}
	return 0, 0, false
}

// segments draws a segmentation of n bytes: whole, byte-at-a-time, at the field boundaries, or random cuts.
func segments(rnd *rand.Rand, n int, offs []int) []int {
	switch rnd.Intn(4) {
	case 0:
		return nil // one segment
	case 1:
		if n <= 600 {
			s := make([]int, n)
			for i := range s {
				s[i] = 1
			}
			return s
		}
		fallthrough
	case 2:
		var s []int
		prev := 0
		for _, o := range offs {
			if o > prev && o <= n {
				s = append(s, o-prev)
				prev = o
			}
		}
		return s
	default:
		var s []int
		left := n
		for left > 0 {
			k := 1 + rnd.Intn(1+left)
			if k > left {
				k = left
			}
			s = append(s, k)
			left -= k
		}
		return s
	}
}

func addrPortOf(b []byte, port int) netip.AddrPort {
	a, _ := netip.AddrFromSlice(b)
	return netip.AddrPortFrom(a, uint16(port))
}
