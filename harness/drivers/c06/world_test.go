//go:build verif

package c06

import (
	"context"
	"crypto/sha256"
	"encoding/binary"
	"errors"
	"fmt"
	"net"
	"net/netip"
	"os"
	"path/filepath"
	"strconv"
	"strings"

	"github.com/database64128/shadowsocks-go/conn"
	"github.com/database64128/shadowsocks-go/direct"
	"github.com/database64128/shadowsocks-go/dns"
	"github.com/database64128/shadowsocks-go/domainset"
	"github.com/database64128/shadowsocks-go/httpproxy"
	"github.com/database64128/shadowsocks-go/netio"
	"github.com/database64128/shadowsocks-go/router"
	"github.com/database64128/shadowsocks-go/socks5"
	"github.com/database64128/shadowsocks-go/ss2022"
	"github.com/database64128/shadowsocks-go/ssnone"
	"github.com/database64128/shadowsocks-go/zerocopy"
	"go.uber.org/zap"
	"golang.org/x/net/dns/dnsmessage"
)

// world holds the real objects downstream of the parsers: one Router per route configuration of
// the model (each port-criterion representation, each domain matcher, prefix criteria with and
// without name resolution), the real client encoders over scripted next hops, and a real
// dns.Resolver (TCP, scripted upstream) that the router uses to resolve hostile names.
type world struct {
	dir     string
	logger  *zap.Logger
	k       map[string]int64
	cat     catJ
	routes  map[string]routeJ
	routers map[string]*router.Router
	tcp     map[string]netio.StreamClient
	udp     map[string]zerocopy.UDPClient
	// largest packer headroom of all UDP clients: the relay sizes its receive buffers with it
	maxPacker zerocopy.Headroom
	repOf     map[int]int

	psk      map[int][]byte // uPSK by length
	ipsk     map[int][]byte // iPSK by length
	nextHop  netip.AddrPort
	resolver *dns.Resolver
}

func key(tag string, n int) []byte {
	var out []byte
	for i := 0; len(out) < n; i++ {
		h := sha256.Sum256(fmt.Appendf(nil, "c06/%s/%d", tag, i))
		out = append(out, h[:]...)
	}
	return out[:n]
}

// fakeUDPClient wraps packers that the repository only hands out after a real TCP association (SOCKS5).
type fakeUDPClient struct {
	info    zerocopy.UDPClientSessionInfo
	session func() zerocopy.UDPClientSession
}

func (c *fakeUDPClient) Info() zerocopy.UDPClientInfo {
	return zerocopy.UDPClientInfo{Name: c.info.Name, PackerHeadroom: c.info.PackerHeadroom}
}

func (c *fakeUDPClient) NewSession(ctx context.Context) (zerocopy.UDPClientSessionInfo, zerocopy.UDPClientSession, error) {
	return c.info, c.session(), nil
}

// dnsAnswer builds a well-formed response to one query: one A / AAAA record inside the routed prefixes.
func dnsAnswer(q []byte) []byte { return dnsAnswerOpt(q, false) }

// dnsAnswerOpt: empty = a well-formed answer without records (NODATA).
func dnsAnswerOpt(q []byte, empty bool) []byte {
	var p dnsmessage.Parser
	h, err := p.Start(q)
	if err != nil {
		return nil
	}
	qs, err := p.AllQuestions()
	if err != nil || len(qs) != 1 {
		return nil
	}
	m := dnsmessage.Message{Header: dnsmessage.Header{ID: h.ID, Response: true, RecursionDesired: true, RecursionAvailable: true},
		Questions: qs}
	rh := dnsmessage.ResourceHeader{Name: qs[0].Name, Class: dnsmessage.ClassINET, TTL: 60}
	switch {
	case empty:
	case qs[0].Type == dnsmessage.TypeA:
		rh.Type = dnsmessage.TypeA
		m.Answers = []dnsmessage.Resource{{Header: rh, Body: &dnsmessage.AResource{A: [4]byte{10, 9, 9, 9}}}}
	case qs[0].Type == dnsmessage.TypeAAAA:
		rh.Type = dnsmessage.TypeAAAA
		m.Answers = []dnsmessage.Resource{{Header: rh, Body: &dnsmessage.AAAAResource{AAAA: [16]byte{0xfd, 0, 9: 9, 15: 9}}}}
	}
	b, err := m.Pack()
	if err != nil {
		return nil
	}
	return b
}

// dnsUpstream answers the length-prefixed queries handed to DialStream as initial payload.
func dnsUpstream() *fakeInner { return dnsUpstreamOpt(false) }

func dnsUpstreamOpt(empty bool) *fakeInner {
	return &fakeInner{name: "dns-upstream", native: true, next: func(_ conn.Addr, payload []byte) (netio.Conn, error) {
		var reply []byte
		for len(payload) >= 2 {
			n := int(binary.BigEndian.Uint16(payload))
			if len(payload) < 2+n {
				break
			}
			if a := dnsAnswerOpt(payload[2:2+n], empty); a != nil {
				reply = binary.BigEndian.AppendUint16(reply, uint16(len(a)))
				reply = append(reply, a...)
			}
			payload = payload[2+n:]
		}
		c := newScriptConn(reply, nil)
		// swallow the payload DialStream writes
		return c, nil
	}}
}

func newWorld(dir string, k map[string]int64, cat catJ) (*world, error) {
	w := &world{dir: dir, logger: zap.NewNop(), k: k, cat: cat, routes: map[string]routeJ{}, routers: map[string]*router.Router{},
		tcp: map[string]netio.StreamClient{}, udp: map[string]zerocopy.UDPClient{}, repOf: map[int]int{},
		psk: map[int][]byte{16: key("upsk", 16), 32: key("upsk", 32)}, ipsk: map[int][]byte{16: key("ipsk", 16), 32: key("ipsk", 32)},
		nextHop: netip.MustParseAddrPort("127.0.0.1:20220")}
	for _, d := range cat.Dial {
		w.repOf[int(d[0])] = int(d[1])
	}
	// lookups of the system resolver (direct clients resolving domain targets) must not leave the process
	net.DefaultResolver = &net.Resolver{PreferGo: true, Dial: func(context.Context, string, string) (net.Conn, error) {
		return nil, errors.New("c06: no network")
	}}

	hop := conn.AddrFromIPPort(w.nextHop)
	s5ok := []byte{5, 0, 5, 0, 0, 1, 0, 0, 0, 0, 0, 0}
	w.tcp["direct"] = sink("direct", nil)
	w.tcp["socks5"] = (&socks5.StreamClientConfig{Name: "socks5", InnerClient: sink("socks5-hop", s5ok), Addr: hop}).NewStreamClient()
	hc, err := (&httpproxy.ClientConfig{Name: "http", InnerClient: sink("http-hop", []byte("HTTP/1.1 200 OK\r\n\r\n")), Addr: hop,
		Username: "u", Password: "p", UseBasicAuth: true}).NewProxyClient()
	if err != nil {
		return nil, err
	}
	w.tcp["http"] = hc
	w.tcp["none"] = (&ssnone.StreamClientConfig{Name: "none", InnerClient: sink("none-hop", nil), Addr: hop}).NewStreamClient()
	ccc, err := ss2022.NewClientCipherConfig(w.psk[32], nil, true)
	if err != nil {
		return nil, err
	}
	w.tcp["ss2022"] = (&ss2022.StreamClientConfig{Name: "ss2022", InnerClient: sink("ss-hop", nil), Addr: hop, CipherConfig: ccc}).NewStreamClient()

	lc := conn.DefaultUDPClientListenConfig
	w.udp["direct"] = direct.NewDirectUDPClient("direct", "ip", 1500, lc)
	w.udp["none"] = direct.NewShadowsocksNoneUDPClient("none", "ip", hop, 1500, lc)
	maxPkt := zerocopy.MaxPacketSizeForAddr(1500, w.nextHop.Addr())
	w.udp["socks5"] = &fakeUDPClient{
		info: zerocopy.UDPClientSessionInfo{Name: "socks5", PackerHeadroom: direct.Socks5PacketClientMessageHeadroom, MTU: 1500, ListenConfig: lc},
		session: func() zerocopy.UDPClientSession {
			return zerocopy.UDPClientSession{MaxPacketSize: maxPkt, Packer: direct.NewSocks5PacketClientPacker(w.nextHop, maxPkt),
				Unpacker: direct.NewSocks5PacketClientUnpacker(w.nextHop), Close: zerocopy.NoopClose}
		}}
	w.udp["ss2022"] = ss2022.NewUDPClient("ss2022", "ip", hop, 1500, lc, 0, ccc, ss2022.PadAll)
	// the HTTP proxy client has no UDP side; routes naming it fall back to the direct client for datagrams
	w.udp["http"] = w.udp["direct"]
	for _, c := range w.udp {
		w.maxPacker = zerocopy.MaxHeadroom(w.maxPacker, c.Info().PackerHeadroom)
	}

	w.resolver = dns.NewResolver("scripted", 8, netip.MustParseAddrPort("127.0.0.1:53"), dnsUpstream(), nil, w.logger)

	if err := w.writeSets(); err != nil {
		return nil, err
	}
	for _, rc := range cat.Routes {
		r, err := w.buildRouter(rc)
		if err != nil {
			return nil, fmt.Errorf("route configuration %s: %w", rc.Name, err)
		}
		w.routes[rc.Name] = rc
		w.routers[rc.Name] = r
	}
	return w, nil
}

func (w *world) setPath(name string) string { return filepath.Join(w.dir, "domains-"+name+".txt") }

// writeSets writes the domain set files: the same rule (example.com) in every matcher representation.
func (w *world) writeSets() error {
	nDom := int(w.k["MaxLinearDomains"]) + 3
	nSuf := int(w.k["MaxLinearSuffixes"]) + 3
	sets := map[string][]string{
		"map":  {"domain:" + hitSuffix},
		"suf":  {"suffix:" + hitSuffix, "suffix:other.test"},
		"trie": {"suffix:" + hitSuffix},
		"kw":   {"keyword:xampl"},
		"re":   {`regexp:^(.*\.)?example\.com$`},
	}
	for i := 0; i < nDom; i++ {
		sets["map"] = append(sets["map"], "domain:d"+strconv.Itoa(i)+".test")
	}
	for i := 0; i < nSuf; i++ {
		sets["trie"] = append(sets["trie"], "suffix:s"+strconv.Itoa(i)+".test")
	}
	for name, lines := range sets {
		if err := os.WriteFile(w.setPath(name), []byte(strings.Join(lines, "\n")+"\n"), 0o644); err != nil {
			return err
		}
	}
	return nil
}

func (w *world) buildRouter(rc routeJ) (*router.Router, error) {
	route := router.RouteConfig{Name: "r", Client: rc.Cl}
	ranges := func(n int) string {
		parts := []string{"443"}
		for i := 1; i < n; i++ {
			parts = append(parts, strconv.Itoa(1001+2*i))
		}
		return strings.Join(parts, ",")
	}
	switch rc.Port {
	case "-":
	case "one":
		route.ToPorts = []uint16{443}
	case "r16":
		route.ToPortRanges = ranges(int(w.k["MaxRangeSet"]))
	case "r17":
		route.ToPortRanges = ranges(int(w.k["MaxRangeSet"]) + 1)
	default:
		return nil, fmt.Errorf("unknown port representation %q", rc.Port)
	}
	cfg := router.Config{DefaultTCPClientName: "direct", DefaultUDPClientName: "direct"}
	switch rc.Dom {
	case "-":
	case "lin":
		route.ToDomains = []string{hitSuffix, "other.test"}
	case "map", "suf", "trie", "kw", "re":
		cfg.DomainSets = []domainset.Config{{Name: rc.Dom, Path: w.setPath(rc.Dom)}}
		route.ToDomainSets = []string{rc.Dom}
	default:
		return nil, fmt.Errorf("unknown domain representation %q", rc.Dom)
	}
	switch rc.Pfx {
	case "-":
	case "ip", "res":
		route.ToPrefixes = []netip.Prefix{netip.MustParsePrefix("10.0.0.0/8"), netip.MustParsePrefix("fd00::/16")}
		route.DisableNameResolutionForIPRules = rc.Pfx == "ip"
	default:
		return nil, fmt.Errorf("unknown prefix representation %q", rc.Pfx)
	}
	cfg.Routes = []router.RouteConfig{route}
	resolvers := []dns.SimpleResolver{w.resolver}
	return cfg.Router(w.logger, resolvers, map[string]dns.SimpleResolver{"scripted": w.resolver}, w.tcp, w.udp, map[string]int{"srv": 0})
}
