//go:build verif

package c06

import (
	"context"
	"encoding/base64"
	"encoding/binary"
	"encoding/json"
	"fmt"
	"io"
	"math/rand"
	"net"
	"net/netip"
	"os"
	"strconv"
	"strings"
	"testing"
	"time"

	"github.com/database64128/shadowsocks-go/conn"
	"github.com/database64128/shadowsocks-go/netio"
	"github.com/database64128/shadowsocks-go/service"
	"github.com/database64128/shadowsocks-go/ss2022"

	"verif/harness/internal/vio"
)

// The live layer: the same concretised bytes, sent over loopback sockets to a real service.Manager
// (service/tcp.go handleConn, service/udp_nat*.go, service/udp_session*.go: goroutine per connection,
// session tables, relay loops, no recover anywhere).  The next hop of every route is a SOCKS5 server
// run by the driver on loopback, so nothing leaves the host.  Between batches of hostile inputs and at
// the end every listener must still serve a well-formed request ("the process keeps serving everyone
// else"); a panic anywhere in the service kills this child process and is attributed by the runner.

type liveEnv struct {
	ports  map[string]int
	sinkT  net.Listener
	sinkU  *net.UDPConn
	cancel context.CancelFunc
	done   chan bool
}

func freePorts(n int) ([]int, error) {
	var ls []net.Listener
	var ports []int
	defer func() {
		for _, l := range ls {
			l.Close()
		}
	}()
	for i := 0; i < n; i++ {
		l, err := net.Listen("tcp4", "127.0.0.1:0")
		if err != nil {
			return nil, err
		}
		ls = append(ls, l)
		ports = append(ports, l.Addr().(*net.TCPAddr).Port)
	}
	return ports, nil
}

// socksSink is the next hop: a minimal SOCKS5 server that accepts everything, echoes TCP data and UDP packets.
func socksSink(l net.Listener, u *net.UDPConn) {
	udpPort := u.LocalAddr().(*net.UDPAddr).Port
	go func() {
		b := make([]byte, 65536)
		for {
			n, from, err := u.ReadFromUDPAddrPort(b)
			if err != nil {
				return
			}
			_, _ = u.WriteToUDPAddrPort(b[:n], from)
		}
	}()
	for {
		c, err := l.Accept()
		if err != nil {
			return
		}
		go func(c net.Conn) {
			defer c.Close()
			_ = c.SetDeadline(time.Now().Add(20 * time.Second))
			b := make([]byte, 600)
			if _, err := io.ReadFull(c, b[:2]); err != nil {
				return
			}
			if _, err := io.ReadFull(c, b[:int(b[1])]); err != nil {
				return
			}
			if _, err := c.Write([]byte{5, 0}); err != nil {
				return
			}
			if _, err := io.ReadFull(c, b[:5]); err != nil {
				return
			}
			cmd := b[1]
			rest := 0
			switch b[3] {
			case 1:
				rest = 4 + 2 - 1
			case 4:
				rest = 16 + 2 - 1
			case 3:
				rest = int(b[4]) + 2
			default:
				return
			}
			if _, err := io.ReadFull(c, b[:rest]); err != nil {
				return
			}
			if cmd == 3 {
				reply := []byte{5, 0, 0, 1, 127, 0, 0, 1, byte(udpPort >> 8), byte(udpPort)}
				if _, err := c.Write(reply); err != nil {
					return
				}
				_ = c.SetDeadline(time.Now().Add(120 * time.Second))
				_, _ = c.Read(b[:1])
				return
			}
			if _, err := c.Write([]byte{5, 0, 0, 1, 0, 0, 0, 0, 0, 0}); err != nil {
				return
			}
			_, _ = io.Copy(c, c)
		}(c)
	}
}

func (w *world) liveConfig(ports map[string]int) ([]byte, error) {
	addr := func(name string) string { return "127.0.0.1:" + strconv.Itoa(ports[name]) }
	lst := func(name string, udp bool) map[string]any {
		m := map[string]any{"tcpListeners": []any{map[string]any{"network": "tcp4", "address": addr(name)}}, "mtu": 1500}
		if udp {
			m["udpListeners"] = []any{map[string]any{"network": "udp4", "address": addr(name)}}
		}
		return m
	}
	srv := func(name, proto string, udp bool, extra map[string]any) map[string]any {
		m := lst(name, udp)
		m["name"], m["protocol"] = name, proto
		for k, v := range extra {
			m[k] = v
		}
		return m
	}
	ranges := []string{}
	for i := 0; i <= int(w.k["MaxRangeSet"]); i++ {
		ranges = append(ranges, strconv.Itoa(2001+2*i))
	}
	cfg := map[string]any{
		"servers": []any{
			srv("socks5", "socks5", true, nil),
			srv("http", "http", false, nil),
			srv("none", "none", true, nil),
			srv("ss2022", "2022-blake3-aes-256-gcm", true, map[string]any{"psk": base64.StdEncoding.EncodeToString(w.psk[32]), "rejectPolicy": "JustClose"}),
		},
		"clients": []any{map[string]any{"name": "hop", "protocol": "socks5", "endpoint": addr("sink"), "enableTCP": true, "enableUDP": true, "mtu": 1500}},
		"dns":     []any{map[string]any{"name": "sys", "type": "system"}},
		"router": map[string]any{
			"defaultTCPClientName": "hop", "defaultUDPClientName": "hop",
			"domainSets": []any{map[string]any{"name": "trie", "path": w.setPath("trie")}, map[string]any{"name": "map", "path": w.setPath("map")}},
			"routes": []any{
				map[string]any{"name": "bitset", "client": "reject", "toPortRanges": strings.Join(ranges, ",")},
				map[string]any{"name": "single", "client": "reject", "toPorts": []int{1}},
				map[string]any{"name": "trie", "client": "reject", "toDomainSets": []string{"trie"}, "toPorts": []int{65535}},
				map[string]any{"name": "map-resolved", "client": "hop", "toDomainSets": []string{"map"}, "toMatchedDomainExpectedPrefixes": []string{"10.0.0.0/8"}},
				map[string]any{"name": "prefix-resolved", "client": "reject", "toPrefixes": []string{"fd00::/16"}},
			},
		},
	}
	return json.Marshal(cfg)
}

func (w *world) startLive() (*liveEnv, error) {
	var lastErr error
	for attempt := 0; attempt < 4; attempt++ {
		fp, err := freePorts(5)
		if err != nil {
			return nil, err
		}
		ports := map[string]int{"socks5": fp[0], "http": fp[1], "none": fp[2], "ss2022": fp[3], "sink": fp[4]}
		sinkT, err := net.Listen("tcp4", "127.0.0.1:"+strconv.Itoa(ports["sink"]))
		if err != nil {
			lastErr = err
			continue
		}
		sinkU, err := net.ListenUDP("udp4", &net.UDPAddr{IP: net.IPv4(127, 0, 0, 1)})
		if err != nil {
			sinkT.Close()
			return nil, err
		}
		go socksSink(sinkT, sinkU)
		raw, err := w.liveConfig(ports)
		if err != nil {
			return nil, err
		}
		var sc service.Config
		if err := json.Unmarshal(raw, &sc); err != nil {
			return nil, fmt.Errorf("live configuration does not parse: %w", err)
		}
		m, err := sc.Manager(w.logger)
		if err != nil {
			return nil, fmt.Errorf("live configuration refused: %w", err)
		}
		ctx, cancel := context.WithCancel(context.Background())
		env := &liveEnv{ports: ports, sinkT: sinkT, sinkU: sinkU, cancel: cancel, done: make(chan bool, 1)}
		go func() { env.done <- m.Run(ctx); m.Close() }()
		ok := true
		for _, name := range []string{"socks5", "http", "none", "ss2022"} {
			up := false
			for i := 0; i < 200 && !up; i++ {
				c, err := net.DialTimeout("tcp4", "127.0.0.1:"+strconv.Itoa(ports[name]), time.Second)
				if err == nil {
					c.Close()
					up = true
				} else {
					time.Sleep(10 * time.Millisecond)
				}
			}
			ok = ok && up
		}
		if ok {
			return env, nil
		}
		cancel()
		sinkT.Close()
		sinkU.Close()
		lastErr = fmt.Errorf("the listeners did not come up (port taken?)")
	}
	return nil, lastErr
}

func (e *liveEnv) stop() {
	e.cancel()
	select {
	case <-e.done:
	case <-time.After(30 * time.Second):
	}
	e.sinkT.Close()
	e.sinkU.Close()
}

// sendStream delivers the bytes in the given segments over a new TCP connection, closes its write side and waits
// for the server to finish with the connection.
func sendStream(port int, b []byte, segs []int) error {
	c, err := net.DialTimeout("tcp4", "127.0.0.1:"+strconv.Itoa(port), 5*time.Second)
	if err != nil {
		return err
	}
	defer c.Close()
	tc := c.(*net.TCPConn)
	_ = tc.SetNoDelay(true)
	_ = c.SetDeadline(time.Now().Add(10 * time.Second))
	rest := b
	for _, s := range segs {
		if s > len(rest) {
			s = len(rest)
		}
		if s == 0 {
			continue
		}
		if _, err := c.Write(rest[:s]); err != nil {
			return nil // the server hung up early: its right
		}
		rest = rest[s:]
	}
	if len(rest) > 0 {
		if _, err := c.Write(rest); err != nil {
			return nil
		}
	}
	_ = tc.CloseWrite()
	// the handler of this connection closes it when it is done (service/tcp.go handleConn): wait for that, so that a
	// crash of the handler happens while this case is the current one
	_, _ = io.Copy(io.Discard, c)
	return nil
}

// probe: one well-formed request through each listener must be served (echo through the next hop).
func (x *exec) probe(env *liveEnv) []string {
	var bad []string
	echo := func(c net.Conn, pre []byte, expect int) error {
		_ = c.SetDeadline(time.Now().Add(10 * time.Second))
		if _, err := c.Write(pre); err != nil {
			return err
		}
		if expect > 0 {
			if _, err := io.ReadFull(c, make([]byte, expect)); err != nil {
				return fmt.Errorf("reading the reply: %w", err)
			}
		}
		if _, err := c.Write([]byte("ping")); err != nil {
			return err
		}
		got := make([]byte, 4)
		if _, err := io.ReadFull(c, got); err != nil {
			return fmt.Errorf("reading the echo: %w", err)
		}
		if string(got) != "ping" {
			return fmt.Errorf("echo differs: %q", got)
		}
		return nil
	}
	dial := func(name string) (net.Conn, error) {
		return net.DialTimeout("tcp4", "127.0.0.1:"+strconv.Itoa(env.ports[name]), 5*time.Second)
	}
	tcp := map[string]func(c net.Conn) error{
		"socks5": func(c net.Conn) error {
			return echo(c, []byte{5, 1, 0, 5, 1, 0, 1, 10, 0, 0, 9, 0, 7}, 2+10)
		},
		"http": func(c net.Conn) error {
			return echo(c, []byte("CONNECT 10.0.0.9:7 HTTP/1.1\r\nHost: 10.0.0.9:7\r\n\r\n"), len("HTTP/1.1 200 OK\r\n\r\n"))
		},
		"none": func(c net.Conn) error {
			return echo(c, []byte{1, 10, 0, 0, 9, 0, 7}, 0)
		},
	}
	for name, f := range tcp {
		var err error
		for try := 0; try < 3; try++ {
			var c net.Conn
			if c, err = dial(name); err == nil {
				err = f(c)
				c.Close()
			}
			if err == nil {
				break
			}
			time.Sleep(50 * time.Millisecond)
		}
		if err != nil {
			bad = append(bad, name+"/tcp: "+err.Error())
		}
	}
	// ss2022 over TCP with the repository's own client
	func() {
		ccc, err := ss2022.NewClientCipherConfig(x.w.psk[32], nil, true)
		if err != nil {
			bad = append(bad, "ss2022/tcp: "+err.Error())
			return
		}
		inner := (&netio.TCPClientConfig{Name: "tcp", Network: "tcp4", Dialer: conn.DefaultTCPDialer}).NewTCPClient()
		cl := (&ss2022.StreamClientConfig{Name: "probe", InnerClient: inner, Addr: conn.AddrFromIPPort(netip.AddrPortFrom(netip.AddrFrom4([4]byte{127, 0, 0, 1}), uint16(env.ports["ss2022"]))),
			CipherConfig: ccc}).NewStreamClient()
		var lerr error
		for try := 0; try < 3; try++ {
			ctx, cancel := context.WithTimeout(context.Background(), 10*time.Second)
			c, err := cl.DialStream(ctx, conn.AddrFromIPPort(netip.MustParseAddrPort("10.0.0.9:7")), []byte("ping"))
			cancel()
			lerr = err
			if err == nil {
				_ = c.SetDeadline(time.Now().Add(10 * time.Second))
				got := make([]byte, 4)
				_, lerr = io.ReadFull(c, got)
				if lerr == nil && string(got) != "ping" {
					lerr = fmt.Errorf("echo differs: %q", got)
				}
				c.Close()
			}
			if lerr == nil {
				return
			}
			time.Sleep(50 * time.Millisecond)
		}
		bad = append(bad, "ss2022/tcp: "+lerr.Error())
	}()
	// datagrams: SOCKS5 and none
	udp := map[string][]byte{
		"socks5": {0, 0, 0, 1, 10, 0, 0, 9, 0, 7, 'p', 'i', 'n', 'g'},
		"none":   {1, 10, 0, 0, 9, 0, 7, 'p', 'i', 'n', 'g'},
	}
	for name, pkt := range udp {
		var lerr error
		for try := 0; try < 4; try++ {
			c, err := net.DialUDP("udp4", nil, &net.UDPAddr{IP: net.IPv4(127, 0, 0, 1), Port: env.ports[name]})
			if err != nil {
				lerr = err
				continue
			}
			_, _ = c.Write(pkt)
			_ = c.SetReadDeadline(time.Now().Add(3 * time.Second))
			b := make([]byte, 2048)
			n, err := c.Read(b)
			c.Close()
			lerr = err
			if err == nil && !strings.HasSuffix(string(b[:n]), "ping") {
				lerr = fmt.Errorf("reply without the payload: % x", b[:n])
			}
			if lerr == nil {
				break
			}
		}
		if lerr != nil {
			bad = append(bad, name+"/udp: "+lerr.Error())
		}
	}
	return bad
}

// liveMatches: the case was generated for the configuration the live listener has.
func liveMatches(c *caseJ) bool {
	m := &c.M
	switch c.Ep {
	case "s5srv":
		return !m.B("auth") && m.B("tcp") && m.B("udp")
	case "httpsrv":
		return !m.B("auth")
	case "nonesrv", "s5udpsrv", "noneudpsrv":
		return true
	case "ss22srv":
		return m.I("saltlen") == 32 && m.I("ursp") == 0 && !m.B("eih") && !m.B("fallback") && !m.B("allowseg")
	case "ss22udpsrv":
		return !m.B("eih")
	}
	return false
}

func TestLive(t *testing.T) {
	in, err := vio.ReadInput()
	if err != nil {
		t.Skip(err)
	}
	res := vio.NewResult()
	defer func() {
		if err := res.Write(); err != nil {
			t.Fatal(err)
		}
	}()
	var cases []caseJ
	var cat catJ
	k := map[string]int64{}
	if !in.Param("cases", &cases) || !in.Param("cat", &cat) || !in.Param("consts", &k) {
		res.Break("input lacks cases / cat / consts")
		return
	}
	dir, err := os.MkdirTemp(scratchBase(), "c06-live-")
	if err != nil {
		res.Break("%v", err)
		return
	}
	defer os.RemoveAll(dir)
	w, err := newWorld(dir, k, cat)
	if err != nil {
		res.Break("building the world failed: %v", err)
		return
	}
	prog, _ := os.OpenFile(os.Getenv("VERIF_PROGRESS"), os.O_CREATE|os.O_WRONLY|os.O_TRUNC, 0o644)
	if prog != nil {
		// before any case: listeners are probed with connections that send nothing, then with well-formed requests
		fmt.Fprintf(prog, "startup 0\n")
	}
	env, err := w.startLive()
	if err != nil {
		res.Break("starting the live service failed: %v", err)
		return
	}
	defer env.stop()
	x := &exec{t: t, w: w, res: res, seed: in.Seed, conc: 1, tier: in.Tier}
	if prog != nil {
		x.prog = prog
		defer x.prog.Close()
	}
	x.c = &caseJ{Ep: "live"}
	if bad := x.probe(env); len(bad) > 0 {
		res.Break("the live service does not serve well-formed requests before any hostile input: %v", bad)
		return
	}
	udpSock, err := net.ListenUDP("udp4", &net.UDPAddr{IP: net.IPv4(127, 0, 0, 1)})
	if err != nil {
		res.Break("%v", err)
		return
	}
	defer udpSock.Close()
	go func() {
		b := make([]byte, 65536)
		for {
			if _, _, err := udpSock.ReadFromUDPAddrPort(b); err != nil {
				return
			}
		}
	}()
	sent := 0
	check := func(last *caseJ) bool {
		// the relay goroutines of the inputs just sent have had their chance to run
		time.Sleep(20 * time.Millisecond)
		select {
		case ok := <-env.done:
			x.c = last
			x.violation("live/service-stopped", fmt.Sprintf("the service manager returned (%v) while hostile inputs were being handled", ok))
			return false
		default:
		}
		x.c = last
		// a listener counts as unresponsive only if it stays so: three rounds (each with its own retries and
		// multi-second deadlines) spread over several seconds
		var bad []string
		for round := 0; round < 3; round++ {
			if bad = x.probe(env); len(bad) == 0 {
				break
			}
			time.Sleep(3 * time.Second)
		}
		if len(bad) > 0 {
			x.violation("live/unresponsive", fmt.Sprintf("after hostile inputs the service no longer serves well-formed requests: %v", bad))
			return false
		}
		res.Count("live/probes", 1)
		return true
	}
	for ci := range cases {
		c := &cases[ci]
		if !liveMatches(c) {
			continue
		}
		if x.prog != nil {
			fmt.Fprintf(x.prog, "%s %d\n", c.ID, 0)
		}
		x.c, x.ci, x.k = c, ci, 0
		x.rnd = rand.New(rand.NewSource(caseSeed(in.Seed, c.ID, 0)))
		switch c.Ep {
		case "s5srv", "nonesrv", "httpsrv", "ss22srv":
			var peer []byte
			var segs []int
			var err error
			switch c.Ep {
			case "s5srv":
				_, peer, segs, err = x.mkS5Srv()
			case "nonesrv":
				_, peer, segs, err = x.mkNoneSrv()
			case "httpsrv":
				_, peer, segs, err = x.mkHTTPSrv()
			case "ss22srv":
				_, peer, segs, _, err = x.mkSsSrv()
			}
			if err != nil {
				res.Break("case %s: %v", c.ID, err)
				continue
			}
			port := env.ports[map[string]string{"s5srv": "socks5", "nonesrv": "none", "httpsrv": "http", "ss22srv": "ss2022"}[c.Ep]]
			n := 1
			if c.Ep == "ss22srv" && c.M.S("salt") == "repeat" {
				n = 2 // the same bytes twice: the second presentation repeats the salt
			}
			for i := 0; i < n; i++ {
				if err := sendStream(port, peer, segs); err != nil {
					x.violation("live/unresponsive", fmt.Sprintf("listener %s refuses connections: %v", c.Ep, err))
				}
			}
		case "s5udpsrv", "noneudpsrv", "ss22udpsrv":
			var pkts [][]byte
			switch c.Ep {
			case "ss22udpsrv":
				_, pkt, prelude, err := x.ssUDPServerPacket()
				if err != nil {
					res.Break("case %s: %v", c.ID, err)
					continue
				}
				pkts = append(prelude, cutTo(pkt, c.Have))
			default:
				pkt, _, err := x.encodePlain(nil)
				if err != nil {
					res.Break("case %s: %v", c.ID, err)
					continue
				}
				pkts = [][]byte{pkt}
			}
			port := env.ports[map[string]string{"s5udpsrv": "socks5", "noneudpsrv": "none", "ss22udpsrv": "ss2022"}[c.Ep]]
			for _, p := range pkts {
				if len(p) > 65000 {
					continue
				}
				_, _ = udpSock.WriteToUDPAddrPort(p, netip.AddrPortFrom(netip.AddrFrom4([4]byte{127, 0, 0, 1}), uint16(port)))
			}
		}
		sent++
		res.AddSteps(1, 1)
		res.Count("live/"+c.Ep, 1)
		if sent%150 == 0 && !check(c) {
			return
		}
	}
	if sent > 0 {
		check(&cases[len(cases)-1])
	}
	if x.prog != nil {
		fmt.Fprintf(x.prog, "done\n")
	}
	_ = binary.BigEndian
}
