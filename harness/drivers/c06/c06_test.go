//go:build verif

// Package c06 pushes the field-class lattice of specs/Wire/Lattice.tla through the real parsers of
// the repository.  Every CASE line of the model (entry point, abstract message, wire fields, number
// of bytes delivered, expected verdict) is concretised into bytes several times (boundary values
// exact, free bytes from the seed, seeded segmentation) and fed to the real entry point over a
// scripted connection (fragconn_test.go) or as a datagram in the relay's buffer layout; when a
// request comes out, the driver continues as service/tcp.go and service/udp_*.go do: real
// Router.GetTCPClient / GetUDPClient under every route configuration of the model, real client
// encoders (DialStream / PackInPlace), Proceed or Abort with every dial result code, one relay step.
//
// Property C06 is evaluated on what the real code does: a panic (recovered on the goroutine that ran
// the entry point, or killing the child process), a goroutine that does not return although the
// peer has closed, or a request made out of a message that stops short of its header, is a
// violation.  A verdict that differs from the model's in a way the property allows is model drift.
package c06

import (
	"context"
	"crypto/sha256"
	"encoding/binary"
	"errors"
	"fmt"
	"math/rand"
	"net/netip"
	"os"
	"path/filepath"
	"runtime/debug"
	"strings"
	"testing"
	"time"

	"github.com/database64128/shadowsocks-go/conn"
	"github.com/database64128/shadowsocks-go/netio"
	"github.com/database64128/shadowsocks-go/router"
	"github.com/database64128/shadowsocks-go/zerocopy"

	"verif/harness/internal/vio"
)

const watchdog = 60 * time.Second

type exec struct {
	t    *testing.T
	w    *world
	res  *vio.Result
	seed int64
	conc int
	tier string
	// current case
	c     *caseJ
	ci    int
	k     int
	rnd   *rand.Rand
	stage string
	prog  *os.File
}

type obs struct {
	v   string // "request" | "rejected" | "done"
	err string
}

// guard runs fn on its own goroutine, turns a panic of the code under test into a violation and
// reports a goroutine that does not come back.  It returns false when fn did not complete.
func (x *exec) guard(stage string, fn func()) bool {
	type end struct {
		p     any
		stack string
		ok    bool
	}
	x.stage = stage
	ch := make(chan end, 1)
	go func() {
		defer func() {
			if p := recover(); p != nil {
				ch <- end{p: p, stack: string(debug.Stack())}
				return
			}
		}()
		fn()
		ch <- end{ok: true}
	}()
	select {
	case e := <-ch:
		if e.ok {
			return true
		}
		st := e.stack
		if i := strings.Index(st, "panic("); i >= 0 {
			st = st[i:]
		}
		if len(st) > 1800 {
			st = st[:1800]
		}
		x.violation(panicKey(x.c.Ep, stage), fmt.Sprintf("%s: %s panicked: %v\n%s", x.c.Ep, stage, e.p, st))
		return false
	case <-time.After(watchdog):
		x.violation(x.c.Ep+"/stuck", fmt.Sprintf("%s: %s did not return within %s although the peer had sent everything and closed", x.c.Ep, stage, watchdog))
		return false
	}
}

func panicKey(ep, stage string) string {
	if stage == "parse" {
		return ep + "/panic"
	}
	return ep + "/" + stage + "-panic"
}

func (x *exec) violation(key, text string) {
	x.res.Violation(vio.Finding{Key: key, Text: text, Behaviour: x.ci, Step: x.k, Expected: map[string]any{"v": x.c.V, "why": x.c.Why},
		Replay: map[string]any{"case": x.c, "k": x.k, "seed": x.seed, "stage": x.stage}})
}

func (x *exec) drift(key, text string, exp, got any) {
	x.res.DriftNote(vio.Finding{Key: key, Text: text, Behaviour: x.ci, Step: x.k, Expected: exp, Observed: got,
		Replay: map[string]any{"case": x.c.ID, "ep": x.c.Ep, "m": x.c.M, "have": x.c.Have, "k": x.k}})
	x.res.Count("drift/"+key, 1)
}

// verdict compares what the entry point did with the model and applies the part of the oracle that concerns
// accept / reject: a truncated message must not become a request.
func (x *exec) verdict(o obs, fallbackConfigured bool) {
	c := x.c
	x.res.Count("verdict/"+c.Ep+"/"+o.v, 1)
	truncated := c.Have >= 0 && c.Have < c.Need
	if c.Have < 0 {
		cut := c.M.S("cut")
		truncated = cut != "" && cut != "full" && cut != "body"
	}
	if o.v == "request" && truncated && !fallbackConfigured {
		x.violation(c.Ep+"/truncated-accepted", fmt.Sprintf("%s: the peer delivered %d of the %d bytes its message needs and the entry point produced a request",
			c.Ep, c.Have, c.Need))
	}
	if o.v != c.V {
		x.drift(c.Ep+"/verdict", fmt.Sprintf("%s: model says %s (%s), code did %s (%s)", c.Ep, c.V, c.Why, o.v, o.err), c.V+":"+c.Why, o.v+":"+o.err)
	}
}

// scratchBase is the runner's scratch directory (removed by the runner even when this process dies).
func scratchBase() string {
	if out := os.Getenv("VERIF_OUT"); out != "" {
		return filepath.Dir(out)
	}
	return ""
}

func caseSeed(seed int64, id string, k int) int64 {
	h := sha256.Sum256(fmt.Appendf(nil, "%d/%s/%d", seed, id, k))
	return int64(binary.LittleEndian.Uint64(h[:8]) >> 1)
}

// ---------------------------------------------------------------- after the request

func (x *exec) sourceAddr() netip.AddrPort {
	return netip.AddrPortFrom(netip.AddrFrom4([4]byte{127, 0, 0, 1}), 50000)
}

// expectedRoute is the model's RouteOut for the address the code produced.
func (x *exec) expectedRoute(rc routeJ, addr conn.Addr) string {
	port := addr.Port()
	if rc.Port != "-" && port != 443 {
		return "default"
	}
	if rc.Dom != "-" {
		if !addr.IsDomain() {
			return "default"
		}
		d := addr.Domain()
		hit := d == hitSuffix || strings.HasSuffix(d, "."+hitSuffix)
		if rc.Dom == "lin" || rc.Dom == "map" {
			hit = d == hitSuffix
		}
		if rc.Dom == "kw" {
			hit = strings.Contains(d, "xampl")
		}
		if !hit {
			return "default"
		}
		return rc.Cl
	}
	if rc.Pfx != "-" {
		if addr.IsDomain() {
			if rc.Pfx == "ip" {
				return "default"
			}
			return "lookup"
		}
		ip := addr.IP().Unmap()
		if netip.MustParsePrefix("10.0.0.0/8").Contains(ip) || netip.MustParsePrefix("fd00::/16").Contains(ip) {
			return rc.Cl
		}
		return "default"
	}
	return rc.Cl
}

func routeClass(name string, err error) string {
	switch {
	case err == router.ErrRejected:
		return "reject"
	case err != nil:
		return "error"
	default:
		return name
	}
}

// routeTCP asks every router of the model for the client of this request and dials through it, as handleConn does.
func (x *exec) routeTCP(req *netio.ConnRequest) {
	ctx, cancel := context.WithTimeout(context.Background(), 20*time.Second)
	defer cancel()
	for _, rc := range x.w.cat.Routes {
		r := x.w.routers[rc.Name]
		var cl netio.StreamClient
		var err error
		if !x.guard("route", func() {
			cl, err = r.GetTCPClient(ctx, router.RequestInfo{ServerIndex: 0, Username: req.Username, SourceAddrPort: x.sourceAddr(), TargetAddr: req.Addr})
		}) {
			continue
		}
		name := ""
		var dialer netio.StreamDialer
		if err == nil {
			var info netio.StreamDialerInfo
			dialer, info = cl.NewStreamDialer()
			name = strings.TrimSuffix(info.Name, "-hop")
		}
		got := routeClass(name, err)
		x.res.Count("route/"+rc.Name+"/"+got, 1)
		x.res.Seen("route/" + x.c.Ep + "/" + rc.Name + "/" + got)
		want := x.expectedRoute(rc, req.Addr)
		if want == "default" {
			want = "direct"
		}
		if want != "lookup" && want != got {
			x.drift("route/outcome", fmt.Sprintf("route %s for %s: model says %s, router says %s (%v)", rc.Name, req.Addr, want, got, err), want, got)
		}
		if err != nil {
			// service/tcp.go: the error becomes the dial result of Abort
			_ = router.DialResultFromError(err)
			continue
		}
		x.guard("dial", func() {
			rc, derr := dialer.DialStream(ctx, req.Addr, req.Payload)
			if derr == nil {
				_ = rc.Close()
			}
			x.res.Count("dial/"+name, 1)
		})
	}
}

type plan struct {
	proceed bool
	code    int
}

func (x *exec) plans() []plan {
	all := []plan{{proceed: true}}
	for _, d := range x.w.cat.Dial {
		if d[0] != 0 {
			all = append(all, plan{code: int(d[0])})
		}
	}
	if x.k == 0 {
		return all
	}
	return []plan{all[x.rnd.Intn(len(all))], {proceed: true}}
}

// relayTCP is one relay step on an established client connection: what the next hop sent goes to the client, what
// the client sent after the handshake comes out, until both directions end (netio.BidirectionalCopy).
func (x *exec) relayTCP(clientConn netio.Conn) {
	remote := newScriptConn([]byte("response from the next hop"), nil)
	done := make(chan struct{})
	go func() {
		defer close(done)
		_, _, _ = netio.BidirectionalCopy(clientConn, remote)
	}()
	select {
	case <-done:
	case <-time.After(watchdog):
		x.violation(x.c.Ep+"/stuck", x.c.Ep+": BidirectionalCopy did not end although both peers had closed")
	}
	_ = clientConn.Close()
}

// ---------------------------------------------------------------- UDP relay layout

// serverBuf lays a received datagram out as service/udp_nat.go and udp_session.go do.
func (x *exec) serverBuf(pkt []byte, unpackerHeadroom zerocopy.Headroom) (buf []byte, front int) {
	hr := zerocopy.UDPRelayHeadroom(x.w.maxPacker, unpackerHeadroom)
	recv := zerocopy.MaxPacketSizeForAddr(1500, netip.IPv4Unspecified())
	if len(pkt) > recv {
		recv = len(pkt)
	}
	buf = make([]byte, hr.Front+recv+hr.Rear)
	x.rnd.Read(buf) // stale bytes of earlier packets
	copy(buf[hr.Front:], pkt)
	return buf, hr.Front
}

// routeUDP: GetUDPClient under every route configuration, a new client session, the uplink pack.
func (x *exec) routeUDP(buf []byte, target conn.Addr, start, length int, username string) {
	ctx, cancel := context.WithTimeout(context.Background(), 20*time.Second)
	defer cancel()
	for _, rc := range x.w.cat.Routes {
		r := x.w.routers[rc.Name]
		var cl zerocopy.UDPClient
		var err error
		if !x.guard("route", func() {
			cl, err = r.GetUDPClient(ctx, router.RequestInfo{ServerIndex: 0, Username: username, SourceAddrPort: x.sourceAddr(), TargetAddr: target})
		}) {
			continue
		}
		name := ""
		if err == nil {
			name = cl.Info().Name
		}
		got := routeClass(name, err)
		x.res.Count("route/"+rc.Name+"/"+got, 1)
		x.res.Seen("route/" + x.c.Ep + "/" + rc.Name + "/" + got)
		want := x.expectedRoute(rc, target)
		if want == "default" || want == "http" {
			want = "direct"
		}
		if want != "lookup" && want != got {
			x.drift("route/outcome", fmt.Sprintf("route %s for %s: model says %s, router says %s (%v)", rc.Name, target, want, got, err), want, got)
		}
		if err != nil {
			continue
		}
		x.guard("relay", func() {
			_, session, err := cl.NewSession(ctx)
			if err != nil {
				return
			}
			defer session.Close()
			b := append([]byte(nil), buf...)
			_, ps, pl, err := session.Packer.PackInPlace(ctx, b, target, start, length)
			if err == nil && (ps < 0 || pl < 0 || ps+pl > len(b)) {
				x.violation(x.c.Ep+"/relay-out-of-buffer", fmt.Sprintf("%s: client %s packed [%d,%d) in a buffer of %d bytes", x.c.Ep, name, ps, ps+pl, len(b)))
			}
			x.res.Count("pack/"+name, 1)
		})
	}
}

// downlink: the payload a client unpacker accepted is packed for the downstream peer by every server packer.
func (x *exec) downlink(buf []byte, src netip.AddrPort, start, length int) {
	for name, mk := range x.w.serverPackers() {
		x.guard("relay", func() {
			p, front := mk()
			// the relay allocates packetBuf with the server packer's headroom in front of the receive buffer
			b := make([]byte, front+len(buf)+16)
			copy(b[front:], buf)
			ps, pl, err := p.PackInPlace(b, src, front+start, length, 1472)
			if err == nil && (ps < 0 || pl < 0 || ps+pl > len(b)) {
				x.violation(x.c.Ep+"/relay-out-of-buffer", fmt.Sprintf("%s: server packer %s packed [%d,%d) in a buffer of %d bytes", x.c.Ep, name, ps, ps+pl, len(b)))
			}
			x.res.Count("packdown/"+name, 1)
		})
	}
}

// ---------------------------------------------------------------- test entry

func TestCases(t *testing.T) {
	in, err := vio.ReadInput()
	if err != nil {
		t.Skip(err)
	}
	res := vio.NewResult()
	defer func() {
		if err := res.Write(); err != nil {
			t.Fatal(err)
		}
	}()
	var cases []caseJ
	var cat catJ
	k := map[string]int64{}
	conc := 3
	if !in.Param("cases", &cases) || !in.Param("cat", &cat) || !in.Param("consts", &k) {
		res.Break("input lacks cases / cat / consts")
		return
	}
	in.Param("conc", &conc)
	only := -1
	in.Param("onlyK", &only)
	dir, err := os.MkdirTemp(scratchBase(), "c06-world-")
	if err != nil {
		res.Break("%v", err)
		return
	}
	defer os.RemoveAll(dir)
	w, err := newWorld(dir, k, cat)
	if err != nil {
		res.Break("building the routers and clients failed: %v", err)
		return
	}
	x := &exec{t: t, w: w, res: res, seed: in.Seed, conc: conc, tier: in.Tier}
	if p := os.Getenv("VERIF_PROGRESS"); p != "" {
		x.prog, _ = os.OpenFile(p, os.O_CREATE|os.O_WRONLY|os.O_TRUNC, 0o644)
		defer x.prog.Close()
	}
	for ci := range cases {
		c := &cases[ci]
		for kk := 0; kk < conc; kk++ {
			if only >= 0 && kk != only {
				continue
			}
			if x.prog != nil {
				// the case being executed: read by the runner when the process dies
				fmt.Fprintf(x.prog, "%s %d\n", c.ID, kk)
			}
			x.c, x.ci, x.k = c, ci, kk
			x.rnd = rand.New(rand.NewSource(caseSeed(in.Seed, c.ID, kk)))
			x.runCase()
			res.AddSteps(0, 1)
		}
		res.AddSteps(1, 0)
		res.Seen(c.Ep + "/" + c.V + "/" + c.Why)
		if ci%97 == 0 {
			res.Sample(map[string]any{"ep": c.Ep, "m": c.M, "have": c.Have, "model": c.V + ":" + c.Why}, 4)
		}
	}
	if x.prog != nil {
		fmt.Fprintf(x.prog, "done\n")
	}
}

func (x *exec) runCase() {
	switch x.c.Ep {
	case "s5srv", "nonesrv", "ss22srv", "httpsrv":
		x.streamServer()
	case "s5cli", "httpcli", "ss22cli":
		x.streamClient()
	case "ss22chunk":
		x.chunk()
	case "s5udpsrv", "noneudpsrv", "directudp", "ss22udpsrv":
		x.udpServer()
	case "s5udpcli", "noneudpcli", "ss22udpcli":
		x.udpClient()
	case "dnstcp", "dnsudp":
		x.dnsCase()
	default:
		x.res.Break("unknown entry point %q", x.c.Ep)
	}
}

// ---------------------------------------------------------------- stream servers

// handshake is one run of a stream server's HandleStream on the scripted bytes.
type handshake struct {
	req netio.ConnRequest
	err error
	sc  *scriptConn
	ok  bool // HandleStream returned (no panic, not stuck)
	fb  bool // the server has a fallback address
}

func (x *exec) streamServer() {
	hs := x.doHandshake()
	if !hs.ok {
		return
	}
	o := obs{v: "request"}
	switch {
	case hs.err == nil:
	case errors.Is(hs.err, netio.ErrHandleStreamDone):
		o = obs{v: "done", err: hs.err.Error()}
	default:
		o = obs{v: "rejected", err: hs.err.Error()}
	}
	x.verdict(o, hs.fb)
	if hs.err != nil {
		_ = hs.sc.Close()
		return
	}
	if hs.req.PendingConn == nil {
		x.violation(x.c.Ep+"/nil-pending-conn", x.c.Ep+": HandleStream returned no error and no PendingConn (Proceed / Abort would dereference nil)")
		return
	}
	x.res.Seen(fmt.Sprintf("req/%s/%v/%d/%d", x.c.Ep, hs.req.Addr.IsDomain(), lenClass(hs.req.Addr), portClass(hs.req.Addr.Port())))
	x.routeTCP(&hs.req)
	first := true
	for _, p := range x.plans() {
		h := hs
		if !first {
			h = x.doHandshake()
			if !h.ok || h.err != nil || h.req.PendingConn == nil {
				continue
			}
		}
		first = false
		if p.proceed {
			var cc netio.Conn
			var err error
			if !x.guard("reply", func() { cc, err = h.req.Proceed() }) || err != nil {
				_ = h.sc.Close()
				continue
			}
			x.res.Count("reply/proceed", 1)
			x.guard("relay", func() { x.afterProceed(h, cc) })
		} else {
			before := len(h.sc.written())
			x.guard("reply", func() {
				_ = h.req.Abort(conn.DialResult{Code: conn.DialResultCode(p.code), Err: errors.New("scripted dial failure")})
			})
			x.res.Count("reply/abort", 1)
			x.res.Seen(fmt.Sprintf("abort/%s/%d", x.c.Ep, p.code))
			out := h.sc.written()[before:]
			if x.c.Ep == "s5srv" && !(len(out) == 10 && out[0] == 5 && int(out[1]) == x.w.repOf[p.code]) {
				x.drift("s5srv/abort-reply", fmt.Sprintf("Abort(%d): expected a 10-byte reply with REP %d, the server wrote % x", p.code, x.w.repOf[p.code], out),
					x.w.repOf[p.code], fmt.Sprintf("% x", out))
			}
			_ = h.sc.Close()
		}
	}
}

func lenClass(a conn.Addr) int {
	if !a.IsDomain() {
		return 0
	}
	n := len(a.Domain())
	switch {
	case n <= 1:
		return 1
	case n >= 255:
		return 255
	default:
		return 2
	}
}

func portClass(p uint16) int {
	switch p {
	case 0, 1, 443, 65535:
		return int(p)
	default:
		return 2
	}
}

// afterProceed: the established connection carries data both ways.
func (x *exec) afterProceed(h handshake, cc netio.Conn) {
	if x.c.Ep == "httpsrv" && x.c.M.S("method") != "CONNECT" {
		x.httpOrigin(cc)
		_ = h.sc.Close()
		return
	}
	x.relayTCP(cc)
	_ = h.sc.Close()
}

func (x *exec) doHandshake() (h handshake) {
	var srv netio.StreamServer
	var peer []byte
	var segs []int
	var err error
	switch x.c.Ep {
	case "s5srv":
		srv, peer, segs, err = x.mkS5Srv()
	case "nonesrv":
		srv, peer, segs, err = x.mkNoneSrv()
	case "ss22srv":
		srv, peer, segs, h.fb, err = x.mkSsSrv()
	case "httpsrv":
		srv, peer, segs, err = x.mkHTTPSrv()
	}
	if err != nil {
		x.res.Break("case %s: %v", x.c.ID, err)
		return
	}
	h.sc = newScriptConn(peer, segs)
	var c netio.Conn = h.sc
	if x.rnd.Intn(2) == 0 {
		c = scriptConnRF{h.sc}
	}
	h.ok = x.guard("parse", func() { h.req, h.err = srv.HandleStream(c, x.w.logger) })
	return h
}

// cutTo delivers only the first `have` bytes.
func cutTo(b []byte, have int) []byte {
	if have >= 0 && have < len(b) {
		return b[:have]
	}
	return b
}
