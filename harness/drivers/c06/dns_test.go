//go:build verif

package c06

import (
	"context"
	"encoding/binary"
	"net"
	"net/netip"
	"strings"
	"sync/atomic"
	"time"

	"github.com/database64128/shadowsocks-go/conn"
	"github.com/database64128/shadowsocks-go/direct"
	"github.com/database64128/shadowsocks-go/dns"
	"github.com/database64128/shadowsocks-go/netio"
)

const lookedUp = "example.com"

var qname = []byte("\x07example\x03com\x00")

// dnsMessage concretises a DNS reply: counts, flags and RDLENGTH exact, names of the class the model chose,
// TTLs and record data from the seed.
func (x *exec) dnsMessage() ([]byte, error) {
	m := &x.c.M
	ra := byte(0)
	msgStart := 0
	if m.B("tcp") {
		msgStart = 2
	}
	enc := &encoder{rnd: x.rnd, now: time.Now()}
	enc.special = func(f fieldJ, name, class string, off int) ([]byte, bool) {
		switch name {
		case "flags":
			var b byte = 0x01 // RD
			if strings.HasPrefix(class, "r") {
				b |= 0x80
			}
			if len(class) > 1 && class[1] == 'a' {
				ra = 0x80
			}
			if len(class) > 2 && class[2] == 't' {
				b |= 0x02
			}
			return []byte{b}, true
		case "rcode":
			return []byte{ra | byte(f.V&0xf)}, true
		case "questions":
			var out []byte
			qt := uint16(1)
			if m.I("id") == 6 {
				qt = 28
			}
			for i := 0; i < m.I("qd"); i++ {
				out = append(out, qname...)
				out = binary.BigEndian.AppendUint16(out, qt)
				out = binary.BigEndian.AppendUint16(out, 1)
			}
			return out, true
		case "rrs":
			kind := m.S("name")
			typ := map[string]uint16{"A": 1, "AAAA": 28, "CNAME": 5, "OPT": 41}[m.S("atype")]
			var out []byte
			n := m.I("an") + m.I("ns") + m.I("ar")
			for i := 0; i < n; i++ {
				at := off + len(out) - msgStart
				switch kind {
				case "ptr":
					out = append(out, 0xc0, 12)
				case "root":
					out = append(out, 0)
				case "loop":
					out = append(out, 0xc0|byte(at>>8), byte(at))
				case "fwd":
					out = append(out, 0xff, 0xff)
				case "label64":
					out = append(out, 0x40)
					out = append(out, x.randNot(64)...)
					out = append(out, 0)
				default:
					out = append(out, qname...)
				}
				out = binary.BigEndian.AppendUint16(out, typ)
				out = binary.BigEndian.AppendUint16(out, 1)
				out = binary.BigEndian.AppendUint32(out, []uint32{0, 1, 60, 0xffffffff, 0x80000000}[x.rnd.Intn(5)])
				out = binary.BigEndian.AppendUint16(out, uint16(f.V))
				out = append(out, x.randNot(int(f.V))...)
			}
			return out, true
		}
		return nil, false
	}
	b, err := enc.encode(x.c.Wire)
	if err != nil {
		return nil, err
	}
	return cutTo(b, x.c.Have), nil
}

// dnsCase feeds the reply to a real dns.Resolver: over the 2-byte framing of a scripted TCP upstream, or (first
// concretisation of the UDP cases) as a datagram from a loopback socket.  After the hostile reply the upstream
// answers properly, so that the lookup can end.
func (x *exec) dnsCase() {
	msg, err := x.dnsMessage()
	if err != nil {
		x.res.Break("case %s: %v", x.c.ID, err)
		return
	}
	ctx, cancel := context.WithTimeout(context.Background(), 15*time.Second)
	defer cancel()
	// what the upstream says after the hostile reply: proper records, or (one concretisation in three) no records
	empty := x.rnd.Intn(3) == 0
	good := dnsUpstreamOpt(empty)
	var dials atomic.Int32
	realUDP := x.c.Ep == "dnsudp" && x.k == 0
	tcpClient := &fakeInner{name: "dns-hostile", native: true, next: func(a conn.Addr, payload []byte) (netio.Conn, error) {
		if dials.Add(1) == 1 && !realUDP {
			stream := msg
			if x.c.Ep == "dnsudp" {
				// the datagram of the case behind a correct length prefix
				stream = binary.BigEndian.AppendUint16(nil, uint16(len(msg)))
				stream = append(stream, msg...)
			}
			return newScriptConn(append([]byte(nil), stream...), segments(x.rnd, len(stream), []int{2, 14})), nil
		}
		return good.next(a, payload)
	}}
	server := netip.MustParseAddrPort("127.0.0.1:53")
	var r *dns.Resolver
	if realUDP {
		pc, err := net.ListenUDP("udp4", &net.UDPAddr{IP: net.IPv4(127, 0, 0, 1)})
		if err != nil {
			x.res.Break("loopback UDP socket: %v", err)
			return
		}
		defer pc.Close()
		server = pc.LocalAddr().(*net.UDPAddr).AddrPort()
		go func() {
			buf := make([]byte, 2048)
			first := true
			for {
				n, from, err := pc.ReadFromUDPAddrPort(buf)
				if err != nil {
					return
				}
				if first {
					first = false
					_, _ = pc.WriteToUDPAddrPort(msg, from)
				}
				if a := dnsAnswerOpt(buf[:n], empty); a != nil {
					_, _ = pc.WriteToUDPAddrPort(a, from)
				}
			}
		}()
		r = dns.NewResolver("c06", 4, server, tcpClient, direct.NewDirectUDPClient("d", "ip", 1500, conn.DefaultUDPClientListenConfig), x.w.logger)
	} else {
		r = dns.NewResolver("c06", 4, server, tcpClient, nil, x.w.logger)
	}
	var lerr error
	ok := x.guard("parse", func() {
		_, lerr = r.Lookup(ctx, lookedUp)
		if lerr == nil {
			// the cached answer is what routing uses afterwards
			_, _ = r.LookupIP(ctx, lookedUp)
			_, _ = r.LookupIPs(ctx, lookedUp)
		}
	})
	if !ok {
		return
	}
	v := "answered"
	if lerr != nil {
		v = "failed"
	}
	x.res.Count("dns/"+x.c.Ep+"/lookup-"+v, 1)
	x.res.Count("verdict/"+x.c.Ep+"/n-a", 1)
}
