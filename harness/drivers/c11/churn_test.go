//go:build verif

package c11

import (
	"fmt"
	"math/rand/v2"
	"net"
	"sync"
	"testing"
	"time"

	"github.com/database64128/shadowsocks-go/verifhook"
	"go.uber.org/zap/zapcore"

	"verif/harness/internal/relayenv"
	"verif/harness/internal/vio"
)

// TestChurn: sessions that expire and restart all the time while packets keep arriving. The NAT timeout is a few tens of
// milliseconds, every client sends at about that period, and the hook points inside the receive loop's critical section and
// after a session's cleanup sleep at random, so that a cleanup waits for the relay mutex while the receive loop holds it and
// a packet of the expiring session is next. The specification's NoSendOnClosed (close+delete under the same mutex as the
// enqueue) is what makes this safe; the oracle here is C12's: no panic, every packet that is answered is answered to its
// sender, Stop returns promptly, nothing leaks. A crash kills this process and is attributed by the runner.
func TestChurn(t *testing.T) {
	in, err := vio.ReadInput()
	if err != nil {
		t.Skip(err)
	}
	res := vio.NewResult()
	defer func() {
		if err := res.Write(); err != nil {
			t.Fatal(err)
		}
	}()
	v := variant{Server: "socks5", BatchMode: "no", NATTimeout: "40ms"}
	in.Param("variant", &v)
	seconds := 3
	in.Param("seconds", &seconds)
	natTimeout, _ := time.ParseDuration(v.NATTimeout)

	target, err := relayenv.ListenSock("127.0.0.4:0", true)
	if err != nil {
		t.Fatal(err)
	}
	defer target.Close()
	baseSock := relayenv.SocketFDs()
	var hmu sync.Mutex
	hrnd := rand.New(rand.NewPCG(uint64(in.Seed), 99))
	verifhook.Set(func(point string, args ...any) {
		switch point {
		case "relay.recv.afterInsert", "relay.recv.enqueued", "relay.session.cleanup", "relay.init.beforeSwap", "relay.uplink.afterSend":
			hmu.Lock()
			d := time.Duration(hrnd.IntN(1500)) * time.Microsecond
			hmu.Unlock()
			time.Sleep(d)
		}
	})
	defer verifhook.Set(nil)
	r, err := relayenv.Start(relayConfig(v, "127.0.0.5"), zapcore.InfoLevel)
	if err != nil {
		res.Break("start relay: %v", err)
		return
	}
	addr, err := r.Addr("udp", "s1", 0, 10*time.Second)
	if err != nil {
		res.Break("%v", err)
		r.Stop(5 * time.Second)
		return
	}
	relayAddr := net.UDPAddrFromAddrPort(addr)
	const nclients = 4
	var wg sync.WaitGroup
	stop := time.Now().Add(time.Duration(seconds) * time.Second)
	var mu sync.Mutex
	sent, answered, wrong := 0, 0, 0
	for c := 0; c < nclients; c++ {
		wg.Add(1)
		go func(c int) {
			defer wg.Done()
			rnd := rand.New(rand.NewPCG(uint64(in.Seed), uint64(c)))
			sock, err := relayenv.ListenSock("127.0.0.1:0", false)
			if err != nil {
				return
			}
			defer sock.Close()
			n := 0
			for time.Now().Before(stop) {
				n++
				payload := fmt.Sprintf("c%d#%d", c, n)
				pkt, _ := relayenv.Socks5UDP(target.Addr.String(), []byte(payload))
				_, _ = sock.Conn.WriteToUDP(pkt, relayAddr)
				mu.Lock()
				sent++
				mu.Unlock()
				// around the NAT timeout, sometimes just before, sometimes just after, sometimes a burst
				d := natTimeout + time.Duration(rnd.IntN(int(natTimeout/2))) - natTimeout/4
				if rnd.IntN(5) == 0 {
					d = time.Duration(rnd.IntN(2000)) * time.Microsecond
				}
				deadline := time.Now().Add(d)
				for time.Now().Before(deadline) {
					dg, ok := sock.Recv(time.Until(deadline))
					if !ok {
						break
					}
					_, p, err := relayenv.ParseSocks5UDP(dg.Payload)
					mu.Lock()
					if err != nil || len(p) < 4 || string(p[:3]) != "re:" || string(p[3:3+len(fmt.Sprintf("c%d#", c))]) != fmt.Sprintf("c%d#", c) {
						wrong++
					} else {
						answered++
					}
					mu.Unlock()
				}
			}
		}(c)
	}
	wg.Wait()
	if wrong > 0 {
		res.Violation(vio.Finding{Key: "relay.isolation/reply-to-wrong-client", Text: fmt.Sprintf("%d replies reached a client that did not send the request", wrong)})
	}
	d, ok := r.Stop(natTimeout + 8*time.Second)
	if !ok {
		res.Violation(vio.Finding{Key: "relay.stop/not-prompt", Text: "Stop did not return after churn", Observed: d.String()})
	}
	deadline := time.Now().Add(3 * time.Second)
	var leaked []string
	for {
		leaked = relayenv.Goroutines("service.(*UDPNATRelay)", "service.(*UDPSessionRelay)")
		if len(leaked) == 0 || time.Now().After(deadline) {
			break
		}
		time.Sleep(10 * time.Millisecond)
	}
	if len(leaked) > 0 {
		res.Violation(vio.Finding{Key: "relay.stop/goroutine-leak", Text: fmt.Sprintf("%d relay goroutines alive after Stop", len(leaked)), Observed: leaked[0][:min(len(leaked[0]), 500)]})
	}
	if got := relayenv.SocketFDs(); got > baseSock {
		time.Sleep(100 * time.Millisecond)
		if got = relayenv.SocketFDs(); got > baseSock {
			res.Violation(vio.Finding{Key: "relay.stop/socket-leak", Text: fmt.Sprintf("%d sockets still open after Stop", got-baseSock)})
		}
	}
	sessions := r.Logs.FilterMessage("UDP NAT relay started").Len()
	res.AddSteps(1, sent)
	res.Count("churn_sessions", sessions)
	res.Count("churn_answered", answered)
	res.Seen(fmt.Sprintf("churn/%s", v.BatchMode))
	res.Seen("churn/answered")
	res.Sample(map[string]any{"variant": v, "packets": sent, "answered": answered, "sessions_started": sessions}, 1)
	if sessions < 5 {
		res.Break("churn produced only %d sessions: the NAT timeout never expired between packets", sessions)
	}
}
