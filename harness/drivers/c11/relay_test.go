//go:build verif

// Package c11 replays behaviours of specs/Relay/UdpRelay.tla on real UDP relays (built from a
// JSON service.Config, running on loopback sockets) with the verifhook points as scheduler
// gates, and evaluates C11 (datagram isolation) and C12 (lifecycle, prompt stop, no leaks) on
// what the real relay did.
package c11

import (
	"context"
	"encoding/base64"
	"encoding/json"
	"fmt"
	"net"
	"net/netip"
	"os"
	"strings"
	"sync"
	"testing"
	"time"

	"github.com/database64128/shadowsocks-go/conn"
	"github.com/database64128/shadowsocks-go/ss2022"
	"github.com/database64128/shadowsocks-go/verifhook"
	"github.com/database64128/shadowsocks-go/zerocopy"
	"go.uber.org/zap/zapcore"

	"verif/harness/internal/relayenv"
	"verif/harness/internal/vio"
)

type action struct {
	N    string          `json:"n"`
	S    string          `json:"s"`
	T    string          `json:"t"`
	To   json.RawMessage `json:"to"`
	From int             `json:"from"`
	K    json.RawMessage `json:"k"`
	Drop int             `json:"drop"`
	Out  string          `json:"out"`
	Next string          `json:"next"`
	At   string          `json:"at"`
}

// nextInit: how the model says the initialisation of session s ends, looking ahead in the behaviour
func nextInit(steps []vio.Step, s string) string {
	for _, st := range steps {
		var a action
		if json.Unmarshal(st.A, &a) != nil || a.S != s {
			continue
		}
		switch a.N {
		case "InitOk":
			return "ok"
		case "InitFail":
			return a.At
		}
	}
	return ""
}

func (a *action) kInt() int {
	var i int
	_ = json.Unmarshal(a.K, &i)
	return i
}

func (a *action) kStr() string {
	var x string
	_ = json.Unmarshal(a.K, &x)
	return x
}

func (a *action) toInt() int {
	var i int
	_ = json.Unmarshal(a.To, &i)
	return i
}

type parked struct {
	point string
	ch    chan struct{}
}

type world struct {
	mu       sync.Mutex
	free     bool
	freeRole map[string]bool // roles whose gates currently let everything through
	relay    *relayenv.Relay
	keyOf    map[string]string // session -> key string
	sessOf   map[string]string // key string -> session
	goSess   map[int64]string  // goroutine id -> session (uplink goroutines)
	parkedAt map[string]*parked
	signals  map[string]int // "point/session" -> count
	cond     *sync.Cond
	lastNew  string // key of the last inserted table entry
	pending  string // session whose next insert we expect
}

func keyString(v any) string { return fmt.Sprint(v) }

// gate points block the calling relay goroutine until the driver releases it.
var gatePoints = map[string]string{
	"relay.init.beforeSwap":          "init",
	"relay.uplink.beforePack":        "uplink",
	"direct.pack.beforeCheck":        "uplink",
	"direct.pack.afterResolve":       "uplink",
	"direct.pack.beforeLoadIP":       "uplink",
	"relay.uplink.afterSend":         "uplink",
	"relay.downlink.afterRecv":       "downlink",
	"relay.stop.afterWaitRecv":       "stop",
	"relay.stop.beforeWaitAll":       "",
	"relay.stop.afterWaitAll":        "",
	"relay.uplink.afterRearm":        "",
	"relay.session.cleanup":          "",
	"relay.recv.afterInsert":         "",
	"relay.recv.enqueued":            "",
	"direct.pack.afterStore":         "",
	"relay.stop.afterServerDeadline": "",
}

func (w *world) hook(point string, args ...any) {
	role, known := gatePoints[point]
	if !known {
		return
	}
	w.mu.Lock()
	var sess string
	switch {
	case strings.HasPrefix(point, "direct.pack."):
		sess = w.goSess[relayenv.GoID()]
	case strings.HasPrefix(point, "relay.stop."):
		sess = "stop"
	default:
		if len(args) >= 2 {
			k := keyString(args[1])
			if point == "relay.recv.afterInsert" {
				w.lastNew = k
				if w.pending != "" {
					w.keyOf[w.pending] = k
					w.sessOf[k] = w.pending
					w.pending = ""
				}
			}
			sess = w.sessOf[k]
		}
	}
	if point == "relay.uplink.beforePack" {
		w.goSess[relayenv.GoID()] = sess
	}
	w.signals[point+"/"+sess]++
	if debug {
		fmt.Fprintf(os.Stderr, "HOOK %s sess=%q args=%v free=%v\n", point, sess, args[1:], w.free)
	}
	w.cond.Broadcast()
	if w.free || role == "" || sess == "" || w.freeRole[role] {
		w.mu.Unlock()
		return
	}
	p := &parked{point: point, ch: make(chan struct{})}
	w.parkedAt[sess+"/"+role] = p
	w.cond.Broadcast()
	w.mu.Unlock()
	<-p.ch
}

// waitParked waits until session's goroutine of the given role is parked at one of the points.
func (w *world) waitParked(sess, role string, timeout time.Duration, points ...string) (string, bool) {
	deadline := time.Now().Add(timeout)
	w.mu.Lock()
	defer w.mu.Unlock()
	for {
		if p := w.parkedAt[sess+"/"+role]; p != nil {
			for _, pt := range points {
				if p.point == pt {
					return pt, true
				}
			}
		}
		if time.Now().After(deadline) {
			if p := w.parkedAt[sess+"/"+role]; p != nil {
				return p.point, false
			}
			return "", false
		}
		w.timedWait(20 * time.Millisecond)
	}
}

func (w *world) timedWait(d time.Duration) {
	t := time.AfterFunc(d, func() { w.mu.Lock(); w.cond.Broadcast(); w.mu.Unlock() })
	w.cond.Wait()
	t.Stop()
}

func (w *world) release(sess, role string) bool {
	w.mu.Lock()
	p := w.parkedAt[sess+"/"+role]
	delete(w.parkedAt, sess+"/"+role)
	w.mu.Unlock()
	if p == nil {
		return false
	}
	close(p.ch)
	return true
}

func (w *world) signalCount(point, sess string) int {
	w.mu.Lock()
	defer w.mu.Unlock()
	return w.signals[point+"/"+sess]
}

func (w *world) waitSignal(point, sess string, above int, timeout time.Duration) bool {
	deadline := time.Now().Add(timeout)
	w.mu.Lock()
	defer w.mu.Unlock()
	for w.signals[point+"/"+sess] <= above {
		if time.Now().After(deadline) {
			return false
		}
		w.timedWait(20 * time.Millisecond)
	}
	return true
}

// setFreeRole makes the gates of one goroutine role pass-through (goroutines already parked stay parked).
func (w *world) setFreeRole(role string, free bool) {
	w.mu.Lock()
	if w.freeRole == nil {
		w.freeRole = map[string]bool{}
	}
	w.freeRole[role] = free
	w.mu.Unlock()
}

func (w *world) freeAll() {
	w.mu.Lock()
	w.free = true
	ps := w.parkedAt
	w.parkedAt = map[string]*parked{}
	w.mu.Unlock()
	for _, p := range ps {
		close(p.ch)
	}
}

type variant struct {
	Server     string `json:"server"`    // socks5
	BatchMode  string `json:"batchMode"` // no | sendmmsg
	NATTimeout string `json:"natTimeout"`
	Client     string `json:"client,omitempty"` // "" = direct client; "socks5" = SOCKS5 client towards a harness SOCKS5 server
}

const stepTimeout = 10 * time.Second

var debug = os.Getenv("VERIF_DEBUG") != ""

var dnsOnce sync.Once

var socks5Endpoint string // set before relayConfig for variants with the SOCKS5 client

func clientConfig(v variant) map[string]any {
	if v.Client == "socks5" {
		// (the router refers to the client by name; the name stays "direct")
		return map[string]any{"name": "direct", "protocol": "socks5", "endpoint": socks5Endpoint, "enableUDP": true, "mtu": 1500}
	}
	return map[string]any{"name": "direct", "protocol": "direct", "enableUDP": true, "mtu": 1500}
}

func relayConfig(v variant, rejectIP string) []byte {
	server := map[string]any{
		"name": "s1", "protocol": v.Server, "mtu": 1500,
		"udpListeners": []any{map[string]any{"network": "udp4", "address": "127.0.0.1:0", "natTimeout": v.NATTimeout, "batchMode": v.BatchMode}},
	}
	if v.Server == "ss2022" {
		server["protocol"] = "2022-blake3-aes-128-gcm"
		server["psk"] = base64.StdEncoding.EncodeToString(ssPSK)
	}
	cfg := map[string]any{
		"servers": []any{server},
		"clients": []any{clientConfig(v)},
		"router": map[string]any{
			"defaultUDPClientName": "direct",
			"routes":               []any{map[string]any{"name": "rej", "network": "udp", "client": "reject", "toPrefixes": []string{rejectIP + "/32"}, "disableNameResolutionForIPRules": true}},
		},
	}
	b, _ := json.Marshal(cfg)
	return b
}

// wire is the client side of the server protocol under test.
type wire interface {
	pack(sess, target string, payload []byte) ([]byte, error)
	unpack(sess string, pkt []byte, from netip.AddrPort) (src string, payload []byte, err error)
	garbage() []byte
}

type socks5Wire struct{}

func (socks5Wire) pack(_, target string, payload []byte) ([]byte, error) {
	return relayenv.Socks5UDP(target, payload)
}
func (socks5Wire) unpack(_ string, pkt []byte, _ netip.AddrPort) (string, []byte, error) {
	return relayenv.ParseSocks5UDP(pkt)
}
func (socks5Wire) garbage() []byte { return []byte{0, 0, 1, 9, 9} }

var ssPSK = []byte("0123456789abcdef")

// ss2022Wire packs with one real Shadowsocks 2022 client session per model session.
type ss2022Wire struct {
	relay netip.AddrPort
	sess  map[string]*zerocopy.UDPClientSession
	info  map[string]zerocopy.UDPClientSessionInfo
}

func (w *ss2022Wire) session(name string) (*zerocopy.UDPClientSession, zerocopy.UDPClientSessionInfo, error) {
	if s := w.sess[name]; s != nil {
		return s, w.info[name], nil
	}
	ccc, err := ss2022.NewClientCipherConfig(ssPSK, nil, true)
	if err != nil {
		return nil, zerocopy.UDPClientSessionInfo{}, err
	}
	c := ss2022.NewUDPClient("h", "ip", conn.AddrFromIPPort(w.relay), 1500, conn.ListenConfig{}, 0, ccc, ss2022.NoPadding)
	info, sess, err := c.NewSession(context.Background())
	if err != nil {
		return nil, info, err
	}
	w.sess[name] = &sess
	w.info[name] = info
	return &sess, info, nil
}

func (w *ss2022Wire) pack(name, target string, payload []byte) ([]byte, error) {
	sess, info, err := w.session(name)
	if err != nil {
		return nil, err
	}
	ta, err := conn.ParseAddr(target)
	if err != nil {
		return nil, err
	}
	front := info.PackerHeadroom.Front
	b := make([]byte, front+len(payload)+info.PackerHeadroom.Rear+64)
	copy(b[front:], payload)
	_, ps, pl, err := sess.Packer.PackInPlace(context.Background(), b, ta, front, len(payload))
	if err != nil {
		return nil, err
	}
	return append([]byte(nil), b[ps:ps+pl]...), nil
}

func (w *ss2022Wire) unpack(name string, pkt []byte, from netip.AddrPort) (string, []byte, error) {
	sess, _, err := w.session(name)
	if err != nil {
		return "", nil, err
	}
	b := append([]byte(nil), pkt...)
	src, ps, pl, err := sess.Unpacker.UnpackInPlace(b, from, 0, len(b))
	if err != nil {
		return "", nil, err
	}
	return src.String(), b[ps : ps+pl], nil
}

func (w *ss2022Wire) garbage() []byte {
	b := make([]byte, 48)
	for i := range b {
		b[i] = byte(i*37 + 11)
	}
	return b
}

type env struct {
	targets map[string]*relayenv.Sock // model target name -> socket
	tport   uint16
	clients map[string]*relayenv.Sock
	addrOf  map[string]string // model target -> address string the client names ("a.test:P" or "127.0.0.4:P")
}

func listenTargets() (*env, error) {
	for attempt := 0; attempt < 20; attempt++ {
		a, err := relayenv.ListenSock("127.0.0.2:0", false)
		if err != nil {
			return nil, err
		}
		port := a.Addr.Port()
		b, err1 := relayenv.ListenSock(fmt.Sprintf("127.0.0.3:%d", port), false)
		c, err2 := relayenv.ListenSock(fmt.Sprintf("127.0.0.4:%d", port), false)
		d, err3 := relayenv.ListenSock(fmt.Sprintf("127.0.0.5:%d", port), false)
		c2, err4 := relayenv.ListenSock(fmt.Sprintf("127.0.0.6:%d", port), false)
		if err1 != nil || err2 != nil || err3 != nil || err4 != nil {
			a.Close()
			for _, s := range []*relayenv.Sock{b, c, d, c2} {
				if s != nil {
					s.Close()
				}
			}
			continue
		}
		return &env{targets: map[string]*relayenv.Sock{"a": a, "b": b, "ip": c, "rej": d, "ip2": c2}, tport: port, clients: map[string]*relayenv.Sock{},
			addrOf: map[string]string{"nx": fmt.Sprintf("nx.test:%d", port), "a": fmt.Sprintf("a.test:%d", port), "b": fmt.Sprintf("b.test:%d", port), "ip": fmt.Sprintf("127.0.0.4:%d", port), "rej": fmt.Sprintf("127.0.0.5:%d", port), "ip2": fmt.Sprintf("127.0.0.6:%d", port)}}, nil
	}
	return nil, fmt.Errorf("no free port set")
}

func (e *env) close() {
	for _, s := range e.targets {
		s.Close()
	}
	for _, s := range e.clients {
		s.Close()
	}
}

func runBehaviour(t *testing.T, in *vio.Input, bi int, b vio.Behaviour, v variant, res *vio.Result) {
	dnsOnce.Do(func() {
		_, err := relayenv.StartDNS(map[string]netip.Addr{"a.test": netip.MustParseAddr("127.0.0.2"), "b.test": netip.MustParseAddr("127.0.0.3")})
		if err != nil {
			t.Fatal(err)
		}
	})
	var hist []any
	fail := func(key, text string, si int, exp, got any) {
		res.Violation(vio.Finding{Key: key, Text: text, Behaviour: bi, Step: si, Expected: exp, Observed: got,
			Replay: map[string]any{"variant": v, "actions": hist}})
	}
	e, err := listenTargets()
	if err != nil {
		res.Break("targets: %v", err)
		return
	}
	defer e.close()
	var s5 *relayenv.Socks5Server
	if v.Client == "socks5" {
		var err error
		if s5, err = relayenv.StartSocks5Server(4); err != nil {
			res.Break("socks5 server: %v", err)
			return
		}
		defer s5.Close()
		socks5Endpoint = s5.Addr()
	}
	var restoreFDs func()
	defer func() {
		if restoreFDs != nil {
			restoreFDs()
		}
	}()
	baseSock := relayenv.SocketFDs()
	w := &world{keyOf: map[string]string{}, sessOf: map[string]string{}, goSess: map[int64]string{}, parkedAt: map[string]*parked{}, signals: map[string]int{}}
	w.cond = sync.NewCond(&w.mu)
	verifhook.Set(w.hook)
	defer verifhook.Set(nil)
	r, err := relayenv.Start(relayConfig(v, "127.0.0.5"), zapcore.DebugLevel)
	if err != nil {
		res.Break("start relay: %v", err)
		return
	}
	w.relay = r
	stopBegun, stopped := false, false
	natTimeout, _ := time.ParseDuration(v.NATTimeout)
	stopBound := natTimeout / 3
	if stopBound > 8*time.Second {
		stopBound = 8 * time.Second
	}
	var checkArrivals func(si int)
	finish := func(si int) {
		defer func() {
			// whatever left the relay while it shut down must still be where its session addressed it
			if checkArrivals != nil {
				time.Sleep(20 * time.Millisecond)
				checkArrivals(si)
			}
		}()
		// end of behaviour: stop (if the behaviour has not) with every gate open, then account
		w.freeAll()
		if !stopBegun {
			r.BeginStop()
		}
		if !stopped {
			d, ok := r.WaitStopped(stopBound)
			if !ok {
				fail("relay.stop/not-prompt", fmt.Sprintf("Stop did not return within %s (NAT timeout %s): it is waiting for a session's NAT timeout", stopBound, v.NATTimeout), si, "prompt", d.String())
				// let it finish so that the process can go on
				r.WaitStopped(natTimeout + 5*time.Second)
			}
		}
		// leak accounting
		deadline := time.Now().Add(3 * time.Second)
		var leaked []string
		for {
			leaked = relayenv.Goroutines("service.(*UDPNATRelay)", "service.(*UDPSessionRelay)")
			if len(leaked) == 0 || time.Now().After(deadline) {
				break
			}
			time.Sleep(10 * time.Millisecond)
		}
		if len(leaked) > 0 {
			fail("relay.stop/goroutine-leak", fmt.Sprintf("%d relay goroutines are still alive after Stop returned", len(leaked)), si, 0, leaked[0][:min(len(leaked[0]), 600)])
		}
		for _, s := range e.clients {
			s.Close()
		}
		e.clients = map[string]*relayenv.Sock{}
		if got := relayenv.SocketFDs(); got > baseSock {
			// (a SOCKS5 client session closes its control connection from a goroutine of its own, and the harness server
			// closes its end when it sees that)
			for dl := time.Now().Add(2 * time.Second); got > baseSock && time.Now().Before(dl); got = relayenv.SocketFDs() {
				time.Sleep(20 * time.Millisecond)
			}
			if got = relayenv.SocketFDs(); got > baseSock {
				fail("relay.stop/socket-leak", fmt.Sprintf("%d sockets are still open after Stop returned", got-baseSock), si, baseSock, got)
			}
		}
	}
	addr, err := r.Addr("udp", "s1", 0, 5*time.Second)
	if err != nil {
		res.Break("%v", err)
		r.Stop(5 * time.Second)
		return
	}
	relayAddr := net.UDPAddrFromAddrPort(addr)
	seq := map[string]int{}
	cleanupsSeen := map[string]int{}
	queued := map[string][]string{}   // payloads queued to the session's send channel, in order
	curPayload := map[string]string{} // the payload the uplink is working on
	batch := map[string][]string{}    // batched uplink: payloads packed and not yet written
	sockFails, acceptedBefore := 0, 0
	chatty := map[string]bool{} // the last TimerFire of the session was spent with the remote side talking
	replyFrom := map[string]string{}  // target the pending reply was sent from
	type reply struct {
		kind    string
		payload string
	}
	replyQ := map[string][]reply{} // replies that arrived at the session's socket, not read yet
	gotQ := map[string][]reply{}   // the batch the downlink is working on
	replySeq := map[string]int{}
	lastTarget := map[string]string{}
	// waitCleanup waits for the next not-yet-consumed cleanup signal of the session
	waitCleanup := func(sess string, timeout time.Duration) bool {
		if w.waitSignal("relay.session.cleanup", sess, cleanupsSeen[sess], timeout) {
			cleanupsSeen[sess]++
			return true
		}
		return false
	}
	natAddr := map[string]netip.AddrPort{} // session -> relay-side socket address seen by targets
	sentPayload := map[string]string{}     // payload -> session
	expectArrive := map[string]string{}    // payload -> model target
	cliIdx := map[string]int{}             // the address (1 or 2) the session's client currently sends from
	client := func(s string) *relayenv.Sock {
		idx := cliIdx[s]
		if idx == 0 {
			idx = 1
		}
		k := fmt.Sprintf("%s@%d", s, idx)
		if c := e.clients[k]; c != nil {
			return c
		}
		c, err := relayenv.ListenSock("127.0.0.1:0", false)
		if err != nil {
			t.Fatal(err)
		}
		e.clients[k] = c
		return c
	}
	var wr wire = socks5Wire{}
	if v.Server == "ss2022" {
		wr = &ss2022Wire{relay: addr, sess: map[string]*zerocopy.UDPClientSession{}, info: map[string]zerocopy.UDPClientSessionInfo{}}
	}
	lastPkt := map[string][]byte{}
	warnCount := func() int { return r.Logs.FilterLevelExact(zapcore.WarnLevel).Len() }
	// checkArrivals: every datagram must be at the socket of the target its session named, nowhere else
	checkArrivals = func(si int) {
		for name, ts := range e.targets {
			for _, d := range ts.Drain() {
				p := string(d.Payload)
				want, ok := expectArrive[p]
				if !ok {
					fail("relay.isolation/unknown-datagram", "a target received a datagram nobody sent: "+p, si, nil, name)
					continue
				}
				if want != name {
					fail("relay.isolation/misdirected-datagram", fmt.Sprintf("datagram %q addressed to target %s by session %s arrived at target %s", p, want, sentPayload[p], name), si, want, name)
				}
				natAddr[sentPayload[p]] = d.From
				lastTarget[sentPayload[p]] = name
				delete(expectArrive, p)
			}
		}
	}
	for si, st := range b.Steps {
		var a action
		if err := json.Unmarshal(st.A, &a); err != nil {
			res.Break("bad action: %v", err)
			finish(si)
			return
		}
		hist = append(hist, json.RawMessage(st.A))
		brk := func(format string, args ...any) {
			if a.S != "" && !stopBegun && w.signalCount("relay.session.cleanup", a.S) > cleanupsSeen[a.S] {
				// the session's NAT timeout expired by itself while the harness was slow: a behaviour the spec
				// allows (TimerFire), but not the one being replayed; give up on this behaviour without a verdict
				res.Count("skipped_spontaneous_timeout", 1)
				finish(si)
				return
			}
			hj, _ := json.Marshal(hist)
			res.Break("behaviour %d step %d %s(%s): %s [logs: %s] [actions: %s]", bi, si, a.N, a.S, fmt.Sprintf(format, args...), r.LogTail(3), hj)
			finish(si)
		}
		switch a.N {
		case "RecvPkt":
			seq[a.S]++
			payload := fmt.Sprintf("%s#%d>%s", a.S, seq[a.S], a.T)
			if a.From != 0 {
				cliIdx[a.S] = a.From
			}
			pkt, err := wr.pack(a.S, e.addrOf[a.T], []byte(payload))
			if err != nil {
				brk("%v", err)
				return
			}
			sentPayload[payload] = a.S
			expectArrive[payload] = a.T
			if a.Out == "new" {
				queued[a.S] = nil
			}
			if a.Out != "dropped" {
				queued[a.S] = append(queued[a.S], payload)
			}
			before := w.signalCount("relay.recv.enqueued", a.S)
			dropsBefore := r.CountLogs("Dropping packet due to full send channel")
			if a.Out == "new" {
				delete(natAddr, a.S)
				w.mu.Lock()
				w.pending = a.S
				delete(w.sessOf, w.keyOf[a.S])
				w.mu.Unlock()
			}
			lastPkt[a.S] = pkt
			cconn := client(a.S).Conn
			if a.Out == "new" && nextInit(b.Steps[si+1:], a.S) == "socket" {
				// the model: routing and the client session succeed, creating the session's socket fails.  Leave room for
				// exactly the client session's two descriptors (its TCP socket, the harness server's accepted connection)
				if s5 == nil {
					brk("socket fault without the SOCKS5 client variant")
					return
				}
				acceptedBefore = s5.Accepted()
				var err error
				if restoreFDs, err = relayenv.LimitFDs(2); err != nil {
					brk("%v", err)
					return
				}
			}
			if _, err := cconn.WriteToUDP(pkt, relayAddr); err != nil {
				brk("%v", err)
				return
			}
			if !w.waitSignal("relay.recv.enqueued", a.S, before, stepTimeout) {
				if a.Out != "new" && w.signalCount("relay.recv.afterInsert", "") > 0 {
					// the relay made a NEW session where the model has a live one: the session was torn down early
					fail("relay.lifecycle/session-lost", "a packet of a live session created a new session", si, a.Out, "new")
					finish(si)
					return
				}
				if a.Out != "dropped" && r.CountLogs("Dropping packet due to full send channel") > dropsBefore {
					// the relay itself says it received this valid datagram and threw it away, while the session's queue
					// (model: fewer than ChanCap packets waiting) has room: the datagram does not leave towards its target
					fail("relay.uplink/valid-datagram-dropped", fmt.Sprintf("the relay dropped valid datagram %q of session %s although its send queue has room", payload, a.S), si, a.Out, "dropped")
					finish(si)
					return
				}
				brk("packet was not queued")
				return
			}
		case "Garbage":
			warns := warnCount()
			inserts := w.signalCount("relay.recv.afterInsert", a.S) + w.signalCount("relay.recv.afterInsert", "")
			if _, err := client(a.S).Conn.WriteToUDP(wr.garbage(), relayAddr); err != nil {
				brk("%v", err)
				return
			}
			dl := time.Now().Add(stepTimeout)
			for warnCount() == warns && time.Now().Before(dl) {
				time.Sleep(2 * time.Millisecond)
			}
			if warnCount() == warns {
				brk("garbage datagram produced no log entry")
				return
			}
			if got := w.signalCount("relay.recv.afterInsert", a.S) + w.signalCount("relay.recv.afterInsert", ""); got != inserts {
				fail("relay.garbage/creates-session", "a datagram that does not parse created a table entry", si, inserts, got)
			}
		case "Move":
			cliIdx[a.S] = 2
		case "Forged":
			// a datagram carrying the live session's id from a foreign address that cannot authenticate:
			// alternately a replay of the session's last packet and the same packet with a flipped tag bit
			pkt := append([]byte(nil), lastPkt[a.S]...)
			if len(pkt) == 0 {
				brk("no packet to forge from")
				return
			}
			if (si+bi)%2 == 0 {
				pkt[len(pkt)-1] ^= 0x40
			}
			foreign := e.clients["foreign"]
			if foreign == nil {
				foreign, err = relayenv.ListenSock("127.0.0.1:0", false)
				if err != nil {
					t.Fatal(err)
				}
				e.clients["foreign"] = foreign
			}
			warns := warnCount()
			if _, err := foreign.Conn.WriteToUDP(pkt, relayAddr); err != nil {
				brk("%v", err)
				return
			}
			dl := time.Now().Add(stepTimeout)
			for warnCount() == warns && time.Now().Before(dl) {
				time.Sleep(2 * time.Millisecond)
			}
			if warnCount() == warns {
				fail("relay.isolation/forged-datagram-accepted", "a replayed/forged datagram from a foreign address was not refused", si, "refused", "no warning logged")
			}
		case "InitOk":
			if pt, ok := w.waitParked(a.S, "init", stepTimeout, "relay.init.beforeSwap"); !ok {
				brk("initialiser not at the swap (at %q)", pt)
				return
			}
		case "InitFail":
			queued[a.S] = nil
			if a.At == "socket" {
				// wait for the relay to report the failed socket, then lift the limit
				dl := time.Now().Add(stepTimeout)
				for r.CountLogs("Failed to create UDP socket for new NAT session")+r.CountLogs("Failed to create UDP socket for new session") == sockFails && time.Now().Before(dl) {
					time.Sleep(2 * time.Millisecond)
				}
				if restoreFDs != nil {
					restoreFDs()
					restoreFDs = nil
				}
				if r.CountLogs("Failed to create UDP socket for new NAT session")+r.CountLogs("Failed to create UDP socket for new session") == sockFails {
					// the descriptor limit bit somewhere else (or not at all): not the behaviour being replayed
					res.Count("skipped_fault_misplaced", 1)
					res.Sample(map[string]any{"fault_misplaced_logs": r.LogTail(4)}, 2)
					finish(si)
					return
				}
				sockFails++
				if s5.Accepted() == acceptedBefore {
					brk("the session's socket failed before its client session was created")
					return
				}
				// C12: nothing of a session whose initialisation failed may stay behind - its client session is closed
				dl = time.Now().Add(stepTimeout)
				for s5.OpenControlConns() > 0 && time.Now().Before(dl) {
					time.Sleep(5 * time.Millisecond)
				}
				if n := s5.OpenControlConns(); n > 0 {
					fail("relay.lifecycle/client-session-leaked", fmt.Sprintf("the session's socket could not be created; its client session (SOCKS5 control connection) is still open %s later", stepTimeout), si, 0, n)
					finish(si)
					return
				}
				res.Count("socket_faults_injected", 1)
			}
			if !waitCleanup(a.S, stepTimeout) {
				brk("rejected session was not cleaned up")
				return
			}
		case "Swap":
			if !w.release(a.S, "init") {
				brk("initialiser not parked")
				return
			}
			// wait for the effect: the uplink starts on the queued packet, or the aborted session is cleaned up
			if a.Out == "started" {
				if pt, ok := w.waitParked(a.S, "uplink", stepTimeout, "relay.uplink.beforePack"); !ok {
					if w.signalCount("relay.session.cleanup", a.S) > cleanupsSeen[a.S] {
						res.DriftNote(vio.Finding{Key: "relay.lifecycle/swap-drift", Behaviour: bi, Step: si, Expected: "started", Observed: "aborted", Text: "the initialiser gave up although the model lets it start"})
						finish(si)
						return
					}
					brk("uplink did not start (at %q)", pt)
					return
				}
			} else {
				queued[a.S] = nil
				if !waitCleanup(a.S, stepTimeout) {
					if pt, _ := w.waitParked(a.S, "uplink", 0, "relay.uplink.beforePack"); pt == "relay.uplink.beforePack" {
						// Stop had already swapped the state, yet the session started relaying: not the model's
						// behaviour; let the property decide (Stop must still return promptly, nothing may leak)
						res.DriftNote(vio.Finding{Key: "relay.lifecycle/swap-drift", Behaviour: bi, Step: si, Expected: "aborted", Observed: "started",
							Text: "a session whose initialisation finished after Stop walked the table started relaying"})
						finish(si)
						return
					}
					brk("aborted initialiser did not clean up")
					return
				}
			}
		case "UpDequeue":
			if pt, ok := w.waitParked(a.S, "uplink", stepTimeout, "relay.uplink.beforePack"); !ok {
				brk("uplink did not dequeue (at %q)", pt)
				return
			}
			if len(queued[a.S]) > 0 {
				curPayload[a.S] = queued[a.S][0]
				queued[a.S] = queued[a.S][1:]
			}
			if a.T == "a" || a.T == "b" || a.T == "nx" {
				w.release(a.S, "uplink")
				if pt, ok := w.waitParked(a.S, "uplink", stepTimeout, "direct.pack.beforeCheck"); !ok {
					brk("uplink not at the cache check (at %q)", pt)
					return
				}
			}
		case "PackChk":
			warnsBefore := warnCount()
			if !w.release(a.S, "uplink") {
				brk("uplink not parked")
				return
			}
			// where does the packer go: a cache hit parks before the IP load, a miss resolves (and parks after the
			// lookup) or fails (a warning is logged and the uplink moves on)
			got := ""
			dl := time.Now().Add(stepTimeout)
			for got == "" && time.Now().Before(dl) {
				if pt, _ := w.waitParked(a.S, "uplink", 0, "direct.pack.beforeLoadIP", "direct.pack.afterResolve"); pt == "direct.pack.beforeLoadIP" {
					got = "hit"
				} else if pt == "direct.pack.afterResolve" {
					got = "miss"
				} else if warnCount() > warnsBefore {
					got = "miss" // lookup failed or was cancelled
				} else {
					time.Sleep(time.Millisecond)
				}
			}
			if got == "" {
				brk("uplink did not finish the cache check")
				return
			}
			if got != a.Out {
				res.DriftNote(vio.Finding{Key: "relay.pack/cache-drift", Behaviour: bi, Step: si, Expected: a.Out, Observed: got, Text: "resolution cache hit/miss differs from the model"})
				finish(si)
				return
			}
		case "PackRes":
			if a.Out == "ok" {
				if pt, ok := w.waitParked(a.S, "uplink", stepTimeout, "direct.pack.afterResolve", "direct.pack.beforeLoadIP"); !ok || pt != "direct.pack.afterResolve" {
					if ok {
						res.DriftNote(vio.Finding{Key: "relay.pack/cache-drift", Behaviour: bi, Step: si, Expected: "miss", Observed: "hit", Text: "resolution cache hit/miss differs from the model"})
						finish(si)
						return
					}
					brk("name resolution did not complete (at %q)", pt)
					return
				}
			}
			// "cancelled": the lookup fails because shutdown has begun; the packet is dropped, nothing to wait for
			// "cancelled" / "failed": the relay drops the packet; if it nevertheless arrives somewhere,
			// checkArrivals reports where
		case "PackSto":
			if !w.release(a.S, "uplink") {
				brk("uplink not parked")
				return
			}
			if pt, ok := w.waitParked(a.S, "uplink", stepTimeout, "direct.pack.beforeLoadIP"); !ok {
				brk("uplink not before the IP load (at %q)", pt)
				return
			}
		case "PackLod":
			if !w.release(a.S, "uplink") {
				brk("uplink not parked")
				return
			}
			if pt, ok := w.waitParked(a.S, "uplink", stepTimeout, "relay.uplink.afterSend"); !ok {
				brk("uplink did not send (at %q)", pt)
				return
			}
		case "UpSend":
			if pt, _ := w.waitParked(a.S, "uplink", 0, "relay.uplink.afterSend"); pt != "relay.uplink.afterSend" {
				// IP target: the pack step is the only thing before the send
				if !w.release(a.S, "uplink") {
					brk("uplink not parked")
					return
				}
				if pt, ok := w.waitParked(a.S, "uplink", stepTimeout, "relay.uplink.afterSend"); !ok {
					brk("uplink did not send (at %q)", pt)
					return
				}
			}
			// the datagram has left: it must arrive at the named target's socket (and nowhere else)
			dl := time.Now().Add(stepTimeout)
			for {
				checkArrivals(si)
				if _, outstanding := expectArrive[curPayload[a.S]]; !outstanding {
					break
				}
				if time.Now().After(dl) {
					fail("relay.isolation/datagram-lost", fmt.Sprintf("datagram %q of session %s for target %s left the uplink but reached no target", curPayload[a.S], a.S, a.T), si, a.T, nil)
					delete(expectArrive, curPayload[a.S])
					break
				}
				time.Sleep(time.Millisecond)
			}
		case "UpPack":
			// batched uplink (sendmmsg path): the packet the uplink holds is packed; the loop then takes the next queued
			// packet without blocking (parks before packing it) or, when there is none, writes the whole batch
			if len(curPayload[a.S]) > 0 {
				batch[a.S] = append(batch[a.S], curPayload[a.S])
			}
			if !w.release(a.S, "uplink") {
				brk("uplink not parked")
				return
			}
			if a.Next != "" && a.Next != "-" {
				if pt, ok := w.waitParked(a.S, "uplink", stepTimeout, "relay.uplink.beforePack"); !ok {
					brk("uplink did not take the next queued packet (at %q)", pt)
					return
				}
				if len(queued[a.S]) > 0 {
					curPayload[a.S] = queued[a.S][0]
					queued[a.S] = queued[a.S][1:]
				}
				if a.Next == "a" || a.Next == "b" || a.Next == "nx" {
					w.release(a.S, "uplink")
					if pt, ok := w.waitParked(a.S, "uplink", stepTimeout, "direct.pack.beforeCheck"); !ok {
						brk("uplink not at the cache check (at %q)", pt)
						return
					}
				}
				break
			}
			if pt, ok := w.waitParked(a.S, "uplink", stepTimeout, "relay.uplink.afterSend"); !ok {
				brk("uplink did not write the batch (at %q)", pt)
				return
			}
			// every datagram of the batch must arrive at the socket of the target it names (and nowhere else)
			dlb := time.Now().Add(stepTimeout)
			for {
				checkArrivals(si)
				out := ""
				for _, p := range batch[a.S] {
					if _, outstanding := expectArrive[p]; outstanding {
						out = p
					}
				}
				if out == "" {
					break
				}
				if time.Now().After(dlb) {
					fail("relay.isolation/datagram-lost", fmt.Sprintf("datagram %q of session %s left the uplink in a batch of %d but reached no target", out, a.S, len(batch[a.S])), si, expectArrive[out], nil)
					for _, p := range batch[a.S] {
						delete(expectArrive, p)
					}
					break
				}
				time.Sleep(time.Millisecond)
			}
			res.Count("uplink_batches", 1)
			if len(batch[a.S]) > 1 {
				res.Count("uplink_batches_of_several", 1)
			}
			batch[a.S] = nil
		case "UpRearm":
			before := w.signalCount("relay.uplink.afterRearm", a.S)
			if !w.release(a.S, "uplink") {
				brk("uplink not parked")
				return
			}
			if !w.waitSignal("relay.uplink.afterRearm", a.S, before, stepTimeout) {
				brk("uplink did not re-arm")
				return
			}
		case "TargetReply":
			checkArrivals(si)
			na, ok := natAddr[a.S]
			if !ok {
				brk("no datagram of this session has reached a target yet")
				return
			}
			replySeq[a.S]++
			rp := reply{kind: a.kStr(), payload: fmt.Sprintf("re:%s:%d", a.S, replySeq[a.S])}
			if rp.kind == "big" {
				// fits the session socket's receive buffer (1472 with the direct client's MTU 1500), but with the server
				// protocol's header it exceeds what may be sent to the client
				rp.payload = fmt.Sprintf("BIG:%s:%d:", a.S, replySeq[a.S])
				rp.payload += strings.Repeat("B", 1470-len(rp.payload))
			}
			replyFrom[a.S] = lastTarget[a.S]
			if _, err := e.targets[lastTarget[a.S]].Conn.WriteToUDPAddrPort([]byte(rp.payload), na); err != nil {
				brk("%v", err)
				return
			}
			replyQ[a.S] = append(replyQ[a.S], rp)
		case "DlRead":
			if pt, ok := w.waitParked(a.S, "downlink", stepTimeout, "relay.downlink.afterRecv"); !ok {
				brk("downlink did not receive the reply (at %q)", pt)
				return
			}
			k := a.kInt()
			if k > len(replyQ[a.S]) {
				k = len(replyQ[a.S])
			}
			gotQ[a.S] = append(gotQ[a.S], replyQ[a.S][:k]...)
			replyQ[a.S] = replyQ[a.S][k:]
		case "DlSendBack":
			if !w.release(a.S, "downlink") {
				brk("downlink not parked")
				return
			}
			want := a.toInt()
			if want == 0 {
				want = 1
			}
			owner := e.clients[fmt.Sprintf("%s@%d", a.S, want)]
			if owner == nil {
				brk("the model sends the reply to an address the client never used")
				return
			}
			warnsBefore := warnCount()
			_ = warnsBefore
			batch := gotQ[a.S]
			gotQ[a.S] = nil
			noks := 0
			for _, rp := range batch {
				if rp.kind != "ok" {
					continue
				}
				noks++
				d, ok := owner.Recv(stepTimeout)
				if !ok {
					fail("relay.isolation/reply-lost", fmt.Sprintf("reply %q was not delivered to the session's latest authenticated client address (#%d)", rp.payload, want), si, rp.payload, nil)
					break
				}
				src, payload, err := wr.unpack(a.S, d.Payload, addr)
				if err != nil || string(payload) != rp.payload {
					fail("relay.isolation/reply-garbled", "the client received something else than the next reply, in order, exactly once", si, rp.payload, fmt.Sprintf("%.80q (%v)", payload, err))
				} else if wantSrc := e.targets[replyFrom[a.S]].Addr.String(); src != wantSrc {
					fail("relay.isolation/reply-wrong-source", "the reply does not carry the true source", si, wantSrc, src)
				}
			}
			// nothing else may come: a reply the packer refused (too big for the client's path) is dropped, not sent
			if extra, ok := owner.Recv(60 * time.Millisecond); ok {
				_, payload, _ := wr.unpack(a.S, extra.Payload, addr)
				fail("relay.isolation/spurious-reply", fmt.Sprintf("the client received a datagram the relay should not have sent (%d replies were due)", noks), si, noks, fmt.Sprintf("%.80q", payload))
			}
			ownKey := fmt.Sprintf("%s@%d", a.S, want)
			for s2, c := range e.clients {
				if s2 == ownKey {
					continue
				}
				for _, d := range c.Drain() {
					fail("relay.isolation/reply-to-wrong-client", fmt.Sprintf("client %s received a datagram that belongs to session %s", s2, a.S), si, a.S, string(d.Payload))
				}
			}
		case "TimerFire":
			// the NAT timeout elapses without client traffic; the downlink's read then fails (DlTimeout, Cleanup follow).
			// In every other behaviour the remote side keeps talking to the session's socket the whole time: that is not
			// client traffic and must not keep the session alive.
			na, known := natAddr[a.S]
			w.mu.Lock()
			dlParked := w.parkedAt[a.S+"/downlink"] != nil
			w.mu.Unlock()
			if known && lastTarget[a.S] != "" && !dlParked && len(replyQ[a.S]) == 0 && len(gotQ[a.S]) == 0 && (bi+si)%2 == 0 {
				w.setFreeRole("downlink", true)
				end := time.Now().Add(natTimeout + natTimeout/4)
				for time.Now().Before(end) {
					_, _ = e.targets[lastTarget[a.S]].Conn.WriteToUDPAddrPort([]byte("KA:remote keeps talking"), na)
					time.Sleep(natTimeout / 6)
				}
				_, _ = e.targets[lastTarget[a.S]].Conn.WriteToUDPAddrPort([]byte("KA:remote keeps talking"), na)
				w.setFreeRole("downlink", false)
				time.Sleep(30 * time.Millisecond)
				for _, c := range e.clients {
					c.Drain() // what the relay forwarded of it
				}
				chatty[a.S] = true
				res.Count("timeouts_with_chatty_remote", 1)
			} else {
				time.Sleep(natTimeout + natTimeout/4)
			}
		case "DlTimeout":
			bound := stepTimeout
			if stopBegun {
				bound = stopBound
			} else if chatty[a.S] {
				// the timeout counts from the last client packet: it expired a quarter of a NAT timeout ago. A relay
				// that let the remote side's packets refresh it would live a whole NAT timeout longer
				bound = natTimeout * 3 / 4
				chatty[a.S] = false
			}
			if !waitCleanup(a.S, bound) {
				if stopBegun {
					fail("relay.stop/not-prompt", fmt.Sprintf("after Stop forced the read deadline, the session's downlink did not end within %s (NAT timeout %s): Stop waits for the NAT timeout", bound, v.NATTimeout), si, "prompt", "still reading")
				} else {
					fail("relay.lifecycle/idle-session-not-evicted", "the session was not torn down after its NAT timeout", si, "evicted", "alive")
				}
				finish(si)
				return
			}
		case "Cleanup", "UpClosed", "RecvLoopEnd":
			// happen by themselves
		case "StopBegin":
			r.BeginStop()
			stopBegun = true
			if pt, ok := w.waitParked("stop", "stop", stepTimeout, "relay.stop.afterWaitRecv"); !ok {
				brk("Stop did not get past the receive loops (at %q)", pt)
				return
			}
		case "StopSwapAll":
			before := w.signalCount("relay.stop.beforeWaitAll", "stop")
			if !w.release("stop", "stop") {
				brk("Stop not parked")
				return
			}
			if !w.waitSignal("relay.stop.beforeWaitAll", "stop", before, stepTimeout) {
				brk("Stop did not reach the final wait")
				return
			}
		case "StopEnd":
			d, ok := r.WaitStopped(stopBound)
			if !ok {
				fail("relay.stop/not-prompt", fmt.Sprintf("every session goroutine can finish, yet Stop did not return within %s (NAT timeout %s)", stopBound, v.NATTimeout), si, "prompt", d.String())
				w.freeAll()
				r.WaitStopped(natTimeout + 5*time.Second)
			}
			stopped = true
		default:
			brk("unknown action")
			return
		}
		res.Seen(a.N + "/" + a.Out)
	}
	// behaviour over: nothing may be stuck; every datagram that left must have been seen at its target
	time.Sleep(5 * time.Millisecond)
	checkArrivals(len(b.Steps))
	finish(len(b.Steps))
	checkArrivals(len(b.Steps))
	res.AddSteps(1, len(b.Steps))
	res.Sample(map[string]any{"behaviour": bi, "variant": v, "actions": hist}, 2)
}

func TestRelay(t *testing.T) {
	in, err := vio.ReadInput()
	if err != nil {
		t.Skip(err)
	}
	res := vio.NewResult()
	defer func() {
		if err := res.Write(); err != nil {
			t.Fatal(err)
		}
	}()
	v := variant{Server: "socks5", BatchMode: "no", NATTimeout: "30s"}
	in.Param("variant", &v)
	for bi, b := range in.Behaviours {
		runBehaviour(t, in, bi, b, v, res)
	}
}
