//go:build verif

// Package c09 runs the cases that TLC derives from specs/Route/Router.tla against the real
// router: every case is a router configuration (variant names of the catalogues in
// RouterData.tla) with one expected outcome per ask of the ask lattice.  The driver renders the
// configuration to the real JSON router.Config, builds a real Router (fake clients, scripted
// resolvers, prefix/domain set files on disk), calls GetTCPClient/GetUDPClient for every ask and
// evaluates property C09 on what the router answered.
package c09

import (
	"context"
	"encoding/json"
	"errors"
	"fmt"
	"math/rand"
	"net/netip"
	"os"
	"path/filepath"
	"reflect"
	"sort"
	"strconv"
	"strings"
	"testing"

	"github.com/database64128/shadowsocks-go/conn"
	"github.com/database64128/shadowsocks-go/dns"
	"github.com/database64128/shadowsocks-go/domainset"
	"github.com/database64128/shadowsocks-go/netio"
	"github.com/database64128/shadowsocks-go/portset"
	"github.com/database64128/shadowsocks-go/router"
	"github.com/database64128/shadowsocks-go/zerocopy"
	"go.uber.org/zap"

	"verif/harness/internal/vio"
)

// ---- what TLC prints (MCRouter.tla Catalogue / CaseOf) ----

type portVariant struct {
	List   []int   `json:"list"`
	Ranges [][]int `json:"ranges"`
	Pad    int     `json:"pad"`
}

type pfxVariant struct {
	Pfx  []string `json:"pfx"`
	Sets []string `json:"sets"`
}

type domVariant struct {
	Doms []string `json:"doms"`
	Sets []string `json:"sets"`
	Pad  int      `json:"pad"`
}

type domainSetDef struct {
	Rules []string `json:"rules"`
	PadD  int      `json:"padD"`
	PadS  int      `json:"padS"`
}

type ask struct {
	Net   string            `json:"net"`
	Srv   int               `json:"srv"`
	Usr   string            `json:"usr"`
	Sip   string            `json:"sip"`
	Sport int               `json:"sport"`
	Tk    string            `json:"tk"`
	Ta    string            `json:"ta"`
	Tport int               `json:"tport"`
	B     map[string]string `json:"b"`
}

type catalogue struct {
	Servers       []string                `json:"servers"`
	Resolvers     []string                `json:"resolvers"`
	DefaultClient string                  `json:"defaultClient"`
	RouteClients  []string                `json:"routeClients"`
	Addrs         []string                `json:"addrs"`
	Unmap         map[string]string       `json:"unmap"`
	Prefixes      []string                `json:"prefixes"`
	Covers        [][]string              `json:"covers"`
	PrefixSets    map[string][]string     `json:"prefixSets"`
	Names         []string                `json:"names"`
	Rules         []string                `json:"rules"`
	Matches       [][]string              `json:"matches"`
	DomainSets    map[string]domainSetDef `json:"domainSets"`
	SrvCat        map[string][]string     `json:"srvCat"`
	UsrCat        map[string][]string     `json:"usrCat"`
	PortCat       map[string]portVariant  `json:"portCat"`
	PfxCat        map[string]pfxVariant   `json:"pfxCat"`
	DomCat        map[string]domVariant   `json:"domCat"`
	PadBase       int                     `json:"padBase"`
	Asks          []ask                   `json:"asks"`
}

type routeCfg struct {
	Net  string `json:"net"`
	Cl   string `json:"cl"`
	Rs   string `json:"rs"`
	Srv  string `json:"srv"`
	SrvI bool   `json:"srvI"`
	Usr  string `json:"usr"`
	UsrI bool   `json:"usrI"`
	Sp   string `json:"sp"`
	SpI  bool   `json:"spI"`
	Sip  string `json:"sip"`
	SipI bool   `json:"sipI"`
	Tp   string `json:"tp"`
	TpI  bool   `json:"tpI"`
	Dom  string `json:"dom"`
	DomI bool   `json:"domI"`
	Exp  string `json:"exp"`
	ExpI bool   `json:"expI"`
	Pfx  string `json:"pfx"`
	PfxI bool   `json:"pfxI"`
	Nr   bool   `json:"nr"`
}

type defaults struct {
	TCP string `json:"tcp"`
	UDP string `json:"udp"`
}

type modelCase struct {
	Routes []routeCfg `json:"routes"`
	D      defaults   `json:"d"`
	Shapes [][]string `json:"shapes"`
	Outs   []string   `json:"outs"`
	Bad    bool       `json:"bad,omitempty"` // the model says RouteConfig.Route refuses the last route
	Src    string     `json:"src,omitempty"` // which TLC run produced the case
}

// ---- fakes ----

type fakeClient struct{ name string }

func (c *fakeClient) DialStream(context.Context, conn.Addr, []byte) (netio.Conn, error) {
	return nil, errors.New("fake client")
}

func (c *fakeClient) NewStreamDialer() (netio.StreamDialer, netio.StreamDialerInfo) {
	return c, netio.StreamDialerInfo{Name: c.name}
}

func (c *fakeClient) Info() zerocopy.UDPClientInfo { return zerocopy.UDPClientInfo{Name: c.name} }

func (c *fakeClient) NewSession(context.Context) (zerocopy.UDPClientSessionInfo, zerocopy.UDPClientSession, error) {
	return zerocopy.UDPClientSessionInfo{}, zerocopy.UDPClientSession{}, errors.New("fake client")
}

var errScripted = errors.New("scripted resolver failure")

// scriptedResolver answers according to the behaviour of the ask being executed.
type scriptedResolver struct {
	name  string
	w     *world
	calls int
}

func (r *scriptedResolver) LookupIP(_ context.Context, name string) (netip.Addr, error) {
	r.calls++
	r.w.lookups++
	if r.w.cur == nil || r.w.cur.Tk != "dom" || name != r.w.cur.Ta {
		r.w.strayLookup = fmt.Sprintf("resolver %s asked for %q while the target is %+v", r.name, name, r.w.cur)
		return netip.Addr{}, errScripted
	}
	switch o := r.w.cur.B[r.name]; o {
	case "errlookup":
		return netip.Addr{}, dns.ErrLookup
	case "noaddr":
		return netip.Addr{}, dns.ErrDomainNoAssociatedIPs
	case "fail", "":
		return netip.Addr{}, errScripted
	default:
		return netip.MustParseAddr(o), nil
	}
}

func (r *scriptedResolver) LookupIPs(ctx context.Context, name string) ([]netip.Addr, error) {
	ip, err := r.LookupIP(ctx, name)
	if err != nil {
		return nil, err
	}
	return []netip.Addr{ip}, nil
}

// ---- world ----

type world struct {
	cat         catalogue
	dir         string
	rnd         *rand.Rand
	clients     map[string]*fakeClient
	tcpMap      map[string]netio.StreamClient
	udpMap      map[string]zerocopy.UDPClient
	tcpOne      map[string]netio.StreamClient
	udpOne      map[string]zerocopy.UDPClient
	resolvers   []dns.SimpleResolver
	resolverMap map[string]dns.SimpleResolver
	serverIndex map[string]int
	domainSets  []domainset.Config
	prefixSets  []map[string]string
	cur         *ask
	lastCode    string
	lookups     int
	strayLookup string
	res         *vio.Result
}

func padDomain(i int) string { return "pad" + strconv.Itoa(i) + ".invalid" }

// checkTables re-derives the membership tables of RouterData.tla with net/netip and package
// strings (independent of bart, domainset and portset).  A wrong table is a broken harness.
func (w *world) checkTables() error {
	c := &w.cat
	for a, u := range c.Unmap {
		ip, err := netip.ParseAddr(a)
		if err != nil {
			return err
		}
		if ip.Unmap().String() != u {
			return fmt.Errorf("Unmap[%s] = %s in the model, %s in net/netip", a, u, ip.Unmap())
		}
	}
	covers := map[string]bool{}
	for _, p := range c.Covers {
		covers[p[0]+" "+p[1]] = true
	}
	allPfx := map[string]bool{}
	for _, p := range c.Prefixes {
		allPfx[p] = true
	}
	for _, v := range c.PfxCat {
		for _, p := range v.Pfx {
			if !allPfx[p] {
				return fmt.Errorf("prefix %s of the catalogue is not in Prefixes", p)
			}
		}
	}
	for _, s := range c.PrefixSets {
		for _, p := range s {
			if !allPfx[p] {
				return fmt.Errorf("prefix %s of a prefix set is not in Prefixes", p)
			}
		}
	}
	for p := range allPfx {
		pf, err := netip.ParsePrefix(p)
		if err != nil {
			return err
		}
		for _, u := range c.Unmap {
			if got := pf.Contains(netip.MustParseAddr(u)); got != covers[p+" "+u] {
				return fmt.Errorf("Covers(%s, %s) = %v in the model, %v in net/netip", p, u, covers[p+" "+u], got)
			}
		}
	}
	matches := map[string]bool{}
	for _, m := range c.Matches {
		matches[m[0]+" "+m[1]] = true
	}
	rules := map[string]bool{}
	for _, r := range c.Rules {
		rules[r] = true
	}
	for n, ds := range c.DomainSets {
		for _, r := range ds.Rules {
			if !rules[r] {
				return fmt.Errorf("rule %s of domain set %s is not in Rules", r, n)
			}
		}
	}
	for r := range rules {
		kind, arg, ok := strings.Cut(r, ":")
		if !ok {
			return fmt.Errorf("bad rule %q", r)
		}
		for _, n := range c.Names {
			var got bool
			switch kind {
			case "domain":
				got = n == arg
			case "suffix":
				got = n == arg || strings.HasSuffix(n, "."+arg)
			case "keyword":
				got = strings.Contains(n, arg)
			default:
				return fmt.Errorf("bad rule %q", r)
			}
			if got != matches[r+" "+n] {
				return fmt.Errorf("RuleMatches(%s, %s) = %v in the model, %v by package strings", r, n, matches[r+" "+n], got)
			}
		}
	}
	for _, n := range c.Names {
		if strings.HasSuffix(n, ".invalid") || strings.Contains(n, "pad") {
			return fmt.Errorf("name %s collides with the filler rules", n)
		}
	}
	return nil
}

// writeSets writes the prefix-set and domain-set files.  Odd seeds use the gob form of the domain sets.
func (w *world) writeSets(seed int64) error {
	names := make([]string, 0, len(w.cat.PrefixSets))
	for n := range w.cat.PrefixSets {
		names = append(names, n)
	}
	sort.Strings(names)
	for _, n := range names {
		path := filepath.Join(w.dir, "prefix-"+n+".txt")
		lines := append([]string{"# " + n}, w.cat.PrefixSets[n]...)
		if err := os.WriteFile(path, []byte(strings.Join(lines, "\n")+"\n"), 0o644); err != nil {
			return err
		}
		w.prefixSets = append(w.prefixSets, map[string]string{"name": n, "path": path})
	}
	names = names[:0]
	for n := range w.cat.DomainSets {
		names = append(names, n)
	}
	sort.Strings(names)
	for _, n := range names {
		ds := w.cat.DomainSets[n]
		lines := append([]string{}, ds.Rules...)
		for i := range ds.PadD {
			lines = append(lines, "domain:"+padDomain(i))
		}
		for i := range ds.PadS {
			lines = append(lines, "suffix:"+padDomain(1000+i))
		}
		w.rnd.Shuffle(len(lines), func(i, j int) { lines[i], lines[j] = lines[j], lines[i] })
		text := strings.Join(lines, "\n") + "\n"
		cfg := domainset.Config{Name: n, Path: filepath.Join(w.dir, "domain-"+n+".txt")}
		if seed%2 == 1 {
			b, err := domainset.BuilderFromText(text)
			if err != nil {
				return err
			}
			cfg.Type = "gob"
			cfg.Path = filepath.Join(w.dir, "domain-"+n+".gob")
			f, err := os.Create(cfg.Path)
			if err != nil {
				return err
			}
			if err := b.WriteGob(f); err != nil {
				return err
			}
			if err := f.Close(); err != nil {
				return err
			}
		} else if err := os.WriteFile(cfg.Path, []byte(text), 0o644); err != nil {
			return err
		}
		w.domainSets = append(w.domainSets, cfg)
	}
	return nil
}

func (w *world) shuffled(s []string) []string {
	out := append([]string{}, s...)
	w.rnd.Shuffle(len(out), func(i, j int) { out[i], out[j] = out[j], out[i] })
	return out
}

// renderPorts gives the JSON array and the range string of a port variant; the filler ports go
// into the range string.
func (w *world) renderPorts(v portVariant) ([]int, string) {
	var parts []string
	for _, r := range v.Ranges {
		if r[0] == r[1] {
			parts = append(parts, strconv.Itoa(r[0]))
		} else {
			parts = append(parts, strconv.Itoa(r[0])+"-"+strconv.Itoa(r[1]))
		}
	}
	for i := range v.Pad {
		parts = append(parts, strconv.Itoa(w.cat.PadBase+2*i))
	}
	return v.List, strings.Join(w.shuffled(parts), ",")
}

// renderRoute turns a route of the model into the JSON object of router.RouteConfig.
func (w *world) renderRoute(i int, rc routeCfg) (map[string]any, error) {
	c := &w.cat
	m := map[string]any{"name": "r" + strconv.Itoa(i+1), "client": rc.Cl}
	if rc.Net != "" {
		m["network"] = rc.Net
	}
	if rc.Rs != "" {
		m["resolver"] = rc.Rs
	}
	srv, ok1 := c.SrvCat[rc.Srv]
	usr, ok2 := c.UsrCat[rc.Usr]
	sp, ok3 := c.PortCat[rc.Sp]
	tp, ok4 := c.PortCat[rc.Tp]
	sip, ok5 := c.PfxCat[rc.Sip]
	dom, ok6 := c.DomCat[rc.Dom]
	exp, ok7 := c.PfxCat[rc.Exp]
	pfx, ok8 := c.PfxCat[rc.Pfx]
	if !(ok1 && ok2 && ok3 && ok4 && ok5 && ok6 && ok7 && ok8) {
		return nil, fmt.Errorf("route %+v names a variant the catalogue does not have", rc)
	}
	if len(srv) > 0 {
		m["fromServers"] = w.shuffled(srv)
	}
	if len(usr) > 0 {
		m["fromUsers"] = w.shuffled(usr)
	}
	if l, s := w.renderPorts(sp); len(l) > 0 || s != "" {
		if len(l) > 0 {
			m["fromPorts"] = l
		}
		if s != "" {
			m["fromPortRanges"] = s
		}
	}
	if l, s := w.renderPorts(tp); len(l) > 0 || s != "" {
		if len(l) > 0 {
			m["toPorts"] = l
		}
		if s != "" {
			m["toPortRanges"] = s
		}
	}
	if len(sip.Pfx) > 0 {
		m["fromPrefixes"] = w.shuffled(sip.Pfx)
	}
	if len(sip.Sets) > 0 {
		m["fromPrefixSets"] = w.shuffled(sip.Sets)
	}
	if len(dom.Doms) > 0 || dom.Pad > 0 {
		l := append([]string{}, dom.Doms...)
		for k := range dom.Pad {
			l = append(l, padDomain(2000+k))
		}
		m["toDomains"] = w.shuffled(l)
	}
	if len(dom.Sets) > 0 {
		m["toDomainSets"] = w.shuffled(dom.Sets)
	}
	if len(exp.Pfx) > 0 {
		m["toMatchedDomainExpectedPrefixes"] = w.shuffled(exp.Pfx)
	}
	if len(exp.Sets) > 0 {
		m["toMatchedDomainExpectedPrefixSets"] = w.shuffled(exp.Sets)
	}
	if len(pfx.Pfx) > 0 {
		m["toPrefixes"] = w.shuffled(pfx.Pfx)
	}
	if len(pfx.Sets) > 0 {
		m["toPrefixSets"] = w.shuffled(pfx.Sets)
	}
	for k, v := range map[string]bool{
		"disableNameResolutionForIPRules":       rc.Nr,
		"invertFromServers":                     rc.SrvI,
		"invertFromUsers":                       rc.UsrI,
		"invertFromPorts":                       rc.SpI,
		"invertFromPrefixes":                    rc.SipI,
		"invertToPorts":                         rc.TpI,
		"invertToDomains":                       rc.DomI,
		"invertToMatchedDomainExpectedPrefixes": rc.ExpI,
		"invertToPrefixes":                      rc.PfxI,
	} {
		if v {
			m[k] = true
		}
	}
	return m, nil
}

// build renders the case to JSON, parses it as the product does and builds the real Router.
func (w *world) build(mc *modelCase) (*router.Router, []byte, error, error) {
	routes := make([]map[string]any, 0, len(mc.Routes))
	for i, rc := range mc.Routes {
		m, err := w.renderRoute(i, rc)
		if err != nil {
			return nil, nil, nil, err
		}
		routes = append(routes, m)
	}
	doc := map[string]any{"domainSets": w.domainSets, "prefixSets": w.prefixSets, "routes": routes}
	if mc.D.TCP != "" {
		doc["defaultTCPClientName"] = mc.D.TCP
	}
	if mc.D.UDP != "" {
		doc["defaultUDPClientName"] = mc.D.UDP
	}
	raw, err := json.Marshal(doc)
	if err != nil {
		return nil, nil, nil, err
	}
	var cfg router.Config
	if err := json.Unmarshal(raw, &cfg); err != nil {
		return nil, raw, nil, fmt.Errorf("router.Config does not parse: %w", err)
	}
	tcpMap, udpMap := w.tcpMap, w.udpMap
	if len(mc.Routes) == 0 {
		// a configuration without routes is also run with the default client as the only client: then an unset
		// default name means that client (undocumented, reported as a note), while "reject" must still reject
		tcpMap, udpMap = w.tcpOne, w.udpOne
	}
	r, berr := cfg.Router(zap.NewNop(), w.resolvers, w.resolverMap, tcpMap, udpMap, w.serverIndex)
	return r, raw, berr, nil
}

// shapeOf names the criterion types of a built route (reflection reads types only).
func shapeOf(v reflect.Value) string {
	for v.Kind() == reflect.Interface || v.Kind() == reflect.Pointer {
		if v.IsNil() {
			return "nil"
		}
		v = v.Elem()
	}
	name := strings.TrimSuffix(v.Type().Name(), "Criterion")
	switch name {
	case "Inverted":
		return "!" + shapeOf(v.FieldByName("Inner"))
	case "CriterionGroupOR":
		cs := v.FieldByName("Criteria")
		parts := make([]string, cs.Len())
		for i := range parts {
			parts[i] = shapeOf(cs.Index(i))
		}
		return "(" + strings.Join(parts, "|") + ")"
	case "DestDomainExpectedIP":
		return "DestDomainExpectedIP[" + shapeOf(v.FieldByName("expectedIPCriterion")) + "]"
	}
	return name
}

func routerShapes(r *router.Router) (out [][]string, err error) {
	defer func() {
		if p := recover(); p != nil {
			err = fmt.Errorf("reflection on router.Router failed: %v", p)
		}
	}()
	routes := reflect.ValueOf(r).Elem().FieldByName("routes")
	for i := range routes.Len() - 1 { // the last one is the default route
		cs := routes.Index(i).FieldByName("criteria")
		s := make([]string, cs.Len())
		for j := range s {
			s[j] = shapeOf(cs.Index(j))
		}
		out = append(out, s)
	}
	return out, nil
}

// call performs one GetTCPClient/GetUDPClient and classifies the answer.
func (w *world) call(r *router.Router, a *ask) (got string, detail string) {
	sip, err := netip.ParseAddr(a.Sip)
	if err != nil {
		return "harness", err.Error()
	}
	ri := router.RequestInfo{ServerIndex: a.Srv, Username: a.Usr, SourceAddrPort: netip.AddrPortFrom(sip, uint16(a.Sport))}
	if a.Tk == "ip" {
		ip, err := netip.ParseAddr(a.Ta)
		if err != nil {
			return "harness", err.Error()
		}
		ri.TargetAddr = conn.AddrFromIPAndPort(ip, uint16(a.Tport))
	} else {
		ri.TargetAddr, err = conn.AddrFromDomainPort(a.Ta, uint16(a.Tport))
		if err != nil {
			return "harness", err.Error()
		}
	}
	w.cur = a
	defer func() {
		w.cur = nil
		if p := recover(); p != nil {
			got = "panic"
			detail = fmt.Sprint(p)
			if e, ok := p.(error); ok && errors.Is(e, portset.ErrZeroPort) {
				got = "panic:zero-port"
			}
		}
	}()
	var c any
	if a.Net == "tcp" {
		var sc netio.StreamClient
		sc, err = r.GetTCPClient(context.Background(), ri)
		if sc != nil {
			c = sc
		}
	} else {
		var uc zerocopy.UDPClient
		uc, err = r.GetUDPClient(context.Background(), ri)
		if uc != nil {
			c = uc
		}
	}
	switch router.DialResultCodeFromError(err) {
	case conn.DialResultCodeSuccess:
		w.lastCode = "Success"
	case conn.DialResultCodeEACCES:
		w.lastCode = "EACCES"
	case conn.DialResultCodeErrDomainNameLookup:
		w.lastCode = "ErrDomainNameLookup"
	case conn.DialResultCodeErrOther:
		w.lastCode = "ErrOther"
	default:
		w.lastCode = "?"
	}
	switch {
	case err == nil && c != nil:
		fc, ok := c.(*fakeClient)
		if !ok {
			return "harness", fmt.Sprintf("unknown client %T", c)
		}
		return fc.name, ""
	case err == nil:
		return "nothing", "neither a client nor an error"
	case c != nil:
		return "both", fmt.Sprintf("a client and the error %v", err)
	case err == router.ErrRejected:
		return "rejected", ""
	default:
		return "error", err.Error()
	}
}

func (w *world) kindOf(out string) string {
	switch {
	case out == w.cat.DefaultClient:
		return "default"
	case out == "rejected" || out == "error":
		return out
	case strings.HasPrefix(out, "panic"):
		return "panic"
	case out == "nothing" || out == "both":
		return "malformed"
	}
	return "route"
}

func (w *world) runCase(ci int, mc *modelCase) {
	res := w.res
	r, raw, berr, herr := w.build(mc)
	if herr != nil {
		res.Break("case %d (%s): %v", ci, mc.Src, herr)
		return
	}
	replay := map[string]any{"case": mc, "config": json.RawMessage(raw)}
	if mc.Bad {
		res.Count("refused_expected", 1)
		if berr == nil {
			res.DriftNote(vio.Finding{Key: "router.config/accepted", Behaviour: ci, Replay: replay,
				Text: "the model expects Config.Router to refuse this configuration, the code accepts it (not a statement of C09)"})
		} else {
			res.Seen("refused/" + mc.Src)
		}
		if r != nil {
			_ = r.Close()
		}
		return
	}
	if berr != nil {
		res.Break("case %d (%s): Config.Router refuses a configuration the model holds valid: %v\n%s", ci, mc.Src, berr, raw)
		return
	}
	defer r.Close()
	if len(mc.Outs) != len(w.cat.Asks) {
		res.Break("case %d: %d outcomes for %d asks", ci, len(mc.Outs), len(w.cat.Asks))
		return
	}
	shapes, err := routerShapes(r)
	if err != nil {
		res.Break("%v", err)
		return
	}
	shapeKey := fmt.Sprint(shapes)
	if fmt.Sprint(mc.Shapes) != shapeKey && !(len(mc.Shapes) == 0 && len(shapes) == 0) {
		res.DriftNote(vio.Finding{Key: "router.route/criteria-shape", Behaviour: ci, Expected: mc.Shapes, Observed: shapes, Replay: replay,
			Text: fmt.Sprintf("criterion list of the built routes: model %v, code %v (representation choice; not a statement of C09)", mc.Shapes, shapes)})
	}
	for ai := range w.cat.Asks {
		a := &w.cat.Asks[ai]
		enc := mc.Outs[ai]
		soft := strings.HasPrefix(enc, "?")
		enc = strings.TrimPrefix(enc, "?")
		enc, errClass, _ := strings.Cut(enc, "/")
		want, alt, hasAlt := strings.Cut(enc, "~")
		before := w.lookups
		got, detail := w.call(r, a)
		res.Steps++
		if got == "harness" {
			res.Break("case %d ask %d: %s", ci, ai, detail)
			return
		}
		if w.strayLookup != "" {
			res.Break("case %d ask %d: %s", ci, ai, w.strayLookup)
			return
		}
		res.Count("out/"+w.kindOf(got), 1)
		// router.DialResultCodeFromError (what the relay answers the client with); not a statement of C09
		if got == "error" && errClass != "" && (got == want || hasAlt && got == alt) {
			if code := map[string]string{"dns": "ErrDomainNameLookup", "other": "ErrOther"}[errClass]; code != w.lastCode {
				res.DriftNote(vio.Finding{Key: "router.error/dial-code", Behaviour: ci, Step: ai, Expected: code, Observed: w.lastCode,
					Text: fmt.Sprintf("DialResultCodeFromError: model %s, code %s for %s", code, w.lastCode, detail)})
			}
			res.Count("dialcode/"+w.lastCode, 1)
		}
		if got == "rejected" && w.lastCode != "EACCES" {
			res.DriftNote(vio.Finding{Key: "router.error/dial-code", Behaviour: ci, Step: ai, Expected: "EACCES", Observed: w.lastCode,
				Text: "DialResultCodeFromError(ErrRejected) is not EACCES"})
		}
		res.Seen(shapeKey + ">" + w.kindOf(want) + "/" + strconv.FormatBool(w.lookups != before))
		if got == want {
			continue
		}
		rep := map[string]any{"case": mc, "ask": a, "askIndex": ai, "config": json.RawMessage(raw)}
		f := vio.Finding{Behaviour: ci, Step: ai, Expected: want, Observed: got, Replay: rep}
		desc := fmt.Sprintf("routes %s, defaults %+v, ask %s: the first route whose documented conditions hold gives %q, the router answered %q %s",
			compactRoutes(mc.Routes), mc.D, compactAsk(a), want, got, detail)
		switch {
		case got == "panic:zero-port":
			f.Key = "router.port/zero-port-bitset-panic"
			f.Text = "port 0 against a port criterion kept as a bit set (more than MaxRangeSet ranges) panics in PortSet.Contains: " + desc
			res.Violation(f)
		case strings.HasPrefix(got, "panic"):
			f.Key = "router.match/panic"
			f.Text = "the router panicked: " + desc
			res.Violation(f)
		case got == "nothing" || got == "both":
			f.Key = "router.match/malformed-answer"
			f.Text = desc
			res.Violation(f)
		case hasAlt && got == alt:
			f.Key = "router.order/lookup-error-before-true-disjunct"
			f.Text = "evaluation-order dependent case (failed lookup in the domain condition, prefix condition true without lookup); the property allows both: " + desc
			res.DriftNote(f)
			res.Count("order_amb_observed", 1)
		case soft:
			f.Key = "router.doc/undetermined"
			f.Text = "combination the documentation does not determine (invertToDomains with an expectation, or an unset default): " + desc
			res.DriftNote(f)
			res.Count("soft_differs", 1)
		default:
			f.Key = "router.match/expected-" + w.kindOf(want) + "-got-" + w.kindOf(got)
			f.Text = desc
			res.Violation(f)
		}
	}
	res.Behaviours++
	res.Sample(map[string]any{"routes": mc.Routes, "defaults": mc.D, "config": json.RawMessage(raw), "criteria": shapes,
		"ask": w.cat.Asks[ci%len(w.cat.Asks)], "expected": mc.Outs[ci%len(w.cat.Asks)]}, 2)
}

func compactRoutes(rs []routeCfg) string {
	var parts []string
	for _, r := range rs {
		b, _ := json.Marshal(r)
		var m map[string]any
		_ = json.Unmarshal(b, &m)
		var kv []string
		for k, v := range m {
			if v == "-" || v == false || v == "" {
				continue
			}
			kv = append(kv, fmt.Sprintf("%s=%v", k, v))
		}
		sort.Strings(kv)
		parts = append(parts, "{"+strings.Join(kv, " ")+"}")
	}
	return "[" + strings.Join(parts, " ") + "]"
}

func compactAsk(a *ask) string {
	s := fmt.Sprintf("%s srv=%d user=%q from=%s:%d to=%s:%d", a.Net, a.Srv, a.Usr, a.Sip, a.Sport, a.Ta, a.Tport)
	if a.Tk == "dom" {
		s += fmt.Sprintf(" resolvers=%v", a.B)
	}
	return s
}

func newWorld(in *vio.Input, res *vio.Result, dir string) (*world, error) {
	w := &world{dir: dir, rnd: rand.New(rand.NewSource(in.Seed)), res: res, clients: map[string]*fakeClient{},
		tcpMap: map[string]netio.StreamClient{}, udpMap: map[string]zerocopy.UDPClient{},
		resolverMap: map[string]dns.SimpleResolver{}, serverIndex: map[string]int{}}
	if !in.Param("cat", &w.cat) {
		return nil, errors.New("no catalogue in the input")
	}
	if err := w.checkTables(); err != nil {
		return nil, err
	}
	for _, n := range append([]string{w.cat.DefaultClient}, w.cat.RouteClients...) {
		c := &fakeClient{name: n}
		w.clients[n] = c
		w.tcpMap[n] = c
		w.udpMap[n] = c
		if n == w.cat.DefaultClient {
			w.tcpOne = map[string]netio.StreamClient{n: c}
			w.udpOne = map[string]zerocopy.UDPClient{n: c}
		}
	}
	for _, n := range w.cat.Resolvers {
		r := &scriptedResolver{name: n, w: w}
		w.resolvers = append(w.resolvers, r)
		w.resolverMap[n] = r
	}
	for i, n := range w.cat.Servers {
		w.serverIndex[n] = i
	}
	if err := w.writeSets(in.Seed); err != nil {
		return nil, err
	}
	return w, nil
}

// TestCases runs the model-derived cases.
func TestCases(t *testing.T) {
	in, err := vio.ReadInput()
	if err != nil {
		t.Skip(err)
	}
	res := vio.NewResult()
	defer func() {
		if err := res.Write(); err != nil {
			t.Fatal(err)
		}
	}()
	w, err := newWorld(in, res, t.TempDir())
	if err != nil {
		res.Break("%v", err)
		return
	}
	var cases []modelCase
	if !in.Param("cases", &cases) {
		res.Break("no cases in the input")
		return
	}
	for ci := range cases {
		w.runCase(ci, &cases[ci])
		if len(res.Broken) > 0 {
			return
		}
	}
	res.Count("lookups", w.lookups)
}
