//go:build verif

// Package c13 replays behaviours of specs/Relay/TcpRelay.tla on a real TCP relay built from a JSON
// service.Config (routing, handshakes and clients are the real ones, optionally chained through a
// second relay of the client protocol), with a harness client speaking the server protocol through
// the repository's own client implementation and a harness target on loopback.
package c13

import (
	"context"
	"encoding/base64"
	"encoding/json"
	"errors"
	"fmt"
	"io"
	"net"
	"net/http"
	"net/netip"
	"os"
	"sync"
	"testing"
	"time"

	"github.com/database64128/shadowsocks-go/conn"
	"github.com/database64128/shadowsocks-go/netio"
	"github.com/database64128/shadowsocks-go/service"
	"github.com/database64128/shadowsocks-go/socks5"
	"github.com/database64128/shadowsocks-go/tlscerts"
	"go.uber.org/zap"
	"go.uber.org/zap/zapcore"

	"verif/harness/internal/relayenv"
	"verif/harness/internal/vio"
)

type step struct {
	N    string `json:"n"`
	K    int    `json:"k"`
	Code string `json:"code"`
	Out  string `json:"out"`
	// expected model state after the step
	Tg    int    `json:"tg"`
	Cg    int    `json:"cg"`
	Tshut bool   `json:"tshut"`
	Cshut bool   `json:"cshut"`
	Reply string `json:"reply"`
	Up    int    `json:"up"`
	Down  int    `json:"down"`
}

type tcase struct {
	Server string `json:"server"`
	Client string `json:"client"`
	NoWait bool   `json:"nowait"`
	Dial   string `json:"dial"` // ok | ECONNREFUSED | ENETUNREACH | dns | rejected
	ReqP   int    `json:"reqp"`
	Unit   int    `json:"unit"`
	Waited bool   `json:"waited"`
	Steps  []step `json:"steps"`
	ID     int    `json:"id"`
}

const waitTimeout = 150 * time.Millisecond
const stepTimeout = 15 * time.Second

var psk16 = []byte("0123456789abcdef")

func b64(b []byte) string { return base64.StdEncoding.EncodeToString(b) }

var portCounter int

// freePort picks a currently free port from a range private to this process, so that parallel driver processes do
// not hand the same port to two relays between the probe and the relay's own bind.
func freePort() int {
	base := 10000 + (os.Getpid()%220)*100 // below the kernel's ephemeral range (32768..), which other sockets draw from
	for i := 0; i < 100; i++ {
		portCounter++
		p := base + portCounter%100
		l, err := net.Listen("tcp4", fmt.Sprintf("127.0.0.1:%d", p))
		if err != nil {
			continue
		}
		_ = l.Close()
		return p
	}
	panic("no free port")
}

func pattern(dir byte, pos int) byte { return byte(int(dir)*31 + pos*7 + pos/251) }

func fill(dir byte, from, n int) []byte {
	b := make([]byte, n)
	for i := range b {
		b[i] = pattern(dir, from+i)
	}
	return b
}

// reader accumulates what one harness end receives and checks it against the position pattern.
type reader struct {
	mu   sync.Mutex
	n    int
	bad  int // first position with a wrong byte, or -1
	eof  bool
	err  error
	dir  byte
	cond *sync.Cond
}

func newReader(dir byte) *reader {
	r := &reader{bad: -1, dir: dir}
	r.cond = sync.NewCond(&r.mu)
	return r
}

func (r *reader) run(c io.Reader) {
	buf := make([]byte, 32768)
	for {
		n, err := c.Read(buf)
		r.mu.Lock()
		for i := 0; i < n; i++ {
			if r.bad < 0 && buf[i] != pattern(r.dir, r.n+i) {
				r.bad = r.n + i
			}
		}
		r.n += n
		if err != nil {
			if errors.Is(err, io.EOF) {
				r.eof = true
			} else {
				r.err = err
			}
		}
		r.cond.Broadcast()
		r.mu.Unlock()
		if err != nil {
			return
		}
	}
}

func (r *reader) wait(pred func() bool, timeout time.Duration) bool {
	deadline := time.Now().Add(timeout)
	r.mu.Lock()
	defer r.mu.Unlock()
	for !pred() {
		if time.Now().After(deadline) {
			return false
		}
		t := time.AfterFunc(20*time.Millisecond, func() { r.mu.Lock(); r.cond.Broadcast(); r.mu.Unlock() })
		r.cond.Wait()
		t.Stop()
	}
	return true
}

func serverJSON(name, proto string, port int, nowait bool, tunnelTo string) map[string]any {
	m := map[string]any{
		"name": name, "protocol": proto, "mtu": 1500,
		"tcpListeners": []any{map[string]any{"network": "tcp4", "address": fmt.Sprintf("127.0.0.1:%d", port),
			"initialPayloadWaitTimeout": waitTimeout.String(), "disableInitialPayloadWait": nowait}},
	}
	switch proto {
	case "ss2022":
		m["protocol"] = "2022-blake3-aes-128-gcm"
		m["psk"] = b64(psk16)
	case "direct":
		m["tunnelRemoteAddress"] = tunnelTo
	}
	return m
}

func clientJSON(name, proto string, port int) map[string]any {
	m := map[string]any{"name": name, "protocol": proto, "enableTCP": true, "endpoint": fmt.Sprintf("127.0.0.1:%d", port)}
	switch proto {
	case "ss2022":
		m["protocol"] = "2022-blake3-aes-128-gcm"
		m["psk"] = b64(psk16)
	case "direct":
		delete(m, "endpoint")
	case "directtfo":
		delete(m, "endpoint")
		m["protocol"] = "direct"
		m["dialerTFO"] = true
		m["tcpFastOpenFallback"] = true
	}
	return m
}

func harnessClient(proto string, port int) (netio.StreamClient, error) {
	b, _ := json.Marshal(clientJSON("h", proto, port))
	var cc service.ClientConfig
	if err := json.Unmarshal(b, &cc); err != nil {
		return nil, err
	}
	store, err := (&tlscerts.Config{}).NewStore()
	if err != nil {
		return nil, err
	}
	if err := cc.Initialize(store, conn.NewListenConfigCache(), conn.NewDialerCache(), zap.NewNop()); err != nil {
		return nil, err
	}
	return cc.TCPClient()
}

var dnsOnce sync.Once

func runCase(t *testing.T, tc tcase, res *vio.Result) {
	dnsOnce.Do(func() {
		if _, err := relayenv.StartDNS(map[string]netip.Addr{"t.test": netip.MustParseAddr("127.0.0.1")}); err != nil {
			t.Fatal(err)
		}
	})
	fail := func(key, text string, si int, exp, got any) {
		res.Violation(vio.Finding{Key: key, Text: text, Behaviour: tc.ID, Step: si, Expected: exp, Observed: got, Replay: tc})
	}
	U := tc.Unit
	// harness target
	tl, err := net.Listen("tcp4", "127.0.0.1:0")
	if err != nil {
		res.Break("target listen: %v", err)
		return
	}
	defer tl.Close()
	tport := tl.Addr().(*net.TCPAddr).Port
	var target string
	switch tc.Dial {
	case "ok":
		target = fmt.Sprintf("127.0.0.1:%d", tport)
		if tc.ID%3 == 1 && tc.Server != "direct" {
			target = fmt.Sprintf("t.test:%d", tport)
		}
	case "ECONNREFUSED":
		target = fmt.Sprintf("127.0.0.1:%d", freePort())
	case "ENETUNREACH":
		target = "192.0.2.1:80"
	case "dns":
		target = "nx.test:80"
	case "rejected":
		target = "127.0.0.9:80"
	}
	pa, pb, papi := freePort(), freePort(), freePort()
	servers := []any{serverJSON("A", tc.Server, pa, tc.NoWait, target)}
	clients := []any{clientJSON("direct", "direct", 0)}
	routes := []any{map[string]any{"name": "rej", "network": "tcp", "client": "reject", "toPrefixes": []string{"127.0.0.9/32"}, "disableNameResolutionForIPRules": true}}
	switch tc.Client {
	case "direct":
	case "directtfo":
		clients = []any{clientJSON("direct", "directtfo", 0)}
	default:
		servers = append(servers, serverJSON("B", tc.Client, pb, false, ""))
		clients = append(clients, clientJSON("up", tc.Client, pb))
		routes = append(routes, map[string]any{"name": "chain", "network": "tcp", "client": "up", "fromServers": []string{"A"}})
	}
	cfg := map[string]any{
		"servers": servers, "clients": clients,
		"router": map[string]any{"defaultTCPClientName": "direct", "routes": routes},
		"api":    map[string]any{"enabled": true, "listeners": []any{map[string]any{"network": "tcp4", "address": fmt.Sprintf("127.0.0.1:%d", papi)}}},
	}
	cj, _ := json.Marshal(cfg)
	r, err := relayenv.Start(cj, zapcore.InfoLevel)
	if err != nil {
		res.Break("case %d: start relay: %v (%s)", tc.ID, err, cj)
		return
	}
	defer func() {
		if _, ok := r.Stop(20 * time.Second); !ok {
			fail("tcp.relay/stop-hangs", "the service did not stop within 20 s after the connection ended", len(tc.Steps), nil, nil)
		}
	}()
	if _, err := r.Addr("tcp", "A", 0, 20*time.Second); err != nil {
		res.Break("case %d: %v", tc.ID, err)
		return
	}
	if len(servers) > 1 {
		if _, err := r.Addr("tcp", "B", 0, 20*time.Second); err != nil {
			res.Break("case %d: %v", tc.ID, err)
			return
		}
	}
	hc, err := harnessClient(tc.Server, pa)
	if err != nil {
		res.Break("case %d: harness client: %v", tc.ID, err)
		return
	}
	// target side
	tread := newReader('c')
	var tconn *net.TCPConn
	var tmu sync.Mutex
	accepted := make(chan struct{})
	go func() {
		c, err := tl.Accept()
		if err != nil {
			return
		}
		tmu.Lock()
		tconn = c.(*net.TCPConn)
		tmu.Unlock()
		close(accepted)
		tread.run(c)
	}()
	// client side: the handshake (with the request's own initial payload for native protocols)
	cread := newReader('t')
	var cconn netio.Conn
	var dialErr error
	dialed := make(chan struct{})
	go func() {
		defer close(dialed)
		var payload []byte
		if tc.ReqP > 0 {
			payload = fill('c', 0, tc.ReqP*U)
		}
		var ta conn.Addr
		if tc.Server == "direct" {
			ta = conn.AddrFromIPPort(netip.AddrPortFrom(netip.MustParseAddr("127.0.0.1"), uint16(pa)))
		} else {
			ta, err = conn.ParseAddr(target)
			if err != nil {
				dialErr = err
				return
			}
		}
		ctx, cancel := context.WithTimeout(context.Background(), stepTimeout)
		defer cancel()
		c, err := hc.DialStream(ctx, ta, payload)
		if err != nil {
			dialErr = err
			return
		}
		cconn = c
		go cread.run(c)
	}()
	defer func() {
		<-dialed
		if cconn != nil {
			_ = cconn.Close()
		}
		tmu.Lock()
		if tconn != nil {
			_ = tconn.Close()
		}
		tmu.Unlock()
	}()
	needClient := func(si int) bool {
		select {
		case <-dialed:
		case <-time.After(stepTimeout):
			res.Break("case %d step %d: the client handshake did not finish", tc.ID, si)
			return false
		}
		return cconn != nil
	}
	csent, tsent := tc.ReqP*U, 0
	for si, st := range tc.Steps {
		switch st.N {
		case "Route", "Decide":
		case "ClientSend":
			if !needClient(si) {
				if dialErr != nil {
					continue // the handshake was refused; nothing can be sent (checked at the Dial/Route step)
				}
				return
			}
			if _, err := cconn.Write(fill('c', csent, st.K*U)); err != nil {
				// writing may legitimately fail once the relay has closed the connection
				res.Count("client_write_errors", 1)
			}
			csent += st.K * U
		case "ClientClose":
			if !needClient(si) {
				if dialErr != nil {
					continue
				}
				return
			}
			_ = cconn.CloseWrite()
		case "ReadInitial":
			// let the relay's initial payload wait finish (data, EOF or its timeout)
			time.Sleep(3 * waitTimeout)
		case "Dial":
			if st.Code == "ok" {
				select {
				case <-accepted:
				case <-time.After(stepTimeout):
					if r.Exited() {
						res.Break("case %d: the service manager exited: %s", tc.ID, r.LogTail(4))
						return
					}
					fail("tcp.relay/target-not-dialled", fmt.Sprintf("the relay did not connect to the routed target (handshake: %v) %s", dialErr, r.LogTail(3)), si, target, nil)
					return
				}
				// the target's kernel completes the connection before the relay's goroutine has seen its connect() succeed; a reset
				// sent in that window would make the relay's dial itself fail. Go on only once the relay has started copying.
				for dl := time.Now().Add(stepTimeout); r.CountLogs("Bidirectional copy started") == 0 && time.Now().Before(dl); {
					time.Sleep(time.Millisecond)
				}
				if !needClient(si) {
					fail("tcp.relay/success-not-reported", fmt.Sprintf("the onward connection succeeded but the client handshake failed: %v", dialErr), si, "ok", fmt.Sprint(dialErr))
					return
				}
			} else {
				<-dialed
				if tc.Waited {
					// success had to be signalled first; the connection then simply ends
					if cconn == nil {
						res.DriftNote(vio.Finding{Key: "tcp.relay/reply-drift", Behaviour: tc.ID, Step: si, Text: "model: success signalled before the failed dial; real: handshake failed: " + fmt.Sprint(dialErr)})
					} else if !cread.wait(func() bool { return cread.eof || cread.err != nil }, stepTimeout) {
						fail("tcp.relay/failed-dial-not-closed", "the onward connection failed but the client connection stays open", si, "closed", "open")
					}
				} else if cconn == nil && tc.Server == "socks5" && (tc.Client == "direct" || tc.Client == "directtfo") {
					// the protocol's failure reply must be the one that corresponds to how the dial failed: the same dial
					// from this process gives the result code, the compiled table gives the SOCKS5 REP for it
					var rep socks5.ReplyError
					if errors.As(dialErr, &rep) {
						want := expectedRep(target)
						if want != 0 && byte(rep) != want {
							fail("tcp.relay/wrong-failure-reply", fmt.Sprintf("the onward connection failed (%s); the client was sent SOCKS5 REP %d, the corresponding reply is %d", st.Code, byte(rep), want), si, want, byte(rep))
						}
					}
				} else if cconn != nil {
					// non-native client-side protocols learn the outcome from the reply; native ones only see the close
					if tc.Server == "socks5" || tc.Server == "http" {
						fail("tcp.relay/missing-failure-reply", "the onward connection failed ("+st.Code+") but the client was told it succeeded", si, st.Code, "success")
					} else if !cread.wait(func() bool { return cread.eof || cread.err != nil }, stepTimeout) {
						fail("tcp.relay/failed-dial-not-closed", "the onward connection failed but the client connection stays open", si, "closed", "open")
					}
				}
			}
		case "TargetSend":
			tmu.Lock()
			c := tconn
			tmu.Unlock()
			if c == nil {
				res.Break("case %d step %d: no target connection", tc.ID, si)
				return
			}
			if _, err := c.Write(fill('t', tsent, st.K*U)); err != nil {
				res.Count("target_write_errors", 1)
			}
			tsent += st.K * U
		case "TargetClose":
			tmu.Lock()
			c := tconn
			tmu.Unlock()
			if c != nil {
				_ = c.CloseWrite()
			}
		case "TargetAbort":
			tmu.Lock()
			c := tconn
			tmu.Unlock()
			if c != nil {
				_ = c.SetLinger(0)
				_ = c.Close()
			}
		case "CopyL2R", "CopyR2L", "L2REof", "R2LEof":
			// relay steps: their effects are checked below against the model state after the step
		case "Collect":
			want := [2]uint64{uint64(st.Up * U), uint64(st.Down * U)}
			deadline := time.Now().Add(stepTimeout)
			var got map[string]any
			for {
				got = getStats(papi)
				if got != nil && fmt.Sprint(got["tcpSessions"]) == "1" || time.Now().After(deadline) {
					break
				}
				time.Sleep(5 * time.Millisecond)
			}
			if got == nil || fmt.Sprint(got["tcpSessions"]) != "1" {
				fail("tcp.relay/stats-missing", "the session was not recorded in the server's statistics", si, want, map[string]any{"stats": got, "relay_log_tail": r.LogTail(6), "goroutines": relayenv.Goroutines("service.(*TCPRelay)", "netio.BidirectionalCopy")})
			} else if fmt.Sprint(got["uplinkBytes"]) != fmt.Sprint(want[0]) || fmt.Sprint(got["downlinkBytes"]) != fmt.Sprint(want[1]) {
				fail("tcp.relay/stats-mismatch", "the byte counts handed to statistics differ from the bytes delivered each way", si, want, [2]any{got["uplinkBytes"], got["downlinkBytes"]})
			}
		default:
			res.Break("unknown step %s", st.N)
			return
		}
		// effects: what the two ends must have seen by now (positions, then EOF only after everything)
		if st.Tg > 0 || st.Tshut {
			if !tread.wait(func() bool { return tread.n >= st.Tg*U }, stepTimeout) {
				fail("tcp.relay/target-stream-short", fmt.Sprintf("the target received %d of the %d bytes the client sent so far", tread.n, st.Tg*U), si, st.Tg*U, tread.n)
				return
			}
			if st.Tshut && !tread.wait(func() bool { return tread.eof || tread.err != nil }, stepTimeout) {
				fail("tcp.relay/half-close-not-mirrored", "the client closed its write side and everything was delivered, but the target sees no end-of-stream", si, "eof", "open")
				return
			}
		}
		if st.Cg > 0 || st.Cshut {
			if cconn == nil {
				continue
			}
			if !cread.wait(func() bool { return cread.n >= st.Cg*U }, stepTimeout) {
				fail("tcp.relay/client-stream-short", fmt.Sprintf("the client received %d of the %d bytes the target sent so far", cread.n, st.Cg*U), si, st.Cg*U, cread.n)
				return
			}
			if st.Cshut && !cread.wait(func() bool { return cread.eof || cread.err != nil }, stepTimeout) {
				fail("tcp.relay/half-close-not-mirrored", "the target closed its write side and everything was delivered, but the client sees no end-of-stream", si, "eof", "open")
				return
			}
		}
		tread.mu.Lock()
		tn, tbad, teof := tread.n, tread.bad, tread.eof
		tread.mu.Unlock()
		cread.mu.Lock()
		cn, cbad, ceof := cread.n, cread.bad, cread.eof
		cread.mu.Unlock()
		if tbad >= 0 {
			fail("tcp.relay/target-stream-corrupt", fmt.Sprintf("byte %d of the client-to-target stream is wrong (lost, repeated or reordered data)", tbad), si, nil, tbad)
			return
		}
		if cbad >= 0 {
			fail("tcp.relay/client-stream-corrupt", fmt.Sprintf("byte %d of the target-to-client stream is wrong (lost, repeated or reordered data)", cbad), si, nil, cbad)
			return
		}
		if tn > csent {
			fail("tcp.relay/target-stream-invented", "the target received more bytes than the client sent", si, csent, tn)
			return
		}
		if cn > tsent {
			fail("tcp.relay/client-stream-invented", "the client received more bytes than the target sent", si, tsent, cn)
			return
		}
		if teof && !st.Tshut && tn < csent {
			fail("tcp.relay/eof-before-data", "the target saw end-of-stream before all client bytes were delivered", si, csent, tn)
			return
		}
		if ceof && !st.Cshut && cn < tsent && st.N != "Dial" && st.N != "Collect" {
			fail("tcp.relay/eof-before-data", "the client saw end-of-stream before all target bytes were delivered", si, tsent, cn)
			return
		}
		res.Seen(fmt.Sprintf("%s/%s/%s/%v/%s/%s", tc.Server, tc.Client, st.N, tc.Waited, tc.Dial, st.Reply))
	}
	// route rejection / failed dial for non-waited, non-native: the handshake must have failed
	last := tc.Steps[len(tc.Steps)-1]
	if last.N == "Route" && last.Out == "rejected" {
		<-dialed
		if cconn != nil && (tc.Server == "socks5" || tc.Server == "http") {
			fail("tcp.relay/missing-failure-reply", "the router rejected the request but the client was told it succeeded", len(tc.Steps)-1, "EACCES", "success")
		}
	}
	res.AddSteps(1, len(tc.Steps))
	res.Sample(tc, 2)
}

// expectedRep dials the target from the harness the way a direct client would and maps the failure through the
// repository's own tables; 0 means the dial unexpectedly succeeded or cannot be classified.
func expectedRep(target string) byte {
	d := net.Dialer{Timeout: 5 * time.Second}
	c, err := d.Dial("tcp", target)
	if err == nil {
		_ = c.Close()
		return 0
	}
	code := conn.DialResultCodeFromError(err)
	if code == conn.DialResultCodeErrOther {
		return 0
	}
	return socks5.ReplyFromDialResultCode(code)
}

func getStats(port int) map[string]any {
	c := http.Client{Timeout: 3 * time.Second}
	resp, err := c.Get(fmt.Sprintf("http://127.0.0.1:%d/api/ssm/v1/servers/A/stats", port))
	if err != nil {
		return nil
	}
	defer resp.Body.Close()
	var m map[string]any
	if json.NewDecoder(resp.Body).Decode(&m) != nil {
		return nil
	}
	return m
}

func TestTCPRelay(t *testing.T) {
	in, err := vio.ReadInput()
	if err != nil {
		t.Skip(err)
	}
	res := vio.NewResult()
	defer func() {
		if err := res.Write(); err != nil {
			t.Fatal(err)
		}
	}()
	var cases []tcase
	if !in.Param("cases", &cases) {
		t.Fatal("no cases")
	}
	for _, tc := range cases {
		runCase(t, tc, res)
	}
}
