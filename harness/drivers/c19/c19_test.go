//go:build verif

// Package c19 binds specs/Groups/ClientGroup.tla to the real clientgroups package.
//
// TestReplay steps behaviours of the model (paths of the exhaustive state graph and the
// scripted long histories) through groups built by the real ClientGroupConfig.AddClientGroup
// over fake member clients, inside testing/synctest: the probe loop's ticker, the probe
// deadlines and the scripted latencies all run on the virtual clock, the driver sleeps to the
// absolute tick instants t0+k*interval, and after every round asks the group who serves.
//
// TestRecordRR runs concurrent callers against a real round-robin group and records
// call/return events for TLC trace validation (specs/Groups/TraceClientGroup.tla), and checks
// the hand-out counts at quiescence.
package c19

import (
	"context"
	"encoding/json"
	"errors"
	"fmt"
	"hash/fnv"
	"math/rand/v2"
	"net"
	"net/netip"
	"os"
	"runtime"
	"slices"
	"sort"
	"strings"
	"sync"
	"testing"
	"testing/synctest"
	"time"

	"github.com/database64128/shadowsocks-go"
	"github.com/database64128/shadowsocks-go/clientgroups"
	"github.com/database64128/shadowsocks-go/conn"
	"github.com/database64128/shadowsocks-go/jsoncfg"
	"github.com/database64128/shadowsocks-go/netio"
	"github.com/database64128/shadowsocks-go/zerocopy"
	"go.uber.org/zap"

	"verif/harness/internal/vio"
)

const groupName = "the-group"

type action struct {
	N       string `json:"n"`
	P       string `json:"p,omitempty"`
	K       int    `json:"k,omitempty"`
	C       int    `json:"c,omitempty"`
	O       int    `json:"o,omitempty"`
	Out     string `json:"out,omitempty"`
	Any     bool   `json:"any,omitempty"`
	Pos     int    `json:"pos,omitempty"`
	Changed bool   `json:"changed,omitempty"`
	Kind    string `json:"kind,omitempty"` // how a failed probe fails (chosen by the driver, kept for the replay file)
}

type consts struct {
	Group       []string `json:"group"`
	Universe    []string `json:"universe"`
	T           int      `json:"T"`           // timeout in latency units
	UnitNs      int64    `json:"unitNs"`      // nanoseconds per latency unit
	IntervalNs  int64    `json:"intervalNs"`  // probe interval
	UseDefaults bool     `json:"useDefaults"` // leave timeout/interval/concurrency zero in the configuration
	Conc        int      `json:"conc"`        // configured concurrency (0: leave default)
	Proto       string   `json:"proto"`       // "tcp" | "udp"
}

type initObs struct {
	Pol string `json:"pol"`
}

var (
	probeAddrTCP = conn.MustAddrFromDomainPort("probe.verif.test", 80)
	queryAddr    = conn.MustAddrFromDomainPort("who-serves.verif.test", 1)
	probeAddrUDP = conn.AddrFromIPAndPort(netip.AddrFrom4([4]byte{192, 0, 2, 53}), 53)
)

const (
	probePath = "/verif_204"
	probeHost = "probe.verif.test"
)

// identErr is how a fake member answers the driver's question "who serves this group now".
type identErr struct {
	name string
	pos  int
}

func (e *identErr) Error() string { return "identity:" + e.name }

type queryKey struct{}

// ---------------------------------------------------------------- fake members

type outcome struct {
	kind string        // "ok","dialerr","silent","status","eof","garbage","sessionerr"
	lat  time.Duration // when the fake answers
}

type world struct {
	c       consts
	res     *vio.Result
	mu      sync.Mutex
	dialers []*fakeDialer // TCP: by position, in the order AddClientGroup asked for them
	script  []outcome     // by position, for the round in progress
	started []int         // probes started, by position
	ended   []int         // probes whose connection was closed by the prober / that failed at dial
	flying  int
	maxFly  int
	badReq  string
	udpDest netip.AddrPort
	stray   int // calls on members that are neither probes nor the driver's question
}

type fakeClient struct {
	w    *world
	name string
}

type fakeDialer struct {
	c   *fakeClient
	pos int
}

func (c *fakeClient) NewStreamDialer() (netio.StreamDialer, netio.StreamDialerInfo) {
	c.w.mu.Lock()
	defer c.w.mu.Unlock()
	// the position of a member is where its name stands in the configured list (the order in which
	// AddClientGroup asks for dialers when a name is listed more than once)
	d := &fakeDialer{c: c, pos: len(c.w.dialers)}
	if distinct(c.w.c.Group) {
		d.pos = slices.Index(c.w.c.Group, c.name)
	}
	c.w.dialers = append(c.w.dialers, d)
	return d, netio.StreamDialerInfo{Name: c.name}
}

// DialStream on the client itself is never used by a group (it keeps the dedicated dialer).
func (c *fakeClient) DialStream(ctx context.Context, addr conn.Addr, payload []byte) (netio.Conn, error) {
	c.w.mu.Lock()
	c.w.stray++
	c.w.mu.Unlock()
	return nil, errors.New("fake client: DialStream on the client")
}

func (d *fakeDialer) DialStream(ctx context.Context, addr conn.Addr, payload []byte) (netio.Conn, error) {
	w := d.c.w
	if addr.Equals(queryAddr) {
		return nil, &identErr{name: d.c.name, pos: d.pos}
	}
	w.mu.Lock()
	want := fmt.Sprintf("GET %s HTTP/1.1\r\nHost: %s\r\n\r\n", probePath, probeHost)
	if !addr.Equals(probeAddrTCP) || string(payload) != want {
		w.badReq = fmt.Sprintf("addr=%s payload=%q", addr, payload)
	}
	if d.pos >= len(w.script) {
		w.stray++
		w.mu.Unlock()
		return nil, errors.New("fake dialer: no script")
	}
	o := w.script[d.pos]
	w.started[d.pos]++
	w.flying++
	w.maxFly = max(w.maxFly, w.flying)
	w.mu.Unlock()
	finish := func() {
		w.mu.Lock()
		w.ended[d.pos]++
		w.flying--
		w.mu.Unlock()
	}
	if o.kind == "dialerr" {
		finish()
		return nil, errors.New("fake dialer: scripted dial failure")
	}
	pl, pr := netio.NewPipe()
	go func() {
		defer pr.Close()
		if o.kind != "silent" {
			time.Sleep(o.lat)
			switch o.kind {
			case "ok":
				_, _ = pr.Write([]byte("HTTP/1.1 204 No Content\r\nServer: fake\r\n\r\n"))
			case "status":
				_, _ = pr.Write([]byte("HTTP/1.1 500 Internal Server Error\r\nContent-Length: 0\r\n\r\n"))
			case "garbage":
				_, _ = pr.Write([]byte("\x16\x03\x01 not http at all\r\n\r\n"))
			case "eof":
				return
			}
		}
		// stay until the prober hangs up
		var b [64]byte
		for {
			if _, err := pr.Read(b[:]); err != nil {
				return
			}
		}
	}()
	return &probeConn{PipeConn: pl, finish: finish}, nil
}

// probeConn tells the world when the prober hangs up (before the worker takes its next job).
type probeConn struct {
	*netio.PipeConn
	once   sync.Once
	finish func()
}

func (c *probeConn) Close() error {
	c.once.Do(c.finish)
	return c.PipeConn.Close()
}

// UDP member.  A scripted failure is a NewSession error; a success opens a real loopback socket
// (real I/O does not advance the virtual clock, so a success has latency 0).
type fakeUDPClient struct {
	w    *world
	name string
}

func (c *fakeUDPClient) Info() zerocopy.UDPClientInfo {
	return zerocopy.UDPClientInfo{Name: c.name}
}

type fakePacker struct{ dest netip.AddrPort }

func (fakePacker) ClientPackerInfo() zerocopy.ClientPackerInfo { return zerocopy.ClientPackerInfo{} }
func (p fakePacker) PackInPlace(ctx context.Context, b []byte, targetAddr conn.Addr, payloadStart, payloadLen int) (netip.AddrPort, int, int, error) {
	return p.dest, payloadStart, payloadLen, nil
}

type fakeUnpacker struct{}

func (fakeUnpacker) ClientUnpackerInfo() zerocopy.ClientUnpackerInfo {
	return zerocopy.ClientUnpackerInfo{}
}
func (fakeUnpacker) UnpackInPlace(b []byte, src netip.AddrPort, packetStart, packetLen int) (netip.AddrPort, int, int, error) {
	return probeAddrUDP.IPPort(), packetStart, packetLen, nil
}

func (c *fakeUDPClient) NewSession(ctx context.Context) (zerocopy.UDPClientSessionInfo, zerocopy.UDPClientSession, error) {
	w := c.w
	info := zerocopy.UDPClientSessionInfo{Name: c.name, MTU: 1500, ListenConfig: conn.DefaultUDPClientListenConfig}
	pos := slices.Index(w.c.Group, c.name)
	if ctx.Value(queryKey{}) != nil {
		return info, zerocopy.UDPClientSession{}, &identErr{name: c.name, pos: pos}
	}
	w.mu.Lock()
	if pos < 0 || pos >= len(w.script) {
		w.stray++
		w.mu.Unlock()
		return info, zerocopy.UDPClientSession{}, errors.New("fake udp client: no script")
	}
	o := w.script[pos]
	w.started[pos]++
	w.flying++
	w.maxFly = max(w.maxFly, w.flying)
	w.mu.Unlock()
	finish := func() error {
		w.mu.Lock()
		w.ended[pos]++
		w.flying--
		w.mu.Unlock()
		return nil
	}
	if o.kind != "ok" {
		_ = finish()
		return info, zerocopy.UDPClientSession{}, errors.New("fake udp client: scripted session failure")
	}
	return info, zerocopy.UDPClientSession{MaxPacketSize: 1452, Packer: fakePacker{dest: w.udpDest}, Unpacker: fakeUnpacker{}, Close: finish}, nil
}

// dnsResponder answers every DNS query with the same message marked as a response (QR=1, RCODE=0).
func dnsResponder(t *testing.T) (netip.AddrPort, func()) {
	pc, err := net.ListenUDP("udp4", &net.UDPAddr{IP: net.IPv4(127, 0, 0, 1)})
	if err != nil {
		t.Fatal(err)
	}
	go func() {
		b := make([]byte, 2048)
		for {
			n, from, err := pc.ReadFromUDPAddrPort(b)
			if err != nil {
				return
			}
			if n >= 12 {
				b[2] |= 0x80
				b[3] &^= 0x0f
				_, _ = pc.WriteToUDPAddrPort(b[:n], from)
			}
		}
	}()
	return pc.LocalAddr().(*net.UDPAddr).AddrPort(), func() { _ = pc.Close() }
}

// ---------------------------------------------------------------- the group under test

type group struct {
	w     *world
	tcp   netio.StreamClient
	udp   zerocopy.UDPClient
	svcs  []shadowsocks.Service
	nquer int
}

func buildGroup(w *world, pol string) (*group, error) {
	c := w.c
	tcpMap := map[string]netio.StreamClient{}
	udpMap := map[string]zerocopy.UDPClient{}
	for _, n := range c.Universe {
		tcpMap[n] = &fakeClient{w: w, name: n}
		udpMap[n] = &fakeUDPClient{w: w, name: n}
	}
	var cpc clientgroups.ConnectivityProbeConfig
	if !c.UseDefaults {
		cpc.Timeout = jsoncfg.Duration(time.Duration(c.T) * time.Duration(c.UnitNs))
		cpc.Interval = jsoncfg.Duration(c.IntervalNs)
		cpc.Concurrency = c.Conc
	}
	cfg := clientgroups.ClientGroupConfig{Name: groupName}
	if c.Proto == "udp" {
		cfg.UDP = clientgroups.ClientSelectionConfig[clientgroups.UDPConnectivityProbeConfig]{
			Policy: clientgroups.ClientSelectionPolicy(pol), Clients: c.Group,
			Probe: clientgroups.UDPConnectivityProbeConfig{ConnectivityProbeConfig: cpc, Address: probeAddrUDP},
		}
	} else {
		cfg.TCP = clientgroups.ClientSelectionConfig[clientgroups.TCPConnectivityProbeConfig]{
			Policy: clientgroups.ClientSelectionPolicy(pol), Clients: c.Group,
			Probe: clientgroups.TCPConnectivityProbeConfig{ConnectivityProbeConfig: cpc, Address: probeAddrTCP, EscapedPath: probePath, Host: probeHost},
		}
	}
	g := &group{w: w}
	if err := cfg.AddClientGroup(zap.NewNop(), tcpMap, udpMap, func(s shadowsocks.Service) { g.svcs = append(g.svcs, s) }); err != nil {
		return nil, err
	}
	g.tcp, g.udp = tcpMap[groupName], udpMap[groupName]
	if c.Proto == "udp" {
		if g.udp == nil || g.tcp != nil {
			return nil, errors.New("UDP-only configuration did not register exactly the UDP group")
		}
	} else {
		if g.tcp == nil || g.udp != nil {
			return nil, errors.New("TCP-only configuration did not register exactly the TCP group")
		}
		if len(w.dialers) != len(c.Group) {
			return nil, fmt.Errorf("AddClientGroup asked for %d dialers, the group has %d members", len(w.dialers), len(c.Group))
		}
		for _, d := range w.dialers {
			if d.pos < 0 {
				return nil, fmt.Errorf("AddClientGroup asked %q, which is not configured, for a dialer", d.c.name)
			}
		}
	}
	return g, nil
}

// who asks the group which member serves now, alternating between the ways a relay uses a group.
func (g *group) who() (string, error) {
	g.nquer++
	var err error
	if g.udp != nil {
		info, _, e := g.udp.NewSession(context.WithValue(context.Background(), queryKey{}, true))
		var id *identErr
		if !errors.As(e, &id) {
			return "", fmt.Errorf("NewSession on the group did not reach a member: %v", e)
		}
		if info.Name != id.name {
			return "", fmt.Errorf("session info names %q, member %q answered", info.Name, id.name)
		}
		return id.name, nil
	}
	if g.nquer%2 == 0 {
		d, info := g.tcp.NewStreamDialer()
		fd, ok := d.(*fakeDialer)
		if !ok {
			return "", fmt.Errorf("NewStreamDialer returned a %T", d)
		}
		if fd.c.name != info.Name {
			return "", fmt.Errorf("dialer of %q returned with info of %q", fd.c.name, info.Name)
		}
		return info.Name, nil
	}
	_, err = g.tcp.DialStream(context.Background(), queryAddr, nil)
	var id *identErr
	if !errors.As(err, &id) {
		return "", fmt.Errorf("DialStream on the group did not reach a member: %v", err)
	}
	return id.name, nil
}

// ---------------------------------------------------------------- replay

func distinct(names []string) bool {
	for i, n := range names {
		if slices.Index(names, n) != i {
			return false
		}
	}
	return true
}

func hash(parts ...any) uint64 {
	h := fnv.New64a()
	fmt.Fprint(h, parts...)
	return h.Sum64()
}

var failKinds = []string{"silent", "dialerr", "status", "eof", "garbage"}
var earlyFailKinds = []string{"dialerr", "status", "eof", "garbage"}

type replayer struct {
	in       *vio.Input
	res      *vio.Result
	bi       int
	w        *world
	g        *group
	pol      string
	hist     []action
	unit     time.Duration
	tmo      time.Duration
	intv     time.Duration
	t0       time.Time
	last     string // what the group was last seen serving
	nr       int    // rounds completed
	k        int    // workers
	trunc    bool
	cancelFn func()
}

func (r *replayer) replayObj() any {
	return map[string]any{"consts": r.w.c, "init": map[string]any{"pol": r.pol}, "acts": r.hist}
}

func (r *replayer) violation(si int, key, text string, exp, obs any) {
	r.res.Violation(vio.Finding{Key: key, Text: text, Behaviour: r.bi, Step: si, Expected: exp, Observed: obs, Replay: r.replayObj()})
}

// ask queries the group and checks membership; "" means the question could not be asked.
func (r *replayer) ask(si int) string {
	name, err := r.g.who()
	if err != nil {
		r.res.Break("behaviour %d step %d: %v", r.bi, si, err)
		return ""
	}
	if !slices.Contains(r.w.c.Group, name) {
		r.violation(si, "groups/non-member", fmt.Sprintf("%s group %v served %q, which is not one of its clients", r.pol, r.w.c.Group, name), r.w.c.Group, name)
	}
	r.res.Seen("served/" + r.pol + "/" + name)
	return name
}

func (r *replayer) sleepTo(at time.Time) bool {
	d := time.Until(at)
	if d < 0 {
		return false
	}
	time.Sleep(d)
	synctest.Wait()
	return true
}

// timeline computes when each probe of a round ends, relative to the tick, with k workers taking the
// jobs in configuration order.
func timeline(durs []time.Duration, k int) (ends []time.Duration, total time.Duration) {
	free := make([]time.Duration, k)
	ends = make([]time.Duration, len(durs))
	for i, d := range durs {
		wi := 0
		for j := range free {
			if free[j] < free[wi] {
				wi = j
			}
		}
		ends[i] = free[wi] + d
		free[wi] = ends[i]
		total = max(total, ends[i])
	}
	return
}

func (r *replayer) dur(o outcome) time.Duration {
	switch o.kind {
	case "ok", "status", "eof", "garbage":
		return o.lat
	case "silent":
		return r.tmo
	default:
		return 0
	}
}

// round replays steps[from..] up to and including the RoundEnd (or the end of the behaviour) and
// returns the index of the last step consumed.
func (r *replayer) round(steps []action, from int) (int, bool) {
	c := r.w.c
	n := len(c.Group)
	to := from
	for to+1 < len(steps) && steps[to].N != "RoundEnd" {
		to++
	}
	complete := steps[to].N == "RoundEnd"
	seg := steps[from : to+1]
	outs := make([]int, n)
	have := make([]bool, n)
	cancelAt := -1
	doneBeforeCancel := map[int]bool{}
	for i, a := range seg {
		switch a.N {
		case "ProbeDone":
			outs[a.C], have[a.C] = a.O, true
			if cancelAt < 0 {
				doneBeforeCancel[a.C] = true
			}
		case "Cancel":
			cancelAt = i
		}
	}
	// a cancellation the model places after the last probe returned cannot change anything in the round:
	// the real round is over by then, so it is delivered right after the round
	cancelAfter := false
	if cancelAt >= 0 && len(doneBeforeCancel) == n {
		cancelAt, cancelAfter = -1, true
	}
	// how each member behaves in this round
	sc := make([]outcome, n)
	for i := range n {
		early := cancelAt >= 0 && doneBeforeCancel[i]
		switch {
		case !have[i] || (cancelAt >= 0 && !doneBeforeCancel[i]):
			sc[i] = outcome{kind: "silent"}
		case outs[i] < c.T:
			sc[i] = outcome{kind: "ok", lat: time.Duration(outs[i]) * r.unit}
		default:
			kind := ""
			for j := range seg {
				if seg[j].N == "ProbeDone" && seg[j].C == i {
					kind = seg[j].Kind
				}
			}
			if kind == "" {
				kinds := failKinds
				if early {
					kinds = earlyFailKinds
				}
				if c.Proto == "udp" {
					kinds = []string{"sessionerr"}
				}
				kind = kinds[hash(r.in.Seed, r.bi, r.nr, i)%uint64(len(kinds))]
				if c.T < 2 && kind != "silent" && kind != "sessionerr" {
					kind = "dialerr"
				}
			}
			lat := time.Duration(1+hash(r.in.Seed, r.bi, r.nr, i, "lat")%uint64(max(1, c.T-1))) * r.unit
			sc[i] = outcome{kind: kind, lat: lat}
		}
		if c.Proto == "udp" && sc[i].kind == "silent" {
			sc[i].kind = "sessionerr" // a UDP member cannot stay silent on the virtual clock
		}
	}
	for i := range seg {
		if seg[i].N == "ProbeDone" && seg[i].O >= c.T {
			seg[i].Kind = sc[seg[i].C].kind
		}
	}
	r.hist = append(r.hist, seg...)
	si := from + len(seg) - 1
	durs := make([]time.Duration, n)
	for i := range sc {
		durs[i] = r.dur(sc[i])
	}
	ends, total := timeline(durs, r.k)
	if total >= r.intv {
		r.res.Break("behaviour %d: a round of %v does not fit the interval %v", r.bi, total, r.intv)
		return to, false
	}
	var cancelOff time.Duration
	if cancelAt >= 0 {
		for i := range n {
			if doneBeforeCancel[i] {
				cancelOff = max(cancelOff, ends[i])
			}
		}
		cancelOff++
		for i := range n {
			if !doneBeforeCancel[i] && ends[i] <= cancelOff && ends[i] > 0 {
				// not realisable with these workers: stop the behaviour before this round
				r.hist = r.hist[:len(r.hist)-len(seg)]
				r.trunc = true
				r.res.Count("truncated_unrealisable_cancel", 1)
				return to, false
			}
		}
	}
	r.w.mu.Lock()
	r.w.script = sc
	r.w.mu.Unlock()
	tick := r.t0.Add(time.Duration(r.nr+1) * r.intv)
	before := r.ask(si)
	if before == "" {
		return to, false
	}
	if !r.sleepTo(tick) {
		r.res.Break("behaviour %d: tick %d is already in the past", r.bi, r.nr+1)
		return to, false
	}
	r.w.mu.Lock()
	st := slices.Clone(r.w.started)
	r.w.mu.Unlock()
	nst := 0
	for i := range n {
		if st[i] == r.nr+1 {
			nst++
		} else if st[i] != r.nr {
			nst = -1
			break
		}
	}
	if nst < min(r.k, n) {
		r.res.Break("behaviour %d round %d: at the tick instant the members had been probed %v times (expected round %d to be starting with %d workers)",
			r.bi, r.nr, st, r.nr+1, r.k)
		return to, false
	}
	// instants inside the round at which the group is asked
	type check struct {
		off  time.Duration
		what string
	}
	var checks []check
	limit := total - 1
	if cancelAt >= 0 {
		limit = cancelOff - 1
	}
	sorted := slices.Clone(ends)
	sort.Slice(sorted, func(a, b int) bool { return sorted[a] < sorted[b] })
	if limit >= 0 {
		checks = append(checks, check{0, "just after the round started"})
		ndone := 0
		for i, a := range seg {
			if cancelAt >= 0 && i > cancelAt {
				break
			}
			switch a.N {
			case "ProbeDone":
				ndone++
			case "Select":
				off := time.Duration(0)
				if ndone > 0 {
					off = sorted[ndone-1]
				}
				checks = append(checks, check{min(off, limit), fmt.Sprintf("after %d probes returned", ndone)})
			}
		}
		checks = append(checks, check{limit, "just before the round ended"})
		sort.SliceStable(checks, func(a, b int) bool { return checks[a].off < checks[b].off })
	}
	for _, ck := range checks {
		if !r.sleepTo(tick.Add(ck.off)) {
			continue
		}
		r.w.mu.Lock()
		fin := 0
		for i := range n {
			fin += r.w.ended[i]
		}
		r.w.mu.Unlock()
		if fin >= n*(r.nr+1) {
			if ck.off > 0 {
				// the real round was shorter than the model's: there is no instant "inside" it left to look at; the
				// choice after the round is still compared (that is where the property speaks)
				r.res.DriftNote(vio.Finding{Key: "groups/round-shorter-than-model", Behaviour: r.bi, Step: si,
					Text: fmt.Sprintf("round %d: all probes over at +%v, the model's round lasts %v", r.nr, ck.off, total)})
				continue
			}
			// a round without duration (every member failed or answered at once): there is no instant inside it
			continue
		}
		got := r.ask(si)
		if got == "" {
			return to, false
		}
		r.res.Count("mid_round_checks", 1)
		if got != before {
			r.violation(si, "groups."+r.pol+"/changed-during-round",
				fmt.Sprintf("%s group %v served %q before round %d and %q %s (+%v of %v)", r.pol, c.Group, before, r.nr, got, ck.what, ck.off, total), before, got)
		}
	}
	if cancelAt >= 0 {
		if !r.sleepTo(tick.Add(cancelOff)) {
			r.res.Break("behaviour %d: cancel instant in the past", r.bi)
			return to, false
		}
		r.cancelFn()
		synctest.Wait()
		r.res.Seen("cancel/mid-round")
	} else if complete {
		if !r.sleepTo(tick.Add(total)) {
			r.res.Break("behaviour %d: round end in the past", r.bi)
			return to, false
		}
	}
	if !complete {
		return to, true
	}
	r.w.mu.Lock()
	st = slices.Clone(r.w.started)
	maxFly := r.w.maxFly
	r.w.mu.Unlock()
	for i := range n {
		if st[i] != r.nr+1 {
			r.res.Break("behaviour %d round %d: member %d probed %d times by the end of the round", r.bi, r.nr, i, st[i])
			return to, false
		}
	}
	if maxFly > r.k {
		r.res.DriftNote(vio.Finding{Key: "groups.probe/more-probes-in-flight-than-workers", Behaviour: r.bi, Step: si,
			Text: fmt.Sprintf("%d probes in flight with concurrency %d", maxFly, r.k), Replay: r.replayObj()})
	}
	end := seg[len(seg)-1]
	got := r.ask(si)
	if got == "" {
		return to, false
	}
	r.nr++
	r.res.Count("rounds", 1)
	r.res.Seen(fmt.Sprintf("round/%s/%s/changed=%v", r.pol, end.Out, end.Changed))
	if got != end.Out {
		r.violation(si, "groups."+r.pol+"/wrong-client-after-round",
			fmt.Sprintf("%s group %v: after round %d the policy picks %q (position %d), the group serves %q; outcomes of the round %v (timeout=%d)",
				r.pol, c.Group, end.K, end.Out, end.Pos, got, outs, c.T), end.Out, got)
	}
	r.last = got
	if cancelAfter {
		r.cancelFn()
		synctest.Wait()
		r.res.Seen("cancel/after-last-probe")
	}
	return to, true
}

func runBehaviour(t *testing.T, in *vio.Input, c consts, bi int, b vio.Behaviour, res *vio.Result, udpDest netip.AddrPort) {
	var ini initObs
	if err := json.Unmarshal(b.Init, &ini); err != nil || ini.Pol == "" {
		res.Break("behaviour %d: no policy in the initial observation (%v)", bi, err)
		return
	}
	steps := make([]action, len(b.Steps))
	for i, st := range b.Steps {
		if err := json.Unmarshal(st.A, &steps[i]); err != nil {
			res.Break("behaviour %d step %d: %v", bi, i, err)
			return
		}
	}
	synctest.Test(t, func(t *testing.T) {
		n := len(c.Group)
		w := &world{c: c, res: res, started: make([]int, n), ended: make([]int, n), udpDest: udpDest}
		r := &replayer{in: in, res: res, bi: bi, w: w, pol: ini.Pol, unit: time.Duration(c.UnitNs)}
		r.tmo = time.Duration(c.T) * r.unit
		r.intv = time.Duration(c.IntervalNs)
		r.k = c.Conc
		if c.UseDefaults || c.Conc <= 0 || c.Conc > n {
			r.k = n // defaultProbeConcurrency (32) exceeds every group here
		}
		g, err := buildGroup(w, ini.Pol)
		if err != nil {
			res.Break("behaviour %d: %v", bi, err)
			return
		}
		r.g = g
		probing := ini.Pol == "availability" || ini.Pol == "latency" || ini.Pol == "min-max-latency"
		if probing != (len(g.svcs) == 1) {
			res.Break("behaviour %d: policy %s registered %d probe services", bi, ini.Pol, len(g.svcs))
			return
		}
		ctx, cancel := context.WithCancel(context.Background())
		cancelled := false
		doCancel := func() {
			if !cancelled {
				cancelled = true
				cancel()
			}
		}
		defer func() {
			doCancel()
			// let silent members be hung up on and every fake goroutine leave
			time.Sleep(r.tmo + r.intv)
			synctest.Wait()
		}()
		pending := map[string]string{} // round-robin: caller -> what its add returned
		rrStarted, rrOff := false, 0
		ok := true
		for si := 0; si < len(steps) && ok; si++ {
			a := steps[si]
			switch a.N {
			case "Start":
				r.hist = append(r.hist, a)
				r.t0 = time.Now()
				if err := g.svcs[0].Start(ctx); err != nil {
					res.Break("behaviour %d: Start: %v", bi, err)
					return
				}
				synctest.Wait()
				if first := r.ask(si); first != "" && first != c.Group[0] {
					res.DriftNote(vio.Finding{Key: "groups.probe/initial-client-not-first", Behaviour: bi, Step: si, Expected: c.Group[0], Observed: first,
						Text: "before the first round the group serves a member other than the first configured one", Replay: r.replayObj()})
				}
			case "Select":
				r.hist = append(r.hist, a)
				got := r.ask(si)
				if got == "" {
					return
				}
				if !a.Any && r.last != "" && got != r.last {
					r.violation(si, "groups."+r.pol+"/changed-without-round",
						fmt.Sprintf("%s group %v served %q after its last round and serves %q now, no round in between", r.pol, c.Group, r.last, got), r.last, got)
				} else if !a.Any && r.last == "" && got != a.Out {
					res.DriftNote(vio.Finding{Key: "groups.probe/initial-client-not-first", Behaviour: bi, Step: si, Expected: a.Out, Observed: got,
						Text: fmt.Sprintf("before the first round: model %q, group %q", a.Out, got), Replay: r.replayObj()})
				}
			case "SelCall":
				r.hist = append(r.hist, a)
			case "SelAdd":
				r.hist = append(r.hist, a)
				got := r.ask(si)
				if got == "" {
					return
				}
				pending[a.P] = got
				res.Seen(fmt.Sprintf("rr/%d/%s", a.K%len(c.Group), got))
				// C19 fixes the cyclic order, not the member the cycle starts with
				if !rrStarted {
					rrStarted = true
					if gi := slices.Index(c.Group, got); gi >= 0 && distinct(c.Group) {
						rrOff = (gi - a.K%len(c.Group) + len(c.Group)) % len(c.Group)
					}
					if rrOff != 0 {
						res.DriftNote(vio.Finding{Key: "groups.round-robin/cycle-starts-elsewhere", Behaviour: bi, Step: si, Expected: a.Out, Observed: got,
							Text: fmt.Sprintf("the first selection returned %q, the model starts the cycle at %q", got, a.Out), Replay: r.replayObj()})
					}
				}
				a.Out = c.Group[(a.K+rrOff)%len(c.Group)]
				if got != a.Out {
					r.violation(si, "groups.round-robin/not-cyclic",
						fmt.Sprintf("round-robin group %v: selection number %d returned %q, cyclic configuration order gives %q", c.Group, a.K, got, a.Out), a.Out, got)
				}
			case "SelRet":
				r.hist = append(r.hist, a)
				delete(pending, a.P)
			case "Cancel":
				r.hist = append(r.hist, a)
				doCancel()
				synctest.Wait()
				res.Seen("cancel/idle")
			case "Exit":
				r.hist = append(r.hist, a)
				// the loop is gone: a whole interval passes without a probe
				r.w.mu.Lock()
				before := slices.Clone(r.w.started)
				r.w.mu.Unlock()
				time.Sleep(r.intv)
				synctest.Wait()
				r.w.mu.Lock()
				after := slices.Clone(r.w.started)
				r.w.mu.Unlock()
				if !slices.Equal(before, after) {
					res.DriftNote(vio.Finding{Key: "groups.probe/probes-after-cancel", Behaviour: bi, Step: si,
						Text: "members were probed after the service context ended", Replay: r.replayObj()})
				}
				// ticks were missed on purpose; nothing more can be aligned in this behaviour except selections
				if got := r.ask(si); got != "" && r.last != "" && got != r.last {
					r.violation(si, "groups."+r.pol+"/changed-without-round", fmt.Sprintf("served %q after the last round, %q after the loop ended", r.last, got), r.last, got)
				}
			case "RoundStart":
				r.cancelFn = doCancel
				si, ok = r.round(steps, si)
			case "JobStart", "ProbeDone", "RoundEnd":
				res.Break("behaviour %d step %d: %s outside a round", bi, si, a.N)
				return
			default:
				res.Break("behaviour %d step %d: unknown action %q", bi, si, a.N)
				return
			}
		}
		w.mu.Lock()
		if w.badReq != "" {
			res.DriftNote(vio.Finding{Key: "groups.probe/request-differs", Behaviour: bi, Text: "probe did not carry the configured address/request: " + w.badReq})
		}
		if w.stray > 0 {
			res.DriftNote(vio.Finding{Key: "groups.probe/stray-calls", Behaviour: bi, Text: fmt.Sprintf("%d unexpected calls on members", w.stray)})
		}
		w.mu.Unlock()
		res.AddSteps(1, len(r.hist))
		res.Sample(map[string]any{"behaviour": bi, "policy": ini.Pol, "group": c.Group, "proto": c.Proto, "actions": clip(r.hist, 40)}, 2)
	})
}

func clip(h []action, n int) []action {
	if len(h) > n {
		return h[:n]
	}
	return h
}

func TestReplay(t *testing.T) {
	in, err := vio.ReadInput()
	if err != nil {
		t.Skip(err)
	}
	res := vio.NewResult()
	defer func() {
		if err := res.Write(); err != nil {
			t.Fatal(err)
		}
	}()
	var c consts
	if err := in.Const("group", &c.Group); err != nil {
		res.Break("%v", err)
		return
	}
	_ = in.Const("universe", &c.Universe)
	_ = in.Const("T", &c.T)
	_ = in.Const("unitNs", &c.UnitNs)
	_ = in.Const("intervalNs", &c.IntervalNs)
	_ = in.Const("useDefaults", &c.UseDefaults)
	_ = in.Const("conc", &c.Conc)
	_ = in.Const("proto", &c.Proto)
	if c.Proto == "" {
		c.Proto = "tcp"
	}
	if len(c.Group) == 0 || c.T <= 0 || c.UnitNs <= 0 || c.IntervalNs <= 0 {
		res.Break("bad constants %+v", c)
		return
	}
	var dest netip.AddrPort
	if c.Proto == "udp" {
		d, stop := dnsResponder(t)
		defer stop()
		dest = d
	}
	for bi, b := range in.Behaviours {
		id := bi
		if b.ID != 0 {
			id = b.ID
		}
		runBehaviour(t, in, c, id, b, res, dest)
	}
}

// ---------------------------------------------------------------- round-robin under real concurrency

type rrParams struct {
	Traces  int `json:"traces"`  // sub-traces to record
	Callers int `json:"callers"` // concurrent callers
	Calls   int `json:"calls"`   // calls per caller per sub-trace
	Bulk    int `json:"bulk"`    // least number of calls per caller in the counting run
	BulkMs  int `json:"bulkMs"`  // least duration of the counting run
}

type rrEvent struct {
	E    string `json:"e"`
	P    string `json:"p"`
	C    string `json:"c"`
	T    string `json:"t"`
	Next int    `json:"next"`
}

func TestRecordRR(t *testing.T) {
	in, err := vio.ReadInput()
	if err != nil {
		t.Skip(err)
	}
	res := vio.NewResult()
	defer func() {
		if err := res.Write(); err != nil {
			t.Fatal(err)
		}
	}()
	p := rrParams{Traces: 4, Callers: 8, Calls: 6, Bulk: 20000, BulkMs: 200}
	in.Param("rr", &p)
	var out string
	in.Param("out", &out)
	var groups [][]string
	in.Param("groups", &groups)
	var universe []string
	in.Param("universe", &universe)
	if out == "" || len(groups) == 0 {
		res.Break("TestRecordRR needs params out and groups")
		return
	}
	rng := rand.New(rand.NewPCG(uint64(in.Seed), 19))
	// one file per group (the group is a constant of the trace specification)
	for gi, grp := range groups {
		f, err := os.Create(fmt.Sprintf("%s-%d.ndjson", out, gi))
		if err != nil {
			res.Break("%v", err)
			return
		}
		enc := json.NewEncoder(f)
		line := 1
		for ti := range p.Traces {
			proto := "tcp"
			if (ti+gi)%3 == 2 {
				proto = "udp"
			}
			w := &world{c: consts{Group: grp, Universe: universe, Proto: proto, T: 1, UnitNs: 1, IntervalNs: 1}, res: res}
			g, err := buildGroup(w, "round-robin")
			if err != nil {
				res.Break("group %d trace %d: %v", gi, ti, err)
				return
			}
			var (
				mu   sync.Mutex
				evs  []rrEvent
				wg   sync.WaitGroup
				gate = make(chan struct{})
			)
			yields := make([][]bool, p.Callers)
			for ci := range p.Callers {
				yields[ci] = make([]bool, p.Calls*2)
				for j := range yields[ci] {
					yields[ci][j] = rng.IntN(3) == 0
				}
			}
			for ci := range p.Callers {
				wg.Add(1)
				go func() {
					defer wg.Done()
					name := fmt.Sprintf("p%d", ci+1)
					gq := &group{w: w, tcp: g.tcp, udp: g.udp, nquer: ci}
					<-gate
					for j := range p.Calls {
						mu.Lock()
						evs = append(evs, rrEvent{E: "call", P: name})
						mu.Unlock()
						if yields[ci][2*j] {
							runtime.Gosched()
						}
						got, err := gq.who()
						if yields[ci][2*j+1] {
							runtime.Gosched()
						}
						mu.Lock()
						if err != nil {
							res.Break("group %d trace %d: %v", gi, ti, err)
						}
						evs = append(evs, rrEvent{E: "ret", P: name, C: got})
						mu.Unlock()
					}
				}()
			}
			close(gate)
			wg.Wait()
			overlap, open, maxOpen := 0, 0, 0
			for _, e := range evs {
				if e.E == "call" {
					open++
					if open > 1 {
						overlap++
					}
					maxOpen = max(maxOpen, open)
				} else {
					open--
				}
			}
			res.Count("rr_overlapping_calls", overlap)
			if maxOpen > res.Counters["rr_max_open_calls"] {
				res.Counters["rr_max_open_calls"] = maxOpen
			}
			next := line + 1 + len(evs)
			_ = enc.Encode(rrEvent{E: "reset", T: fmt.Sprintf("g%d-t%d", gi, ti), Next: next})
			for _, e := range evs {
				_ = enc.Encode(e)
			}
			line = next
			res.AddSteps(1, len(evs))
			if ti == 0 && gi == 0 {
				res.Sample(map[string]any{"trace": ti, "group": grp, "events": evs[:min(len(evs), 24)]}, 1)
			}
			// at quiescence: Callers*Calls selections were made, so position i was handed out as often as
			// i occurs in 0..K-1 mod n (names may repeat in a group: compare per name)
			checkCounts(res, ti, grp, evs, p.Callers*p.Calls, "trace")
		}
		_ = f.Close()
		res.Count("rr_lines", line-1)
	}
	// counting run: all callers select as fast as they can for BulkMs milliseconds (long enough to overlap even on
	// a busy machine; the duration is not asserted on); at quiescence K selections were made and the members must
	// have been handed out exactly as K consecutive tickets hand them out
	for gi, grp := range groups {
		w := &world{c: consts{Group: grp, Universe: universe, Proto: "tcp", T: 1, UnitNs: 1, IntervalNs: 1}, res: res}
		g, err := buildGroup(w, "round-robin")
		if err != nil {
			res.Break("bulk %d: %v", gi, err)
			return
		}
		counts := make([]map[string]int, p.Callers)
		var wg sync.WaitGroup
		gate := make(chan struct{})
		deadline := time.Now().Add(time.Duration(p.BulkMs) * time.Millisecond)
		for ci := range p.Callers {
			counts[ci] = map[string]int{}
			wg.Add(1)
			go func() {
				defer wg.Done()
				<-gate
				for done := 0; done < p.Bulk || time.Now().Before(deadline); done += 512 {
					for range 512 {
						_, info := g.tcp.NewStreamDialer()
						counts[ci][info.Name]++
					}
				}
			}()
		}
		close(gate)
		wg.Wait()
		total := map[string]int{}
		k := 0
		for _, m := range counts {
			for name, v := range m {
				total[name] += v
				k += v
			}
		}
		var evs []rrEvent
		for name, v := range total {
			evs = append(evs, rrEvent{E: "ret", C: name, Next: v})
		}
		checkCounts(res, gi, grp, evs, k, "bulk")
		res.Count("rr_bulk_selections", k)
	}
}

func checkCounts(res *vio.Result, id int, grp []string, evs []rrEvent, k int, what string) {
	got := map[string]int{}
	for _, e := range evs {
		if e.E == "ret" {
			got[e.C] += max(1, e.Next) // the counting run passes totals in Next
		}
	}
	for name := range got {
		if !slices.Contains(grp, name) {
			res.Violation(vio.Finding{Key: "groups/non-member", Behaviour: id, Text: fmt.Sprintf("round-robin group %v served %q", grp, name)})
			return
		}
	}
	res.Seen(fmt.Sprintf("rrcount/%s/%d", what, len(grp)))
	// k consecutive tickets of a cycle that may start at any member
	var want0 map[string]int
	for off := range grp {
		want := map[string]int{}
		for tkt := range k {
			want[grp[(tkt+off)%len(grp)]]++
		}
		if off == 0 {
			want0 = want
		}
		same := true
		for _, name := range grp {
			same = same && got[name] == want[name]
		}
		if same {
			return
		}
	}
	var diff []string
	for _, name := range grp {
		if got[name] != want0[name] {
			diff = append(diff, fmt.Sprintf("%s: %d instead of %d", name, got[name], want0[name]))
		}
	}
	slices.Sort(diff)
	diff = slices.Compact(diff)
	res.Violation(vio.Finding{Key: "groups.round-robin/skipped-or-repeated", Behaviour: id, Expected: want0, Observed: got,
		Text: fmt.Sprintf("round-robin group %v after %d concurrent selections (%s run): %s", grp, k, what, strings.Join(diff, "; "))})
}
