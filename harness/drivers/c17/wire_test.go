//go:build verif

package c17

import (
	"encoding/binary"
	"fmt"
	"net/netip"
	"strconv"
	"strings"

	"golang.org/x/net/dns/dnsmessage"
)

// rr and msg mirror the abstract message records of specs/Dns/Resolver.tla.
type rr struct {
	T   string `json:"t"`
	Ttl int64  `json:"ttl"`
	Ip  string `json:"ip"`
	N   int    `json:"n"` // TXT: bytes of text
}

type msg struct {
	K    string `json:"k"`
	Src  string `json:"src"`
	Hdr  string `json:"hdr"`
	Id   string `json:"id"`
	Qr   bool   `json:"qr"`
	Ra   bool   `json:"ra"`
	Tc   bool   `json:"tc"`
	Rc   string `json:"rc"`
	Body string `json:"body"`
	Ans  []rr   `json:"ans"`
	Soa  int64  `json:"soa"`
}

// own: the message is a response to one of the lookup's own queries from the configured server
// (what the property allows a result to be built from).
func (m *msg) own() bool {
	return m.Src == "srv" && m.Hdr == "ok" && m.Id != "foreign" && m.Qr
}

// usable: parseMsg-independent reading of "this transport yielded the answer to query id".
// maybe reports the cases the property leaves open (a cut authority section behind a complete
// answer section).
func (m *msg) usable(udp bool) (yes, maybe bool) {
	if !m.own() || !m.Ra || m.Rc == "unk" || m.Body == "badq" || m.Body == "badans" {
		return false, false
	}
	if udp && m.Tc {
		return false, false
	}
	if m.Body == "badauth" {
		return false, true
	}
	return true, false
}

// ---- names and addresses -------------------------------------------------------------------

// nameIndex maps a model name token ("n1", "n2", ...) to a small number.
func nameIndex(tok string) int {
	n, err := strconv.Atoi(strings.TrimLeft(tok, "abcdefghijklmnopqrstuvwxyz"))
	if err != nil {
		return 0
	}
	return n
}

// fqdn is the domain looked up for a model name token.  Tokens starting with "bad" stand for
// names dnsmessage.NewName rejects (longer than 254 bytes).
func fqdn(tok string, seed int64) string {
	if strings.HasPrefix(tok, "bad") {
		return strings.Repeat("x123456789.", 30) + tok + ".test"
	}
	return fmt.Sprintf("%s.s%d.verif.test", tok, seed&0xffff)
}

// addrOf maps (name, address token) to a concrete address.  Token classes: a* = A records of the
// configured server, x* = A records the property forbids to use, b* / y* likewise for AAAA.
func addrOf(nameTok, tok string, seed int64) (netip.Addr, bool) {
	if len(tok) < 2 {
		return netip.Addr{}, false
	}
	n, err := strconv.Atoi(tok[1:])
	if err != nil || n < 0 || n > 15 {
		return netip.Addr{}, false
	}
	ni := byte(nameIndex(nameTok))
	sb := byte(seed % 200)
	switch tok[0] {
	case 'a':
		return netip.AddrFrom4([4]byte{10, sb, ni, byte(0x10 + n)}), true
	case 'x':
		return netip.AddrFrom4([4]byte{10, sb, ni, byte(0x20 + n)}), true
	case 'b':
		return netip.AddrFrom16([16]byte{0x20, 0x01, 0x0d, 0xb8, 0, sb, 0, ni, 0, 0, 0, 0, 0, 0, 0, byte(0x10 + n)}), true
	case 'y':
		return netip.AddrFrom16([16]byte{0x20, 0x01, 0x0d, 0xb8, 0, sb, 0, ni, 0, 0, 0, 0, 0, 0, 0, byte(0x20 + n)}), true
	}
	return netip.Addr{}, false
}

// tokenOf is the inverse of addrOf: the name index the address belongs to and its token, or
// ok=false for an address no scripted message contains.
func tokenOf(a netip.Addr, seed int64) (ni int, tok string, ok bool) {
	sb := byte(seed % 200)
	if a.Is4() {
		b := a.As4()
		if b[0] != 10 || b[1] != sb {
			return 0, "", false
		}
		switch b[3] & 0xf0 {
		case 0x10:
			return int(b[2]), "a" + strconv.Itoa(int(b[3]&0x0f)), true
		case 0x20:
			return int(b[2]), "x" + strconv.Itoa(int(b[3]&0x0f)), true
		}
		return 0, "", false
	}
	b := a.As16()
	if b[0] != 0x20 || b[1] != 0x01 || b[2] != 0x0d || b[3] != 0xb8 || b[5] != sb {
		return 0, "", false
	}
	switch b[15] & 0xf0 {
	case 0x10:
		return int(b[7]), "b" + strconv.Itoa(int(b[15]&0x0f)), true
	case 0x20:
		return int(b[7]), "y" + strconv.Itoa(int(b[15]&0x0f)), true
	}
	return 0, "", false
}

// ---- queries -------------------------------------------------------------------------------

type query struct {
	ID    uint16
	Type  dnsmessage.Type
	Name  string
	RD    bool
	EDNS  int // advertised UDP payload size, 0 if no OPT record
	Which string
}

func parseQuery(b []byte) (query, error) {
	var p dnsmessage.Parser
	h, err := p.Start(b)
	if err != nil {
		return query{}, err
	}
	qs, err := p.AllQuestions()
	if err != nil {
		return query{}, err
	}
	if len(qs) != 1 || h.Response {
		return query{}, fmt.Errorf("not a single-question query: %d questions, response=%v", len(qs), h.Response)
	}
	q := query{ID: h.ID, Type: qs[0].Type, Name: strings.TrimSuffix(qs[0].Name.String(), "."), RD: h.RecursionDesired}
	switch q.Type {
	case dnsmessage.TypeA:
		q.Which = "a"
	case dnsmessage.TypeAAAA:
		q.Which = "aaaa"
	default:
		return q, fmt.Errorf("query type %v", q.Type)
	}
	_ = p.SkipAllAnswers()
	_ = p.SkipAllAuthorities()
	for {
		ah, err := p.AdditionalHeader()
		if err != nil {
			break
		}
		if ah.Type == dnsmessage.TypeOPT {
			q.EDNS = int(ah.Class)
		}
		if p.SkipAdditional() != nil {
			break
		}
	}
	return q, nil
}

// splitTCP splits the initial payload of a DialStream call into its length-prefixed queries.
func splitTCP(b []byte) ([]query, error) {
	var qs []query
	for len(b) > 0 {
		if len(b) < 2 {
			return qs, fmt.Errorf("dangling byte in TCP payload")
		}
		n := int(binary.BigEndian.Uint16(b))
		if len(b) < 2+n {
			return qs, fmt.Errorf("TCP payload shorter than its length field")
		}
		q, err := parseQuery(b[2 : 2+n])
		if err != nil {
			return qs, err
		}
		qs = append(qs, q)
		b = b[2+n:]
	}
	return qs, nil
}

// ---- responses -----------------------------------------------------------------------------

type ids struct {
	a, aaaa uint16
	known   bool
}

func (i ids) foreign() uint16 {
	for c := uint16(9); ; c += 7 {
		if c != i.a && c != i.aaaa {
			return c
		}
	}
}

var failCodes = []dnsmessage.RCode{dnsmessage.RCodeFormatError, dnsmessage.RCodeServerFailure, dnsmessage.RCodeNotImplemented, dnsmessage.RCodeRefused}
var unkCodes = []dnsmessage.RCode{6, 7, 8, 9, 10, 15}

// buildMsg turns an abstract message into DNS wire bytes for the lookup of nameTok.
// salt varies the choices the model does not distinguish (which failure rcode, ...).
func buildMsg(m *msg, nameTok string, id ids, seed int64, salt int) ([]byte, error) {
	var mid uint16
	qtype := dnsmessage.TypeA
	switch m.Id {
	case "a":
		mid = id.a
	case "aaaa":
		mid, qtype = id.aaaa, dnsmessage.TypeAAAA
	default:
		mid = id.foreign()
	}
	if m.Hdr == "short" {
		return []byte{byte(mid >> 8), byte(mid), 0x81, 0x80, 0, 1, 0, 0, 0, 0, 0}[:5+salt%7], nil
	}
	name, err := dnsmessage.NewName(fqdn(nameTok, seed) + ".")
	if err != nil {
		return nil, err
	}
	h := dnsmessage.Header{ID: mid, Response: m.Qr, RecursionDesired: true, RecursionAvailable: m.Ra, Truncated: m.Tc}
	switch m.Rc {
	case "ok":
	case "nx":
		h.RCode = dnsmessage.RCodeNameError
	case "fail":
		h.RCode = failCodes[salt%len(failCodes)]
	case "unk":
		h.RCode = unkCodes[salt%len(unkCodes)]
	default:
		return nil, fmt.Errorf("rcode class %q", m.Rc)
	}
	full := dnsmessage.Message{Header: h, Questions: []dnsmessage.Question{{Name: name, Type: qtype, Class: dnsmessage.ClassINET}}}
	alias := dnsmessage.MustNewName("alias." + fqdn(nameTok, seed) + ".")
	owner := name
	for _, r := range m.Ans {
		rh := dnsmessage.ResourceHeader{Name: owner, Class: dnsmessage.ClassINET, TTL: uint32(r.Ttl)}
		switch r.T {
		case "CNAME":
			full.Answers = append(full.Answers, dnsmessage.Resource{Header: rh, Body: &dnsmessage.CNAMEResource{CNAME: alias}})
			owner = alias
		case "A":
			a, ok := addrOf(nameTok, r.Ip, seed)
			if !ok || !a.Is4() {
				return nil, fmt.Errorf("address token %q is not an A token", r.Ip)
			}
			full.Answers = append(full.Answers, dnsmessage.Resource{Header: rh, Body: &dnsmessage.AResource{A: a.As4()}})
		case "AAAA":
			a, ok := addrOf(nameTok, r.Ip, seed)
			if !ok || !a.Is6() {
				return nil, fmt.Errorf("address token %q is not an AAAA token", r.Ip)
			}
			full.Answers = append(full.Answers, dnsmessage.Resource{Header: rh, Body: &dnsmessage.AAAAResource{AAAA: a.As16()}})
		case "TXT":
			// records parseMsg skips; they only make the message long
			left := r.N
			for left > 0 {
				var txt []string
				for range 4 {
					if left <= 0 {
						break
					}
					k := min(left, 250)
					txt = append(txt, strings.Repeat("t", k))
					left -= k
				}
				full.Answers = append(full.Answers, dnsmessage.Resource{Header: rh, Body: &dnsmessage.TXTResource{TXT: txt}})
			}
		default:
			return nil, fmt.Errorf("rr type %q", r.T)
		}
	}
	if m.Soa >= 0 {
		zone := dnsmessage.MustNewName("verif.test.")
		full.Authorities = append(full.Authorities, dnsmessage.Resource{
			Header: dnsmessage.ResourceHeader{Name: zone, Class: dnsmessage.ClassINET, TTL: uint32(m.Soa)},
			Body: &dnsmessage.SOAResource{NS: dnsmessage.MustNewName("ns.verif.test."), MBox: dnsmessage.MustNewName("root.verif.test."),
				Serial: 1, Refresh: 3600, Retry: 600, Expire: 86400, MinTTL: uint32(m.Soa)},
		})
	}
	switch m.Body {
	case "ok":
		return full.Pack()
	case "badq":
		// the header promises one question, the question section is cut inside the name
		b, err := full.Pack()
		if err != nil {
			return nil, err
		}
		return b[:12+3], nil
	case "badans":
		// one more answer is announced than is present: it is cut inside its owner name, so the
		// listed answers parse and the next AnswerHeader fails
		reduced := full
		reduced.Authorities = nil
		rb, err := reduced.Pack()
		if err != nil {
			return nil, err
		}
		ext := reduced
		ext.Answers = append(append([]dnsmessage.Resource(nil), reduced.Answers...), dnsmessage.Resource{
			Header: dnsmessage.ResourceHeader{Name: owner, Class: dnsmessage.ClassINET, TTL: 0},
			Body:   &dnsmessage.AResource{A: [4]byte{10, 255, 255, 255}}})
		eb, err := ext.Pack()
		if err != nil {
			return nil, err
		}
		return eb[:len(rb)+1], nil
	case "badauth":
		// the authority section is cut inside its first record
		reduced := full
		reduced.Authorities = nil
		rb, err := reduced.Pack()
		if err != nil {
			return nil, err
		}
		if full.Authorities == nil {
			full.Authorities = []dnsmessage.Resource{{
				Header: dnsmessage.ResourceHeader{Name: dnsmessage.MustNewName("verif.test."), Class: dnsmessage.ClassINET, TTL: 7},
				Body:   &dnsmessage.NSResource{NS: dnsmessage.MustNewName("ns.verif.test.")}}}
		}
		fb, err := full.Pack()
		if err != nil {
			return nil, err
		}
		return fb[:len(rb)+1], nil
	}
	return nil, fmt.Errorf("body class %q", m.Body)
}

func frame(b []byte) []byte {
	out := make([]byte, 2+len(b))
	binary.BigEndian.PutUint16(out, uint16(len(b)))
	copy(out[2:], b)
	return out
}
