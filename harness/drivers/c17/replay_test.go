//go:build verif

// Package c17 binds specs/Dns/Resolver.tla (and Lru.tla) to the real dns.Resolver and
// cache.BoundedCache of /repo.
//
//   - TestReplayTcp: behaviours of the model for TCP-only resolvers are executed inside
//     testing/synctest against a fake netio.StreamClient (virtual clock: TTL histories, the 20 s
//     lookup timeout and the 30 s failure caching time are exact and cost nothing).
//   - TestReplayUdp: behaviours for resolvers with a UDP client are executed in real time against
//     an upstream on loopback sockets (the resolver opens its own socket); the TCP fallback uses the
//     same fake stream client.  Nothing is asserted on elapsed time.
//   - TestConsts: measures the constants of the compiled resolver the model takes as CONSTANTS.
//   - TestLru: replays behaviours of Lru.tla on a real cache.BoundedCache.
//   - TestGarbage: mutated / random response bytes through the real parser.
package c17

import (
	"encoding/json"
	"fmt"
	"net/netip"
	"slices"
	"sort"
	"strings"
	"testing"
	"testing/synctest"
	"time"

	"verif/harness/internal/vio"
)

type params struct {
	Cap     int   `json:"cap"`
	HasUdp  bool  `json:"hasUdp"`
	HasTcp  bool  `json:"hasTcp"`
	FailTtl int64 `json:"failTtl"`
	Timeout int64 `json:"timeout"`
}

func readParams(in *vio.Input) params {
	p := params{Cap: 1, HasTcp: true, FailTtl: 30, Timeout: 20}
	in.Param("cap", &p.Cap)
	in.Param("hasUdp", &p.HasUdp)
	in.Param("hasTcp", &p.HasTcp)
	in.Param("failTtl", &p.FailTtl)
	in.Param("timeout", &p.Timeout)
	return p
}

func sameSet(a, b []string) bool {
	x, y := slices.Clone(a), slices.Clone(b)
	sort.Strings(x)
	sort.Strings(y)
	return slices.Equal(x, y)
}

func (w *world) finding(key, text string, si int, exp, got any) vio.Finding {
	return vio.Finding{Key: key, Text: text, Behaviour: w.bi, Step: si, Expected: exp, Observed: got,
		Replay: map[string]any{"steps": w.hist, "virtual": w.virtual, "hasUdp": w.hasUdp, "hasTcp": w.hasTcp, "cap": w.capacity,
			"failTtl": w.failTtl, "timeout": w.timeout, "seed": w.seed}}
}

func (w *world) drift(si int, text string, exp, got any) {
	w.res.DriftNote(w.finding("dns/model-drift", text, si, exp, got))
	w.aborted = true
}

// tokens decodes the addresses a lookup returned; bad lists addresses that belong to another
// name or to no scripted message at all.
func (w *world) tokens(nameTok string, as []netip.Addr) (toks []string, bad []string) {
	toks = []string{}
	for _, a := range as {
		ni, tok, ok := tokenOf(a, w.seed)
		if !ok || ni != nameIndex(nameTok) {
			bad = append(bad, a.String())
			toks = append(toks, a.String())
			continue
		}
		toks = append(toks, tok)
	}
	return
}

// ttlKey names the pattern behind a result that was reused after the property's bound.
func (w *world) ttlKey(st *storedInfo) string {
	type comp struct {
		i        int
		bound    int64 // relative lifetime the property allows for this message
		fail     bool
		negative bool
		setsExp  bool
	}
	var cs []comp
	for i, d := range st.msgs {
		if yes, maybe := d.m.usable(d.udp); !yes && !maybe {
			continue
		}
		c := comp{i: i, bound: 1 << 40}
		for _, r := range d.m.Ans {
			c.bound = min(c.bound, r.Ttl)
			c.setsExp = true
		}
		if d.m.Rc == "fail" {
			c.fail, c.setsExp = true, true
			c.bound = min(c.bound, w.failTtl)
		} else if len(d.m.Ans) == 0 && d.m.Soa >= 0 {
			c.negative = true
			c.bound = min(c.bound, d.m.Soa)
		}
		cs = append(cs, c)
	}
	if len(cs) == 0 {
		return "dns.ttl/served-after-expiry"
	}
	lo := cs[0]
	for _, c := range cs {
		if c.bound < lo.bound {
			lo = c
		}
	}
	for _, c := range cs {
		if c.i > lo.i && c.fail && w.failTtl > lo.bound {
			return "dns.ttl/failure-rcode-after-shorter-ttl"
		}
	}
	if lo.negative {
		for _, c := range cs {
			if c.i < lo.i && c.setsExp {
				return "dns.ttl/negative-soa-after-longer-ttl"
			}
		}
	}
	return "dns.ttl/served-after-expiry"
}

// judgeReturn evaluates the property on a Lookup call that has returned.
func (w *world) judgeReturn(r *run, si int, model outT, o *obsT) {
	res := w.res
	if r.panicked != "" {
		res.Violation(w.finding("dns.resolver/panic", "the resolver panicked: "+firstLine(r.panicked), si, model, r.panicked))
		w.aborted, w.violated = true, true
		return
	}
	traffic := r.traffic()
	nameTok := r.nameTok
	// what the call returned, as token lists in API order
	var gotA, gotB, bad []string
	var isErr bool
	switch r.api {
	case "Lookup":
		isErr = r.err != nil
		var b1, b2 []string
		gotA, b1 = w.tokens(nameTok, r.a)
		gotB, b2 = w.tokens(nameTok, r.aaaa)
		bad = append(b1, b2...)
	case "IPs":
		isErr = r.err != nil
		for _, a := range r.ips {
			t, b := w.tokens(nameTok, []netip.Addr{a})
			bad = append(bad, b...)
			if a.Is4() {
				gotA = append(gotA, t...)
			} else {
				gotB = append(gotB, t...)
			}
		}
		// LookupIPs returns the AAAA addresses first
		seen4 := false
		for _, a := range r.ips {
			if a.Is4() {
				seen4 = true
			} else if seen4 {
				w.res.DriftNote(w.finding("dns/model-drift", "LookupIPs does not list AAAA addresses before A addresses", si, nil, fmt.Sprint(r.ips)))
			}
		}
	case "IP":
		// LookupIP: first AAAA, else first A, else ErrDomainNoAssociatedIPs
		if r.err != nil && errClass(r.err) == "ErrDomainNoAssociatedIPs" {
			isErr = false
		} else if r.err != nil {
			isErr = true
		} else {
			t, b := w.tokens(nameTok, []netip.Addr{r.ip})
			bad = append(bad, b...)
			if r.ip.Is4() {
				gotA = t
			} else {
				gotB = t
			}
		}
	}
	if gotA == nil {
		gotA = []string{}
	}
	if gotB == nil {
		gotB = []string{}
	}
	got := map[string]any{"api": r.api, "err": errClass(r.err), "a": gotA, "aaaa": gotB, "upstream_asked": traffic}
	w.res.Seen(fmt.Sprintf("ret/%s/%s/err=%v/traffic=%v/%d+%d", r.api, model.R, isErr, traffic, len(gotA), len(gotB)))

	st := w.stored[nameTok]
	// ---- answered without asking upstream: only from a cached result, only within its bound ----
	if !isErr && !traffic {
		if st == nil {
			res.Violation(w.finding("dns.cache/answer-without-upstream",
				fmt.Sprintf("lookup of %s returned a result without asking upstream although no successful lookup of it is cached", nameTok), si, model, got))
			w.aborted, w.violated = true, true
			return
		}
		if w.now > st.bnd {
			key := w.ttlKey(st)
			res.Violation(w.finding(key,
				fmt.Sprintf("lookup of %s at t=%ds was answered from the cache without asking upstream; the smallest TTL / negative / failure caching time of the cached responses ended at t=%ds (responses of the storing lookup: %s)",
					nameTok, w.now, st.bnd, kinds(st.msgs)), si, model, got))
			w.aborted, w.violated = true, true
			return
		}
	}
	// ---- provenance of the addresses the call may return ----
	prov := map[string]bool{}
	var usableIDs = map[string]bool{}
	for _, d := range r.msgs {
		if d.m.own() {
			for _, x := range d.m.Ans {
				if x.T != "CNAME" {
					prov[x.Ip] = true
				}
			}
		}
		if yes, maybe := d.m.usable(d.udp); yes || maybe {
			usableIDs[d.m.Id] = true
		}
	}
	newProv := prov
	if !traffic || model.R == "stale" || model.R == "hit" {
		// a cached result: what is cached now, or (serve-stale) what was cached when the call began
		prov = map[string]bool{}
		for k := range newProv {
			prov[k] = true
		}
		for _, s := range []*storedInfo{st, r.stAtStart} {
			if s != nil {
				for k := range s.prov {
					prov[k] = true
				}
			}
		}
	}
	if len(bad) > 0 {
		res.Violation(w.finding("dns.answers/not-from-own-responses",
			fmt.Sprintf("lookup of %s returned %v: not an address any response for this name carried", nameTok, bad), si, model, got))
		w.aborted, w.violated = true, true
		return
	}
	if !isErr {
		for _, t := range append(slices.Clone(gotA), gotB...) {
			if !prov[t] {
				res.Violation(w.finding("dns.answers/not-from-own-responses",
					fmt.Sprintf("lookup of %s returned address %s, which no response to its own queries from the configured server contained (wrong source / foreign id / not a response, or another lookup's data)", nameTok, t), si, model, got))
				w.aborted, w.violated = true, true
				return
			}
		}
	}

	// ---- success / failure ----
	switch {
	case isErr && model.R == "ok":
		res.Violation(w.finding("dns.lookup/failure-despite-both-answers",
			fmt.Sprintf("lookup of %s failed (%s) although both queries were answered (%s)", nameTok, errClass(r.err), kinds(deliveredOf(r))), si, model, got))
		w.aborted, w.violated = true, true
		return
	case !isErr && traffic && model.R == "error":
		if !(usableIDs["a"] && usableIDs["aaaa"]) {
			res.Violation(w.finding("dns.lookup/success-without-both-answers",
				fmt.Sprintf("lookup of %s succeeded although neither transport yielded both answers (%s)", nameTok, kinds(deliveredOf(r))), si, model, got))
			w.aborted, w.violated = true, true
			return
		}
	case !isErr && traffic && model.R == "stale":
		// fine if it is the stale entry (checked against the model below); a success would be drift
	}

	// ---- precisely the answers ----
	if !isErr && (model.R == "ok" || model.R == "hit" || model.R == "stale") {
		expA, expB := model.A, model.AAAA
		switch r.api {
		case "IP":
			if len(expB) > 0 {
				expA, expB = []string{}, expB[:1]
			} else if len(expA) > 0 {
				expA = expA[:1]
			}
		}
		missing := []string{}
		for _, t := range expA {
			if !slices.Contains(gotA, t) {
				missing = append(missing, t)
			}
		}
		for _, t := range expB {
			if !slices.Contains(gotB, t) {
				missing = append(missing, t)
			}
		}
		if len(missing) > 0 && (r.api != "IP") {
			res.Violation(w.finding("dns.answers/address-missing",
				fmt.Sprintf("lookup of %s does not return %v, which the answering responses contain", nameTok, missing), si, model, got))
			w.aborted, w.violated = true, true
			return
		}
		same := slices.Equal(gotA, expA) && slices.Equal(gotB, expB)
		if r.api == "IP" {
			same = sameSet(gotA, expA) && sameSet(gotB, expB)
			if !same && len(expA)+len(expB) > 0 && len(gotA)+len(gotB) == 0 {
				res.Violation(w.finding("dns.answers/address-missing",
					fmt.Sprintf("LookupIP of %s reports no address although the answers contain %v %v", nameTok, model.AAAA, model.A), si, model, got))
				w.aborted, w.violated = true, true
				return
			}
		}
		if !same {
			w.drift(si, fmt.Sprintf("lookup of %s: model result %v %v, real %v %v", nameTok, expA, expB, gotA, gotB), model, got)
			return
		}
	}
	if isErr != (model.R == "error") {
		w.drift(si, fmt.Sprintf("lookup of %s: model %s, real err=%s", nameTok, model.R, errClass(r.err)), model, got)
		return
	}
	if model.R == "hit" && traffic || (model.R == "ok" || model.R == "stale" || model.R == "error") && !traffic && !strings.HasPrefix(nameTok, "bad") {
		w.drift(si, fmt.Sprintf("lookup of %s: model %s, upstream asked = %v", nameTok, model.R, traffic), model, got)
		return
	}
	// remember what the cache should now hold
	if model.R == "ok" && !isErr {
		ns := &storedInfo{prov: newProv, msgs: deliveredOf(r), bnd: 1 << 40}
		if o != nil {
			for _, e := range o.Cache {
				if e.N == nameTok {
					ns.bnd = e.Bnd
				}
			}
		}
		w.stored[nameTok] = ns
	}
}

// tcpWrite sends b on the server end of a scripted connection (and half-closes it afterwards if
// asked).  The pipe is a rendezvous: Write returns when the resolver has read the bytes.  In
// virtual time the caller's synctest.Wait covers that; in real time the write is awaited here so
// that a later close cannot overtake it.
func (w *world) tcpWrite(c *dialRec, b []byte, thenClose bool) {
	done := make(chan struct{})
	go func() {
		defer close(done)
		_, _ = c.srv.Write(b)
		if thenClose {
			_ = c.srv.CloseWrite()
		}
	}()
	if !w.virtual {
		select {
		case <-done:
		case <-time.After(15 * time.Second):
		}
	}
}

// drain: the real resolver has left the model's behaviour (drift).  Lookups still in flight are
// completed with well-formed answers so that they return, and what they return is judged by the
// part of the property that needs no model: only addresses from responses to the lookup's own
// queries (or from the cached result of an earlier lookup of the name) may come back.
func (w *world) drain(si int) {
	a7 := okMsg("A7", "a", []rr{{T: "A", Ttl: 60, Ip: "a7"}}, "ok", -1)
	b7 := okMsg("B7", "aaaa", []rr{{T: "AAAA", Ttl: 60, Ip: "b7"}}, "ok", -1)
	for round := 0; round < 6; round++ {
		w.mu.Lock()
		var rs []*run
		for _, r := range w.runs {
			rs = append(rs, r)
		}
		w.mu.Unlock()
		if len(rs) == 0 {
			return
		}
		for _, r := range rs {
			var st string
			if w.virtual {
				st = w.settle(r, "ret", 0)
			} else {
				st = w.settle(r, "ret", 500*time.Millisecond)
			}
			switch st {
			case "ret":
				w.judgeFree(r, si)
				w.mu.Lock()
				delete(w.runs, r.p)
				w.mu.Unlock()
			case "dial":
				w.decide(r, true)
			case "pending":
				w.learnIDs(r)
				w.mu.Lock()
				c := r.conn
				w.mu.Unlock()
				for i, m := range []msg{a7, b7} {
					pkt, err := buildMsg(&m, r.nameTok, r.id, w.seed, i)
					if err != nil {
						return
					}
					if c != nil && c.srv != nil {
						r.msgs = append(r.msgs, delivered{m: m, at: w.now})
						w.tcpWrite(c, frame(pkt), false)
						if w.virtual {
							synctest.Wait()
						}
					} else if w.up != nil && r.udpAddr.IsValid() {
						r.msgs = append(r.msgs, delivered{m: m, udp: true, at: w.now})
						_ = w.up.send("srv", r.udpAddr, pkt)
					}
				}
			}
		}
	}
}

// judgeFree: model-free part of the oracle for a lookup that returned after a drift.
func (w *world) judgeFree(r *run, si int) {
	if r.panicked != "" {
		w.res.Violation(w.finding("dns.resolver/panic", "the resolver panicked: "+firstLine(r.panicked), si, nil, r.panicked))
		w.violated = true
		return
	}
	if r.err != nil {
		return
	}
	prov := map[string]bool{}
	for _, d := range r.msgs {
		if d.m.own() {
			for _, x := range d.m.Ans {
				prov[x.Ip] = true
			}
		}
	}
	for _, s := range []*storedInfo{w.stored[r.nameTok], r.stAtStart} {
		if s != nil {
			for k := range s.prov {
				prov[k] = true
			}
		}
	}
	all := append(append(slices.Clone(r.a), r.aaaa...), r.ips...)
	if r.api == "IP" {
		all = append(all, r.ip)
	}
	toks, bad := w.tokens(r.nameTok, all)
	for _, t := range toks {
		if !prov[t] || len(bad) > 0 {
			w.res.Violation(w.finding("dns.answers/not-from-own-responses",
				fmt.Sprintf("lookup of %s returned address %s, which no response to its own queries from the configured server contained (responses: %s)", r.nameTok, t, kinds(deliveredOf(r))),
				si, nil, toks))
			w.violated = true
			return
		}
	}
}

func deliveredOf(r *run) []delivered { return slices.Clone(r.msgs) }

func kinds(ds []delivered) string {
	var s []string
	for _, d := range ds {
		tr := "tcp"
		if d.udp {
			tr = "udp"
		}
		s = append(s, fmt.Sprintf("%s@%d/%s", d.m.K, d.at, tr))
	}
	return strings.Join(s, " ")
}

func firstLine(s string) string {
	if i := strings.IndexByte(s, '\n'); i >= 0 {
		return s[:i]
	}
	return s
}

// compareObs compares the real cache with the model's after a step.
func (w *world) compareObs(si int, o *obsT, failedReturn bool, before []obsEntry) {
	real, ok := w.project()
	if !ok || w.projDrift {
		return
	}
	// NoPoisoning: a lookup that did not succeed leaves the cached entries as they were
	if failedReturn && before != nil {
		key := func(es []obsEntry) []string {
			var s []string
			for _, e := range es {
				s = append(s, fmt.Sprintf("%s|%v|%v|%d", e.N, e.A, e.AAAA, e.Exp))
			}
			sort.Strings(s)
			return s
		}
		if !slices.Equal(key(before), key(real)) {
			w.res.Violation(w.finding("dns.cache/changed-by-failed-lookup",
				"a lookup that did not yield both answers changed the cached entries", si, before, real))
			w.aborted, w.violated = true, true
			return
		}
	}
	// A different cache content is noted, but the behaviour goes on: whether the difference matters
	// to the property shows at the later lookups, which are judged against the property's own bound.
	differs := ""
	if len(real) != len(o.Cache) {
		differs = "cache length differs"
	} else {
		for i := range real {
			m := o.Cache[i]
			if real[i].N != m.N || !slices.Equal(real[i].A, m.A) || !slices.Equal(real[i].AAAA, m.AAAA) || (w.virtual && real[i].Exp != m.Exp) {
				differs = fmt.Sprintf("cache entry %d differs (list order, addresses or expiry)", i)
				break
			}
		}
	}
	if differs != "" && !w.projDrift {
		w.projDrift = true
		w.res.DriftNote(w.finding("dns/model-drift", differs, si, o.Cache, real))
	}
}

// runBehaviour executes one behaviour of the model on a fresh resolver.
func runBehaviour(res *vio.Result, virtual bool, seed int64, bi int, b vio.Behaviour, pr params) {
	w, err := newWorld(res, virtual, seed, bi, pr.Cap, pr.HasUdp, pr.HasTcp, pr.FailTtl, pr.Timeout)
	if err != nil {
		res.Break("behaviour %d: %v", bi, err)
		return
	}
	defer w.closeAll()
	steps := 0
	for si, st := range b.Steps {
		var a action
		if err := json.Unmarshal(st.A, &a); err != nil {
			res.Break("behaviour %d step %d: %v", bi, si, err)
			return
		}
		var o *obsT
		if len(st.O) > 0 && string(st.O) != "null" {
			o = &obsT{}
			if err := json.Unmarshal(st.O, o); err != nil {
				res.Break("behaviour %d step %d: obs: %v", bi, si, err)
				return
			}
		}
		var argS string
		var m msg
		w.hist = append(w.hist, st)
		w.acts = append(w.acts, st.A)
		switch a.N {
		case "Lookup", "TcpDial", "TcpCut":
			_ = json.Unmarshal(a.Arg, &argS)
		case "UdpRecv", "TcpRecv":
			if err := json.Unmarshal(a.Arg, &m); err != nil {
				res.Break("behaviour %d step %d: message: %v", bi, si, err)
				return
			}
		}
		steps++
		nextIsTimeout := si+1 < len(b.Steps) && (strings.Contains(string(b.Steps[si+1].A), `"UdpTimeout"`) || strings.Contains(string(b.Steps[si+1].A), `"TcpTimeout"`))

		if a.N == "Advance" {
			var d int64
			if err := json.Unmarshal(a.Arg, &d); err != nil {
				res.Break("behaviour %d step %d: %v", bi, si, err)
				return
			}
			w.advance(d)
			if o != nil && !nextIsTimeout {
				w.compareObs(si, o, false, nil)
			}
			if o != nil {
				w.lastObs = o
			}
			if w.aborted {
				break
			}
			continue
		}

		var r *run
		before, _ := w.project()
		expect := a.Out.R
		switch expect {
		case "hit", "ok", "stale", "error":
			expect = "ret"
		case "udp":
			expect = "pending"
		}
		wait := 15 * time.Second
		switch a.N {
		case "Lookup":
			r = w.startLookup(a.P, argS)
			if a.Out.R == "udp" {
				if w.virtual {
					res.Break("behaviour %d step %d: UDP step in a virtual-time replay", bi, si)
					return
				}
				if !w.waitQueries(r, 30*time.Second) {
					w.mu.Lock()
					fin, nq := r.fin, len(r.udpQs)
					w.mu.Unlock()
					if fin {
						// the lookup returned instead of asking over UDP
						break
					}
					res.Break("behaviour %d step %d: the upstream did not see both UDP queries within 30 s (%d seen)", bi, si, nq)
					return
				}
			}
		default:
			w.mu.Lock()
			r = w.runs[a.P]
			w.mu.Unlock()
			if r == nil {
				res.Break("behaviour %d step %d: %s for a caller that never started", bi, si, a.N)
				return
			}
			switch a.N {
			case "UdpRecv":
				w.learnIDs(r)
				pkt, err := buildMsg(&m, r.nameTok, r.id, w.seed, r.salt+si)
				if err != nil {
					res.Break("behaviour %d step %d: %v", bi, si, err)
					return
				}
				r.msgs = append(r.msgs, delivered{m: m, udp: true, at: w.now})
				if err := w.up.send(m.Src, r.udpAddr, pkt); err != nil {
					res.Break("behaviour %d step %d: sending the datagram: %v", bi, si, err)
					return
				}
			case "UdpTimeout":
				wait = time.Duration(w.timeout)*time.Second/2 + 10*time.Second
			case "TcpDial":
				if !w.decide(r, argS == "ok") {
					w.drift(si, "model: DialStream in progress; real: no DialStream call is waiting", a.Out, w.state(r))
				}
			case "TcpRecv", "TcpEof", "TcpCut":
				w.mu.Lock()
				c := r.conn
				w.mu.Unlock()
				if c == nil || c.srv == nil {
					w.drift(si, "model: TCP connection open; real: none", a.Out, w.state(r))
					break
				}
				switch a.N {
				case "TcpRecv":
					w.learnIDs(r)
					pkt, err := buildMsg(&m, r.nameTok, r.id, w.seed, r.salt+si)
					if err != nil {
						res.Break("behaviour %d step %d: %v", bi, si, err)
						return
					}
					r.msgs = append(r.msgs, delivered{m: m, at: w.now})
					w.tcpWrite(c, frame(pkt), false)
				case "TcpEof":
					_ = c.srv.CloseWrite()
				case "TcpCut":
					switch argS {
					case "len1":
						w.tcpWrite(c, []byte{0}, true)
					case "msg":
						w.tcpWrite(c, []byte{0, 40, 0, 4, 0x81, 0x80, 0, 1, 0, 1}, true)
					case "zero":
						w.tcpWrite(c, []byte{0, 0}, false)
					case "big":
						noise := make([]byte, 2+2000)
						noise[0], noise[1] = 2000>>8, 2000&0xff
						for i := 2; i < len(noise); i++ {
							noise[i] = byte(i*131 + si)
						}
						noise[2], noise[3] = 0xAB, 0xCD // an id that is neither query's
						w.tcpWrite(c, noise, false)
					}
				}
			case "TcpTimeout":
				wait = 10 * time.Second
			case "Cancel":
				r.cancel()
			default:
				res.Break("behaviour %d step %d: unknown action %q", bi, si, a.N)
				return
			}
		}
		if w.aborted {
			break
		}
		got := w.settle(r, expect, wait)
		w.res.Seen(fmt.Sprintf("%s/%s/%s", a.N, a.Out.R, got))

		// ---- judge ----
		switch got {
		case "ret":
			w.mu.Lock()
			ndials := len(r.dials)
			w.mu.Unlock()
			if expect == "dial" && (a.N == "UdpRecv" || a.N == "UdpTimeout") && w.hasTcp && ndials == 0 {
				// "retrying over TCP when UDP is truncated, unanswered or unusable"
				res.Violation(w.finding("dns.fallback/no-tcp-retry",
					fmt.Sprintf("the UDP exchange of the lookup of %s ended without both answers (%s) and the lookup returned (err=%s) without trying TCP",
						r.nameTok, kinds(deliveredOf(r)), errClass(r.err)), si, a.Out, got))
				w.aborted, w.violated = true, true
			} else {
				w.judgeReturn(r, si, a.Out, o)
			}
			w.mu.Lock()
			if w.runs[a.P] == r {
				delete(w.runs, a.P)
			}
			if w.udpStarting == r {
				w.udpStarting = nil
			}
			w.mu.Unlock()
			if !w.aborted && expect != "ret" {
				w.drift(si, fmt.Sprintf("%s: model expects %q, the lookup returned", a.N, a.Out.R), a.Out, got)
			}
		case "dial":
			w.mu.Lock()
			d := r.waiting
			w.mu.Unlock()
			if expect == "ret" && a.Out.R == "error" || expect == "ret" && a.Out.R == "stale" {
				// the model gives up, the code dials again: more retries than the model, allowed by the property
				w.drift(si, fmt.Sprintf("%s: model returns %q, the resolver dials again", a.N, a.Out.R), a.Out, got)
			} else if expect != "dial" {
				w.drift(si, fmt.Sprintf("%s: model expects %q, the resolver dials", a.N, a.Out.R), a.Out, got)
			} else if d != nil {
				if d.perr != nil {
					res.Break("behaviour %d step %d: cannot parse the queries in the DialStream payload: %v", bi, si, d.perr)
					return
				}
				missing := []string{}
				for _, q := range a.Out.Q {
					if !slices.Contains(d.which(), q) {
						missing = append(missing, q)
					}
				}
				if len(missing) > 0 && (a.N == "UdpRecv" || a.N == "UdpTimeout") {
					// "retrying over TCP when UDP is truncated, unanswered or unusable"
					res.Violation(w.finding("dns.fallback/query-not-retried-over-tcp",
						fmt.Sprintf("UDP did not yield a complete answer to the %v query of %s (%s) but the TCP connection carries only %v",
							missing, r.nameTok, kinds(deliveredOf(r)), d.which()), si, a.Out, d.which()))
					w.aborted, w.violated = true, true
				} else if !sameSet(d.which(), a.Out.Q) {
					w.drift(si, fmt.Sprintf("%s: DialStream carries queries %v, model %v", a.N, d.which(), a.Out.Q), a.Out, d.which())
				}
				for _, q := range d.qs {
					if q.Name != fqdn(r.nameTok, w.seed) || !q.RD {
						w.drift(si, fmt.Sprintf("query %+v is not a recursive query for %s", q, fqdn(r.nameTok, w.seed)), nil, q)
					}
				}
			}
		case "pending":
			if expect == "dial" {
				// "retrying over TCP when UDP is truncated, unanswered or unusable"
				w.drift(si, fmt.Sprintf("%s: model expects a DialStream call, nothing happened", a.N), a.Out, got)
			} else if expect == "ret" {
				// (real time: the clock may have run ahead of the model's, a miss is always allowed)
				w.drift(si, fmt.Sprintf("%s: model expects the lookup to return (%s), it is still waiting after %v (upstream asked: %v)", a.N, a.Out.R, wait, r.traffic()), a.Out, got)
			}
		}
		if w.aborted {
			break
		}
		if o != nil {
			failed := got == "ret" && (a.Out.R == "error" || a.Out.R == "stale")
			w.compareObs(si, o, failed, before)
			w.lastObs = o
		}
		if w.aborted {
			break
		}
	}
	if w.aborted && !w.violated {
		w.drain(len(w.hist) - 1)
	}
	res.AddSteps(1, steps)
	res.Sample(map[string]any{"behaviour": bi, "virtual": virtual, "actions": w.acts}, 2)
}

func replayAll(t *testing.T, virtual bool) {
	in, err := vio.ReadInput()
	if err != nil {
		t.Skip(err)
	}
	res := vio.NewResult()
	defer func() {
		if err := res.Write(); err != nil {
			t.Fatal(err)
		}
	}()
	pr := readParams(in)
	for bi, b := range in.Behaviours {
		if virtual {
			synctest.Test(t, func(t *testing.T) {
				runBehaviour(res, true, in.Seed, bi, b, pr)
			})
		} else {
			runBehaviour(res, false, in.Seed, bi, b, pr)
		}
	}
}

func TestReplayTcp(t *testing.T) { replayAll(t, true) }
func TestReplayUdp(t *testing.T) { replayAll(t, false) }
