//go:build verif

package c17

import (
	"encoding/json"
	"fmt"
	"math/rand/v2"
	"net/netip"
	"slices"
	"testing"
	"testing/synctest"
	"time"

	"github.com/database64128/shadowsocks-go/cache"
	"github.com/database64128/shadowsocks-go/dns"
	"github.com/database64128/shadowsocks-go/netio"
	"go.uber.org/zap"

	"verif/harness/internal/vio"
)

// ---- TestConsts: the constants of the compiled resolver, measured in virtual time ------------

func okMsg(k, id string, ans []rr, rc string, soa int64) msg {
	return msg{K: k, Src: "srv", Hdr: "ok", Id: id, Qr: true, Ra: true, Rc: rc, Body: "ok", Ans: ans, Soa: soa}
}

// exchange runs one lookup of nameTok on w against a TCP upstream that accepts the connection and
// sends ms.  It returns the state the lookup is left in and whether upstream was asked.
func (w *world) exchange(nameTok string, ms []msg) (r *run, state string) {
	r = w.startLookup("p1", nameTok)
	synctest.Wait()
	if w.state(r) != "dial" {
		return r, w.state(r)
	}
	w.decide(r, true)
	synctest.Wait()
	w.learnIDs(r)
	for i := range ms {
		if r.conn == nil || w.state(r) != "pending" {
			break
		}
		b, err := buildMsg(&ms[i], nameTok, r.id, w.seed, i)
		if err != nil {
			panic(err)
		}
		c := r.conn
		go func() { _, _ = c.srv.Write(frame(b)) }()
		synctest.Wait()
	}
	return r, w.state(r)
}

// measureLifetime stores a result built from ms at t=0 and returns the last whole second at which a
// lookup is still answered from the cache (-1: never, limit: still cached at the limit).
func measureLifetime(t *testing.T, res *vio.Result, seed int64, ms []msg, limit int64) (life int64) {
	life = -2
	synctest.Test(t, func(t *testing.T) {
		w, err := newWorld(res, true, seed, 0, 4, false, true, 0, 0)
		if err != nil {
			res.Break("%v", err)
			return
		}
		defer w.closeAll()
		_, st := w.exchange("n1", ms)
		if st != "ret" {
			res.Break("probe lookup did not return (state %s)", st)
			return
		}
		life = -1
		for k := int64(0); k <= limit; k++ {
			r, st := w.exchange("n1", nil)
			if st != "ret" || r.traffic() {
				r.cancel()
				synctest.Wait()
				return
			}
			life = k
			time.Sleep(time.Second)
		}
	})
	return
}

func TestConsts(t *testing.T) {
	in, err := vio.ReadInput()
	if err != nil {
		t.Skip(err)
	}
	res := vio.NewResult()
	defer func() {
		if err := res.Write(); err != nil {
			t.Fatal(err)
		}
	}()
	seed := in.Seed
	a5 := okMsg("A5", "a", []rr{{T: "A", Ttl: 5, Ip: "a1"}}, "ok", -1)
	a60 := okMsg("A60", "a", []rr{{T: "A", Ttl: 60, Ip: "a1"}}, "ok", -1)
	af := okMsg("Afail", "a", nil, "fail", -1)
	bf := okMsg("Bfail", "aaaa", nil, "fail", -1)
	bs10 := okMsg("Bnds10", "aaaa", nil, "ok", 10)
	// rcodeFailureCachingDuration
	fail := measureLifetime(t, res, seed, []msg{af, bf}, 400)
	res.Count("FailTtl", int(fail))
	// does a failure rcode overwrite a smaller expiry?  (order A(5) then failure vs failure then A(5))
	l1 := measureLifetime(t, res, seed, []msg{a5, bf}, 400)
	l2 := measureLifetime(t, res, seed, []msg{bf, a5}, 400)
	res.Count("LifeA5ThenFail", int(l1))
	res.Count("LifeFailThenA5", int(l2))
	// is the SOA TTL of a negative answer ignored once an expiry is set?
	l3 := measureLifetime(t, res, seed, []msg{a60, bs10}, 400)
	l4 := measureLifetime(t, res, seed, []msg{bs10, a60}, 400)
	res.Count("LifeA60ThenSoa10", int(l3))
	res.Count("LifeSoa10ThenA60", int(l4))
	// lookupTimeout, query ids, EDNS size
	synctest.Test(t, func(t *testing.T) {
		w, err := newWorld(res, true, seed, 0, 4, false, true, 0, 0)
		if err != nil {
			res.Break("%v", err)
			return
		}
		defer w.closeAll()
		t0 := time.Now()
		r := w.startLookup("p1", "n1")
		synctest.Wait()
		if w.state(r) != "dial" {
			res.Break("TCP-only resolver did not dial")
			return
		}
		for _, q := range r.waiting.qs {
			res.Count("QueryID_"+q.Which, int(q.ID))
			if q.Which == "a" {
				res.Count("EDNS", q.EDNS)
			}
		}
		w.decide(r, true)
		for range 4000 {
			synctest.Wait()
			if w.state(r) == "ret" {
				break
			}
			time.Sleep(100 * time.Millisecond)
		}
		if w.state(r) != "ret" {
			res.Break("a lookup against a silent TCP upstream did not return within 400 s")
			return
		}
		res.Count("TimeoutMs", int(time.Since(t0)/time.Millisecond))
	})
	// defaultCacheSize through the configuration path
	rc := dns.ResolverConfig{Name: "x", AddrPort: netip.MustParseAddrPort("192.0.2.53:53"), TCPClientName: "t"}
	sr, err := rc.NewSimpleResolver(map[string]netio.StreamClient{"t": &fakeClient{}}, nil, zap.NewNop())
	if err == nil {
		if rr, ok := sr.(*dns.Resolver); ok {
			if c, _ := cacheOf(rr); c != nil {
				res.Count("DefaultCacheSize", c.Capacity())
			}
		}
	}
	if mirrorOK() {
		res.Count("StateProjection", 1)
	}
}

// ---- TestLru: behaviours of Lru.tla on cache.BoundedCache -----------------------------------

type lruAct struct {
	N   string `json:"n"`
	K   string `json:"k"`
	V   int    `json:"v"`
	Out struct {
		Ok bool `json:"ok"`
		V  int  `json:"v"`
	} `json:"out"`
}

type lruObs struct {
	Fwd []struct {
		K string `json:"k"`
		V int    `json:"v"`
	} `json:"fwd"`
	Len int `json:"len"`
}

func TestLru(t *testing.T) {
	in, err := vio.ReadInput()
	if err != nil {
		t.Skip(err)
	}
	res := vio.NewResult()
	defer func() {
		if err := res.Write(); err != nil {
			t.Fatal(err)
		}
	}()
	capacity := 2
	in.Param("cap", &capacity)
	var keys []string
	in.Param("keys", &keys)
	for bi, b := range in.Behaviours {
		c := cache.NewBoundedCache[string, int](capacity)
		var hist []vio.Step
		bad := func(key, text string, si int, exp, got any) {
			res.Violation(vio.Finding{Key: key, Text: text, Behaviour: bi, Step: si, Expected: exp, Observed: got,
				Replay: map[string]any{"lru": true, "cap": capacity, "keys": keys, "steps": hist}})
		}
	steps:
		for si, st := range b.Steps {
			var a lruAct
			var o lruObs
			if err := json.Unmarshal(st.A, &a); err != nil {
				res.Break("lru behaviour %d step %d: %v", bi, si, err)
				return
			}
			if err := json.Unmarshal(st.O, &o); err != nil {
				res.Break("lru behaviour %d step %d: %v", bi, si, err)
				return
			}
			hist = append(hist, st)
			var ok bool
			var v int
			switch a.N {
			case "Get":
				if (si+bi)%2 == 0 {
					v, ok = c.Get(a.K)
				} else {
					var e *cache.Entry[string, int]
					e, ok = c.GetEntry(a.K)
					if ok {
						v = e.Value
					}
				}
			case "Contains":
				ok = c.Contains(a.K)
			case "Set":
				c.Set(a.K, a.V)
				ok = true
			case "Insert":
				ok = c.Insert(a.K, a.V)
			case "Remove":
				ok = c.Remove(a.K)
			case "Clear":
				c.Clear()
				ok = true
			default:
				res.Break("lru: unknown op %q", a.N)
				return
			}
			res.Seen(fmt.Sprintf("lru/%s/%v/%d", a.N, ok, c.Len()))
			if ok != a.Out.Ok || (a.N == "Get" && ok && v != a.Out.V) {
				bad("dns.cache/lru-result", fmt.Sprintf("%s(%s) returned (%v,%v), the LRU cache of the model (%v,%v)", a.N, a.K, v, ok, a.Out.V, a.Out.Ok), si, a.Out, []any{v, ok})
				break steps
			}
			// list and map agree
			type kv struct {
				K string
				V int
			}
			var fwd, bwd []kv
			n := 0
			for k, v := range c.All() {
				fwd = append(fwd, kv{k, v})
				if n++; n > 64 {
					break
				}
			}
			n = 0
			for k, v := range c.Backward() {
				bwd = append(bwd, kv{k, v})
				if n++; n > 64 {
					break
				}
			}
			slices.Reverse(bwd)
			members := 0
			for _, k := range keys {
				if c.Contains(k) {
					members++
				}
			}
			if !slices.Equal(fwd, bwd) || len(fwd) != c.Len() || (len(keys) > 0 && members != c.Len()) || c.Len() > capacity {
				bad("dns.cache/lru-inconsistent", fmt.Sprintf("after %s(%s): forward list %v, backward list reversed %v, Len %d, %d of the keys contained, capacity %d",
					a.N, a.K, fwd, bwd, c.Len(), members, capacity), si, o, fwd)
				break steps
			}
			var exp []kv
			for _, e := range o.Fwd {
				exp = append(exp, kv{e.K, e.V})
			}
			if !slices.Equal(fwd, exp) {
				bad("dns.cache/lru-order", fmt.Sprintf("after %s(%s) the cache holds %v (least recently used first), an LRU cache holds %v", a.N, a.K, fwd, exp), si, exp, fwd)
				break steps
			}
		}
		res.AddSteps(1, len(b.Steps))
		if bi == 0 {
			var acts []json.RawMessage
			for _, s := range hist {
				acts = append(acts, s.A)
			}
			res.Sample(map[string]any{"lru": true, "actions": acts}, 1)
		}
	}
}

// ---- TestGarbage: mutated and random response bytes through the real parser ------------------

func mutate(rnd *rand.Rand, b []byte) []byte {
	b = slices.Clone(b)
	switch rnd.IntN(8) {
	case 0: // bit flips
		for range 1 + rnd.IntN(4) {
			b[rnd.IntN(len(b))] ^= 1 << rnd.IntN(8)
		}
	case 1: // truncation
		b = b[:rnd.IntN(len(b))]
	case 2: // section counts
		off := 4 + 2*rnd.IntN(4)
		b[off], b[off+1] = byte(rnd.IntN(256)), byte(rnd.IntN(256))
	case 3: // random bytes behind a plausible header
		n := 12 + rnd.IntN(60)
		nb := make([]byte, n)
		copy(nb, b[:12])
		for i := 12; i < n; i++ {
			nb[i] = byte(rnd.IntN(256))
		}
		b = nb
	case 4: // compression pointer to itself / forward
		if len(b) > 14 {
			i := 12 + rnd.IntN(len(b)-13)
			b[i], b[i+1] = 0xC0, byte(i)
		}
	case 5: // byte overwrite
		for range 1 + rnd.IntN(8) {
			b[rnd.IntN(len(b))] = byte(rnd.IntN(256))
		}
	case 6: // rdlength of the last record
		if len(b) > 20 {
			i := len(b) - 6 - rnd.IntN(12)
			b[i] = byte(rnd.IntN(256))
		}
	case 7: // pure noise, up to well beyond the EDNS(0) size
		n := rnd.IntN(40)
		if rnd.IntN(3) == 0 {
			n = 1000 + rnd.IntN(3000)
		}
		b = make([]byte, n)
		for i := range b {
			b[i] = byte(rnd.IntN(256))
		}
	}
	if len(b) == 0 {
		b = []byte{0}
	}
	return b
}

func TestGarbage(t *testing.T) {
	in, err := vio.ReadInput()
	if err != nil {
		t.Skip(err)
	}
	res := vio.NewResult()
	defer func() {
		if err := res.Write(); err != nil {
			t.Fatal(err)
		}
	}()
	n := 300
	in.Param("n", &n)
	rnd := rand.New(rand.NewPCG(uint64(in.Seed), 17))
	a2 := okMsg("A2", "a", []rr{{T: "CNAME", Ttl: 60}, {T: "A", Ttl: 60, Ip: "a1"}, {T: "A", Ttl: 60, Ip: "a2"}}, "ok", -1)
	b2 := okMsg("B2", "aaaa", []rr{{T: "AAAA", Ttl: 60, Ip: "b1"}, {T: "AAAA", Ttl: 60, Ip: "b2"}}, "ok", -1)
	anx := okMsg("Anx", "a", nil, "nx", 10)
	abig := okMsg("Abig", "a", []rr{{T: "A", Ttl: 60, Ip: "a1"}, {T: "TXT", Ttl: 60, N: 1800}, {T: "A", Ttl: 60, Ip: "a2"}}, "ok", -1)
	for i := range n {
		synctest.Test(t, func(t *testing.T) {
			w, err := newWorld(res, true, in.Seed, i, 2, false, true, 30, 20)
			if err != nil {
				res.Break("%v", err)
				return
			}
			defer w.closeAll()
			var sent [][]byte
			fail := func(key, text string) {
				res.Violation(vio.Finding{Key: key, Text: text, Behaviour: i, Replay: map[string]any{"garbage": true, "seed": in.Seed, "case": i, "bytes": sent}})
			}
			// a lookup whose responses are mutated
			r := w.startLookup("p1", "n1")
			for round := 0; round < 3; round++ {
				synctest.Wait()
				if w.state(r) != "dial" {
					break
				}
				w.decide(r, true)
				synctest.Wait()
				w.learnIDs(r)
				c := r.conn
				if c == nil {
					break
				}
				base := []msg{a2, b2, anx, abig}
				for k := 0; k < 2 && w.state(r) == "pending"; k++ {
					raw, err := buildMsg(&base[rnd.IntN(len(base))], "n1", r.id, in.Seed, k)
					if err != nil {
						res.Break("%v", err)
						return
					}
					if rnd.IntN(4) > 0 {
						raw = mutate(rnd, raw)
					}
					sent = append(sent, raw)
					go func() { _, _ = c.srv.Write(frame(raw)) }()
					synctest.Wait()
				}
				if w.state(r) == "pending" {
					_ = c.srv.CloseWrite()
				}
			}
			synctest.Wait()
			if w.state(r) != "ret" {
				time.Sleep(25 * time.Second)
				synctest.Wait()
			}
			if r.panicked != "" {
				fail("dns.resolver/panic", "the resolver panicked on a malformed response: "+firstLine(r.panicked))
				return
			}
			if w.state(r) != "ret" {
				fail("dns.resolver/hang", "a lookup fed malformed responses did not return after the upstream closed and the lookup timeout passed")
				return
			}
			// LookupIP reports a successful lookup without addresses as ErrDomainNoAssociatedIPs
			garbledOK := r.err == nil || errClass(r.err) == "ErrDomainNoAssociatedIPs"
			res.Seen(fmt.Sprintf("garbage/ok=%v/dials=%d", garbledOK, len(r.dials)))
			// later lookups are not poisoned: another name, and the same name if the garbled lookup failed
			names := []string{"n2"}
			if !garbledOK {
				names = append(names, "n1")
			}
			for _, nm := range names {
				r2, st := w.exchange(nm, []msg{a2, b2})
				if r2.panicked != "" {
					fail("dns.resolver/panic", "the resolver panicked after a malformed response: "+firstLine(r2.panicked))
					return
				}
				if st != "ret" || r2.err != nil || !r2.traffic() {
					fail("dns.poison/later-lookup-affected", fmt.Sprintf("after a lookup fed malformed responses, a lookup of %s answered correctly by upstream ended in state %s, err %v, upstream asked %v", nm, st, r2.err, r2.traffic()))
					return
				}
				var got []string
				all := r2.ips
				if r2.api == "Lookup" {
					all = append(slices.Clone(r2.aaaa), r2.a...)
				} else if r2.api == "IP" {
					all = []netip.Addr{r2.ip}
				}
				for _, a := range all {
					ni, tok, ok := tokenOf(a, in.Seed)
					if !ok || ni != nameIndex(nm) {
						tok = a.String()
					}
					got = append(got, tok)
				}
				want := []string{"b1", "b2", "a1", "a2"}
				if r2.api == "IP" {
					want = want[:1]
				}
				if !slices.Equal(got, want) {
					fail("dns.poison/later-lookup-affected", fmt.Sprintf("after a lookup fed malformed responses, the lookup of %s returned %v instead of %v", nm, got, want))
					return
				}
			}
			res.AddSteps(1, len(sent))
		})
	}
}
