//go:build verif

package c17

import (
	"context"
	"encoding/json"
	"errors"
	"fmt"
	"net"
	"net/netip"
	"reflect"
	"runtime/debug"
	"slices"
	"sort"
	"strings"
	"sync"
	"testing/synctest"
	"time"
	"unsafe"

	"github.com/database64128/shadowsocks-go/cache"
	"github.com/database64128/shadowsocks-go/conn"
	"github.com/database64128/shadowsocks-go/direct"
	"github.com/database64128/shadowsocks-go/dns"
	"github.com/database64128/shadowsocks-go/netio"
	"go.uber.org/zap"

	"verif/harness/internal/vio"
)

// ---- model actions -------------------------------------------------------------------------

type outT struct {
	R    string   `json:"r"`
	Q    []string `json:"q"`
	A    []string `json:"a"`
	AAAA []string `json:"aaaa"`
	Now  int64    `json:"now"`
}

type action struct {
	N   string          `json:"n"`
	P   string          `json:"p"`
	Arg json.RawMessage `json:"arg"`
	Out outT            `json:"out"`
}

type obsEntry struct {
	N    string   `json:"n"`
	A    []string `json:"a"`
	AAAA []string `json:"aaaa"`
	Exp  int64    `json:"exp"`
	Bnd  int64    `json:"bnd"`
}

type obsT struct {
	Now   int64             `json:"now"`
	Cache []obsEntry        `json:"cache"`
	Ph    map[string]string `json:"ph"`
}

// ---- looking into the resolver -------------------------------------------------------------

// resultMirror has the layout of dns.Result (checked by mirrorOK before it is used).
type resultMirror struct {
	a         []netip.Addr
	aaaa      []netip.Addr
	expiresAt time.Time
}

func mirrorOK() bool {
	rt := reflect.TypeOf(dns.Result{})
	mt := reflect.TypeOf(resultMirror{})
	if rt.NumField() != mt.NumField() || rt.Size() != mt.Size() {
		return false
	}
	for i := range rt.NumField() {
		if rt.Field(i).Name != mt.Field(i).Name || rt.Field(i).Type != mt.Field(i).Type || rt.Field(i).Offset != mt.Field(i).Offset {
			return false
		}
	}
	return true
}

func expiryOf(r dns.Result) time.Time {
	return (*resultMirror)(unsafe.Pointer(&r)).expiresAt
}

// cacheOf returns the resolver's own cache object and the mutex that guards it (read access to
// unexported fields; nil if the layout is not the expected one).
func cacheOf(r *dns.Resolver) (*cache.BoundedCache[string, dns.Result], *sync.Mutex) {
	v := reflect.ValueOf(r).Elem()
	f := v.FieldByName("cache")
	m := v.FieldByName("mu")
	if !f.IsValid() || !m.IsValid() || f.Type() != reflect.TypeOf(cache.BoundedCache[string, dns.Result]{}) ||
		m.Type() != reflect.TypeOf(sync.Mutex{}) || !mirrorOK() {
		return nil, nil
	}
	return (*cache.BoundedCache[string, dns.Result])(unsafe.Pointer(f.UnsafeAddr())), (*sync.Mutex)(unsafe.Pointer(m.UnsafeAddr()))
}

// ---- the fake TCP client -------------------------------------------------------------------

type ctxKey struct{}

type dialRec struct {
	payload []byte
	qs      []query
	perr    error
	decide  chan bool // true: connection established, false: dial error
	srv     *netio.PipeConn
	dead    bool // called with a context that was already done
}

func (d *dialRec) which() []string {
	var s []string
	for _, q := range d.qs {
		s = append(s, q.Which)
	}
	sort.Strings(s)
	return s
}

type fakeClient struct{ w *world }

func (c *fakeClient) NewStreamDialer() (netio.StreamDialer, netio.StreamDialerInfo) {
	return c, netio.StreamDialerInfo{Name: "verif", NativeInitialPayload: true}
}

func (c *fakeClient) DialStream(ctx context.Context, addr conn.Addr, payload []byte) (netio.Conn, error) {
	w := c.w
	run, _ := ctx.Value(ctxKey{}).(*run)
	d := &dialRec{payload: slices.Clone(payload), decide: make(chan bool, 1)}
	d.qs, d.perr = splitTCP(d.payload)
	if run == nil {
		return nil, errors.New("verif: DialStream without a lookup context")
	}
	w.mu.Lock()
	run.addr = addr
	if ctx.Err() != nil {
		d.dead = true
		run.dials = append(run.dials, d)
		w.mu.Unlock()
		return nil, ctx.Err()
	}
	// both ends exist before the upstream decides, so that the driver owns the server end from the
	// moment it lets the dial succeed
	pl, pr := netio.NewPipe()
	d.srv = pr
	run.dials = append(run.dials, d)
	run.waiting = d
	w.mu.Unlock()
	w.notify()
	var ok bool
	select {
	case ok = <-d.decide:
	case <-ctx.Done():
		w.mu.Lock()
		if run.waiting == d {
			run.waiting = nil
		}
		w.mu.Unlock()
		_ = pl.Close()
		return nil, ctx.Err()
	}
	if !ok {
		_ = pl.Close()
		return nil, errors.New("verif: scripted dial failure")
	}
	return pl, nil
}

// decide lets the pending DialStream call of r succeed or fail (the driver's side of TcpDial).
func (w *world) decide(r *run, ok bool) bool {
	w.mu.Lock()
	d := r.waiting
	r.waiting = nil
	if d != nil && ok {
		r.conn = d
	}
	w.mu.Unlock()
	if d == nil {
		return false
	}
	d.decide <- ok
	return true
}

// ---- the UDP upstream (real sockets on loopback, real time) ---------------------------------

type udpUpstream struct {
	fenceCh  chan struct{}
	fenceSrc netip.AddrPort
	w        *world
	srv      *net.UDPConn // the configured server
	oport    *net.UDPConn // same address, another port
	oip      *net.UDPConn // another address, same port
	addrPort netip.AddrPort
}

func newUDPUpstream(w *world) (*udpUpstream, error) {
	u := &udpUpstream{w: w}
	var err error
	for range 20 {
		u.srv, err = net.ListenUDP("udp4", &net.UDPAddr{IP: net.IPv4(127, 0, 0, 1)})
		if err != nil {
			return nil, err
		}
		port := u.srv.LocalAddr().(*net.UDPAddr).Port
		u.oip, err = net.ListenUDP("udp4", &net.UDPAddr{IP: net.IPv4(127, 0, 0, 2), Port: port})
		if err == nil {
			break
		}
		u.srv.Close()
	}
	if err != nil {
		return nil, err
	}
	u.oport, err = net.ListenUDP("udp4", &net.UDPAddr{IP: net.IPv4(127, 0, 0, 1)})
	if err != nil {
		return nil, err
	}
	u.addrPort = u.srv.LocalAddr().(*net.UDPAddr).AddrPort()
	u.fenceSrc = u.oport.LocalAddr().(*net.UDPAddr).AddrPort()
	u.fenceCh = make(chan struct{}, 8)
	go u.serve()
	return u, nil
}

func (u *udpUpstream) close() {
	u.srv.Close()
	u.oport.Close()
	u.oip.Close()
}

func (u *udpUpstream) serve() {
	b := make([]byte, 2048)
	for {
		n, from, err := u.srv.ReadFromUDPAddrPort(b)
		if err != nil {
			return
		}
		if from == u.fenceSrc && n == 1 && b[0] == 0xFE {
			select {
			case u.fenceCh <- struct{}{}:
			default:
			}
			continue
		}
		q, perr := parseQuery(b[:n])
		w := u.w
		w.mu.Lock()
		r := w.udpBySrc[from]
		if r != nil && r.fin {
			// Every datagram of a lookup that has returned was queued before the fence that
			// precedes the next lookup, so this is a new socket that got the same port.
			delete(w.udpBySrc, from)
			r = nil
		}
		if r == nil && w.udpStarting != nil {
			r = w.udpStarting
			if !r.udpAddr.IsValid() {
				r.udpAddr = from
				w.udpBySrc[from] = r
			} else {
				r = nil
			}
		}
		if r != nil {
			if perr != nil {
				r.udpBad = append(r.udpBad, perr.Error())
			} else {
				r.udpQs = append(r.udpQs, q)
				r.sends[q.Which]++
			}
		} else {
			w.strayUDP++
		}
		w.mu.Unlock()
		w.notify()
	}
}

// fence returns when the upstream has processed every datagram that was queued on its socket
// before the call (late resends of lookups that have returned).
func (u *udpUpstream) fence() {
	for {
		select {
		case <-u.fenceCh:
			continue
		default:
		}
		break
	}
	for range 3 {
		if _, err := u.oport.WriteToUDPAddrPort([]byte{0xFE}, u.addrPort); err != nil {
			return
		}
		select {
		case <-u.fenceCh:
			return
		case <-time.After(10 * time.Second):
		}
	}
}

func (u *udpUpstream) send(src string, to netip.AddrPort, b []byte) error {
	c := u.srv
	switch src {
	case "srv":
	case "otherport":
		c = u.oport
	case "otherip":
		c = u.oip
	default:
		return fmt.Errorf("source class %q", src)
	}
	_, err := c.WriteToUDPAddrPort(b, to)
	return err
}

// ---- one Lookup call -----------------------------------------------------------------------

type delivered struct {
	m   msg
	udp bool
	at  int64 // model time
}

type run struct {
	p, nameTok, api string
	ctx             context.Context
	cancel          context.CancelFunc
	startNow        int64

	fin      bool
	err      error
	a, aaaa  []netip.Addr // api "Lookup"
	ips      []netip.Addr // api "IPs"
	ip       netip.Addr   // api "IP"
	panicked string

	dials   []*dialRec
	waiting *dialRec
	conn    *dialRec
	addr    conn.Addr

	udpAddr netip.AddrPort
	udpQs   []query
	udpBad  []string
	sends   map[string]int

	id   ids
	msgs []delivered
	salt int

	stAtStart *storedInfo // what the driver knew to be cached for the name when the call started
}

func (r *run) traffic() bool {
	return len(r.dials) > 0 || len(r.udpQs) > 0 || len(r.udpBad) > 0
}

// storedInfo: what the driver knows about the entry the real resolver should hold for a name.
type storedInfo struct {
	prov map[string]bool // address tokens contained in own responses of the storing lookup
	msgs []delivered
	bnd  int64 // model time until which the property allows the result to be reused
}

type world struct {
	res     *vio.Result
	virtual bool
	seed    int64
	bi      int
	base    time.Time
	now     int64 // model time

	r       *dns.Resolver
	cview   *cache.BoundedCache[string, dns.Result]
	cmu     *sync.Mutex
	fc      *fakeClient
	up      *udpUpstream
	hasUdp  bool
	hasTcp  bool
	failTtl int64
	timeout int64

	mu          sync.Mutex
	evt         chan struct{}
	runs        map[string]*run
	udpBySrc    map[netip.AddrPort]*run
	udpStarting *run
	strayUDP    int

	stored    map[string]*storedInfo
	lastObs   *obsT
	hist      []vio.Step
	acts      []json.RawMessage
	capacity  int
	nlook     int
	aborted   bool
	violated  bool
	projDrift bool // the cache content has left the model (noted once)
}

func (w *world) notify() {
	select {
	case w.evt <- struct{}{}:
	default:
	}
}

func newWorld(res *vio.Result, virtual bool, seed int64, bi int, capacity int, hasUdp, hasTcp bool, failTtl, timeout int64) (*world, error) {
	w := &world{res: res, virtual: virtual, seed: seed, bi: bi, base: time.Now(), hasUdp: hasUdp, hasTcp: hasTcp,
		capacity: capacity, failTtl: failTtl, timeout: timeout, evt: make(chan struct{}, 1), runs: map[string]*run{},
		udpBySrc: map[netip.AddrPort]*run{}, stored: map[string]*storedInfo{}}
	var tcp netio.StreamClient
	if hasTcp {
		w.fc = &fakeClient{w: w}
		tcp = w.fc
	}
	server := netip.AddrPortFrom(netip.AddrFrom4([4]byte{192, 0, 2, 53}), 53)
	if hasUdp {
		if virtual {
			return nil, errors.New("UDP resolvers are replayed in real time only")
		}
		up, err := newUDPUpstream(w)
		if err != nil {
			return nil, err
		}
		w.up = up
		server = up.addrPort
		w.r = dns.NewResolver("verif", capacity, server, tcp, direct.NewDirectUDPClient("direct", "ip", 1500, conn.DefaultUDPClientListenConfig), zap.NewNop())
	} else {
		w.r = dns.NewResolver("verif", capacity, server, tcp, nil, zap.NewNop())
	}
	w.cview, w.cmu = cacheOf(w.r)
	return w, nil
}

// closeAll ends every lookup still in flight so that a synctest bubble can finish.
func (w *world) closeAll() {
	w.mu.Lock()
	var rs []*run
	for _, r := range w.runs {
		rs = append(rs, r)
	}
	w.mu.Unlock()
	for _, r := range rs {
		r.cancel()
		w.mu.Lock()
		ds := slices.Clone(r.dials)
		w.mu.Unlock()
		for _, d := range ds {
			if d.srv != nil {
				d.srv.Close()
			}
		}
	}
	if w.virtual {
		synctest.Wait()
	} else {
		deadline := time.Now().Add(5 * time.Second)
		for _, r := range rs {
			for time.Now().Before(deadline) {
				w.mu.Lock()
				f := r.fin
				w.mu.Unlock()
				if f {
					break
				}
				time.Sleep(2 * time.Millisecond)
			}
		}
	}
	if w.up != nil {
		w.up.close()
	}
}

// ---- running and observing -----------------------------------------------------------------

func (w *world) startLookup(p, nameTok string) *run {
	w.nlook++
	apis := []string{"Lookup", "Lookup", "IPs", "IP"}
	r := &run{p: p, nameTok: nameTok, api: apis[int(uint64(w.seed)+uint64(w.bi)*7+uint64(w.nlook)*3)%len(apis)], sends: map[string]int{},
		startNow: w.now, salt: int(uint64(w.seed)+uint64(w.bi)*13+uint64(w.nlook)) % 1000}
	ctx, cancel := context.WithCancel(context.Background())
	r.ctx, r.cancel = context.WithValue(ctx, ctxKey{}, r), cancel
	r.stAtStart = w.stored[nameTok]
	if w.up != nil {
		w.up.fence()
	}
	w.mu.Lock()
	w.runs[p] = r
	if w.hasUdp {
		w.udpStarting = r
	}
	w.mu.Unlock()
	name := fqdn(nameTok, w.seed)
	go func() {
		defer func() {
			if x := recover(); x != nil {
				w.mu.Lock()
				r.panicked = fmt.Sprintf("%v\n%s", x, debug.Stack())
				r.fin = true
				w.mu.Unlock()
				w.notify()
			}
		}()
		var (
			a, aaaa, ips []netip.Addr
			ip           netip.Addr
			err          error
		)
		switch r.api {
		case "Lookup":
			var res dns.Result
			res, err = w.r.Lookup(r.ctx, name)
			if err == nil {
				a, aaaa = slices.Collect(res.A()), slices.Collect(res.AAAA())
			}
		case "IPs":
			ips, err = w.r.LookupIPs(r.ctx, name)
		case "IP":
			ip, err = w.r.LookupIP(r.ctx, name)
		}
		w.mu.Lock()
		r.a, r.aaaa, r.ips, r.ip, r.err, r.fin = a, aaaa, ips, ip, err, true
		w.mu.Unlock()
		w.notify()
	}()
	return r
}

// state: "ret" (Lookup returned), "dial" (a DialStream call is waiting for the upstream's decision),
// "pending" (neither).
func (w *world) state(r *run) string {
	w.mu.Lock()
	defer w.mu.Unlock()
	switch {
	case r.fin:
		return "ret"
	case r.waiting != nil:
		return "dial"
	}
	return "pending"
}

// settle waits until the real code has done everything it can do without further input and
// returns the state of r.  In virtual time this is exact (synctest.Wait).  In real time the
// driver waits for the state the model expects (up to max) and otherwise for a short grace period.
func (w *world) settle(r *run, expect string, max time.Duration) string {
	if w.virtual {
		synctest.Wait()
		return w.state(r)
	}
	grace := 40 * time.Millisecond
	if expect == "pending" {
		time.Sleep(grace)
		return w.state(r)
	}
	deadline := time.Now().Add(max)
	for {
		if s := w.state(r); s == expect || s == "ret" {
			return s
		}
		left := time.Until(deadline)
		if left <= 0 {
			return w.state(r)
		}
		select {
		case <-w.evt:
		case <-time.After(min(left, 50*time.Millisecond)):
		}
	}
}

// waitQueries (real time, UDP): wait until the upstream has seen both queries of the lookup.
func (w *world) waitQueries(r *run, max time.Duration) bool {
	deadline := time.Now().Add(max)
	for {
		w.mu.Lock()
		ok := r.sends["a"] > 0 && r.sends["aaaa"] > 0
		fin := r.fin
		w.mu.Unlock()
		if ok {
			return true
		}
		if fin || time.Now().After(deadline) {
			return false
		}
		select {
		case <-w.evt:
		case <-time.After(20 * time.Millisecond):
		}
	}
}

func (w *world) learnIDs(r *run) {
	w.mu.Lock()
	defer w.mu.Unlock()
	for _, d := range r.dials {
		for _, q := range d.qs {
			switch q.Which {
			case "a":
				r.id.a = q.ID
			case "aaaa":
				r.id.aaaa = q.ID
			}
		}
	}
	for _, q := range r.udpQs {
		switch q.Which {
		case "a":
			r.id.a = q.ID
		case "aaaa":
			r.id.aaaa = q.ID
		}
	}
	if r.id.a == 0 && r.id.aaaa == 0 {
		r.id.a, r.id.aaaa = 4, 6
	}
}

// project reads the real cache in list order.
func (w *world) project() ([]obsEntry, bool) {
	if w.cview == nil {
		return nil, false
	}
	w.cmu.Lock()
	defer w.cmu.Unlock()
	var fwd []obsEntry
	for k, v := range w.cview.All() {
		e := obsEntry{N: w.nameTokOf(k), A: []string{}, AAAA: []string{}}
		for a := range v.A() {
			_, tok, ok := tokenOf(a, w.seed)
			if !ok {
				tok = a.String()
			}
			e.A = append(e.A, tok)
		}
		for a := range v.AAAA() {
			_, tok, ok := tokenOf(a, w.seed)
			if !ok {
				tok = a.String()
			}
			e.AAAA = append(e.AAAA, tok)
		}
		x := expiryOf(v)
		if x.IsZero() {
			e.Exp = -1
		} else {
			d := x.Sub(w.base)
			e.Exp = int64(d / time.Second)
			if d%time.Second != 0 && w.virtual {
				e.Exp = -1000 - int64(d/time.Millisecond) // never equal to a model value
			}
		}
		fwd = append(fwd, e)
	}
	return fwd, true
}

func (w *world) nameTokOf(fq string) string {
	if i := strings.IndexByte(fq, '.'); i > 0 && fq == fqdn(fq[:i], w.seed) {
		return fq[:i]
	}
	return fq
}

// real-time sockets, real time: sleep; virtual: sleep inside the bubble.
func (w *world) advance(d int64) {
	w.now += d
	time.Sleep(time.Duration(d) * time.Second)
	if w.virtual {
		synctest.Wait()
	}
}

// dnsIsErrLookup etc. keep the dns package's error values in one place.
func errClass(err error) string {
	switch {
	case err == nil:
		return "nil"
	case errors.Is(err, dns.ErrLookup):
		return "ErrLookup"
	case errors.Is(err, dns.ErrDomainNoAssociatedIPs):
		return "ErrDomainNoAssociatedIPs"
	case errors.Is(err, context.Canceled):
		return "canceled"
	}
	return "other: " + err.Error()
}
