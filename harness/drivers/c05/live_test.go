//go:build verif

package c05

import (
	"bytes"
	"context"
	"encoding/base64"
	"encoding/binary"
	"encoding/json"
	"errors"
	"fmt"
	"io"
	"net"
	"net/netip"
	"os"
	"path/filepath"
	"strings"
	"testing"
	"time"

	"github.com/database64128/shadowsocks-go/conn"
	"github.com/database64128/shadowsocks-go/service"
	"github.com/database64128/shadowsocks-go/zerocopy"
	"go.uber.org/zap"
	"go.uber.org/zap/zapcore"
	"go.uber.org/zap/zaptest/observer"

	"verif/harness/internal/vio"
)

// liveGroup is one relay configuration (server protocol, client protocol, MTUs, families, policies, the other
// clients) with the cases of the model that run through it.
type liveGroup struct {
	Sp    string `json:"sp"`
	Cp    string `json:"cp"`
	Smtu  int    `json:"smtu"`
	Cmtu  int    `json:"cmtu"`
	Lfam  string `json:"lfam"`
	Ufam  string `json:"ufam"`
	Allc  bool   `json:"allc"`
	Opol  string `json:"opol"`
	Rpol  string `json:"rpol"`
	Batch string `json:"batch"` // "" (platform default: recvmmsg/sendmmsg on Linux) or "no"
	Cases []expJ `json:"cases"`
	// Listen is what the relay's listener is bound to: "" = the loopback address of Lfam, "dual" = [::] (an IPv4
	// client is then seen as ::ffff:127.0.0.1).  Sessions are client sessions of specs/Packet/UdpSession.tla that
	// change their address; a group with sessions runs them instead of Cases.
	Listen   string        `json:"listen,omitempty"`
	Sessions []liveSession `json:"sessions,omitempty"`
}

// clientJ is a client address of the session model: the kind the listener reports ("v4", "m4" = IPv4-mapped on a
// dual-stack listener, "v6") and which of the client's sockets of that family it is.
type clientJ struct {
	K string `json:"k"`
	S int    `json:"s"`
}

func (a clientJ) fam() string {
	if a.K == "v6" {
		return "v6"
	}
	return "v4"
}

// migJ places a reply in the life of its session: the addresses the session was at (the last one is current), and
// whether the reply is the first one after the last change of address.
type migJ struct {
	Path  []clientJ `json:"path"`
	Fresh bool      `json:"fresh"`
}

// liveSession is one client session: Stages[i] are the replies (downlink cases) expected while the client is at Path[i].
type liveSession struct {
	Path   []clientJ `json:"path"`
	Stages [][]expJ  `json:"stages"`
}

func loopback(fam string) string {
	if fam == "v4" {
		return "127.0.0.1"
	}
	return "::1"
}

func listenUDP(fam string) (*net.UDPConn, netip.AddrPort, error) {
	network := "udp4"
	if fam == "v6" {
		network = "udp6"
	}
	c, err := net.ListenUDP(network, &net.UDPAddr{IP: net.ParseIP(loopback(fam))})
	if err != nil {
		return nil, netip.AddrPort{}, err
	}
	ap := c.LocalAddr().(*net.UDPAddr).AddrPort()
	return c, netip.AddrPortFrom(ap.Addr().Unmap(), ap.Port()), nil
}

// socks5Associate answers UDP ASSOCIATE requests on a TCP listener with the given UDP address and keeps the
// connections open (RFC 1928: the association lives as long as the TCP connection).
func socks5Associate(ln net.Listener, bound netip.AddrPort) {
	for {
		c, err := ln.Accept()
		if err != nil {
			return
		}
		go func() {
			defer c.Close()
			hdr := make([]byte, 2)
			if _, err := io.ReadFull(c, hdr); err != nil {
				return
			}
			if _, err := io.ReadFull(c, make([]byte, int(hdr[1]))); err != nil {
				return
			}
			if _, err := c.Write([]byte{5, 0}); err != nil {
				return
			}
			req := make([]byte, 4)
			if _, err := io.ReadFull(c, req); err != nil {
				return
			}
			var rest int
			switch req[3] {
			case 1:
				rest = 4 + 2
			case 4:
				rest = 16 + 2
			case 3:
				l := make([]byte, 1)
				if _, err := io.ReadFull(c, l); err != nil {
					return
				}
				rest = int(l[0]) + 2
			}
			if _, err := io.ReadFull(c, make([]byte, rest)); err != nil {
				return
			}
			rep := []byte{5, 0, 0}
			if bound.Addr().Is4() {
				a := bound.Addr().As4()
				rep = append(append(rep, 1), a[:]...)
			} else {
				a := bound.Addr().As16()
				rep = append(append(rep, 4), a[:]...)
			}
			rep = binary.BigEndian.AppendUint16(rep, bound.Port())
			if _, err := c.Write(rep); err != nil {
				return
			}
			io.Copy(io.Discard, c)
		}()
	}
}

type liveRunner struct {
	t    *testing.T
	res  *vio.Result
	w    *world
	g    *liveGroup
	ctx  context.Context
	d    *net.UDPConn // the downstream client's socket
	u    *net.UDPConn // the upstream server's socket (the target itself for a direct client)
	dAP  netip.AddrPort
	uAP  netip.AddrPort
	rAP  netip.AddrPort // the relay's listener
	nat  netip.AddrPort // the relay's client socket as the upstream side sees it
	rnd  uint64
	seq  uint32
	down func(omtu int) (*link, error)
	ups  *link
	htgt conn.Addr // target of hello datagrams
	last *link     // the downstream client session whose datagram the upstream side saw last: replies belong to it
	dst  netip.AddrPort // where the downstream client sends instead of its packer's destination (sessions that change their address)
	kp   string         // prefix of the violation keys: "udp.live" or, for sessions that change their address, "udp.migrate"
}

func (r *liveRunner) fill(b []byte) {
	for i := range b {
		if i%8 == 0 {
			r.rnd = r.rnd*6364136223846793005 + 1442695040888963407
		}
		b[i] = byte(r.rnd >> (8 * (uint(i) % 8)))
	}
}

func (r *liveRunner) violation(e *expJ, key, text string, exp, obs any) {
	c := &e.C
	mig := ""
	if e.Mig != nil {
		mig = fmt.Sprintf(" listener %q, the session was at %v (first reply after the move: %v), limit of the current family %d", r.g.Listen, e.Mig.Path, e.Mig.Fresh, e.R.Max)
	}
	r.res.Violation(vio.Finding{Key: key, Text: fmt.Sprintf("%s  [live relay %s->%s batch=%q case %s addr %s L=%d mtu s/c/o=%d/%d/%d fam %s/%s pol %s/%s allc=%v%s]",
		text, c.Sp, c.Cp, r.g.Batch, c.Dir, c.A, c.L, c.Smtu, c.Cmtu, c.Omtu, c.Lfam, c.Ufam, c.Opol, c.Rpol, c.Allc, mig), Expected: exp, Observed: obs,
		Replay: map[string]any{"live": r.g.header(), "case": e}})
}

func (g *liveGroup) header() map[string]any {
	return map[string]any{"sp": g.Sp, "cp": g.Cp, "smtu": g.Smtu, "cmtu": g.Cmtu, "lfam": g.Lfam, "ufam": g.Ufam, "allc": g.Allc, "opol": g.Opol, "rpol": g.Rpol, "batch": g.Batch, "listen": g.Listen}
}

var errTimeout = errors.New("nothing arrived")

// recv reads one datagram with a generous deadline (a bound on a broken harness, not an assertion about speed).
func recv(c *net.UDPConn, b []byte, d time.Duration) (int, netip.AddrPort, error) {
	c.SetReadDeadline(time.Now().Add(d))
	n, _, flags, ap, err := c.ReadMsgUDPAddrPort(b, nil)
	if err != nil {
		if errors.Is(err, os.ErrDeadlineExceeded) {
			return 0, ap, errTimeout
		}
		return 0, ap, err
	}
	if flags&0x20 != 0 { // MSG_TRUNC
		return n, ap, errors.New("datagram truncated by the harness socket")
	}
	return n, netip.AddrPortFrom(ap.Addr().Unmap(), ap.Port()), nil
}

// sendUp packs payload for target with the downstream client's real packer and sends it to the relay.  It
// returns false if the client itself refuses the payload.
func (r *liveRunner) sendUp(l *link, target conn.Addr, payload []byte) (bool, error) {
	h := l.cp.ClientPackerInfo().Headroom
	b := make([]byte, h.Front+len(payload)+h.Rear)
	copy(b[h.Front:], payload)
	t := target
	if r.g.Sp == "direct" {
		t = conn.AddrFromIPPort(r.rAP)
	}
	dest, s, n, err := l.cp.PackInPlace(r.ctx, b, t, h.Front, len(payload))
	if err != nil {
		if errors.Is(err, zerocopy.ErrPayloadTooBig) {
			return false, nil
		}
		return false, err
	}
	if r.dst.IsValid() {
		dest = r.dst
	}
	_, err = r.d.WriteToUDPAddrPort(b[s:s+n], dest)
	return true, err
}

// recvUp reads the next datagram at the upstream side and unpacks it as the upstream server would.
func (r *liveRunner) recvUp(buf []byte, target conn.Addr, wait time.Duration) (n int, payload []byte, addr conn.Addr, err error) {
	const front = 64
	var src netip.AddrPort
	n, src, err = recv(r.u, buf[front:], wait)
	if err != nil {
		return
	}
	r.nat = src
	if r.g.Cp == "direct" {
		return n, buf[front : front+n], conn.AddrFromIPPort(r.uAP), nil
	}
	r.ups.clientAddr = src
	var ps, pl int
	addr, ps, pl, err = r.ups.serverUnpack(buf, front, n, target)
	if err != nil {
		err = fmt.Errorf("upstream unpack: %w", err)
		return
	}
	return n, buf[ps : ps+pl], addr, nil
}

var (
	helloPrefix = []byte("C05-HELLO-")
	fencePrefix = []byte("C05-FENCE-")
)

// stale reports datagrams that belong to the session opening or to an earlier case (fences carry a sequence number).
func (r *liveRunner) stale(payload []byte) bool {
	if bytes.HasPrefix(payload, helloPrefix) {
		return true
	}
	return bytes.HasPrefix(payload, fencePrefix) && !bytes.Equal(payload, fence(r.seq))
}

// quiet drains both sockets until nothing arrives for a while (after a retried case: duplicates may be in flight).
func (r *liveRunner) quiet(buf []byte) {
	for _, c := range []*net.UDPConn{r.u, r.d} {
		for {
			if _, _, err := recv(c, buf, 300*time.Millisecond); errors.Is(err, errTimeout) {
				break
			}
		}
	}
}

// nextUp / nextDown skip hello datagrams that were still in flight when the session opened.
func (r *liveRunner) nextUp(buf []byte, target conn.Addr, wait time.Duration) (n int, payload []byte, addr conn.Addr, err error) {
	for {
		n, payload, addr, err = r.recvUp(buf, target, wait)
		if err != nil || !r.stale(payload) {
			return
		}
	}
}

func (r *liveRunner) nextDown(l *link, buf []byte, wait time.Duration) (n int, payload []byte, addr netip.AddrPort, err error) {
	for {
		n, payload, addr, err = r.recvDown(l, buf, wait)
		if err != nil || !r.stale(payload) {
			return
		}
	}
}

// sendDown packs a reply from source with the upstream server's real packer and sends it to the relay's client
// socket.  It returns false if the server packer refuses the payload.
func (r *liveRunner) sendDown(omtu int, source netip.AddrPort, payload []byte) (bool, error) {
	if r.g.Cp == "direct" {
		if len(payload) > zerocopy.MaxPacketSizeForAddr(omtu, r.nat.Addr()) {
			return false, nil
		}
		_, err := r.u.WriteToUDPAddrPort(payload, r.nat)
		return true, err
	}
	sp, err := r.ups.serverPacker(r.ctx)
	if err != nil {
		return false, err
	}
	h := sp.ServerPackerInfo().Headroom
	b := make([]byte, h.Front+len(payload)+h.Rear)
	copy(b[h.Front:], payload)
	s, n, err := sp.PackInPlace(b, source, h.Front, len(payload), zerocopy.MaxPacketSizeForAddr(omtu, r.nat.Addr()))
	if err != nil {
		if errors.Is(err, zerocopy.ErrPayloadTooBig) {
			return false, nil
		}
		return false, err
	}
	_, err = r.u.WriteToUDPAddrPort(b[s:s+n], r.nat)
	return true, err
}

// recvDown reads the next datagram at the downstream client and unpacks it with the client's real unpacker.
func (r *liveRunner) recvDown(l *link, buf []byte, wait time.Duration) (n int, payload []byte, addr netip.AddrPort, err error) {
	const front = 64
	var src netip.AddrPort
	n, src, err = recv(r.d, buf[front:], wait)
	if err != nil {
		return
	}
	if r.g.Sp == "direct" {
		return n, buf[front : front+n], netip.AddrPort{}, nil
	}
	var ps, pl int
	addr, ps, pl, err = l.cu.UnpackInPlace(buf, src, front, n)
	if err != nil {
		err = fmt.Errorf("downstream unpack: %w", err)
		return
	}
	return n, buf[ps : ps+pl], addr, nil
}

// repoint sends a hello through the session replies belong to, so that the upstream side's idea of the relay's
// client socket and session is current again (a stale datagram of another session may have moved it).
func (r *liveRunner) repoint(buf []byte) {
	hello := []byte(fmt.Sprintf("C05-HELLO-POINT-%d", r.seq))
	if sent, err := r.sendUp(r.last, r.htgt, hello); err != nil || !sent {
		return
	}
	for {
		_, got, _, err := r.recvUp(buf, r.htgt, liveWait/2)
		if err != nil || bytes.Equal(got, hello) {
			return
		}
	}
}

func fence(seq uint32) []byte {
	return binary.BigEndian.AppendUint32([]byte("C05-FENCE-"), seq)
}

// duplicates of a retried case may still be in flight when it ends
func (r *liveRunner) settle(attempt int, buf []byte) {
	if attempt > 0 {
		r.quiet(buf)
	}
}

const liveWait = 10 * time.Second

// runUp sends one uplink case through the live relay.
func (r *liveRunner) runUp(e *expJ, buf []byte) {
	c := &e.C
	l, err := r.down(c.Omtu)
	if err != nil {
		r.res.Break("live: downstream link: %v", err)
		return
	}
	target, err := connAddr(c.A)
	if err != nil {
		r.res.Break("live: %v", err)
		return
	}
	if c.Cp == "direct" {
		target = conn.AddrFromIPPort(r.uAP) // the only target a loopback relay can reach
	}
	payload := make([]byte, c.L)
	r.fill(payload)
	deliver := e.St == "done"
	attempt := 0
	defer func() { r.settle(attempt, buf) }()
	for ; ; attempt++ {
		sent, err := r.sendUp(l, target, payload)
		if err != nil {
			r.res.Break("live: sending uplink: %v", err)
			return
		}
		if !sent {
			if !e.O.E {
				r.violation(e, r.kp+"/fitting-payload-refused:"+codecName(c.Sp), "the downstream client's packer refuses a payload the model packs", "packed", "ErrPayloadTooBig")
			}
			return
		}
		r.seq++
		f := fence(r.seq)
		if ok, err := r.sendUp(l, target, f); err != nil || !ok {
			r.res.Break("live: sending the fence: %v", err)
			return
		}
		n, got, addr, err := r.nextUp(buf, target, liveWait)
		if err == nil {
			r.last = l
		}
		if err != nil {
			if errors.Is(err, errTimeout) {
				if attempt < 3 {
					r.res.Count("live_timeouts_retried", 1)
					continue // loss and starvation are not statements of the property: once more
				}
				r.res.Break("live: neither the datagram nor its fence arrived upstream (%s->%s)", c.Sp, c.Cp)
			} else {
				r.violation(e, r.kp+"/upstream-rejects:"+codecName(c.Cp), "the upstream server cannot unpack what the relay sent: "+err.Error(), nil, nil)
			}
			return
		}
		isFence := bytes.Equal(got, f)
		switch {
		case isFence && deliver:
			if attempt < 2 {
				continue // a lost datagram is not a statement about the relay: once more
			}
			r.violation(e, r.kp+"/fitting-datagram-dropped:"+codecName(c.Cp), fmt.Sprintf("the relay did not forward a payload of %d bytes that fits (three times), the fence behind it arrived", c.L), "forwarded", "dropped")
			return
		case isFence:
			r.res.Count("live_dropped_as_expected", 1)
			return
		}
		// the datagram itself arrived: drain its fence afterwards
		if w := wireSize(n, c.Ufam); w > c.Cmtu {
			r.violation(e, r.kp+"/exceeds-mtu:"+codecName(c.Cp), fmt.Sprintf("the relay sent a datagram of %d bytes: an IP packet of %d bytes over %s, client MTU %d", n, w, c.Ufam, c.Cmtu), c.Cmtu, w)
		}
		if !deliver {
			r.violation(e, r.kp+"/oversize-forwarded:"+codecName(c.Cp), fmt.Sprintf("the relay forwarded a payload of %d bytes as a datagram of %d bytes, the model refuses it (stage %s)", c.L, n, e.St), e.St, n)
		}
		if !bytes.Equal(got, payload) {
			r.violation(e, r.kp+"/payload-changed:"+codecName(c.Cp), fmt.Sprintf("payload of %d bytes arrived as %d bytes / different bytes", len(payload), len(got)), len(payload), len(got))
		}
		if !sameAddr(target, addr) {
			r.violation(e, r.kp+"/address-changed:"+codecName(c.Cp), "the address arrived different", target.String(), addr.String())
		}
		r.res.Count("live_delivered", 1)
		for {
			_, got2, _, err := r.nextUp(buf, target, liveWait)
			if err == nil && attempt > 0 && bytes.Equal(got2, payload) {
				continue // a duplicate of the retried datagram
			}
			if err != nil || !bytes.Equal(got2, f) {
				r.res.Break("live: the fence did not follow the datagram: %v", err)
			}
			return
		}
	}
}

// runDown sends one downlink case through the live relay (the session exists: hello opened it).
func (r *liveRunner) runDown(e *expJ, buf []byte) {
	c := &e.C
	l := r.last
	src, err := connAddr(c.A)
	if err != nil {
		r.res.Break("live: %v", err)
		return
	}
	source := src.IPPort()
	if c.Cp == "direct" {
		source = r.uAP
	}
	payload := make([]byte, c.L)
	r.fill(payload)
	deliver := e.St == "done"
	attempt := 0
	defer func() { r.settle(attempt, buf) }()
	for ; ; attempt++ {
		sent, err := r.sendDown(c.Omtu, source, payload)
		if err != nil {
			r.res.Break("live: sending downlink: %v", err)
			return
		}
		if !sent {
			if !e.O.E {
				r.violation(e, r.kp+"/fitting-payload-refused:"+codecName(c.Cp), "the upstream server's packer refuses a payload the model packs", "packed", "ErrPayloadTooBig")
			}
			return
		}
		r.seq++
		f := fence(r.seq)
		if ok, err := r.sendDown(c.Omtu, source, f); err != nil || !ok {
			r.res.Break("live: sending the fence: %v", err)
			return
		}
		n, got, addr, err := r.nextDown(l, buf, liveWait)
		if err != nil {
			if errors.Is(err, errTimeout) {
				if attempt < 3 {
					r.res.Count("live_timeouts_retried", 1)
					r.repoint(buf)
					continue
				}
				r.res.Break("live: neither the reply nor its fence arrived downstream (%s<-%s)", c.Sp, c.Cp)
			} else {
				r.violation(e, r.kp+"/downstream-rejects:"+codecName(c.Sp), "the downstream client cannot unpack what the relay sent: "+err.Error(), nil, nil)
			}
			return
		}
		isFence := bytes.Equal(got, f)
		switch {
		case isFence && deliver:
			if attempt < 2 {
				r.repoint(buf)
				continue
			}
			r.violation(e, r.kp+"/fitting-datagram-dropped:"+codecName(c.Sp), fmt.Sprintf("the relay did not return a payload of %d bytes that fits (three times), the fence behind it arrived", c.L), "forwarded", "dropped")
			return
		case isFence:
			r.res.Count("live_dropped_as_expected", 1)
			return
		}
		if w := wireSize(n, c.Lfam); w > c.Smtu {
			r.violation(e, r.kp+"/exceeds-mtu:"+codecName(c.Sp), fmt.Sprintf("the relay returned a datagram of %d bytes: an IP packet of %d bytes over %s, server MTU %d", n, w, c.Lfam, c.Smtu), c.Smtu, w)
		}
		if !deliver {
			r.violation(e, r.kp+"/oversize-forwarded:"+codecName(c.Sp), fmt.Sprintf("the relay returned a payload of %d bytes as a datagram of %d bytes, the model refuses it (stage %s)", c.L, n, e.St), e.St, n)
		}
		if !bytes.Equal(got, payload) {
			r.violation(e, r.kp+"/payload-changed:"+codecName(c.Sp), fmt.Sprintf("payload of %d bytes arrived as %d bytes / different bytes", len(payload), len(got)), len(payload), len(got))
		}
		if c.Sp != "direct" && !sameAddr(conn.AddrFromIPPort(source), conn.AddrFromIPPort(addr)) {
			r.violation(e, r.kp+"/address-changed:"+codecName(c.Sp), "the source address arrived different", source.String(), addr.String())
		}
		r.res.Count("live_delivered", 1)
		for {
			_, got2, _, err := r.nextDown(l, buf, liveWait)
			if err == nil && attempt > 0 && bytes.Equal(got2, payload) {
				continue
			}
			if err != nil || !bytes.Equal(got2, f) {
				r.res.Break("live: the fence did not follow the reply: %v", err)
			}
			return
		}
	}
}

// clientSocket opens a socket of the downstream client for an address of the session model.
func clientSocket(a clientJ) (*net.UDPConn, error) {
	c, _, err := listenUDP(a.fam())
	return c, err
}

// announce sends a datagram of the session from the client's current socket and waits until the upstream side has
// it: the relay stores a session's new client address before it forwards the packet that revealed it, so from
// then on the downlink knows where the client is.  It reports the relay's client socket as upstream saw it.
func (r *liveRunner) announce(l *link, buf []byte) (netip.AddrPort, bool) {
	for i := 0; i < 40; i++ {
		r.seq++
		hello := []byte(fmt.Sprintf("C05-HELLO-AT-%d", r.seq))
		if sent, err := r.sendUp(l, r.htgt, hello); err != nil || !sent {
			r.res.Break("live: session hello: %v", err)
			return netip.AddrPort{}, false
		}
		for {
			_, got, _, err := r.recvUp(buf, r.htgt, 250*time.Millisecond)
			if err != nil {
				break
			}
			if bytes.Equal(got, hello) {
				return r.nat, true
			}
		}
	}
	r.res.Break("live: the relay %s->%s (listener %q, batch %q) never forwarded a datagram of the session sent from %s to %s", r.g.Sp, r.g.Cp, r.g.Listen, r.g.Batch, r.d.LocalAddr(), r.dst)
	return netip.AddrPort{}, false
}

// runSessions plays the group's client sessions (specs/Packet/UdpSession.tla) on the live relay: every session is
// a real Shadowsocks 2022 client session (one session id) that speaks from the sockets of its path in turn; at every
// address the model's replies are sent from the upstream side and judged where the client is now (runDown: the
// size limit of the current family, delivered intact if it fits, refused if it does not).
func (r *liveRunner) runSessions(buf []byte) {
	g := r.g
	r.kp = "udp.migrate"
	socks := map[clientJ]*net.UDPConn{}
	defer func() {
		for _, c := range socks {
			c.Close()
		}
	}()
	for si := range g.Sessions {
		s := &g.Sessions[si]
		if len(s.Stages) != len(s.Path) {
			r.res.Break("live: session %d has %d stages for %d addresses", si, len(s.Stages), len(s.Path))
			return
		}
		l, err := r.w.link(linkKey{proto: g.Sp, mtu: 1500, fam: g.Lfam, cpol: g.Opol, spol: g.Rpol, sa: netip.AddrPortFrom(netip.MustParseAddr(loopback(g.Lfam)), r.rAP.Port()), n: si + 1})
		if err != nil {
			r.res.Break("live: downstream link: %v", err)
			return
		}
		r.last = l
		var nat netip.AddrPort
		for st, a := range s.Path {
			if len(r.res.Broken) > 0 {
				return
			}
			sock := socks[a]
			if sock == nil {
				if sock, err = clientSocket(a); err != nil {
					r.res.Break("live: client socket %v: %v", a, err)
					return
				}
				socks[a] = sock
			}
			r.d, r.dst = sock, netip.AddrPortFrom(netip.MustParseAddr(loopback(a.fam())), r.rAP.Port())
			at, ok := r.announce(l, buf)
			if !ok {
				return
			}
			if st > 0 {
				r.res.Count("mig_moves", 1)
				if a.fam() != s.Path[st-1].fam() {
					r.res.Count("mig_family_changes", 1)
				}
				if at != nat {
					// the relay opened another upstream socket: it did not continue the session (not C05's subject)
					r.res.DriftNote(vio.Finding{Key: "udp.migrate/session-not-continued", Text: fmt.Sprintf("listener %q: after the client moved from %v to %v the relay's upstream socket changed from %s to %s", g.Listen, s.Path[st-1], a, nat, at)})
				}
			}
			nat = at
			for i := range s.Stages[st] {
				e := &s.Stages[st][i]
				if len(r.res.Broken) > 0 {
					return
				}
				if e.C.Dir != "down" || e.C.Lfam != a.fam() || e.Mig == nil {
					r.res.Break("live: session %d stage %d: case %s over %s while the client is at %v", si, st, e.C.Dir, e.C.Lfam, a)
					return
				}
				r.runDown(e, buf)
				r.res.AddSteps(1, 2)
				r.res.Count("mig_replies", 1)
				r.res.Seen(fmt.Sprintf("mig %s %s %v %v %s %s %d", g.Listen, g.Batch, e.Mig.Path, e.Mig.Fresh, e.C.A.K, e.St, e.R.Need-e.R.Max))
			}
		}
		r.res.Count("mig_sessions", 1)
	}
}

func methodName(keyLen int) string {
	if keyLen == 32 {
		return "2022-blake3-aes-256-gcm"
	}
	return "2022-blake3-aes-128-gcm"
}

func polName(p string) string {
	switch p {
	case "none":
		return "NoPadding"
	case "all":
		return "PadAll"
	}
	return "PadPlainDNS"
}

// tinyRefusals returns the relay's own reports that it could not pack a payload of at most 64 bytes: no MTU of
// at least 1280 makes such a payload too big, so the relay ran out of the buffer it allocated.
func tinyRefusals(logs *observer.ObservedLogs) []string {
	var out []string
	for _, ent := range logs.All() {
		if !strings.HasPrefix(ent.Message, "Failed to pack packet") {
			continue
		}
		m := ent.ContextMap()
		if n, ok := m["payloadLength"].(int64); ok && n <= 64 {
			out = append(out, fmt.Sprintf("%s %v", ent.Message, m))
		}
	}
	if len(out) > 3 {
		out = out[:3]
	}
	return out
}

// runGroup starts the real relay service of one configuration on loopback sockets and pushes the group's cases
// through it.
func runGroup(t *testing.T, res *vio.Result, w *world, g *liveGroup, seed int64) {
	ctx, cancel := context.WithCancel(context.Background())
	defer cancel()
	r := &liveRunner{t: t, res: res, w: w, g: g, ctx: ctx, rnd: uint64(seed)*977 + 31, kp: "udp.live"}
	var err error
	if r.d, r.dAP, err = listenUDP(g.Lfam); err != nil {
		res.Break("live: %v", err)
		return
	}
	defer r.d.Close()
	if r.u, r.uAP, err = listenUDP(g.Ufam); err != nil {
		res.Break("live: %v", err)
		return
	}
	defer r.u.Close()
	r.down = func(omtu int) (*link, error) {
		return w.link(linkKey{proto: g.Sp, mtu: omtu, fam: g.Lfam, cpol: g.Opol, spol: g.Rpol, sa: r.rAP, ca: r.dAP})
	}
	if r.ups, err = w.link(linkKey{proto: g.Cp, mtu: g.Cmtu, fam: g.Ufam, cpol: g.Rpol, spol: g.Opol, up: true, sa: r.uAP}); err != nil {
		res.Break("live: upstream link: %v", err)
		return
	}
	dKeyLen, dUpsk, dIpsks := linkKeys(w.seed, g.Sp, g.Lfam, false)
	b64 := func(b []byte) string { return base64.StdEncoding.EncodeToString(b) }
	dir := t.TempDir()

	// the relay under test: one server of protocol sp, client c of protocol cp pointing at the upstream socket
	listenAddr := net.JoinHostPort(loopback(g.Lfam), "0")
	if g.Listen == "dual" {
		listenAddr = "[::]:0"
	}
	sc := map[string]any{"name": "front", "protocol": protoName[g.Sp], "mtu": g.Smtu, "paddingPolicy": polName(g.Rpol),
		"udpListeners": []map[string]any{{"network": "udp", "address": listenAddr, "batchMode": g.Batch, "relayBatchSize": 8, "serverRecvBatchSize": 8,
			"natTimeout": "70s"}}}
	var tunnel conn.Addr
	switch g.Sp {
	case "ss0":
		sc["protocol"], sc["psk"] = methodName(dKeyLen), b64(dUpsk)
	case "ss1":
		store := filepath.Join(dir, "upsks.json")
		if err := os.WriteFile(store, []byte(`{"user":"`+b64(dUpsk)+`"}`), 0o600); err != nil {
			res.Break("live: %v", err)
			return
		}
		sc["protocol"], sc["psk"], sc["uPSKStorePath"] = methodName(dKeyLen), b64(dIpsks[0]), store
	case "direct":
		// the tunnel target is configuration: the group's cases share it
		if g.Cp == "direct" {
			tunnel = conn.AddrFromIPPort(r.uAP)
		} else if len(g.Cases) > 0 {
			if tunnel, err = connAddr(g.Cases[0].C.A); err != nil {
				res.Break("live: %v", err)
				return
			}
		}
		sc["tunnelRemoteAddress"] = tunnel.String()
	}
	cc := map[string]any{"name": "c", "protocol": protoName[g.Cp], "enableUDP": true, "mtu": g.Cmtu, "paddingPolicy": polName(g.Rpol)}
	if g.Cp != "direct" {
		cc["endpoint"] = r.uAP.String()
	}
	if isSS(g.Cp) {
		cc["protocol"], cc["psk"] = methodName(r.ups.keyLen), b64(r.ups.upsk)
		var ipsks []string
		for _, k := range r.ups.ipsks {
			ipsks = append(ipsks, b64(k))
		}
		if len(ipsks) > 0 {
			cc["iPSKs"] = ipsks
		}
	}
	if g.Cp == "socks5" {
		network := "tcp4"
		if g.Ufam == "v6" {
			network = "tcp6"
		}
		ln, err := net.Listen(network, net.JoinHostPort(loopback(g.Ufam), "0"))
		if err != nil {
			res.Break("live: %v", err)
			return
		}
		defer ln.Close()
		go socks5Associate(ln, r.uAP)
		cc["endpoint"] = ln.Addr().String()
	}
	clients := []map[string]any{cc}
	if g.Allc {
		// every other client protocol configured as well: the service sizes its buffers for the largest packer
		for _, p := range clientProtos {
			if p == g.Cp {
				continue
			}
			oc := map[string]any{"name": "other-" + p, "protocol": protoName[p], "enableUDP": true, "mtu": 1500}
			if p != "direct" {
				oc["endpoint"] = "192.0.2.1:1080"
			}
			if isSS(p) {
				oc["psk"] = b64(derive("live/other", 1, 16))
				var ipsks []string
				for i := 0; i < eihOf(p); i++ {
					ipsks = append(ipsks, b64(derive(fmt.Sprintf("live/other%d", i), 1, 16)))
				}
				if len(ipsks) > 0 {
					oc["iPSKs"] = ipsks
				}
			}
			clients = append(clients, oc)
		}
	}
	doc, err := json.Marshal(map[string]any{"servers": []map[string]any{sc}, "clients": clients, "router": map[string]any{"defaultUDPClientName": "c"}})
	if err != nil {
		res.Break("live: %v", err)
		return
	}
	var cfg service.Config
	if err := json.Unmarshal(doc, &cfg); err != nil {
		res.Break("live: configuration: %v\n%s", err, doc)
		return
	}
	// the listener binds port 0; its address is what the service logs when it has started
	obsCore, logs := observer.New(zap.InfoLevel)
	logger := zap.New(obsCore)
	brokenBefore := len(res.Broken)
	defer func() {
		// a datagram or fence that never arrives is a harness failure, unless the relay itself says that it could
		// not pack a payload of a few bytes: then the buffer it computed is the finding
		if ref := tinyRefusals(logs); len(ref) > 0 {
			e := &expJ{C: caseJ{Dir: "-", Sp: g.Sp, Cp: g.Cp, Smtu: g.Smtu, Cmtu: g.Cmtu, Omtu: 1500, Lfam: g.Lfam, Ufam: g.Ufam, A: addrJ{K: "-"},
				Opol: g.Opol, Rpol: g.Rpol, Psm: "adv", Allc: g.Allc}, St: "done"}
			r.violation(e, "udp.live/fitting-datagram-dropped:"+codecName(g.Sp)+">"+codecName(g.Cp), fmt.Sprintf("the relay cannot pack a payload of a few bytes in the buffer it allocated: %v", ref), "forwarded", "dropped")
			res.Broken = res.Broken[:brokenBefore]
		}
	}()
	if os.Getenv("VERIF_C05_DEBUG") != "" {
		dev, _ := zap.NewDevelopment()
		logger = zap.New(zapcore.NewTee(obsCore, dev.Core()))
	}
	m, err := cfg.Manager(logger)
	if err != nil {
		res.Break("live: service.Config.Manager: %v", err)
		return
	}
	done := make(chan bool, 1)
	go func() { done <- m.Run(ctx) }()
	defer func() {
		// let the relay goroutines finish with the last datagram, then stop.  A relay whose Stop does not return
		// promptly (a session re-arming its timeout while Stop runs is property C12's subject, not this one's) is
		// left behind: its sessions end with their NAT timeout.
		time.Sleep(20 * time.Millisecond)
		cancel()
		select {
		case <-done:
			m.Close()
		case <-time.After(3 * time.Second):
			res.Count("live_relays_left_stopping", 1)
		}
	}()
	for i := 0; i < 3000 && !r.rAP.IsValid(); i++ {
		for _, ent := range logs.All() {
			if la, ok := ent.ContextMap()["listenAddress"].(string); ok {
				if ap, err := netip.ParseAddrPort(la); err == nil && ap.Port() != 0 {
					r.rAP = netip.AddrPortFrom(ap.Addr().Unmap(), ap.Port())
				}
			}
		}
		if !r.rAP.IsValid() {
			select {
			case ok := <-done:
				done <- ok
				res.Break("live: the relay %s->%s did not start: %v", g.Sp, g.Cp, logs.All())
				return
			case <-time.After(10 * time.Millisecond):
			}
		}
	}
	if !r.rAP.IsValid() {
		res.Break("live: the relay %s->%s did not report its listener", g.Sp, g.Cp)
		return
	}
	buf := make([]byte, 64+140000)
	target := tunnel
	if !target.IsValid() {
		target = conn.AddrFromIPAndPort(ip4, 443)
		if g.Cp == "direct" {
			target = conn.AddrFromIPPort(r.uAP)
		}
	}
	r.htgt = target
	if len(g.Sessions) > 0 {
		r.runSessions(buf)
		return
	}
	d0, err := r.down(1500)
	if err != nil {
		res.Break("live: downstream link: %v", err)
		return
	}

	// hello: open the session both ways (retried while the listener comes up)
	ok := false
	for i := 0; i < 40 && !ok; i++ {
		hello := []byte(fmt.Sprintf("C05-HELLO-%d", i))
		if sent, err := r.sendUp(d0, target, hello); err != nil || !sent {
			res.Break("live: hello: %v", err)
			return
		}
		for {
			_, got, _, err := r.recvUp(buf, target, 250*time.Millisecond)
			if err != nil {
				break
			}
			if bytes.Equal(got, hello) {
				ok = true
				break
			}
		}
	}
	if !ok {
		var refusals []string
		for _, ent := range logs.All() {
			if strings.HasPrefix(ent.Message, "Failed to pack packet") {
				refusals = append(refusals, fmt.Sprintf("%s %s %v", ent.Level, ent.Message, ent.ContextMap()))
			}
		}
		if len(refusals) > 0 {
			if len(refusals) > 3 {
				refusals = refusals[:3]
			}
			e := &expJ{C: caseJ{Dir: "up", Sp: g.Sp, Cp: g.Cp, Smtu: g.Smtu, Cmtu: g.Cmtu, Omtu: 1500, Lfam: g.Lfam, Ufam: g.Ufam, A: kindOf(target),
				L: 11, Opol: g.Opol, Rpol: g.Rpol, Psm: "adv", Allc: g.Allc}, St: "done"}
			r.violation(e, "udp.live/fitting-datagram-dropped:"+codecName(g.Cp), fmt.Sprintf("the relay cannot pack a datagram of a few bytes in the buffer it allocated: %v", refusals), "forwarded", "dropped")
			return
		}
		res.Break("live: the relay %s->%s never forwarded the hello datagram", g.Sp, g.Cp)
		return
	}
	r.last = d0
	// ... and back, so that the relay's downlink and the downstream client's view of the server session exist
	reply := []byte("C05-HELLO-BACK")
	src := netip.AddrPortFrom(ip4, 443)
	if g.Cp == "direct" {
		src = r.uAP
	}
	back := false
	for i := 0; i < 6 && !back; i++ {
		if sent, err := r.sendDown(1500, src, reply); err != nil || !sent {
			res.Break("live: hello reply: %v", err)
			return
		}
		_, got, _, err := r.recvDown(d0, buf, liveWait/2)
		back = err == nil && bytes.Equal(got, reply)
		if !back {
			res.Count("live_timeouts_retried", 1)
			// the relay's client socket as of the latest datagram
			if sent, err := r.sendUp(d0, target, []byte("C05-HELLO-AGAIN")); err == nil && sent {
				r.recvUp(buf, target, liveWait/2)
			}
		}
	}
	if !back {
		var tail, refusals []string
		for _, ent := range logs.All() {
			line := fmt.Sprintf("%s %s %v", ent.Level, ent.Message, ent.ContextMap())
			tail = append(tail, line)
			if strings.HasPrefix(ent.Message, "Failed to pack packet") {
				refusals = append(refusals, line)
			}
		}
		if len(tail) > 12 {
			tail = tail[len(tail)-12:]
		}
		if len(refusals) > 0 {
			// the relay itself reports that it could not pack a reply of a few bytes
			if len(refusals) > 3 {
				refusals = refusals[:3]
			}
			e := &expJ{C: caseJ{Dir: "down", Sp: g.Sp, Cp: g.Cp, Smtu: g.Smtu, Cmtu: g.Cmtu, Omtu: 1500, Lfam: g.Lfam, Ufam: g.Ufam, A: addrJ{K: "v4", Port: 443},
				L: len(reply), Opol: g.Opol, Rpol: g.Rpol, Psm: "adv", Allc: g.Allc}, St: "done"}
			r.violation(e, "udp.live/fitting-datagram-dropped:"+codecName(g.Sp), fmt.Sprintf("the relay cannot pack a reply of %d bytes in the buffer it allocated: %v", len(reply), refusals), "forwarded", "dropped")
			return
		}
		res.Break("live: the relay %s<-%s (batch %q) never returned the hello reply; nat %s; relay log: %v", g.Sp, g.Cp, g.Batch, r.nat, tail)
		return
	}
	// drain replies of retried hellos
	for back {
		_, got, _, err := r.recvDown(d0, buf, 50*time.Millisecond)
		back = err == nil && bytes.Equal(got, reply)
	}

	for i := range g.Cases {
		e := &g.Cases[i]
		if len(res.Broken) > 0 {
			return
		}
		if e.C.Dir == "up" {
			r.runUp(e, buf)
		} else {
			r.runDown(e, buf)
		}
		res.AddSteps(1, 2)
	}
}

// TestLive pushes cases of the model through real relay services on loopback sockets: the receive paths
// (recvmmsg and plain), the NAT / session tables, the buffers the relay goroutines allocate and their own
// headroom and size arithmetic are the program's.
func TestLive(t *testing.T) {
	in, err := vio.ReadInput()
	if err != nil {
		t.Skip(err)
	}
	res := vio.NewResult()
	defer func() {
		if err := res.Write(); err != nil {
			t.Fatal(err)
		}
	}()
	var groups []liveGroup
	if !in.Param("groups", &groups) {
		res.Break("no groups in the input")
		return
	}
	for gi := range groups {
		g := &groups[gi]
		// a fresh world per group: client sessions and server tables belong to one relay
		w := &world{seed: in.Seed + int64(gi), links: map[linkKey]*link{}, ctx: context.Background()}
		runGroup(t, res, w, g, in.Seed+int64(gi))
		res.Count("live_groups", 1)
		res.Sample(map[string]any{"live": g.header(), "cases": len(g.Cases)}, 2)
		if len(res.Broken) > 0 {
			return
		}
	}
}
