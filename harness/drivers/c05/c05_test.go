//go:build verif

// Package c05 replays the cases of specs/Packet/UdpLayout.tla (property C05) on the real UDP codecs: every case is
// the journey of one datagram through one relay hop (sender packs, relay receives into a buffer of the size the
// service computed, relay unpacks, relay re-packs for the other protocol in place, next hop unpacks), executed
// with the real packers and unpackers in canary-filled buffers.
package c05

import (
	"bytes"
	"context"
	"encoding/json"
	"errors"
	"fmt"
	"net/netip"
	"sort"
	"testing"

	"github.com/database64128/shadowsocks-go/conn"
	"github.com/database64128/shadowsocks-go/zerocopy"

	"verif/harness/internal/vio"
)

type caseJ struct {
	Dir  string `json:"dir"`
	Sp   string `json:"sp"`
	Cp   string `json:"cp"`
	Smtu int    `json:"smtu"`
	Cmtu int    `json:"cmtu"`
	Omtu int    `json:"omtu"`
	Lfam string `json:"lfam"`
	Ufam string `json:"ufam"`
	A    addrJ  `json:"a"`
	L    int    `json:"L"`
	Opol string `json:"opol"`
	Rpol string `json:"rpol"`
	Psm  string `json:"psm"`
	Allc bool   `json:"allc"`
	Lm   string `json:"lm"`
}

// packJ is the model's Pack record (MCUdpLayout!P).
type packJ struct {
	E    bool `json:"e"`
	S    int  `json:"s"`
	Ln   int  `json:"l"`
	P    int  `json:"p"`
	Lo   int  `json:"lo"`
	Hi   int  `json:"hi"`
	H    int  `json:"h"`
	Need int  `json:"need"`
	Max  int  `json:"max"`
	Bud  int  `json:"bud"`
	Room int  `json:"room"`
	Sp   bool `json:"sp"`
	Ps   int  `json:"ps"`
	Bl   int  `json:"bl"`
}

type bufJ struct {
	Front int `json:"front"`
	Rear  int `json:"rear"`
	Recv  int `json:"recv"`
	Len   int `json:"len"`
}

type unpJ struct {
	Ps int   `json:"ps"`
	Pl int   `json:"pl"`
	A  addrJ `json:"a"`
}

type expJ struct {
	C  caseJ  `json:"c"`
	St string `json:"st"`
	O  packJ  `json:"o"`
	Rb bufJ   `json:"rb"`
	U1 unpJ   `json:"u1"`
	R  packJ  `json:"r"`
	U2 unpJ   `json:"u2"`
	// Gen is the "generous" payloadStart distance of the run that produced the case (0: the run's parameter)
	Gen int `json:"gen,omitempty"`
	// Mig is set on the replies of a session that changes its address (specs/Packet/UdpSession.tla, live_test.go)
	Mig *migJ `json:"mig,omitempty"`
}

type params struct {
	PadCap int `json:"padCap"`
	Gen    int `json:"gen"`
}

// physical size of the IP packet that carries a UDP datagram of n bytes (RFC 791, RFC 8200, RFC 768, RFC 2675)
func wireSize(n int, fam string) int {
	if fam == "v4" {
		return 20 + 8 + n
	}
	if 8+n > 65535 {
		return 40 + 8 + 8 + n
	}
	return 40 + 8 + n
}

func famOfAddr(a netip.Addr) string {
	if a.Is4() || a.Is4In6() {
		return "v4"
	}
	return "v6"
}

// canary fills b with a position-dependent pattern.
func canary(b []byte, salt int) {
	for i := range b {
		b[i] = byte(0x5a + i*31 + salt*17)
	}
}

// touched returns the first index outside [lo, hi) where b differs from ref, or -1.
func touched(b, ref []byte, lo, hi int) int {
	if lo < 0 {
		lo = 0
	}
	if hi > len(b) {
		hi = len(b)
	}
	if lo > len(b) {
		lo = len(b)
	}
	if hi < lo {
		hi = lo
	}
	if !bytes.Equal(b[:lo], ref[:lo]) {
		for i := 0; i < lo; i++ {
			if b[i] != ref[i] {
				return i
			}
		}
	}
	if !bytes.Equal(b[hi:], ref[hi:]) {
		for i := hi; i < len(b); i++ {
			if b[i] != ref[i] {
				return i
			}
		}
	}
	return -1
}

type runner struct {
	t   *testing.T
	w   *world
	res *vio.Result
	prm params
	svc map[svcKey]relayBuf
	ctx context.Context
	rnd uint64
}

func (r *runner) next() uint64 {
	r.rnd = r.rnd*6364136223846793005 + 1442695040888963407
	return r.rnd >> 33
}

func (r *runner) fill(b []byte) {
	for i := range b {
		if i%8 == 0 {
			r.rnd = r.rnd*6364136223846793005 + 1442695040888963407
		}
		b[i] = byte(r.rnd >> (8 * (uint(i) % 8)))
	}
}

type finding struct {
	key, text string
	exp, obs  any
}

// packOutcome is what a real PackInPlace did.
type packOutcome struct {
	start, n int
	err      error
	dest     netip.AddrPort
	panicked any
}

// callPack runs a packer and turns an index-out-of-range panic (the runtime's refusal of a write outside the
// buffer) into a result.
func callPack(f func() (netip.AddrPort, int, int, error)) (out packOutcome) {
	defer func() {
		if p := recover(); p != nil {
			out.panicked = p
		}
	}()
	out.dest, out.start, out.n, out.err = f()
	return
}

// judgePack evaluates the property on one PackInPlace: refusal exactly when the payload cannot fit, packet inside
// the buffer, nothing written outside the packet, packet within the size the MTU allows.  stage is "origin" or
// "relay".  ref is the buffer before the call.  It returns the findings and the observed padding.
func (r *runner) judgePack(stage, proto string, m *packJ, o packOutcome, b, ref []byte, L, mtu int, fam string) (fs []finding, pad int, drift []string) {
	codec := codecName(proto)
	if o.panicked != nil {
		fs = append(fs, finding{key: "udp." + stage + "/pack-panics:" + codec, text: fmt.Sprintf("PackInPlace panicked in a buffer of %d bytes, payloadStart as the caller computes it: %v", len(b), o.panicked)})
		return
	}
	tooBig := errors.Is(o.err, zerocopy.ErrPayloadTooBig)
	// the property's refusal rule: exactly the payloads whose smallest packet exceeds the limit (the model's own
	// outcome m.E differs from it only where the model itself violates TooBigIsRefused / RelaySafe)
	mustRefuse := m.Need > m.Max
	switch {
	case o.err != nil && !tooBig:
		fs = append(fs, finding{key: "udp." + stage + "/pack-fails:" + codec, text: "PackInPlace failed with an error other than ErrPayloadTooBig: " + o.err.Error()})
		return
	case tooBig && !mustRefuse:
		fs = append(fs, finding{key: "udp." + stage + "/fitting-payload-refused:" + codec,
			text: fmt.Sprintf("a payload of %d bytes needs a packet of %d bytes, the limit is %d, yet PackInPlace refused it", L, m.Need, m.Max), exp: "packed", obs: o.err.Error()})
	case !tooBig && mustRefuse:
		fs = append(fs, finding{key: "udp." + stage + "/oversize-accepted:" + codec,
			text: fmt.Sprintf("a payload of %d bytes needs a packet of %d bytes, the limit is %d, yet PackInPlace produced a packet of %d bytes", L, m.Need, m.Max, o.n), exp: "ErrPayloadTooBig", obs: o.n})
	}
	lo, hi := o.start, o.start+o.n
	if o.err == nil {
		if o.start < 0 || o.n < 0 || hi > len(b) {
			fs = append(fs, finding{key: "udp." + stage + "/packet-outside-buffer:" + codec,
				text: fmt.Sprintf("packet [%d,%d) does not lie in the buffer of %d bytes", o.start, hi, len(b)), obs: []int{o.start, o.n, len(b)}})
			return
		}
		if w := wireSize(o.n, fam); w > mtu {
			fs = append(fs, finding{key: "udp." + stage + "/exceeds-mtu:" + codec,
				text: fmt.Sprintf("packet of %d bytes makes an IP packet of %d bytes over %s, MTU %d", o.n, w, fam, mtu), exp: mtu, obs: w})
		} else if o.n > m.Max {
			fs = append(fs, finding{key: "udp." + stage + "/exceeds-mtu:" + codec,
				text: fmt.Sprintf("packet of %d bytes exceeds the size derived from MTU %d over %s: %d", o.n, mtu, fam, m.Max), exp: m.Max, obs: o.n})
		}
		pad = o.n - m.Need
		if pad < 0 {
			fs = append(fs, finding{key: "udp." + stage + "/packet-truncated:" + codec,
				text: fmt.Sprintf("packet of %d bytes is shorter than header + payload + tag = %d", o.n, m.Need), exp: m.Need, obs: o.n})
		}
	} else if o.n == 0 {
		lo, hi = 0, 0
	}
	if i := touched(b, ref, lo, hi); i >= 0 {
		fs = append(fs, finding{key: "udp." + stage + "/writes-outside-packet:" + codec,
			text: fmt.Sprintf("byte %d of the buffer changed, the packet is [%d,%d)", i, lo, hi), obs: i})
	}
	return
}

func (r *runner) report(idx int, e *expJ, step int, fs []finding) {
	for _, f := range fs {
		r.res.Violation(vio.Finding{Key: f.key, Text: fmt.Sprintf("%s  [case %s %s->%s addr %s L=%d mtu s/c/o=%d/%d/%d fam %s/%s pol %s/%s ps=%s allc=%v]",
			f.text, e.C.Dir, e.C.Sp, e.C.Cp, e.C.A, e.C.L, e.C.Smtu, e.C.Cmtu, e.C.Omtu, e.C.Lfam, e.C.Ufam, e.C.Opol, e.C.Rpol, e.C.Psm, e.C.Allc),
			Behaviour: idx, Step: step, Expected: f.exp, Observed: f.obs, Replay: e})
	}
}

func (r *runner) drift(idx int, e *expJ, step int, text string, exp, obs any) {
	r.res.DriftNote(vio.Finding{Key: "udp.layout/model-differs", Text: text, Behaviour: idx, Step: step, Expected: exp, Observed: obs, Replay: e})
}

// runCase executes one case.  It returns the number of real calls made.
func (r *runner) runCase(idx int, e *expJ) int {
	c := &e.C
	up := c.Dir == "up"
	steps := 0
	target, err := connAddr(c.A)
	if err != nil {
		r.res.Break("case %d: %v", idx, err)
		return 0
	}
	// the two links of the relay: downstream (server protocol) and upstream (client protocol)
	var dk, uk linkKey
	if up {
		dk = linkKey{proto: c.Sp, mtu: c.Omtu, fam: c.Lfam, cpol: c.Opol, spol: "none", up: false}
		uk = linkKey{proto: c.Cp, mtu: c.Cmtu, fam: c.Ufam, cpol: c.Rpol, spol: "none", up: true}
	} else {
		dk = linkKey{proto: c.Sp, mtu: 1500, fam: c.Lfam, cpol: "none", spol: c.Rpol, up: false}
		uk = linkKey{proto: c.Cp, mtu: c.Cmtu, fam: c.Ufam, cpol: "none", spol: c.Opol, up: true}
	}
	down, err := r.w.link(dk)
	if err != nil {
		r.res.Break("case %d: downstream link: %v", idx, err)
		return 0
	}
	ups, err := r.w.link(uk)
	if err != nil {
		r.res.Break("case %d: upstream link: %v", idx, err)
		return 0
	}

	// ---- 1. the sender packs
	var (
		oHead   zerocopy.Headroom
		oPack   func(b []byte, ps, n int) (netip.AddrPort, int, int, error)
		oMtu    = c.Omtu
		oFam    string
		oProto  string
		srcAddr netip.AddrPort // source address of a server message
	)
	if up {
		oProto, oFam = c.Sp, c.Lfam
		oHead = down.cp.ClientPackerInfo().Headroom
		if oHead != down.cpHead {
			r.drift(idx, e, 0, "ClientPackerInfo and UDPClient.Info advertise different headroom", down.cpHead, oHead)
		}
		t := target
		if c.Sp == "direct" {
			// a raw sender addresses the relay's listener; the tunnel target is the server's configuration
			t = conn.AddrFromIPPort(down.serverAddr)
		}
		oPack = func(b []byte, ps, n int) (netip.AddrPort, int, int, error) {
			return down.cp.PackInPlace(r.ctx, b, t, ps, n)
		}
	} else {
		oProto, oFam = c.Cp, c.Ufam
		sp, err := ups.serverPacker(r.ctx)
		if err != nil {
			r.res.Break("case %d: %v", idx, err)
			return 0
		}
		oHead = sp.ServerPackerInfo().Headroom
		srcAddr = target.IPPort()
		maxLen := zerocopy.MaxPacketSizeForAddr(c.Omtu, ups.clientAddr.Addr())
		oPack = func(b []byte, ps, n int) (netip.AddrPort, int, int, error) {
			s, l, err := sp.PackInPlace(b, srcAddr, ps, n, maxLen)
			return netip.AddrPort{}, s, l, err
		}
	}
	var ps int
	switch c.Psm {
	case "min":
		ps = e.O.H
	case "min1":
		ps = e.O.H + 1
	case "adv":
		ps = oHead.Front
	default:
		ps = oHead.Front + r.prm.Gen
		if e.Gen > 0 {
			ps = oHead.Front + e.Gen
		}
	}
	if ps != e.O.Ps {
		r.drift(idx, e, 0, "the sender's advertised headroom differs from the model's constant", e.O.Ps, ps)
	}
	b1 := make([]byte, ps+c.L+oHead.Rear)
	canary(b1, idx)
	payload := make([]byte, c.L)
	r.fill(payload)
	copy(b1[ps:], payload)
	ref1 := bytes.Clone(b1)
	o1 := callPack(func() (netip.AddrPort, int, int, error) { return oPack(b1, ps, c.L) })
	steps++
	fs, pad1, _ := r.judgePack("origin", oProto, &e.O, o1, b1, ref1, c.L, oMtu, oFam)
	if len(fs) > 0 {
		r.report(idx, e, 0, fs)
		return steps
	}
	if o1.err != nil {
		return steps // refused as the model says
	}
	if bound := max(0, min(e.O.Bud, ps-e.O.H, r.prm.PadCap)); pad1 > bound || (pad1 > 0 && !e.O.Sp) {
		r.drift(idx, e, 0, "padding outside the bound / policy of the model", bound, pad1)
	}
	if o1.start+o1.n != ps+c.L+(e.O.Need-e.O.H-c.L) {
		r.drift(idx, e, 0, "the packet does not end where payload and tag end", ps+c.L, o1.start+o1.n)
	}
	if pad1 == 0 && (o1.start != ps-e.O.H || o1.n != e.O.Need) {
		r.drift(idx, e, 0, "unpadded packet position differs from the model", []int{ps - e.O.H, e.O.Need}, []int{o1.start, o1.n})
	}

	// ---- 2. the relay receives it in the buffer the service computed
	var rb relayBuf
	if up {
		name := c.Cp
		if c.Allc {
			name = "all"
		}
		var ok bool
		if rb, ok = r.svc[svcKey{name, c.Sp, c.Smtu}]; !ok {
			// the exported arithmetic of ServerConfig.UDPRelay on the headroom the real objects advertise
			maxCP := ups.cpHead
			if c.Allc {
				for _, p := range clientProtos {
					l, err := r.w.link(linkKey{proto: p, mtu: c.Cmtu, fam: c.Ufam, cpol: "none", spol: "none", up: true})
					if err != nil {
						r.res.Break("case %d: %v", idx, err)
						return steps
					}
					maxCP = zerocopy.MaxHeadroom(maxCP, l.cpHead)
				}
			}
			h := zerocopy.UDPRelayHeadroom(maxCP, down.suHead)
			recv := zerocopy.MaxPacketSizeForAddr(c.Smtu, netip.IPv4Unspecified())
			rb = relayBuf{h.Front, recv, h.Front + recv + h.Rear, "zerocopy.UDPRelayHeadroom"}
			r.res.Count("service_numbers_from_helpers", 1)
		}
	} else {
		// relayNatConnToServerConn*: headroom from the two Info methods, receive size = the client session's MaxPacketSize
		sp, err := down.serverPacker(r.ctx)
		if err != nil {
			r.res.Break("case %d: %v", idx, err)
			return steps
		}
		h := zerocopy.UDPRelayHeadroom(sp.ServerPackerInfo().Headroom, ups.cu.ClientUnpackerInfo().Headroom)
		rb = relayBuf{h.Front, ups.cmax, h.Front + ups.cmax + h.Rear, "relayNatConnToServerConn arithmetic"}
	}
	if rb.Front != e.Rb.Front || rb.Recv != e.Rb.Recv || rb.Len != e.Rb.Len {
		if e.St != "refused" || e.Rb.Len != 0 {
			r.drift(idx, e, 1, "the service's buffer numbers differ from the model's formula ("+rb.Source+")", e.Rb, rb)
		}
	}
	if o1.n > rb.Recv {
		r.res.Count("dropped_by_receive_window", 1)
		if e.St != "dropped" {
			r.drift(idx, e, 1, "the datagram exceeds the receive window, the model expected it to fit", e.Rb.Recv, o1.n)
		}
		return steps
	}
	b2 := make([]byte, rb.Len)
	canary(b2, idx+1)
	copy(b2[rb.Front:], b1[o1.start:o1.start+o1.n])
	ref2 := bytes.Clone(b2)

	// ---- 3. the relay unpacks
	var (
		uAddr  conn.Addr
		uPs    int
		uPl    int
		uErr   error
		uPanic any
	)
	func() {
		defer func() { uPanic = recover() }()
		if up {
			uAddr, uPs, uPl, uErr = down.serverUnpack(b2, rb.Front, o1.n, target)
		} else {
			var ap netip.AddrPort
			src := ups.serverAddr
			if c.Cp == "direct" {
				src = srcAddr // the datagram comes from the remote host itself
			}
			ap, uPs, uPl, uErr = ups.cu.UnpackInPlace(b2, src, rb.Front, o1.n)
			uAddr = conn.AddrFromIPPort(ap)
		}
	}()
	steps++
	if bad := r.judgeUnpack("relay", oProto, idx, e, 2, uPanic, uErr, b2, ref2, rb.Front, rb.Front+o1.n, uPs, uPl, uAddr, payload, target); bad {
		return steps
	}
	if want := rb.Front + e.O.H + pad1; uPs != want {
		r.drift(idx, e, 2, "payload start after unpacking differs from the model", want, uPs)
	}
	if k := kindOf(uAddr); k.K != e.U1.A.K {
		r.drift(idx, e, 2, "address kind after unpacking differs from the model", e.U1.A.K, k.K)
	}

	// ---- 4. the relay re-packs for the other protocol, in place
	var (
		rProto string
		rMtu   int
		rFam   string
		rPack  func() (netip.AddrPort, int, int, error)
	)
	if up {
		rProto, rMtu = c.Cp, c.Cmtu
		rFam = c.Ufam
		if c.Cp == "direct" {
			rFam = famOfAddr(uAddr.IP())
		}
		rPack = func() (netip.AddrPort, int, int, error) { return ups.cp.PackInPlace(r.ctx, b2, uAddr, uPs, uPl) }
	} else {
		rProto, rMtu, rFam = c.Sp, c.Smtu, c.Lfam
		sp, err := down.serverPacker(r.ctx)
		if err != nil {
			r.res.Break("case %d: %v", idx, err)
			return steps
		}
		maxLen := zerocopy.MaxPacketSizeForAddr(c.Smtu, down.clientAddr.Addr())
		ap := uAddr.IPPort()
		rPack = func() (netip.AddrPort, int, int, error) {
			s, l, err := sp.PackInPlace(b2, ap, uPs, uPl, maxLen)
			return netip.AddrPort{}, s, l, err
		}
	}
	ref3 := bytes.Clone(b2)
	o2 := callPack(rPack)
	steps++
	fs, pad2, _ := r.judgePack("relay", rProto, &e.R, o2, b2, ref3, uPl, rMtu, rFam)
	if len(fs) > 0 {
		r.report(idx, e, 3, fs)
		return steps
	}
	if o2.err != nil {
		return steps
	}
	if bound := max(0, min(e.R.Bud, uPs-e.R.H, r.prm.PadCap)); pad2 > bound || (pad2 > 0 && !e.R.Sp) {
		r.drift(idx, e, 3, "relay padding outside the bound / policy of the model", bound, pad2)
	}
	if pad2 == 0 && (o2.start != uPs-e.R.H || o2.n != e.R.Need) {
		r.drift(idx, e, 3, "unpadded relay packet position differs from the model", []int{uPs - e.R.H, e.R.Need}, []int{o2.start, o2.n})
	}

	// ---- 5. the next hop unpacks what the relay sent
	front := 64
	b3 := make([]byte, front+o2.n+32)
	canary(b3, idx+2)
	copy(b3[front:], b2[o2.start:o2.start+o2.n])
	ref4 := bytes.Clone(b3)
	var (
		pAddr  conn.Addr
		pPs    int
		pPl    int
		pErr   error
		pPanic any
	)
	noAddr := false
	func() {
		defer func() { pPanic = recover() }()
		switch {
		case up && c.Cp == "direct":
			// the datagram goes to the target itself
			pAddr, pPs, pPl = conn.AddrFromIPPort(o2.dest), front, o2.n
		case up:
			pAddr, pPs, pPl, pErr = ups.serverUnpack(b3, front, o2.n, target)
		case c.Sp == "direct":
			// the downstream client of a direct server receives the bare payload from the relay's address
			pPs, pPl, noAddr = front, o2.n, true
		default:
			var ap netip.AddrPort
			ap, pPs, pPl, pErr = down.cu.UnpackInPlace(b3, down.serverAddr, front, o2.n)
			pAddr = conn.AddrFromIPPort(ap)
		}
	}()
	steps++
	if noAddr {
		pAddr = target
	}
	r.judgeUnpack("peer", rProto, idx, e, 4, pPanic, pErr, b3, ref4, front, front+o2.n, pPs, pPl, pAddr, payload, target)
	if up && c.Cp != "direct" && o2.dest != ups.serverAddr {
		r.report(idx, e, 4, []finding{{key: "udp.relay/wrong-destination:" + codecName(rProto), text: "the packet is not addressed to the proxy server", exp: ups.serverAddr.String(), obs: o2.dest.String()}})
	}
	return steps
}

// judgeUnpack evaluates the round trip at an unpacker: it accepts the packet, returns the payload bytes and the
// address, and writes nothing outside the packet.  It reports whether the case must stop.
func (r *runner) judgeUnpack(stage, proto string, idx int, e *expJ, step int, panicked any, err error, b, ref []byte, lo, hi, ps, pl int, addr conn.Addr, payload []byte, want conn.Addr) bool {
	codec := codecName(proto)
	switch {
	case panicked != nil:
		r.report(idx, e, step, []finding{{key: "udp." + stage + "/unpack-panics:" + codec, text: fmt.Sprint("UnpackInPlace panicked: ", panicked)}})
		return true
	case err != nil:
		r.report(idx, e, step, []finding{{key: "udp." + stage + "/unpack-rejects:" + codec, text: "the peer's UnpackInPlace rejects the packet: " + err.Error()}})
		return true
	case ps < 0 || pl < 0 || ps+pl > len(b):
		r.report(idx, e, step, []finding{{key: "udp." + stage + "/payload-outside-buffer:" + codec, text: fmt.Sprintf("payload [%d,%d) outside the buffer of %d bytes", ps, ps+pl, len(b))}})
		return true
	}
	var fs []finding
	if !bytes.Equal(b[ps:ps+pl], payload) {
		fs = append(fs, finding{key: "udp." + stage + "/payload-changed:" + codec, text: fmt.Sprintf("payload of %d bytes came out as %d bytes / different bytes", len(payload), pl), exp: len(payload), obs: pl})
	}
	if !sameAddr(want, addr) {
		fs = append(fs, finding{key: "udp." + stage + "/address-changed:" + codec, text: "address came out different", exp: want.String(), obs: addr.String()})
	}
	if i := touched(b, ref, lo, hi); i >= 0 {
		fs = append(fs, finding{key: "udp." + stage + "/unpack-writes-outside-packet:" + codec, text: fmt.Sprintf("byte %d changed, the packet is [%d,%d)", i, lo, hi), obs: i})
	}
	if len(fs) > 0 {
		r.report(idx, e, step, fs)
		return true
	}
	return false
}

// TestCases replays the CASE lines of MCUdpLayout.
func TestCases(t *testing.T) {
	in, err := vio.ReadInput()
	if err != nil {
		t.Skip(err)
	}
	res := vio.NewResult()
	defer func() {
		if err := res.Write(); err != nil {
			t.Fatal(err)
		}
	}()
	var cases []expJ
	if !in.Param("cases", &cases) {
		res.Break("no cases in the input")
		return
	}
	var prm params
	if !in.Param("params", &prm) || prm.PadCap == 0 {
		res.Break("no parameters in the input")
		return
	}
	ctx := context.Background()
	r := &runner{t: t, res: res, prm: prm, ctx: ctx, rnd: uint64(in.Seed)*2654435761 + 12345,
		w: &world{seed: in.Seed, links: map[linkKey]*link{}, ctx: ctx}}
	mtuSet := map[int]bool{}
	for i := range cases {
		if cases[i].C.Dir == "up" {
			mtuSet[cases[i].C.Smtu] = true
		}
	}
	var mtus []int
	for m := range mtuSet {
		mtus = append(mtus, m)
	}
	sort.Ints(mtus)
	if len(mtus) > 0 {
		r.svc, err = serviceBuffers(t.TempDir(), mtus)
		if err != nil {
			// the relays could not be constructed or read: fall back to the exported helpers, and say so
			res.DriftNote(vio.Finding{Key: "udp.layout/service-unreadable", Text: "service.Config.Manager numbers unavailable, using zerocopy helpers: " + err.Error()})
			r.svc = map[svcKey]relayBuf{}
		}
	}
	res.Count("service_relays_read", len(r.svc))
	for i := range cases {
		e := &cases[i]
		steps := r.runCase(i, e)
		res.AddSteps(1, steps)
		c := &e.C
		res.Seen(fmt.Sprintf("%s|%s|%s|%s|%d|%s|%v|%v|%v|%v|%s|%s|%s|%d|%d|%d|%v", c.Dir, c.Sp, c.Cp, c.A.K, c.A.N, e.St, e.O.E, e.R.E, e.O.Sp, e.R.Sp,
			c.Psm, c.Lfam, c.Ufam, c.Smtu, c.Cmtu, c.Omtu, c.Allc))
		res.Count("stage_"+e.St, 1)
		if i%997 == 0 {
			b, _ := json.Marshal(e)
			res.Sample(json.RawMessage(b), 4)
		}
	}
}
