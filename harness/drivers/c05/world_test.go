//go:build verif

package c05

import (
	"context"
	"crypto/aes"
	"crypto/sha256"
	"crypto/subtle"
	"encoding/base64"
	"encoding/json"
	"errors"
	"fmt"
	"net/netip"
	"os"
	"path/filepath"
	"reflect"
	"strings"
	"sync"
	"unsafe"

	"github.com/database64128/shadowsocks-go/conn"
	"github.com/database64128/shadowsocks-go/direct"
	"github.com/database64128/shadowsocks-go/service"
	"github.com/database64128/shadowsocks-go/ss2022"
	"github.com/database64128/shadowsocks-go/zerocopy"
	"go.uber.org/zap"
)

// ---------------------------------------------------------------- concrete values of the abstract case

type addrJ struct {
	K    string `json:"k"`
	N    int    `json:"n"`
	Port int    `json:"port"`
}

func (a addrJ) String() string { return fmt.Sprintf("%s/%d:%d", a.K, a.N, a.Port) }

var (
	ip4 = netip.AddrFrom4([4]byte{10, 1, 2, 3})
	ip6 = netip.MustParseAddr("2001:db8::1:2")
)

// domainOf returns a deterministic domain name of exactly n bytes.
func domainOf(n int) string {
	const alpha = "abcdefghijklmnopqrstuvwxyz0123456789"
	var sb strings.Builder
	for i := 0; sb.Len() < n; i++ {
		if i%8 == 7 && sb.Len() < n-1 {
			sb.WriteByte('.')
		} else {
			sb.WriteByte(alpha[(i*7+n)%len(alpha)])
		}
	}
	return sb.String()
}

// connAddr renders a model address as the conn.Addr a caller would hand to a packer.
func connAddr(a addrJ) (conn.Addr, error) {
	switch a.K {
	case "v4":
		return conn.AddrFromIPAndPort(ip4, uint16(a.Port)), nil
	case "m4":
		return conn.AddrFromIPAndPort(netip.AddrFrom16(ip4.As16()), uint16(a.Port)), nil
	case "v6":
		return conn.AddrFromIPAndPort(ip6, uint16(a.Port)), nil
	case "dom":
		return conn.AddrFromDomainPort(domainOf(a.N), uint16(a.Port))
	}
	return conn.Addr{}, fmt.Errorf("unknown address kind %q", a.K)
}

// kindOf classifies a real address in the model's terms.
func kindOf(a conn.Addr) addrJ {
	if !a.IsValid() {
		return addrJ{K: "-"}
	}
	if a.IsIP() {
		ip := a.IP()
		switch {
		case ip.Is4():
			return addrJ{K: "v4", Port: int(a.Port())}
		case ip.Is4In6():
			return addrJ{K: "m4", Port: int(a.Port())}
		default:
			return addrJ{K: "v6", Port: int(a.Port())}
		}
	}
	return addrJ{K: "dom", N: len(a.Domain()), Port: int(a.Port())}
}

// sameAddr is the property's notion of "the address comes out identical": same host and port, where an
// IPv4-mapped IPv6 address and its IPv4 form are the same host (socks5.WriteAddrFrom* documents the conversion).
func sameAddr(want, got conn.Addr) bool {
	if want.IsIP() != got.IsIP() || want.Port() != got.Port() {
		return false
	}
	if want.IsIP() {
		return want.IP().Unmap() == got.IP().Unmap()
	}
	return want.Domain() == got.Domain()
}

// endpoint addresses of the two links of a relay, by address family
func relayServerAddr(fam string) netip.AddrPort { // the relay's listener as the downstream client sees it
	if fam == "v4" {
		return netip.MustParseAddrPort("192.0.2.1:1080")
	}
	return netip.MustParseAddrPort("[2001:db8:aa::1]:1080")
}
func downstreamClientAddr(fam string) netip.AddrPort { // the downstream client as the relay sees it
	if fam == "v4" {
		return netip.MustParseAddrPort("198.51.100.7:40000")
	}
	return netip.MustParseAddrPort("[2001:db8:bb::7]:40000")
}
func upstreamServerAddr(fam string) netip.AddrPort { // the upstream server as the relay's client sees it
	if fam == "v4" {
		return netip.MustParseAddrPort("203.0.113.9:8388")
	}
	return netip.MustParseAddrPort("[2001:db8:cc::9]:8388")
}
func relayClientAddr(fam string) netip.AddrPort { // the relay's client socket as the upstream server sees it
	if fam == "v4" {
		return netip.MustParseAddrPort("203.0.113.77:50000")
	}
	return netip.MustParseAddrPort("[2001:db8:cc::77]:50000")
}

func policyOf(name string) (ss2022.PaddingPolicy, error) {
	switch name {
	case "none":
		return ss2022.ParsePaddingPolicy("NoPadding")
	case "dns":
		return ss2022.ParsePaddingPolicy("PadPlainDNS")
	case "all":
		return ss2022.ParsePaddingPolicy("PadAll")
	}
	return nil, fmt.Errorf("unknown padding policy %q", name)
}

func eihOf(proto string) int {
	switch proto {
	case "ss1":
		return 1
	case "ss2":
		return 2
	case "ss3":
		return 3
	}
	return 0
}

func isSS(proto string) bool { return strings.HasPrefix(proto, "ss") }

func codecName(proto string) string {
	if isSS(proto) {
		return "ss2022"
	}
	return proto
}

func keyLenOf(proto, fam string, up bool) int {
	n := eihOf(proto) + len(fam)
	if up {
		n++
	}
	if fam == "v6" {
		n++
	}
	if n%2 == 1 {
		return 32
	}
	return 16
}

// linkKeys returns the key material of a link: AES-128 and AES-256 alternate with the link; the keys do not
// depend on MTU and policies, so that a live relay configured once serves every client session of the link.
func linkKeys(seed int64, proto, fam string, up bool) (keyLen int, upsk []byte, ipsks [][]byte) {
	keyLen = keyLenOf(proto, fam, up)
	tag := fmt.Sprintf("%s/%s/%v", proto, fam, up)
	upsk = derive("upsk/"+tag, seed, keyLen)
	for i := 0; i < eihOf(proto); i++ {
		ipsks = append(ipsks, derive(fmt.Sprintf("ipsk%d/%s", i, tag), seed, keyLen))
	}
	return
}

func derive(tag string, seed int64, n int) []byte {
	h := sha256.Sum256(fmt.Appendf(nil, "c05/%s/%d", tag, seed))
	return h[:n]
}

// ---------------------------------------------------------------- one protocol link

// link is one protocol spoken between a client side and a server side: the real client session (packer,
// unpacker, maximum packet size as the client computed it) and the real server side as a relay service keeps it
// (session table, unpackers, packers).
type link struct {
	proto string
	k     int // identity headers the client writes
	mtu   int // client's MTU
	fam   string
	// addresses
	serverAddr netip.AddrPort // where the client sends
	clientAddr netip.AddrPort // where the server sees the client
	// client side
	cp      zerocopy.ClientPacker
	cu      zerocopy.ClientUnpacker
	cmax    int               // UDPClientSession.MaxPacketSize
	cpHead  zerocopy.Headroom // UDPClient.Info().PackerHeadroom
	keyLen  int
	ipsks   [][]byte
	upsk    []byte
	spolicy ss2022.PaddingPolicy
	// server side
	suHead  zerocopy.Headroom // server Info().UnpackerHeadroom
	server  *ss2022.UDPServer
	table   map[uint64]zerocopy.ServerUnpacker
	natUnp  zerocopy.ServerUnpacker // none, socks5: per client address (one client here)
	packers map[uint64]zerocopy.ServerPacker
	spacker zerocopy.ServerPacker
}

type linkKey struct {
	proto      string
	mtu        int
	fam        string
	cpol, spol string
	up         bool           // which pair of endpoint addresses
	sa, ca     netip.AddrPort // live sockets: the server's and the client's real addresses (zero: the documentation addresses)
	n          int            // which client session on the link (every session has its own packer and unpacker)
}

type world struct {
	seed  int64
	links map[linkKey]*link
	ctx   context.Context
}

// newLink builds the real objects of one link.  up = the link between the relay's client and the upstream
// server; otherwise the link between the downstream client and the relay's server.
func (w *world) newLink(key linkKey) (*link, error) {
	l := &link{proto: key.proto, k: eihOf(key.proto), mtu: key.mtu, fam: key.fam, table: map[uint64]zerocopy.ServerUnpacker{}}
	if key.up {
		l.serverAddr, l.clientAddr = upstreamServerAddr(key.fam), relayClientAddr(key.fam)
	} else {
		l.serverAddr, l.clientAddr = relayServerAddr(key.fam), downstreamClientAddr(key.fam)
	}
	if key.sa.IsValid() {
		l.serverAddr = key.sa
	}
	if key.ca.IsValid() {
		l.clientAddr = key.ca
	}
	cpol, err := policyOf(key.cpol)
	if err != nil {
		return nil, err
	}
	spol, err := policyOf(key.spol)
	if err != nil {
		return nil, err
	}
	l.spolicy = spol
	server := conn.AddrFromIPPort(l.serverAddr)
	switch {
	case isSS(key.proto):
		tag := fmt.Sprintf("%s/%s/%v", key.proto, key.fam, key.up)
		l.keyLen, l.upsk, l.ipsks = linkKeys(w.seed, key.proto, key.fam, key.up)
		ccc, err := ss2022.NewClientCipherConfig(l.upsk, l.ipsks, true)
		if err != nil {
			return nil, err
		}
		client := ss2022.NewUDPClient("c05", "ip", server, key.mtu, conn.DefaultUDPClientListenConfig, 0, ccc, cpol)
		l.cpHead = client.Info().PackerHeadroom
		_, sess, err := client.NewSession(w.ctx)
		if err != nil {
			return nil, err
		}
		l.cp, l.cu, l.cmax = sess.Packer, sess.Unpacker, sess.MaxPacketSize
		// the server at the end of the identity chain: user key only, or the last identity key plus a user table
		if l.k == 0 {
			ucc, err := ss2022.NewUserCipherConfig(l.upsk, true)
			if err != nil {
				return nil, err
			}
			l.server = ss2022.NewUDPServer(0, ucc, ss2022.ServerIdentityCipherConfig{}, spol)
		} else {
			icc, err := ss2022.NewServerIdentityCipherConfig(l.ipsks[l.k-1], true)
			if err != nil {
				return nil, err
			}
			l.server = ss2022.NewUDPServer(0, ss2022.UserCipherConfig{}, icc, spol)
			suc, err := ss2022.NewServerUserCipherConfig("user", l.upsk, true)
			if err != nil {
				return nil, err
			}
			other, err := ss2022.NewServerUserCipherConfig("other", derive("other/"+tag, w.seed, l.keyLen), true)
			if err != nil {
				return nil, err
			}
			l.server.ReplaceUserLookupMap(ss2022.UserLookupMap{ss2022.PSKHash(l.upsk): suc, ss2022.PSKHash(other.PSK): other})
		}
		l.suHead = l.server.Info().UnpackerHeadroom
	case key.proto == "none":
		client := direct.NewShadowsocksNoneUDPClient("c05", "ip", server, key.mtu, conn.DefaultUDPClientListenConfig)
		l.cpHead = client.Info().PackerHeadroom
		_, sess, err := client.NewSession(w.ctx)
		if err != nil {
			return nil, err
		}
		l.cp, l.cu, l.cmax = sess.Packer, sess.Unpacker, sess.MaxPacketSize
		nat := direct.ShadowsocksNoneUDPNATServer{}
		l.suHead = nat.Info().UnpackerHeadroom
		if l.natUnp, err = nat.NewUnpacker(); err != nil {
			return nil, err
		}
	case key.proto == "socks5":
		// Socks5UDPClient.NewSession needs a TCP association; its newSession does exactly this with the bound address
		client := (&direct.Socks5UDPClientConfig{Name: "c05", MTU: key.mtu, ListenConfig: conn.DefaultUDPClientListenConfig}).NewClient()
		l.cpHead = client.Info().PackerHeadroom
		l.cmax = zerocopy.MaxPacketSizeForAddr(key.mtu, l.serverAddr.Addr())
		l.cp = direct.NewSocks5PacketClientPacker(l.serverAddr, l.cmax)
		l.cu = direct.NewSocks5PacketClientUnpacker(l.serverAddr)
		nat := direct.Socks5UDPNATServer{}
		l.suHead = nat.Info().UnpackerHeadroom
		var err error
		if l.natUnp, err = nat.NewUnpacker(); err != nil {
			return nil, err
		}
	case key.proto == "direct":
		client := direct.NewDirectUDPClient("c05", "ip", key.mtu, conn.DefaultUDPClientListenConfig)
		l.cpHead = client.Info().PackerHeadroom
		_, sess, err := client.NewSession(w.ctx)
		if err != nil {
			return nil, err
		}
		l.cp, l.cu, l.cmax = sess.Packer, sess.Unpacker, sess.MaxPacketSize
		l.suHead = direct.NewDirectUDPNATServer(server, false).Info().UnpackerHeadroom
	default:
		return nil, fmt.Errorf("unknown protocol %q", key.proto)
	}
	return l, nil
}

func (w *world) link(key linkKey) (*link, error) {
	if l, ok := w.links[key]; ok {
		return l, nil
	}
	l, err := w.newLink(key)
	if err != nil {
		return nil, err
	}
	w.links[key] = l
	return l, nil
}

var errChain = errors.New("identity header does not name the next hop")

// stripChain plays the k-1 intermediate Shadowsocks 2022 relays of a client with k identity headers: each checks
// that its identity header names the next key, removes it and re-encrypts the separate header for the next hop.
// It returns the packet the last server receives.
func (l *link) stripChain(b []byte, start, n int) (int, int, error) {
	if l.k < 2 {
		return start, n, nil
	}
	if n < 16*(l.k+1) {
		return 0, 0, zerocopy.ErrPacketTooSmall
	}
	first, err := aes.NewCipher(l.ipsks[0])
	if err != nil {
		return 0, 0, err
	}
	var sep [16]byte
	first.Decrypt(sep[:], b[start:start+16])
	for i := 0; i < l.k-1; i++ {
		blk, err := aes.NewCipher(l.ipsks[i])
		if err != nil {
			return 0, 0, err
		}
		var h [16]byte
		blk.Decrypt(h[:], b[start+16+16*i:start+32+16*i])
		subtle.XORBytes(h[:], h[:], sep[:])
		if h != ss2022.PSKHash(l.ipsks[i+1]) {
			return 0, 0, errChain
		}
	}
	last, err := aes.NewCipher(l.ipsks[l.k-1])
	if err != nil {
		return 0, 0, err
	}
	ns := start + 16*(l.k-1)
	last.Encrypt(b[ns:ns+16], sep[:])
	return ns, n - 16*(l.k-1), nil
}

// serverUnpack is what the relay services do with a received datagram (udp_session.go / udp_nat.go
// recvFromServerConn*): session lookup, unpacker creation on the first packet, UnpackInPlace.  target is the
// tunnel target of a direct server.
func (l *link) serverUnpack(b []byte, start, n int, target conn.Addr) (addr conn.Addr, ps, pl int, err error) {
	switch {
	case isSS(l.proto):
		start, n, err = l.stripChain(b, start, n)
		if err != nil {
			return
		}
		packet := b[start : start+n]
		var csid uint64
		csid, err = l.server.SessionInfo(packet)
		if err != nil {
			return
		}
		u, ok := l.table[csid]
		if !ok {
			u, _, err = l.server.NewUnpacker(packet, csid)
			if err != nil {
				return
			}
		}
		addr, ps, pl, err = u.UnpackInPlace(b, l.clientAddr, start, n)
		if err != nil {
			return
		}
		if !ok {
			l.table[csid] = u
			if l.packers == nil {
				l.packers = map[uint64]zerocopy.ServerPacker{}
			}
			if l.packers[csid], err = u.NewPacker(); err != nil {
				return
			}
		}
		// replies go to the session the last packet came from
		l.spacker = l.packers[csid]
		return
	case l.proto == "direct":
		var u zerocopy.ServerUnpacker
		u, err = direct.NewDirectUDPNATServer(target, false).NewUnpacker()
		if err != nil {
			return
		}
		if l.spacker == nil {
			l.spacker, err = u.NewPacker()
			if err != nil {
				return
			}
		}
		return u.UnpackInPlace(b, l.clientAddr, start, n)
	default:
		addr, ps, pl, err = l.natUnp.UnpackInPlace(b, l.clientAddr, start, n)
		if err == nil && l.spacker == nil {
			l.spacker, err = l.natUnp.NewPacker()
		}
		return
	}
}

// serverPacker returns the server side's packer for the client session, sending one packet through the link
// first if the session does not exist yet (a server packer only exists for a session the client opened).
func (l *link) serverPacker(ctx context.Context) (zerocopy.ServerPacker, error) {
	if l.spacker != nil {
		return l.spacker, nil
	}
	target := conn.AddrFromIPAndPort(ip4, 443)
	front := l.cpHead.Front
	b := make([]byte, front+8+l.cpHead.Rear)
	_, s, n, err := l.cp.PackInPlace(ctx, b, target, front, 8)
	if err != nil {
		return nil, fmt.Errorf("opening a session on link %s: pack: %w", l.proto, err)
	}
	if _, _, _, err = l.serverUnpack(b, s, n, target); err != nil {
		return nil, fmt.Errorf("opening a session on link %s: unpack: %w", l.proto, err)
	}
	if l.spacker == nil {
		return nil, fmt.Errorf("link %s: no server packer after the first packet", l.proto)
	}
	return l.spacker, nil
}

// ---------------------------------------------------------------- the services' own buffer arithmetic

type relayBuf struct {
	Front, Recv, Len int
	Source           string
}

type svcKey struct {
	clients string // "all" or the one client protocol configured
	sp      string
	mtu     int
}

var protoName = map[string]string{"ss0": "2022-blake3-aes-128-gcm", "ss1": "2022-blake3-aes-128-gcm", "ss2": "2022-blake3-aes-128-gcm",
	"ss3": "2022-blake3-aes-128-gcm", "none": "none", "socks5": "socks5", "direct": "direct"}

var clientProtos = []string{"ss0", "ss1", "ss2", "ss3", "none", "socks5", "direct"}
var serverProtos = []string{"ss0", "ss1", "none", "socks5", "direct"}

// serviceBuffers builds real service configurations (every server protocol at every MTU, with one client or
// with all seven clients configured), lets service.Config.Manager construct the relay services exactly as the
// program does, and reads what ServerConfig.UDPRelay computed out of the constructed relays: the front headroom
// and receive size (unexported integer fields, readable through reflection) and the length of the packet
// buffers their pool allocates.
func serviceBuffers(dir string, mtus []int) (map[svcKey]relayBuf, error) {
	out := map[svcKey]relayBuf{}
	b64 := func(b []byte) string { return base64.StdEncoding.EncodeToString(b) }
	psk := derive("svc/psk", 1, 16)
	upsks := filepath.Join(dir, "upsks.json")
	if err := os.WriteFile(upsks, []byte(`{"user":"`+b64(derive("svc/upsk", 1, 16))+`"}`), 0o600); err != nil {
		return nil, err
	}
	sets := [][]string{clientProtos}
	for _, c := range clientProtos {
		sets = append(sets, []string{c})
	}
	for _, set := range sets {
		var clients, servers []map[string]any
		for _, c := range set {
			cc := map[string]any{"name": "c-" + c, "protocol": protoName[c], "enableUDP": true, "mtu": 1500}
			if c != "direct" {
				cc["endpoint"] = "192.0.2.1:1080"
			}
			if isSS(c) {
				cc["psk"] = b64(psk)
				var ipsks []string
				for i := 0; i < eihOf(c); i++ {
					ipsks = append(ipsks, b64(derive(fmt.Sprintf("svc/ipsk%d", i), 1, 16)))
				}
				if len(ipsks) > 0 {
					cc["iPSKs"] = ipsks
				}
			}
			clients = append(clients, cc)
		}
		for _, s := range serverProtos {
			for _, mtu := range mtus {
				sc := map[string]any{"name": fmt.Sprintf("s-%s-%d", s, mtu), "protocol": protoName[s], "mtu": mtu,
					"udpListeners": []map[string]any{{"network": "udp", "address": "127.0.0.1:0"}}}
				switch s {
				case "ss0":
					sc["psk"] = b64(psk)
				case "ss1":
					sc["psk"] = b64(psk)
					sc["uPSKStorePath"] = upsks
				case "direct":
					sc["tunnelRemoteAddress"] = "192.0.2.9:53"
				}
				servers = append(servers, sc)
			}
		}
		doc, err := json.Marshal(map[string]any{"servers": servers, "clients": clients})
		if err != nil {
			return nil, err
		}
		var cfg service.Config
		if err := json.Unmarshal(doc, &cfg); err != nil {
			return nil, fmt.Errorf("service configuration: %w", err)
		}
		m, err := cfg.Manager(zap.NewNop())
		if err != nil {
			return nil, fmt.Errorf("service.Config.Manager: %w", err)
		}
		name := "all"
		if len(set) == 1 {
			name = set[0]
		}
		svcs := reflect.ValueOf(m).Elem().FieldByName("services")
		if !svcs.IsValid() || svcs.Kind() != reflect.Slice {
			return nil, errors.New("service.Manager has no services slice")
		}
		for i := 0; i < svcs.Len(); i++ {
			v := svcs.Index(i)
			for v.Kind() == reflect.Interface || v.Kind() == reflect.Pointer {
				v = v.Elem()
			}
			if v.Kind() != reflect.Struct {
				continue
			}
			tn := v.Type().Name()
			if tn != "UDPNATRelay" && tn != "UDPSessionRelay" {
				continue
			}
			front, recv, sn, pool := v.FieldByName("packetBufFrontHeadroom"), v.FieldByName("packetBufRecvSize"), v.FieldByName("serverName"), v.FieldByName("queuedPacketPool")
			mtu := v.FieldByName("mtu")
			if !front.IsValid() || !recv.IsValid() || !sn.IsValid() || !pool.IsValid() || !mtu.IsValid() || !pool.CanAddr() {
				return nil, fmt.Errorf("%s: fields not found", tn)
			}
			p := (*sync.Pool)(unsafe.Pointer(pool.UnsafeAddr()))
			qp := reflect.ValueOf(p.Get())
			for qp.Kind() == reflect.Interface || qp.Kind() == reflect.Pointer {
				qp = qp.Elem()
			}
			buf := qp.FieldByName("buf")
			if !buf.IsValid() || buf.Kind() != reflect.Slice {
				return nil, fmt.Errorf("%s: queued packet has no buf", tn)
			}
			parts := strings.Split(sn.String(), "-")
			if len(parts) != 3 {
				continue
			}
			out[svcKey{name, parts[1], int(mtu.Int())}] = relayBuf{int(front.Int()), int(recv.Int()), buf.Len(), "service.Config.Manager"}
		}
	}
	return out, nil
}
