//go:build verif

// Package c18 gives the configurations that TLC derives from specs/Config/Config.tla to the real
// service.Config.Manager and evaluates property C18 on what it did.  Every case is an abstract
// configuration together with what the model expects: refuse / accept / any, the effective
// settings the documentation promises, and the outcome of a smoke script per listener.  The cases
// run in child processes (harness/cmd/cfgchild): the child renders the configuration to the real
// JSON document, loads it the way cmd/shadowsocks-go does, reads the effective settings off the
// manager, starts the services on loopback and talks to every listener; a panic of the code under
// test kills the child, which is then a result of the case that was running.
package c18

import (
	"bufio"
	"bytes"
	"context"
	"encoding/json"
	"fmt"
	"os"
	"os/exec"
	"path/filepath"
	"regexp"
	"strings"
	"testing"
	"time"

	"verif/harness/drivers/c18/cfgkit"
	"verif/harness/internal/vio"
)

type outcome struct {
	res     *cfgkit.Result
	crashed bool
	stderr  string
}

// runChildren executes the cases in child processes, restarting behind a case that killed one.
func runChildren(child, dir string, cases []cfgkit.Case, smoke bool, res *vio.Result) map[int]*outcome {
	out := map[int]*outcome{}
	in := filepath.Join(dir, "cases.json")
	b, _ := json.Marshal(cases)
	if err := os.WriteFile(in, b, 0o600); err != nil {
		res.Break("%v", err)
		return out
	}
	start := 0
	for round := 0; start < len(cases); round++ {
		if round > len(cases) {
			res.Break("child restarted more often than there are cases")
			return out
		}
		resFile := filepath.Join(dir, fmt.Sprintf("results-%d.ndjson", round))
		scratch := filepath.Join(dir, fmt.Sprintf("child-%d", round))
		_ = os.MkdirAll(scratch, 0o700)
		left := len(cases) - start
		ctx, cancel := context.WithTimeout(context.Background(), time.Duration(120+6*left)*time.Second)
		cmd := exec.CommandContext(ctx, child, "-in", in, "-out", resFile, "-dir", scratch, "-start", fmt.Sprint(start),
			fmt.Sprintf("-smoke=%v", smoke))
		var stderr bytes.Buffer
		cmd.Stderr = &stderr
		cmd.Stdout = &stderr
		err := cmd.Run()
		timedOut := ctx.Err() != nil
		cancel()
		_ = os.RemoveAll(scratch)
		// read what the child managed to report
		inflight := -1
		done := 0
		last := -1
		if f, ferr := os.Open(resFile); ferr == nil {
			sc := bufio.NewScanner(f)
			sc.Buffer(make([]byte, 1<<20), 1<<26)
			for sc.Scan() {
				var probe struct {
					Begin *int `json:"begin"`
				}
				line := sc.Bytes()
				if json.Unmarshal(line, &probe) == nil && probe.Begin != nil {
					inflight = *probe.Begin
					continue
				}
				var r cfgkit.Result
				if json.Unmarshal(line, &r) != nil {
					continue
				}
				rr := r
				out[r.ID] = &outcome{res: &rr}
				last = r.ID
				if r.ID == inflight {
					inflight = -1
				}
				done++
			}
			f.Close()
		}
		if err == nil {
			if start+done != len(cases) {
				res.Break("child exited cleanly after %d of %d cases", done, left)
			}
			return out
		}
		if timedOut {
			res.Break("child timed out (case in flight: %d): %s", inflight, tail(stderr.String(), 2000))
			return out
		}
		if inflight < 0 {
			se := stderr.String()
			if last >= 0 && (strings.Contains(se, "panic:") || strings.Contains(se, "fatal error:")) && strings.Contains(se, "shadowsocks-go/") {
				// a goroutine of the services of the case that had just reported took the process down a moment later:
				// the crash belongs to that case's configuration
				out[last] = &outcome{crashed: true, stderr: se}
				start += done
				continue
			}
			if msg, site, isPanic := panicSite(se); isPanic && strings.Contains(se, "shadowsocks-go/") {
				// no case had begun: the fixtures (services built from configurations the manager accepted, with omitted
				// policy fields) were running and being probed - an accepted configuration crashed once traffic flowed
				res.Violation(vio.Finding{Key: "config.accepted/panic-in-" + sanitize(site), Behaviour: -1,
					Text:     fmt.Sprintf("a configuration of the harness fixtures was accepted and the process died once traffic flowed: %s (in %s)", msg, site),
					Observed: tail(se, 1800), Replay: map[string]any{"fixture": true}})
				return out
			}
			res.Break("child failed outside a case (done %d, last %d): %v: %s", done, last, err, tail(se, 1500))
			return out
		}
		out[inflight] = &outcome{crashed: true, stderr: stderr.String()}
		start += done + 1
	}
	return out
}

func tail(s string, n int) string {
	if len(s) > n {
		return s[len(s)-n:]
	}
	return s
}

var repoFrame = regexp.MustCompile(`github\.com/database64128/shadowsocks-go/([A-Za-z0-9_/]+)\.([^\s(]*(?:\([^)]*\))?[^\s(]*)\(`)

// panicSite names the innermost function of the code under test on the panicking goroutine.
func panicSite(stderr string) (msg, site string, ok bool) {
	i := strings.Index(stderr, "panic: ")
	j := strings.Index(stderr, "fatal error: ")
	if i < 0 || (j >= 0 && j < i) {
		i = j
	}
	if i < 0 {
		return "", "", false
	}
	rest := stderr[i:]
	msg = rest
	if k := strings.IndexByte(rest, '\n'); k >= 0 {
		msg = rest[:k]
	}
	// first goroutine block after the message
	block := rest
	if k := strings.Index(rest, "\n\ngoroutine "); k >= 0 {
		block = rest[k+2:]
		if e := strings.Index(block, "\n\n"); e >= 0 {
			block = block[:e]
		}
	}
	for _, line := range strings.Split(block, "\n") {
		if strings.HasPrefix(line, "\t") {
			continue
		}
		if m := repoFrame.FindStringSubmatch(line); m != nil {
			pkg := m[1]
			if k := strings.LastIndex(pkg, "/"); k >= 0 {
				pkg = pkg[k+1:]
			}
			if strings.HasPrefix(pkg, "verifhook") {
				continue
			}
			return msg, pkg + "." + m[2], true
		}
	}
	return msg, "", true
}

func sanitize(s string) string {
	return regexp.MustCompile(`[^A-Za-z0-9_.=+-]+`).ReplaceAllString(s, "-")
}

// labelKey turns <<profile, d1, v1, d2, v2>> into "d1=v1+d2=v2".
func labelKey(label []string) string {
	var parts []string
	for i := 1; i+1 < len(label); i += 2 {
		parts = append(parts, label[i]+"="+strings.Trim(label[i+1], `"`))
	}
	if len(parts) == 0 {
		return "base"
	}
	return sanitize(strings.Join(parts, "+"))
}

func mode(v any) string {
	switch x := v.(type) {
	case int:
		switch x {
		case cfgkit.Omit:
			return "omitted"
		case 0:
			return "zero"
		}
	case string:
		switch x {
		case cfgkit.OmitS:
			return "omitted"
		case "":
			return "empty"
		}
	}
	return "explicit"
}

// the abstract listeners in the order the relays hold them (arrays, then the legacy one)
func udpListeners(s *cfgkit.Server) []cfgkit.UDPListener {
	ls := append([]cfgkit.UDPListener{}, s.UDPL...)
	if s.Leg.UDP {
		nat := s.Leg.Nat
		if nat != cfgkit.Omit {
			nat *= 1000
		}
		ls = append(ls, cfgkit.UDPListener{Net: "udp", Nat: nat, Rb: s.Leg.Rb, Sb: s.Leg.Sb, Cap: s.Leg.Cap, Bm: s.Leg.Bm})
	}
	return ls
}

func tcpListeners(s *cfgkit.Server) []cfgkit.TCPListener {
	ls := append([]cfgkit.TCPListener{}, s.TCPL...)
	if s.Leg.TCP {
		ls = append(ls, cfgkit.TCPListener{Net: "tcp", Ipw: cfgkit.Omit, Ipb: cfgkit.Omit, Dipw: s.Leg.Dipw})
	}
	return ls
}

func wireOf(policy string) string {
	switch policy {
	case "JustClose", "CloseWriteDrain":
		return "eof"
	case "ForceReset":
		return "reset"
	case "ReplyWithGibberish":
		return "data"
	}
	return ""
}

type judge struct {
	res *vio.Result
	c   *cfgkit.Case
	idx int
}

func (j *judge) replay() any {
	return map[string]any{"case": j.c}
}

func (j *judge) violation(key, text string, expected, observed any) {
	j.res.Violation(vio.Finding{Key: key, Text: fmt.Sprintf("[%s] %s", strings.Join(j.c.Label, " "), text), Behaviour: j.c.ID,
		Expected: expected, Observed: observed, Replay: j.replay()})
}

func (j *judge) drift(key, text string, expected, observed any) {
	j.res.DriftNote(vio.Finding{Key: key, Text: fmt.Sprintf("[%s] %s", strings.Join(j.c.Label, " "), text), Behaviour: j.c.ID,
		Expected: expected, Observed: observed})
}

// evaluate applies property C18 to one case.
func evaluate(res *vio.Result, c *cfgkit.Case, o *outcome, smoke bool) {
	j := &judge{res: res, c: c}
	res.Count("evaluations", 1)
	if !c.Base {
		// distinct (the check script removes duplicates of the abstract configuration) and non-trivial
		// (at least one variant changed the base configuration)
		res.Seen(fmt.Sprint(c.ID))
	}
	proto := ""
	if len(c.Cfg.Servers) > 0 {
		proto = c.Cfg.Servers[0].Proto
	}

	// ---- no accepted combination of options leads to a crash once traffic flows ----
	if o.crashed {
		msg, site, isPanic := panicSite(o.stderr)
		if !isPanic {
			res.Break("case %d %v: child died without a Go panic: %s", c.ID, c.Label, tail(o.stderr, 1500))
			return
		}
		res.Count("crashes", 1)
		key := "config.accepted/panic-in-" + sanitize(site)
		if c.Crash != "" {
			key = "config.accepted/" + c.Crash
		}
		j.violation(key, fmt.Sprintf("the configuration was accepted and the process died once traffic flowed: %s (in %s)", msg, site),
			"no crash", tail(o.stderr, 1800))
		return
	}
	r := o.res
	if r.Harness != "" {
		res.Break("case %d %v: %s", c.ID, c.Label, r.Harness)
		return
	}
	if r.Panic != "" {
		res.Count("crashes", 1)
		j.violation("config.load/panic", "loading the configuration panicked: "+r.Panic, "an error or a manager", r.Panic)
		return
	}

	// ---- refused / accepted ----
	if !r.Accepted {
		res.Count("refused", 1)
		res.Count("refused_at_"+r.Stage, 1)
		if c.Expect == "accept" {
			j.violation("config.refused/"+labelKey(c.Label),
				fmt.Sprintf("a valid configuration made of documented values was refused (%s): %s", r.Stage, r.Error), "accepted", r.Error)
		} else if c.Impl == "ok" {
			j.drift("config.model/loader", fmt.Sprintf("the model's loader accepts, the code refuses (%s): %s", r.Stage, r.Error), "ok", r.Error)
		}
		return
	}
	res.Count("accepted", 1)
	if c.Expect == "refuse" {
		what := "invariant"
		if len(c.Broken) > 0 {
			what = c.Broken[0]
		}
		j.violation("config.accepted/"+what,
			fmt.Sprintf("a configuration that violates %v was accepted", c.Broken), "refused at load with an error", "accepted")
		return
	}
	if c.Impl != "ok" {
		j.drift("config.model/loader", "the model's loader refuses, the code accepts: "+c.Impl, c.Impl, "accepted")
	}

	// ---- omitted fields behave exactly as their documented defaults, the same as an explicitly empty value ----
	if r.Obs != nil {
		for _, n := range r.Obs.Notes {
			j.drift("config.model/unreadable", n, nil, nil)
		}
		j.effective(r)
	}

	// the -fmtConf round trip (outside the property's statement: reported as a note)
	if r.Migrate != "" {
		res.Count("migrations", 1)
		if r.Migrate != "same" {
			j.drift("config.migrate/changed", "Config.Migrate changed the meaning of the configuration: "+r.Migrate, "same", r.Migrate)
		}
	}

	// ---- traffic ----
	if !smoke {
		return
	}
	for _, s := range c.Cfg.Servers {
		if s.Proto == "tproxy" || s.Proto == "redirect" {
			res.Count("load_only", 1)
			return
		}
	}
	if !r.Started {
		res.Count("start_failed", 1)
		j.drift("config.run/start-failed", "accepted, but the services did not start: "+r.StartErr, "started", r.StartErr)
		return
	}
	res.Count("started", 1)
	if r.StartErr != "" {
		j.drift("config.run/stopped-by-itself", r.StartErr, nil, nil)
	}
	if !r.Stopped {
		j.drift("config.run/stop-hang", "the manager did not stop within 20 s", "stopped", "running")
	}
	for i := range c.Cfg.Servers {
		check := func(kind string, want []string, got []cfgkit.FlowObs) {
			for k := range got {
				w := "reply"
				if i < len(c.Flows) {
					ws := c.Flows[i].TCP
					if kind == "udp" {
						ws = c.Flows[i].UDP
					}
					if k < len(ws) {
						w = ws[k]
					}
				}
				g := got[k].Outcome
				res.Count("flows_"+kind+"_"+g, 1)
				if g == "reply" {
					res.Count("reply_"+kind+"_"+c.Cfg.Servers[i].Proto, 1)
				}
				if w != g {
					res.Count("flow_mismatch", 1)
					j.drift("config.model/flow", fmt.Sprintf("server %d %s listener %d: the model expects %q, the smoke script saw %q (%s)",
						i, kind, k, w, g, got[k].Detail), w, g)
				}
			}
		}
		if i < len(r.TCP) {
			check("tcp", nil, r.TCP[i])
		}
		if i < len(r.UDP) {
			check("udp", nil, r.UDP[i])
		}
		// the reject policy on the wire
		if i < len(r.Probe) && r.Probe[i] != "" && i < len(c.Eff.Servers) {
			want := wireOf(c.Eff.Servers[i].Rej)
			got := r.Probe[i]
			res.Count("probes", 1)
			switch {
			case got != "eof" && got != "reset" && got != "data":
				j.drift("config.model/probe", "unauthenticated connection: "+got, want, got)
			case want != "" && want != got:
				j.violation("config.default/reject-policy-"+mode(c.Cfg.Servers[i].Rej),
					fmt.Sprintf("server %d (rejectPolicy %s): the documented policy %s answers an unauthenticated connection with %s, the server answered with %s",
						i, mode(c.Cfg.Servers[i].Rej), c.Eff.Servers[i].Rej, want, got), want, got)
			}
		}
	}
	_ = proto
}

// effective compares the settings read off the real manager with Effective(cfg).
func (j *judge) effective(r *cfgkit.Result) {
	c := j.c
	obs := r.Obs.Eff
	for i := range c.Cfg.Servers {
		if i >= len(obs.Servers) || i >= len(c.Eff.Servers) {
			break
		}
		s := &c.Cfg.Servers[i]
		want, got := c.Eff.Servers[i], obs.Servers[i]
		diff := func(field string, m string, w, g any) {
			if fmt.Sprint(w) != fmt.Sprint(g) {
				j.violation("config.default/"+field+"-"+m,
					fmt.Sprintf("server %d: %s is %s in the configuration; documented effective value %v, the manager runs with %v", i, field, m, w, g), w, g)
			}
		}
		tl, ul := tcpListeners(s), udpListeners(s)
		if len(got.TCP) != len(want.TCP) || len(got.UDP) != len(want.UDP) {
			j.drift("config.model/listeners", fmt.Sprintf("server %d: %d/%d listeners expected, %d/%d found", i, len(want.TCP), len(want.UDP), len(got.TCP), len(got.UDP)), nil, nil)
			continue
		}
		for k := range want.TCP {
			if got.TCP[k].Ipw == cfgkit.Unread {
				continue
			}
			diff("initial-payload-wait-timeout", mode(tl[k].Ipw), want.TCP[k].Ipw, got.TCP[k].Ipw)
			diff("initial-payload-wait-buffer-size", mode(tl[k].Ipb), want.TCP[k].Ipb, got.TCP[k].Ipb)
			if !cfgkit.Is2022(s.Proto) && (s.Proto == "socks5" || s.Proto == "http" || s.Proto == "direct") {
				diff("initial-payload-wait", map[bool]string{false: "omitted", true: "explicit"}[tl[k].Dipw], want.TCP[k].Wait, got.TCP[k].Wait)
			}
		}
		for k := range want.UDP {
			if got.UDP[k].Nat == cfgkit.Unread {
				continue
			}
			diff("nat-timeout", mode(ul[k].Nat), want.UDP[k].Nat, got.UDP[k].Nat)
			diff("relay-batch-size", mode(ul[k].Rb), want.UDP[k].Rb, got.UDP[k].Rb)
			diff("server-recv-batch-size", mode(ul[k].Sb), want.UDP[k].Sb, got.UDP[k].Sb)
			diff("send-channel-capacity", mode(ul[k].Cap), want.UDP[k].Cap, got.UDP[k].Cap)
			diff("batch-mode", mode(ul[k].Bm), want.UDP[k].Bm, got.UDP[k].Bm)
		}
		if want.Rej != "" && got.Rej != "" {
			diff("reject-policy", mode(s.Rej), want.Rej, got.Rej)
		}
		if want.Pad != "" && got.Pad != "" {
			diff("padding-policy", mode(s.Pad), want.Pad, got.Pad)
		}
		if want.Swf != 0 && got.Swf != cfgkit.Unread {
			diff("sliding-window-filter-size", mode(s.Swf), want.Swf, got.Swf)
		}
		if want.MTU != 0 && got.MTU != cfgkit.Unread {
			diff("mtu", mode(s.MTU), want.MTU, got.MTU)
		}
	}
	if len(obs.Clients) != len(c.Eff.Clients) {
		j.violation("config.default/clients-"+c.Cfg.ClientsMode,
			fmt.Sprintf("clients is %s: %d effective clients documented, the manager has %d", c.Cfg.ClientsMode, len(c.Eff.Clients), len(obs.Clients)),
			c.Eff.Clients, obs.Clients)
		return
	}
	for i := range c.Eff.Clients {
		want, got := c.Eff.Clients[i], obs.Clients[i]
		m := "omitted"
		if i < len(c.Cfg.Clients) && c.Cfg.ClientsMode == "list" {
			m = mode(c.Cfg.Clients[i].Net)
		}
		if want.Name != got.Name {
			j.violation("config.default/clients-"+c.Cfg.ClientsMode, fmt.Sprintf("client %d is named %q, documented %q", i, got.Name, want.Name), want.Name, got.Name)
		}
		if want.Net != got.Net {
			j.violation("config.default/client-network-"+m, fmt.Sprintf("client %d: network %s: documented %q, effective %q", i, m, want.Net, got.Net), want.Net, got.Net)
		}
		if want.Pad != "" && got.Pad != "" && want.Pad != got.Pad {
			pm := "omitted"
			if i < len(c.Cfg.Clients) && c.Cfg.ClientsMode == "list" {
				pm = mode(c.Cfg.Clients[i].Pad)
			}
			j.violation("config.default/client-padding-policy-"+pm, fmt.Sprintf("client %d: paddingPolicy %s: documented %s, effective %s", i, pm, want.Pad, got.Pad), want.Pad, got.Pad)
		}
	}
}

// TestCases: Params "cases" (array of cfgkit.Case), "child" (path of the cfgchild binary), "smoke".
func TestCases(t *testing.T) {
	in, err := vio.ReadInput()
	if err != nil {
		t.Skip(err)
	}
	res := vio.NewResult()
	res.Samples = []any{}
	defer func() {
		if err := res.Write(); err != nil {
			t.Fatal(err)
		}
	}()
	var cases []cfgkit.Case
	var child string
	smoke := true
	if !in.Param("cases", &cases) || !in.Param("child", &child) {
		res.Break("params cases / child missing")
		return
	}
	in.Param("smoke", &smoke)
	dir, err := os.MkdirTemp(".", "c18-")
	if err != nil {
		res.Break("%v", err)
		return
	}
	dir, _ = filepath.Abs(dir)
	defer os.RemoveAll(dir)
	outs := runChildren(child, dir, cases, smoke, res)
	// cases the harness could not execute (a fixture did not come up in time, listener ports kept being
	// taken) get one more try in a fresh child before they count as machinery failures
	var again []cfgkit.Case
	for i := range cases {
		if o := outs[cases[i].ID]; o != nil && o.res != nil && o.res.Harness != "" {
			again = append(again, cases[i])
		}
	}
	if len(again) > 0 && len(again) <= 20+len(cases)/20 && len(res.Broken) == 0 {
		dir2 := filepath.Join(dir, "again")
		if err := os.MkdirAll(dir2, 0o700); err == nil {
			for id, o := range runChildren(child, dir2, again, smoke, res) {
				outs[id] = o
			}
			res.Count("harness_retries", len(again))
		}
	}
	for i := range cases {
		o := outs[cases[i].ID]
		if o == nil {
			if len(res.Broken) == 0 && len(res.Violations) == 0 {
				// (after a crash of the fixtures themselves - reported as a violation - the remaining cases never ran)
				res.Break("case %d has no result", cases[i].ID)
			}
			continue
		}
		evaluate(res, &cases[i], o, smoke)
		if o.res != nil {
			res.Sample(map[string]any{"label": cases[i].Label, "expect": cases[i].Expect, "accepted": o.res.Accepted, "error": o.res.Error,
				"tcp": o.res.TCP, "udp": o.res.UDP, "probe": o.res.Probe}, 4)
		}
	}
	res.AddSteps(len(cases), len(cases))
}
