//go:build verif

// Package cfgkit is the Go side of specs/Config/Config.tla: the abstract configuration records
// that TLC enumerates (model.go), their rendering to the real JSON document of service.Config
// (render.go), the harness fixtures a smoke script needs (fixtures.go: echo target, the "far"
// proxy servers behind the clients of the configuration under test, the "near" tunnels in front
// of its servers), the execution of one case against the real service.Config.Manager
// (run.go) and the projection of the real manager to the abstract Effective record
// (effective.go).  It is used by harness/cmd/cfgchild (one process per batch, so that a panic of
// the code under test is a result) and by harness/drivers/c18 (the oracle).
package cfgkit

import "encoding/json"

// Omitted fields: a numeric field left out of the JSON document is Omit, a string field OmitS
// (Config.tla: Omit, OmitS).
const (
	Omit  = -1000000
	OmitS = "<omit>"
)

// TCPListener is one element of tcpListeners.
type TCPListener struct {
	Net  string `json:"net"`
	Ipw  int    `json:"ipw"`  // initialPayloadWaitTimeout, ms
	Ipb  int    `json:"ipb"`  // initialPayloadWaitBufferSize
	Dipw bool   `json:"dipw"` // disableInitialPayloadWait
}

// UDPListener is one element of udpListeners.
type UDPListener struct {
	Net string `json:"net"`
	Nat int    `json:"nat"` // natTimeout, ms
	Rb  int    `json:"rb"`  // relayBatchSize
	Sb  int    `json:"sb"`  // serverRecvBatchSize
	Cap int    `json:"cap"` // sendChannelCapacity
	Bm  string `json:"bm"`  // batchMode
}

// Legacy holds the server-level single-listener fields.
type Legacy struct {
	TCP  bool   `json:"tcp"`  // enableTCP
	UDP  bool   `json:"udp"`  // enableUDP
	Nat  int    `json:"nat"`  // natTimeoutSec, s
	Rb   int    `json:"rb"`   // udpRelayBatchSize
	Sb   int    `json:"sb"`   // udpServerRecvBatchSize
	Cap  int    `json:"cap"`  // udpSendChannelCapacity
	Bm   string `json:"bm"`   // udpBatchMode
	Dipw bool   `json:"dipw"` // disableInitialPayloadWait
}

// Server is one element of servers.
type Server struct {
	Name  string        `json:"name"`
	Proto string        `json:"proto"`
	TCPL  []TCPListener `json:"tcpL"`
	UDPL  []UDPListener `json:"udpL"`
	Leg   Legacy        `json:"leg"`
	MTU   int           `json:"mtu"`
	PSK   int           `json:"psk"` // length of psk in bytes
	Ups   string        `json:"ups"` // uPSKStorePath: <omit>, "", file, badlen, missing
	Rej   string        `json:"rej"`
	Pad   string        `json:"pad"`
	Swf   int           `json:"swf"`
	Tun   string        `json:"tun"` // tunnelRemoteAddress: <omit>, ip, dom
	Tto   bool          `json:"tto"` // tunnelUDPTargetOnly
	Auth  bool          `json:"auth"`
}

// Client is one element of clients.
type Client struct {
	Name  string `json:"name"`
	Proto string `json:"proto"`
	TCP   bool   `json:"tcp"`
	UDP   bool   `json:"udp"`
	MTU   int    `json:"mtu"`
	PSK   int    `json:"psk"`
	IPSKs []int  `json:"ipsks"`
	Ep    string `json:"ep"` // ep, split, none, both
	Net   string `json:"net"`
	Pad   string `json:"pad"`
	Swf   int    `json:"swf"`
	Auth  bool   `json:"auth"`
}

// Selection is the tcp / udp half of a client group.
type Selection struct {
	Policy  string   `json:"policy"`
	Clients []string `json:"clients"`
}

// Group is one element of clientGroups.
type Group struct {
	Name string    `json:"name"`
	TCP  Selection `json:"tcp"`
	UDP  Selection `json:"udp"`
}

// Resolver is one element of dns.
type Resolver struct {
	Name  string `json:"name"`
	Type  string `json:"type"`
	Addr  bool   `json:"addr"`
	TCP   string `json:"tcpc"`
	UDP   string `json:"udpc"`
	Cache int    `json:"cache"`
}

// Route is one element of router.routes.
type Route struct {
	Name     string   `json:"name"`
	Net      string   `json:"net"`
	Client   string   `json:"client"`
	Resolver string   `json:"resolver"`
	FromSrv  []string `json:"fromSrv"`
	ToDSets  []string `json:"toDSets"`
	ToPSets  []string `json:"toPSets"`
	FromPSet []string `json:"fromPSets"`
	Nr       bool     `json:"nr"`
}

// Router is the router section.
type Router struct {
	DefTCP string   `json:"defTCP"`
	DefUDP string   `json:"defUDP"`
	DSets  []string `json:"dsets"`
	PSets  []string `json:"psets"`
	Routes []Route  `json:"routes"`
}

// Cfg is an abstract configuration (Config.tla: a member of the configuration lattice).
type Cfg struct {
	ClientsMode string     `json:"clientsMode"` // omit, empty, list
	Servers     []Server   `json:"servers"`
	Clients     []Client   `json:"clients"`
	Groups      []Group    `json:"groups"`
	DNS         []Resolver `json:"dns"`
	Router      Router     `json:"router"`
}

// ---- what the model expects (Config.tla: Effective, Flow, Expect) ----

// EffTCP is the effective setting of one TCP listener.
type EffTCP struct {
	Ipw  int  `json:"ipw"` // ms
	Ipb  int  `json:"ipb"`
	Wait bool `json:"wait"`
}

// EffUDP is the effective setting of one UDP listener.
type EffUDP struct {
	Nat int    `json:"nat"` // ms
	Rb  int    `json:"rb"`
	Sb  int    `json:"sb"`
	Cap int    `json:"cap"`
	Bm  string `json:"bm"`
}

// EffServer is the effective setting of one server.
type EffServer struct {
	TCP []EffTCP `json:"tcp"`
	UDP []EffUDP `json:"udp"`
	Rej string   `json:"rej"` // "" when not applicable
	Pad string   `json:"pad"`
	Swf int      `json:"swf"` // 0 when not applicable
	MTU int      `json:"mtu"` // 0 when not applicable
}

// EffClient is the effective setting of one client.
type EffClient struct {
	Name string `json:"name"`
	Net  string `json:"net"`
	Pad  string `json:"pad"`
	Swf  int    `json:"swf"`
}

// Effective is the abstract effective configuration.
type Effective struct {
	Servers []EffServer `json:"servers"`
	Clients []EffClient `json:"clients"`
	DefTCP  string      `json:"defTCP"` // name of the default TCP client, "" = none (requests refused)
	DefUDP  string      `json:"defUDP"`
}

// Flow is the expected outcome of the smoke script for one listener: "reply", "none", "crash".
type Flow struct {
	TCP []string `json:"tcp"`
	UDP []string `json:"udp"`
}

// Case is one line printed by MCConfig.tla.
type Case struct {
	ID     int             `json:"id"`
	Label  []string        `json:"label"`
	Cfg    Cfg             `json:"cfg"`
	Expect string          `json:"expect"` // refuse | accept | any
	Broken []string        `json:"broken"` // names of the violated invariants (empty iff Valid)
	Impl   string          `json:"impl"`   // what the implementation-shaped Load of the model answers: "ok" or the reason
	Eff    Effective       `json:"eff"`
	Flows  []Flow          `json:"flows"`
	Crash  string          `json:"crash"` // "" or the name of the crashing combination the model knows
	Base   bool            `json:"base"`  // the configuration is a base configuration (no variant changed it)
	Raw    json.RawMessage `json:"-"`
}
