//go:build verif

package cfgkit

import (
	"bytes"
	"crypto/rand"
	"encoding/binary"
	"encoding/json"
	"errors"
	"fmt"
	"io"
	"net"
	"net/netip"
	"os"
	"path/filepath"
	"reflect"
	"strings"
	"syscall"
	"time"

	"github.com/database64128/shadowsocks-go/jsoncfg"
	"github.com/database64128/shadowsocks-go/service"
	"go.uber.org/zap/zapcore"
)

// FlowObs is what the smoke script saw on one listener.
type FlowObs struct {
	Outcome string `json:"outcome"` // reply | none | skipped
	Detail  string `json:"detail,omitempty"`
}

// Result is what one case did on the real code.
type Result struct {
	ID       int         `json:"id"`
	Accepted bool        `json:"accepted"`
	Stage    string      `json:"stage,omitempty"` // where it was refused: parse | manager
	Error    string      `json:"error,omitempty"`
	Panic    string      `json:"panic,omitempty"` // panic on the loading goroutine (recovered)
	Obs      *Observed   `json:"obs,omitempty"`
	Started  bool        `json:"started"`
	StartErr string      `json:"startErr,omitempty"`
	TCP      [][]FlowObs `json:"tcp,omitempty"`   // [server][listener]
	UDP      [][]FlowObs `json:"udp,omitempty"`   // [server][listener]
	Probe    []string    `json:"probe,omitempty"` // [server] wire class of an unauthenticated connection: eof | reset | data | ""
	Stopped  bool        `json:"stopped"`
	RunOK    bool        `json:"runOK"`
	Migrate  string      `json:"migrate,omitempty"` // legacy fields only: "same", or how the -fmtConf round trip differs
	Harness  string      `json:"harness,omitempty"` // the harness could not do its part
	Doc      string      `json:"doc,omitempty"`     // the rendered configuration
	Ms       int64       `json:"ms"`
}

// World is the per-process harness state.
type World struct {
	Dir   string
	Echo  *Echo
	Far   *Running
	FarP  map[string]int
	Ports []int // pool for the configuration under test and the near tunnels
	Smoke bool
}

// NewWorld starts the fixtures.
func NewWorld(dir string, smoke bool) (*World, error) {
	w := &World{Dir: dir, Smoke: smoke}
	if !smoke {
		ports, err := FreePorts(2*MaxSlots*4 + 1)
		if err != nil {
			return nil, err
		}
		w.Ports = ports
		w.FarP = map[string]int{}
		for i, k := range FarKinds {
			w.FarP[k] = 1 + i // never dialled
		}
		w.Echo = &Echo{Port: 9}
		return w, nil
	}
	e, err := StartEcho()
	if err != nil {
		return nil, err
	}
	w.Echo = e
	far, farP, err := StartFar(dir)
	if err != nil {
		return nil, err
	}
	w.Far, w.FarP = far, farP
	return w, w.newPorts()
}

func (w *World) newPorts() error {
	ports, err := FreePorts(2*MaxSlots*4 + 1)
	if err != nil {
		return err
	}
	w.Ports = ports
	return nil
}

func (w *World) env(nServers int, dir string) *Env {
	env := &Env{Dir: dir, EchoPort: w.Echo.Port, Far: w.FarP, DNSPort: w.Ports[len(w.Ports)-1]}
	for i := 0; i < nServers; i++ {
		env.SPorts = append(env.SPorts, w.Ports[i*MaxSlots:(i+1)*MaxSlots])
	}
	return env
}

func (w *World) nearPort(server, slot int) int {
	return w.Ports[MaxSlots*4+server*MaxSlots+slot]
}

// slots of a server: array listeners first, the legacy listener last (the order in which
// ServerConfig.Initialize appends them).
func tcpSlots(s *Server) []int {
	var out []int
	for j := range s.TCPL {
		out = append(out, j)
	}
	if s.Leg.TCP {
		out = append(out, SlotOfLegacy)
	}
	return out
}

func udpSlots(s *Server) []int {
	var out []int
	for j := range s.UDPL {
		out = append(out, j)
	}
	if s.Leg.UDP {
		out = append(out, SlotOfLegacy)
	}
	return out
}

func tcpNet(s *Server, k int) string {
	if k < len(s.TCPL) {
		return s.TCPL[k].Net
	}
	return "tcp"
}

func udpNet(s *Server, k int) string {
	if k < len(s.UDPL) {
		return s.UDPL[k].Net
	}
	return "udp"
}

// Run executes one case.
func (w *World) Run(c *Case) (res Result) {
	t0 := time.Now()
	res.ID = c.ID
	defer func() { res.Ms = time.Since(t0).Milliseconds() }()
	if len(c.Cfg.Servers) > 4 {
		res.Harness = "more than 4 servers"
		return
	}
	for i := range c.Cfg.Servers {
		if len(c.Cfg.Servers[i].TCPL) >= MaxSlots || len(c.Cfg.Servers[i].UDPL) >= MaxSlots {
			res.Harness = "too many listeners"
			return
		}
	}
	dir := filepath.Join(w.Dir, fmt.Sprintf("case-%d", c.ID))
	if err := os.MkdirAll(dir, 0o700); err != nil {
		res.Harness = err.Error()
		return
	}
	defer os.RemoveAll(dir)

	for attempt := 0; ; attempt++ {
		retry := w.runOnce(c, dir, &res)
		if !retry {
			return
		}
		if attempt >= 4 {
			res.Harness = "listener ports kept being taken by other processes: " + res.StartErr
			return
		}
		// a listener port was taken by someone else between reservation and use: new ports, again
		if err := w.newPorts(); err != nil {
			res.Harness = err.Error()
			return
		}
		res = Result{ID: c.ID}
	}
}

func (w *World) runOnce(c *Case, dir string, res *Result) (retry bool) {
	env := w.env(len(c.Cfg.Servers), dir)
	doc, err := Render(&c.Cfg, env)
	if err != nil {
		res.Harness = "render: " + err.Error()
		return
	}
	res.Doc = string(doc)
	path := filepath.Join(dir, "config.json")
	if err := os.WriteFile(path, doc, 0o600); err != nil {
		res.Harness = err.Error()
		return
	}
	r, err := Load(path, zapcore.InfoLevel)
	if err != nil {
		var le *LoadError
		var pe *PanicError
		switch {
		case errors.As(err, &le):
			res.Stage, res.Error = le.Stage, le.Err.Error()
		case errors.As(err, &pe):
			res.Panic = fmt.Sprint(pe.Value)
		default:
			res.Harness = err.Error()
		}
		return
	}
	res.Accepted = true
	obs := Observe(&c.Cfg, r.Cfg, r.M)
	res.Obs = &obs
	for i := range c.Cfg.Servers {
		if c.Cfg.Servers[i].Leg.TCP || c.Cfg.Servers[i].Leg.UDP {
			res.Migrate = migrateRoundTrip(c, path, dir, &obs)
			break
		}
	}
	if !w.Smoke {
		r.M.Close()
		return
	}
	for i := range c.Cfg.Servers {
		switch c.Cfg.Servers[i].Proto {
		case "tproxy", "redirect":
			// needs netfilter rules to receive traffic: load-only
			r.M.Close()
			return
		}
	}

	// ---- start the services on loopback ----
	r.Start()
	stopDone := false
	stop := func() {
		if stopDone {
			return
		}
		stopDone = true
		res.RunOK, res.Stopped = r.Stop(20 * time.Second)
	}
	defer stop()
	ready := false
	var lastTCP string
	for i := range c.Cfg.Servers {
		s := &c.Cfg.Servers[i]
		for _, k := range tcpSlots(s) {
			lastTCP = listenAddr(tcpNet(s, k), env.SPorts[i][k])
		}
	}
	if lastTCP != "" {
		if err := waitTCP(lastTCP, r, 30*time.Second); err != nil {
			res.StartErr = err.Error()
			if strings.Contains(res.StartErr, "address already in use") {
				return true
			}
			return
		}
		ready = true
		// the port may have been taken by somebody else's listener since it was reserved (then that one
		// answered): the manager says so
		time.Sleep(2 * time.Millisecond)
		if r.Failed() {
			res.StartErr = fmt.Sprintf("manager failed to start: %v", r.LogTail(3))
			if strings.Contains(res.StartErr, "address already in use") {
				return true
			}
			return
		}
	}
	if !ready {
		// UDP only: no cheap readiness signal, the first round trips are retried
		time.Sleep(30 * time.Millisecond)
		if r.Failed() {
			res.StartErr = fmt.Sprintf("manager failed to start: %v", r.LogTail(3))
			if strings.Contains(res.StartErr, "address already in use") {
				return true
			}
			return
		}
	}
	res.Started = true

	// ---- near tunnels (the harness side clients) ----
	near, nearErr := w.startNear(c, env, dir)
	if nearErr != nil {
		if strings.Contains(nearErr.Error(), "address already in use") {
			return true
		}
		res.Harness = "near fixture: " + nearErr.Error()
		return
	}
	if near != nil {
		defer near.Stop(10 * time.Second)
	}

	// ---- the smoke script ----
	msg := fmt.Sprintf("ping-%d-", c.ID)
	for i := range c.Cfg.Servers {
		s := &c.Cfg.Servers[i]
		var tf, uf []FlowObs
		for li, k := range tcpSlots(s) {
			want := "reply"
			if i < len(c.Flows) && li < len(c.Flows[i].TCP) {
				want = c.Flows[i].TCP[li]
			}
			tf = append(tf, w.smokeTCP(s, i, k, env, msg+fmt.Sprintf("t%d.%d", i, k), want))
		}
		for li, k := range udpSlots(s) {
			want := "reply"
			if i < len(c.Flows) && li < len(c.Flows[i].UDP) {
				want = c.Flows[i].UDP[li]
			}
			uf = append(uf, w.smokeUDP(s, i, k, env, msg+fmt.Sprintf("u%d.%d", i, k), want))
		}
		res.TCP = append(res.TCP, tf)
		res.UDP = append(res.UDP, uf)
		probe := ""
		if Is2022(s.Proto) && len(tcpSlots(s)) > 0 {
			k := tcpSlots(s)[0]
			probe = probeReject(listenAddr(tcpNet(s, k), env.SPorts[i][k]), s)
		}
		res.Probe = append(res.Probe, probe)
	}
	if r.Failed() {
		res.StartErr = fmt.Sprintf("manager stopped by itself: %v", r.LogTail(3))
		if strings.Contains(res.StartErr, "address already in use") {
			// it never ran: a listener port was taken by another process; nothing above was about this manager
			return true
		}
	}
	stop()
	return
}

// migrateRoundTrip does what "shadowsocks-go -fmtConf" does (load, Config.Migrate, save) and loads the
// rewritten document: the listener arrays it now holds must mean what the legacy fields meant.
func migrateRoundTrip(c *Case, path, dir string, before *Observed) string {
	var sc service.Config
	if err := jsoncfg.Load(path, &sc); err != nil {
		return "load: " + err.Error()
	}
	sc.Migrate()
	path2 := filepath.Join(dir, "migrated.json")
	if err := jsoncfg.Save(path2, &sc); err != nil {
		return "save: " + err.Error()
	}
	r2, err := Load(path2, zapcore.WarnLevel)
	if err != nil {
		return "refused after migration: " + err.Error()
	}
	defer r2.M.Close()
	after := Observe(&c.Cfg, r2.Cfg, r2.M)
	if !reflect.DeepEqual(before.Eff, after.Eff) {
		a, _ := json.Marshal(before.Eff)
		b, _ := json.Marshal(after.Eff)
		return fmt.Sprintf("effective settings differ: before %s after %s", a, b)
	}
	return "same"
}

// startNear builds the harness-side manager: for every listener of a non-direct server a direct
// (tunnel) server whose only client speaks the server's protocol to that listener and whose
// fixed destination is the echo target.
func (w *World) startNear(c *Case, env *Env, dir string) (*Running, error) {
	var servers, clients, routes []any
	echo := fmt.Sprintf("127.0.0.1:%d", env.EchoPort)
	lastTCP := ""
	for i := range c.Cfg.Servers {
		s := &c.Cfg.Servers[i]
		if s.Proto == "direct" {
			continue
		}
		slots := map[int][2]bool{}
		for _, k := range tcpSlots(s) {
			v := slots[k]
			v[0] = true
			slots[k] = v
		}
		if s.Proto == "none" || s.Proto == "plain" || Is2022(s.Proto) {
			for _, k := range udpSlots(s) {
				v := slots[k]
				v[1] = true
				slots[k] = v
			}
		}
		for k := 0; k < MaxSlots; k++ {
			v, ok := slots[k]
			if !ok {
				continue
			}
			name := fmt.Sprintf("near-%d-%d", i, k)
			cm := map[string]any{"name": name, "protocol": ProtoName(s.Proto), "mtu": 1500}
			if v[0] {
				cm["enableTCP"] = true
				cm["tcpAddress"] = listenAddr(tcpNet(s, k), env.SPorts[i][k])
			}
			if v[1] {
				cm["enableUDP"] = true
				cm["udpAddress"] = listenAddr(udpNet(s, k), env.SPorts[i][k])
			}
			if Is2022(s.Proto) {
				if s.Ups == "file" {
					cm["psk"] = b64(Key(MethodKeyLen(s.Proto), "user/u1"))
					cm["iPSKs"] = []string{b64(Key(s.PSK, "srv/"+s.Name))}
				} else {
					cm["psk"] = b64(Key(s.PSK, "srv/"+s.Name))
				}
			}
			if s.Auth {
				switch s.Proto {
				case "socks5":
					cm["socks5"] = map[string]any{"username": "u", "password": "p", "enableUserPassAuth": true}
				case "http":
					cm["http"] = map[string]any{"username": "u", "password": "p", "useBasicAuth": true}
				}
			}
			clients = append(clients, cm)
			addr := fmt.Sprintf("127.0.0.1:%d", w.nearPort(i, k))
			sm := map[string]any{"name": name, "protocol": "direct", "mtu": 1500, "tunnelRemoteAddress": echo}
			if v[0] {
				sm["tcpListeners"] = []any{map[string]any{"network": "tcp4", "address": addr}}
				lastTCP = addr
			}
			if v[1] {
				sm["udpListeners"] = []any{map[string]any{"network": "udp4", "address": addr}}
			}
			servers = append(servers, sm)
			routes = append(routes, map[string]any{"name": name, "client": name, "fromServers": []string{name},
				"network": map[[2]bool]string{{true, true}: "", {true, false}: "tcp", {false, true}: "udp"}[v]})
		}
	}
	if len(servers) == 0 {
		return nil, nil
	}
	doc, _ := json.Marshal(map[string]any{"servers": servers, "clients": clients,
		"router": map[string]any{"defaultTCPClientName": "reject", "defaultUDPClientName": "reject", "routes": routes}})
	path := filepath.Join(dir, "near.json")
	if err := os.WriteFile(path, doc, 0o600); err != nil {
		return nil, err
	}
	r, err := Load(path, zapcore.WarnLevel)
	if err != nil {
		return nil, fmt.Errorf("refused: %w (%s)", err, doc)
	}
	r.Start()
	if lastTCP != "" {
		if err := waitTCP(lastTCP, r, 30*time.Second); err != nil {
			r.Stop(5 * time.Second)
			return nil, err
		}
	} else {
		time.Sleep(30 * time.Millisecond)
	}
	if r.Failed() {
		err := fmt.Errorf("manager failed to start: %v", r.LogTail(3))
		r.Stop(5 * time.Second)
		return nil, err
	}
	return r, nil
}

// smokeTCP: one TCP connection through listener slot k of server i, one message, the reply of the
// echo target.  want is what the model expects; it only chooses how long to insist.
func (w *World) smokeTCP(s *Server, i, k int, env *Env, msg, want string) FlowObs {
	addr := fmt.Sprintf("127.0.0.1:%d", w.nearPort(i, k))
	if s.Proto == "direct" {
		addr = listenAddr(tcpNet(s, k), env.SPorts[i][k])
	}
	tries, wait := 4, 5*time.Second
	if want != "reply" {
		tries, wait = 2, 400*time.Millisecond
	}
	var detail string
	for t := 0; t < tries; t++ {
		c, err := net.DialTimeout("tcp", addr, 2*time.Second)
		if err != nil {
			detail = "dial: " + err.Error()
			time.Sleep(20 * time.Millisecond)
			continue
		}
		_ = c.SetDeadline(time.Now().Add(wait))
		if _, err = c.Write([]byte(msg)); err != nil {
			detail = "write: " + err.Error()
			c.Close()
			continue
		}
		want := Pong + msg
		buf := make([]byte, len(want))
		n, err := io.ReadFull(c, buf)
		c.Close()
		if err == nil && string(buf) == want {
			return FlowObs{Outcome: "reply"}
		}
		detail = fmt.Sprintf("read %d bytes %q: %v", n, buf[:n], err)
		time.Sleep(20 * time.Millisecond)
	}
	return FlowObs{Outcome: "none", Detail: detail}
}

// smokeUDP: one UDP round trip through listener slot k of server i.
func (w *World) smokeUDP(s *Server, i, k int, env *Env, msg, want string) FlowObs {
	target := netip.AddrPortFrom(netip.MustParseAddr("127.0.0.1"), uint16(env.EchoPort))
	var addr string
	var wrap func([]byte) []byte
	var unwrap func([]byte) ([]byte, bool)
	switch s.Proto {
	case "direct":
		addr = listenAddr(udpNet(s, k), env.SPorts[i][k])
	case "socks5":
		// SOCKS5 UDP request header, RFC 1928 section 7: RSV RSV FRAG ATYP DST.ADDR DST.PORT DATA
		addr = listenAddr(udpNet(s, k), env.SPorts[i][k])
		wrap = func(b []byte) []byte {
			h := []byte{0, 0, 0, 1}
			h = append(h, target.Addr().AsSlice()...)
			h = binary.BigEndian.AppendUint16(h, target.Port())
			return append(h, b...)
		}
		unwrap = func(b []byte) ([]byte, bool) {
			if len(b) < 10 || b[2] != 0 {
				return nil, false
			}
			switch b[3] {
			case 1:
				return b[10:], true
			case 4:
				if len(b) < 22 {
					return nil, false
				}
				return b[22:], true
			}
			return nil, false
		}
	default:
		addr = fmt.Sprintf("127.0.0.1:%d", w.nearPort(i, k))
	}
	// the relay's socket may not be bound yet (there is no readiness signal for UDP) and loopback may drop under
	// load: keep sending until the budget is used up
	budget, wait := 12*time.Second, 400*time.Millisecond
	if want != "reply" {
		budget, wait = 500*time.Millisecond, 250*time.Millisecond
	}
	c, err := net.Dial("udp", addr)
	if err != nil {
		return FlowObs{Outcome: "none", Detail: "dial: " + err.Error()}
	}
	defer c.Close()
	out := []byte(msg)
	if wrap != nil {
		out = wrap(out)
	}
	buf := make([]byte, 65536)
	var detail string
	for deadline := time.Now().Add(budget); time.Now().Before(deadline); {
		if _, err := c.Write(out); err != nil {
			detail = "write: " + err.Error()
			time.Sleep(50 * time.Millisecond)
			continue
		}
		_ = c.SetReadDeadline(time.Now().Add(wait))
		n, err := c.Read(buf)
		if err != nil {
			detail = "read: " + err.Error()
			if errors.Is(err, syscall.ECONNREFUSED) {
				time.Sleep(50 * time.Millisecond)
			}
			continue
		}
		got := buf[:n]
		if unwrap != nil {
			var ok bool
			if got, ok = unwrap(got); !ok {
				detail = fmt.Sprintf("malformed reply %x", buf[:n])
				continue
			}
		}
		if bytes.Equal(got, []byte(Pong+msg)) {
			return FlowObs{Outcome: "reply"}
		}
		detail = fmt.Sprintf("unexpected reply %q", got)
	}
	return FlowObs{Outcome: "none", Detail: detail}
}

// probeReject presents an unauthenticated connection to a Shadowsocks 2022 TCP listener: exactly
// the bytes the server reads before it can authenticate (so that nothing stays unread), random.
// JustClose and CloseWriteDrain answer with FIN (eof), ForceReset with RST (reset),
// ReplyWithGibberish with data.
func probeReject(addr string, s *Server) string {
	n := s.PSK + 11 + 16 // salt, fixed-length header, tag
	if s.Ups == "file" {
		n += 16 // identity header
	}
	c, err := net.DialTimeout("tcp", addr, 2*time.Second)
	if err != nil {
		return "dial-error"
	}
	defer c.Close()
	b := make([]byte, n)
	_, _ = rand.Read(b)
	if _, err := c.Write(b); err != nil {
		return "write-error"
	}
	classify := func(m int, err error) string {
		switch {
		case m > 0:
			return "data"
		case err == io.EOF:
			return "eof"
		case errors.Is(err, syscall.ECONNRESET):
			return "reset"
		case errors.Is(err, os.ErrDeadlineExceeded):
			return "silent"
		default:
			return "other: " + err.Error()
		}
	}
	buf := make([]byte, 1024)
	_ = c.SetReadDeadline(time.Now().Add(3 * time.Second))
	m, err := c.Read(buf)
	cl := classify(m, err)
	if cl != "silent" {
		return cl
	}
	// nothing yet: a policy that answers reads (ReplyWithGibberish) is waiting for more bytes
	if _, err := c.Write([]byte{0}); err != nil {
		return "late-write-error"
	}
	_ = c.SetReadDeadline(time.Now().Add(3 * time.Second))
	m, err = c.Read(buf)
	if cl = classify(m, err); cl == "data" {
		return cl
	}
	return "late-" + cl
}
