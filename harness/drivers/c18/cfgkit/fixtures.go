//go:build verif

package cfgkit

import (
	"context"
	"encoding/json"
	"errors"
	"fmt"
	"math/rand/v2"
	"net"
	"os"
	"path/filepath"
	"sync"
	"time"

	"github.com/database64128/shadowsocks-go/jsoncfg"
	"github.com/database64128/shadowsocks-go/service"
	"go.uber.org/zap"
	"go.uber.org/zap/zapcore"
	"go.uber.org/zap/zaptest/observer"
)

// FreePort reserves a port number that is free for TCP and UDP on 127.0.0.1 (and [::1] when
// available) at the time of the call.  The port is taken from below the ephemeral range, so that
// the outgoing sockets of the relays (which get ephemeral ports) cannot take it in the meantime;
// another process choosing the same number is still possible and is handled by retrying the case.
func FreePort() (int, error) {
	for range 200 {
		port := 10000 + portRand.IntN(22000)
		l, err := net.Listen("tcp4", fmt.Sprintf("127.0.0.1:%d", port))
		if err != nil {
			continue
		}
		u, err := net.ListenPacket("udp4", fmt.Sprintf("127.0.0.1:%d", port))
		if err != nil {
			l.Close()
			continue
		}
		ok := true
		if l6, err := net.Listen("tcp6", fmt.Sprintf("[::1]:%d", port)); err == nil {
			l6.Close()
			if u6, err := net.ListenPacket("udp6", fmt.Sprintf("[::1]:%d", port)); err == nil {
				u6.Close()
			} else {
				ok = false
			}
		}
		u.Close()
		l.Close()
		if ok {
			return port, nil
		}
	}
	return 0, errors.New("no free port")
}

var portRand = rand.New(rand.NewPCG(uint64(os.Getpid()), uint64(time.Now().UnixNano())))

// FreePorts reserves n distinct ports.
func FreePorts(n int) ([]int, error) {
	seen := map[int]bool{}
	var out []int
	for len(out) < n {
		p, err := FreePort()
		if err != nil {
			return nil, err
		}
		if !seen[p] {
			seen[p] = true
			out = append(out, p)
		}
	}
	return out, nil
}

// Echo is the harness target: whatever arrives comes back prefixed with "pong:".
type Echo struct {
	Port int
	tl   []net.Listener
	ul   []net.PacketConn
	wg   sync.WaitGroup
}

const Pong = "pong:"

// StartEcho starts the target on 127.0.0.1 (and [::1] when available), TCP and UDP, same port.
func StartEcho() (*Echo, error) {
	for range 20 {
		port, err := FreePort()
		if err != nil {
			return nil, err
		}
		e := &Echo{Port: port}
		tl, err := net.Listen("tcp4", fmt.Sprintf("127.0.0.1:%d", port))
		if err != nil {
			continue
		}
		ul, err := net.ListenPacket("udp4", fmt.Sprintf("127.0.0.1:%d", port))
		if err != nil {
			tl.Close()
			continue
		}
		e.tl = append(e.tl, tl)
		e.ul = append(e.ul, ul)
		if tl6, err := net.Listen("tcp6", fmt.Sprintf("[::1]:%d", port)); err == nil {
			e.tl = append(e.tl, tl6)
		}
		if ul6, err := net.ListenPacket("udp6", fmt.Sprintf("[::1]:%d", port)); err == nil {
			e.ul = append(e.ul, ul6)
		}
		for _, l := range e.tl {
			e.wg.Go(func() { e.serveTCP(l) })
		}
		for _, u := range e.ul {
			e.wg.Go(func() { e.serveUDP(u) })
		}
		return e, nil
	}
	return nil, errors.New("echo target: no port")
}

func (e *Echo) serveTCP(l net.Listener) {
	for {
		c, err := l.Accept()
		if err != nil {
			return
		}
		go func() {
			defer c.Close()
			b := make([]byte, 4096)
			first := true
			for {
				_ = c.SetReadDeadline(time.Now().Add(30 * time.Second))
				n, err := c.Read(b)
				if n > 0 {
					out := b[:n]
					if first {
						out = append([]byte(Pong), b[:n]...)
						first = false
					}
					if _, werr := c.Write(out); werr != nil {
						return
					}
				}
				if err != nil {
					return
				}
			}
		}()
	}
}

func (e *Echo) serveUDP(u net.PacketConn) {
	b := make([]byte, 65536)
	for {
		n, from, err := u.ReadFrom(b)
		if err != nil {
			return
		}
		_, _ = u.WriteTo(append([]byte(Pong), b[:n]...), from)
	}
}

// Close stops the target.
func (e *Echo) Close() {
	for _, l := range e.tl {
		l.Close()
	}
	for _, u := range e.ul {
		u.Close()
	}
	e.wg.Wait()
}

// Running is a started service manager.
type Running struct {
	M      *service.Manager
	Cfg    *service.Config
	Logs   *observer.ObservedLogs
	cancel context.CancelFunc
	done   chan bool
}

// LoadError distinguishes the two places a configuration can be refused.
type LoadError struct {
	Stage string // "parse" (jsoncfg.Load) or "manager" (Config.Manager)
	Err   error
}

func (e *LoadError) Error() string { return e.Stage + ": " + e.Err.Error() }

// PanicError is a panic raised on the calling goroutine by the code under test.
type PanicError struct {
	Stage string
	Value any
}

func (e *PanicError) Error() string { return fmt.Sprintf("panic in %s: %v", e.Stage, e.Value) }

// Load does what cmd/shadowsocks-go does with a configuration file: jsoncfg.Load, Config.Manager.
func Load(path string, level zapcore.Level) (r *Running, err error) {
	core, logs := observer.New(level)
	logger := zap.New(core)
	r = &Running{Cfg: new(service.Config), Logs: logs}
	defer func() {
		if p := recover(); p != nil {
			r, err = nil, &PanicError{Stage: "load", Value: p}
		}
	}()
	if err := jsoncfg.Load(path, r.Cfg); err != nil {
		return nil, &LoadError{Stage: "parse", Err: err}
	}
	m, err := r.Cfg.Manager(logger)
	if err != nil {
		return nil, &LoadError{Stage: "manager", Err: err}
	}
	r.M = m
	return r, nil
}

// Start runs Manager.Run on its own goroutine.
func (r *Running) Start() {
	ctx, cancel := context.WithCancel(context.Background())
	r.cancel = cancel
	r.done = make(chan bool, 1)
	go func() {
		r.done <- r.M.Run(ctx)
	}()
}

// Failed reports whether Run has already returned (a service failed to start).
func (r *Running) Failed() bool {
	select {
	case ok := <-r.done:
		r.done <- ok
		return true
	default:
		return false
	}
}

// Stop cancels the manager and waits for Run to return.  ok is Run's result.
func (r *Running) Stop(timeout time.Duration) (ok bool, stopped bool) {
	if r.cancel == nil {
		r.M.Close()
		return true, true
	}
	r.cancel()
	select {
	case ok = <-r.done:
		r.M.Close()
		return ok, true
	case <-time.After(timeout):
		return false, false
	}
}

// LogTail returns the last n warn-or-worse log lines (diagnostics only).
func (r *Running) LogTail(n int) []string {
	var out []string
	for _, e := range r.Logs.All() {
		if e.Level >= zapcore.WarnLevel {
			s := e.Message
			for _, f := range e.Context {
				if f.Key == "error" && f.Interface != nil {
					s += fmt.Sprintf(" error=%v", f.Interface)
				}
			}
			out = append(out, s)
		}
	}
	if len(out) > n {
		out = out[len(out)-n:]
	}
	return out
}

// FarKinds are the proxy servers the harness keeps behind the clients of the configuration under test.
var FarKinds = []string{"socks5", "socks5-auth", "http", "http-auth", "none", "2022-128", "2022-256", "2022-128-mu", "2022-256-mu"}

// StartFar starts one manager with a server per FarKinds entry; every server uses the default
// direct client, so that a request ends at the echo target.
func StartFar(dir string) (*Running, map[string]int, error) {
	var lastErr error
	for range 5 {
		ports, err := FreePorts(len(FarKinds))
		if err != nil {
			return nil, nil, err
		}
		far := map[string]int{}
		var servers []any
		for i, k := range FarKinds {
			far[k] = ports[i]
			addr := fmt.Sprintf("127.0.0.1:%d", ports[i])
			m := map[string]any{"name": "far-" + k, "mtu": 1500,
				"tcpListeners": []any{map[string]any{"network": "tcp4", "address": addr}}}
			udp := []any{map[string]any{"network": "udp4", "address": addr}}
			users := []any{map[string]any{"username": "u", "password": "p"}}
			switch k {
			case "socks5":
				m["protocol"] = "socks5"
				m["udpListeners"] = udp
			case "socks5-auth":
				m["protocol"] = "socks5"
				m["udpListeners"] = udp
				m["socks5"] = map[string]any{"users": users, "enableUserPassAuth": true}
			case "http":
				m["protocol"] = "http"
			case "http-auth":
				m["protocol"] = "http"
				m["http"] = map[string]any{"users": users, "enableBasicAuth": true}
			case "none":
				m["protocol"] = "none"
				m["udpListeners"] = udp
			case "2022-128", "2022-256":
				m["protocol"] = ProtoName(k)
				m["udpListeners"] = udp
				m["psk"] = b64(Key(MethodKeyLen(k), "far/"+k))
			case "2022-128-mu", "2022-256-mu":
				p := k[:len(k)-3]
				n := MethodKeyLen(p)
				m["protocol"] = ProtoName(p)
				m["udpListeners"] = udp
				m["psk"] = b64(Key(n, "far-ipsk/"+p))
				store := filepath.Join(dir, "far-"+k+".json")
				b, _ := json.Marshal(map[string]string{"u1": b64(Key(n, "far/"+p))})
				if err := os.WriteFile(store, b, 0o600); err != nil {
					return nil, nil, err
				}
				m["uPSKStorePath"] = store
			}
			servers = append(servers, m)
		}
		doc, _ := json.Marshal(map[string]any{"servers": servers})
		path := filepath.Join(dir, "far.json")
		if err := os.WriteFile(path, doc, 0o600); err != nil {
			return nil, nil, err
		}
		r, err := Load(path, zapcore.WarnLevel)
		if err != nil {
			return nil, nil, fmt.Errorf("far fixture refused: %w", err)
		}
		r.Start()
		if err := waitTCP(fmt.Sprintf("127.0.0.1:%d", ports[len(ports)-1]), r, 30*time.Second); err != nil {
			r.Stop(5 * time.Second)
			lastErr = err
			continue
		}
		return r, far, nil
	}
	return nil, nil, fmt.Errorf("far fixture did not start: %v", lastErr)
}

// waitTCP waits until a TCP listener accepts on addr (the manager starts its services in order,
// so the last listener being up means all are) or the manager has given up.
func waitTCP(addr string, r *Running, timeout time.Duration) error {
	deadline := time.Now().Add(timeout)
	for {
		c, err := net.DialTimeout("tcp", addr, time.Second)
		if err == nil {
			c.Close()
			return nil
		}
		if r != nil && r.Failed() {
			return fmt.Errorf("manager failed to start: %v", r.LogTail(3))
		}
		if time.Now().After(deadline) {
			return fmt.Errorf("listener %s not up: %v", addr, err)
		}
		time.Sleep(5 * time.Millisecond)
	}
}
