//go:build verif

package cfgkit

import (
	"crypto/sha512"
	"encoding/base64"
	"encoding/json"
	"fmt"
	"os"
	"path/filepath"
	"time"
)

// MaxSlots is the number of listener ports reserved per server: array slots 0..MaxSlots-2 and the
// legacy single listener in the last slot.  TCP listener j and UDP listener j share a port number.
const MaxSlots = 3

// Env is what rendering needs besides the abstract configuration: where the harness fixtures
// listen and where files may be written.
type Env struct {
	Dir      string         // directory for the configuration, uPSK store, prefix and domain set files
	EchoPort int            // echo target, TCP and UDP, 127.0.0.1 and [::1]
	Far      map[string]int // far proxy server per client kind (see FarKinds)
	SPorts   [][]int        // [server index][slot] listener port of the configuration under test
	DNSPort  int            // an unused port for "plain" resolvers (never queried: smoke targets are IP addresses)
}

// ProtoName maps the abstract protocol name to the configuration value.
func ProtoName(p string) string {
	switch p {
	case "2022-128":
		return "2022-blake3-aes-128-gcm"
	case "2022-256":
		return "2022-blake3-aes-256-gcm"
	default:
		return p
	}
}

// Is2022 reports whether p is a Shadowsocks 2022 method.
func Is2022(p string) bool { return p == "2022-128" || p == "2022-256" }

// MethodKeyLen is the key length the method name documents.
func MethodKeyLen(p string) int {
	if p == "2022-256" {
		return 32
	}
	return 16
}

// Key returns n deterministic key bytes for tag; Key(n, t) is a prefix of Key(n+1, t).
func Key(n int, tag string) []byte {
	h := sha512.Sum512([]byte("c18/" + tag))
	out := append([]byte{}, h[:]...)
	for len(out) < n {
		h = sha512.Sum512(h[:])
		out = append(out, h[:]...)
	}
	return out[:n]
}

func b64(b []byte) string { return base64.StdEncoding.EncodeToString(b) }

func listenAddr(network string, port int) string {
	switch network {
	case "tcp6", "udp6":
		return fmt.Sprintf("[::1]:%d", port)
	default:
		return fmt.Sprintf("127.0.0.1:%d", port)
	}
}

func putInt(m map[string]any, k string, v int) {
	if v != Omit {
		m[k] = v
	}
}

func putStr(m map[string]any, k string, v string) {
	if v != OmitS {
		m[k] = v
	}
}

func putMs(m map[string]any, k string, ms int) {
	if ms != Omit {
		m[k] = (time.Duration(ms) * time.Millisecond).String()
	}
}

// SlotOfLegacy is the port slot of the legacy single listener.
const SlotOfLegacy = MaxSlots - 1

// FarKind names the far server a client of the configuration under test must point at.
func FarKind(c *Client) string {
	switch {
	case Is2022(c.Proto) && len(c.IPSKs) > 0:
		return c.Proto + "-mu"
	case (c.Proto == "socks5" || c.Proto == "http") && c.Auth:
		return c.Proto + "-auth"
	case c.Proto == "plain":
		return "none"
	default:
		return c.Proto
	}
}

// Render writes the files a configuration refers to and returns the JSON document.
func Render(c *Cfg, env *Env) ([]byte, error) {
	doc := map[string]any{}
	var servers []any
	for i := range c.Servers {
		s := &c.Servers[i]
		m := map[string]any{"name": s.Name, "protocol": ProtoName(s.Proto)}
		if len(s.TCPL) > 0 {
			var ls []any
			for j, l := range s.TCPL {
				lm := map[string]any{"network": l.Net, "address": listenAddr(l.Net, env.SPorts[i][j])}
				putMs(lm, "initialPayloadWaitTimeout", l.Ipw)
				putInt(lm, "initialPayloadWaitBufferSize", l.Ipb)
				if l.Dipw {
					lm["disableInitialPayloadWait"] = true
				}
				ls = append(ls, lm)
			}
			m["tcpListeners"] = ls
		}
		if len(s.UDPL) > 0 {
			var ls []any
			for j, l := range s.UDPL {
				lm := map[string]any{"network": l.Net, "address": listenAddr(l.Net, env.SPorts[i][j])}
				putMs(lm, "natTimeout", l.Nat)
				putInt(lm, "relayBatchSize", l.Rb)
				putInt(lm, "serverRecvBatchSize", l.Sb)
				putInt(lm, "sendChannelCapacity", l.Cap)
				putStr(lm, "batchMode", l.Bm)
				ls = append(ls, lm)
			}
			m["udpListeners"] = ls
		}
		if s.Leg.TCP || s.Leg.UDP {
			m["listen"] = listenAddr("", env.SPorts[i][SlotOfLegacy])
		}
		if s.Leg.TCP {
			m["enableTCP"] = true
			if s.Leg.Dipw {
				m["disableInitialPayloadWait"] = true
			}
		}
		if s.Leg.UDP {
			m["enableUDP"] = true
			putInt(m, "natTimeoutSec", s.Leg.Nat)
			putInt(m, "udpRelayBatchSize", s.Leg.Rb)
			putInt(m, "udpServerRecvBatchSize", s.Leg.Sb)
			putInt(m, "udpSendChannelCapacity", s.Leg.Cap)
			putStr(m, "udpBatchMode", s.Leg.Bm)
		}
		putInt(m, "mtu", s.MTU)
		if s.PSK != Omit {
			m["psk"] = b64(Key(s.PSK, "srv/"+s.Name))
		}
		switch s.Ups {
		case OmitS:
		case "":
			m["uPSKStorePath"] = ""
		case "missing":
			m["uPSKStorePath"] = filepath.Join(env.Dir, fmt.Sprintf("nonexistent-%d.json", i))
		case "file", "badlen":
			n := MethodKeyLen(s.Proto)
			if s.Ups == "badlen" {
				n++
			}
			p := filepath.Join(env.Dir, fmt.Sprintf("upsks-%d.json", i))
			b, _ := json.Marshal(map[string]string{"u1": b64(Key(n, "user/u1"))})
			if err := os.WriteFile(p, b, 0o600); err != nil {
				return nil, err
			}
			m["uPSKStorePath"] = p
		default:
			return nil, fmt.Errorf("unknown ups %q", s.Ups)
		}
		putStr(m, "rejectPolicy", s.Rej)
		putStr(m, "paddingPolicy", s.Pad)
		putInt(m, "slidingWindowFilterSize", s.Swf)
		switch s.Tun {
		case OmitS:
		case "ip":
			m["tunnelRemoteAddress"] = fmt.Sprintf("127.0.0.1:%d", env.EchoPort)
		case "dom":
			m["tunnelRemoteAddress"] = fmt.Sprintf("localhost:%d", env.EchoPort)
		default:
			return nil, fmt.Errorf("unknown tun %q", s.Tun)
		}
		if s.Tto {
			m["tunnelUDPTargetOnly"] = true
		}
		if s.Auth {
			users := []any{map[string]any{"username": "u", "password": "p"}}
			switch s.Proto {
			case "socks5":
				m["socks5"] = map[string]any{"users": users, "enableUserPassAuth": true}
			case "http":
				m["http"] = map[string]any{"users": users, "enableBasicAuth": true}
			}
		}
		servers = append(servers, m)
	}
	doc["servers"] = servers

	switch c.ClientsMode {
	case "omit":
	case "empty":
		doc["clients"] = []any{}
	default:
		var clients []any
		for i := range c.Clients {
			cl := &c.Clients[i]
			m := map[string]any{"name": cl.Name, "protocol": ProtoName(cl.Proto)}
			if cl.TCP {
				m["enableTCP"] = true
			}
			if cl.UDP {
				m["enableUDP"] = true
			}
			putInt(m, "mtu", cl.MTU)
			putStr(m, "network", cl.Net)
			far := fmt.Sprintf("127.0.0.1:%d", env.Far[FarKind(cl)])
			switch cl.Ep {
			case "ep":
				m["endpoint"] = far
			case "split":
				m["tcpAddress"] = far
				m["udpAddress"] = far
			case "both":
				m["endpoint"] = far
				m["tcpAddress"] = far
			case "none":
			default:
				return nil, fmt.Errorf("unknown ep %q", cl.Ep)
			}
			if cl.PSK != Omit {
				m["psk"] = b64(Key(cl.PSK, "far/"+cl.Proto))
			}
			if len(cl.IPSKs) > 0 {
				var ks []string
				for _, n := range cl.IPSKs {
					ks = append(ks, b64(Key(n, "far-ipsk/"+cl.Proto)))
				}
				m["iPSKs"] = ks
			}
			putStr(m, "paddingPolicy", cl.Pad)
			putInt(m, "slidingWindowFilterSize", cl.Swf)
			if cl.Auth {
				switch cl.Proto {
				case "socks5":
					m["socks5"] = map[string]any{"username": "u", "password": "p", "enableUserPassAuth": true}
				case "http":
					m["http"] = map[string]any{"username": "u", "password": "p", "useBasicAuth": true}
				}
			}
			clients = append(clients, m)
		}
		if clients == nil {
			clients = []any{}
		}
		doc["clients"] = clients
	}

	if len(c.Groups) > 0 {
		var gs []any
		for _, g := range c.Groups {
			m := map[string]any{"name": g.Name}
			if len(g.TCP.Clients) > 0 || g.TCP.Policy != OmitS {
				sm := map[string]any{"clients": g.TCP.Clients}
				putStr(sm, "policy", g.TCP.Policy)
				m["tcp"] = sm
			}
			if len(g.UDP.Clients) > 0 || g.UDP.Policy != OmitS {
				sm := map[string]any{"clients": g.UDP.Clients}
				putStr(sm, "policy", g.UDP.Policy)
				m["udp"] = sm
			}
			gs = append(gs, m)
		}
		doc["clientGroups"] = gs
	}

	if len(c.DNS) > 0 {
		var ds []any
		for _, r := range c.DNS {
			m := map[string]any{"name": r.Name}
			putStr(m, "type", r.Type)
			if r.Addr {
				m["addrPort"] = fmt.Sprintf("127.0.0.1:%d", env.DNSPort)
			}
			if r.TCP != "" {
				m["tcpClientName"] = r.TCP
			}
			if r.UDP != "" {
				m["udpClientName"] = r.UDP
			}
			putInt(m, "cacheSize", r.Cache)
			ds = append(ds, m)
		}
		doc["dns"] = ds
	}

	rm := map[string]any{}
	putStr(rm, "defaultTCPClientName", c.Router.DefTCP)
	putStr(rm, "defaultUDPClientName", c.Router.DefUDP)
	if len(c.Router.DSets) > 0 {
		var ds []any
		for k, n := range c.Router.DSets {
			p := filepath.Join(env.Dir, fmt.Sprintf("dset-%d.txt", k))
			if err := os.WriteFile(p, []byte("domain:example.com\nsuffix:example.org\n"), 0o600); err != nil {
				return nil, err
			}
			ds = append(ds, map[string]any{"name": n, "type": "text", "path": p})
		}
		rm["domainSets"] = ds
	}
	if len(c.Router.PSets) > 0 {
		var ps []any
		for k, n := range c.Router.PSets {
			p := filepath.Join(env.Dir, fmt.Sprintf("pset-%d.txt", k))
			if err := os.WriteFile(p, []byte("10.0.0.0/8\nfd00::/8\n"), 0o600); err != nil {
				return nil, err
			}
			ps = append(ps, map[string]any{"name": n, "path": p})
		}
		rm["prefixSets"] = ps
	}
	if len(c.Router.Routes) > 0 {
		var rs []any
		for _, r := range c.Router.Routes {
			m := map[string]any{"name": r.Name, "client": r.Client}
			putStr(m, "network", r.Net)
			if r.Resolver != "" {
				m["resolver"] = r.Resolver
			}
			if len(r.FromSrv) > 0 {
				m["fromServers"] = r.FromSrv
			}
			if len(r.ToDSets) > 0 {
				m["toDomainSets"] = r.ToDSets
			}
			if len(r.ToPSets) > 0 {
				m["toPrefixSets"] = r.ToPSets
			}
			if len(r.FromPSet) > 0 {
				m["fromPrefixSets"] = r.FromPSet
			}
			if r.Nr {
				m["disableNameResolutionForIPRules"] = true
			}
			rs = append(rs, m)
		}
		rm["routes"] = rs
	}
	if len(rm) > 0 {
		doc["router"] = rm
	}
	return json.MarshalIndent(doc, "", "  ")
}
