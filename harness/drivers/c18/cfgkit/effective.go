//go:build verif

package cfgkit

import (
	"fmt"
	"reflect"
	"runtime"
	"strings"
	"time"

	"github.com/database64128/shadowsocks-go/conn"
	"github.com/database64128/shadowsocks-go/service"
	"github.com/database64128/shadowsocks-go/ss2022"
)

// Observed is the projection of a real manager to the abstract Effective record, plus where each
// value was read (diagnostics).  Values are read, never written: exported API where there is one
// (PaddingPolicyField.Policy, RejectPolicyField.Policy on the loaded service.Config) and
// read-only reflection on the manager's unexported relay structures for the rest.
type Observed struct {
	Eff   Effective `json:"eff"`
	Notes []string  `json:"notes,omitempty"` // fields that could not be read (layout changed)
}

// Unread marks a setting that could not be read off the manager (the layout of an unexported
// structure changed): it is reported as a note and never compared.
const Unread = -1

func funcName(v reflect.Value) string {
	if v.Kind() != reflect.Func || v.IsNil() {
		return ""
	}
	f := runtime.FuncForPC(v.Pointer())
	if f == nil {
		return "?"
	}
	n := f.Name()
	if i := strings.LastIndex(n, "."); i >= 0 {
		n = n[i+1:]
	}
	return n
}

// PadName names a padding policy by what it does (extensional identity).
func PadName(p ss2022.PaddingPolicy) string {
	if p == nil {
		return ""
	}
	dns := p(conn.MustAddrFromDomainPort("example.com", 53))
	web := p(conn.MustAddrFromDomainPort("example.com", 443))
	switch {
	case dns && web:
		return "PadAll"
	case dns && !web:
		return "PadPlainDNS"
	case !dns && !web:
		return "NoPadding"
	default:
		return "?"
	}
}

// RejName names a reject policy function.
func RejName(p ss2022.RejectPolicy) string {
	return funcName(reflect.ValueOf(p))
}

func field(v reflect.Value, name string) (reflect.Value, bool) {
	for v.Kind() == reflect.Pointer || v.Kind() == reflect.Interface {
		if v.IsNil() {
			return reflect.Value{}, false
		}
		v = v.Elem()
	}
	if v.Kind() != reflect.Struct {
		return reflect.Value{}, false
	}
	f := v.FieldByName(name)
	return f, f.IsValid()
}

func typeName(v reflect.Value) string {
	for v.Kind() == reflect.Interface {
		v = v.Elem()
	}
	if !v.IsValid() {
		return ""
	}
	return v.Type().String()
}

// Observe projects the loaded configuration and its manager.
func Observe(abs *Cfg, sc *service.Config, m *service.Manager) Observed {
	var o Observed
	note := func(format string, a ...any) { o.Notes = append(o.Notes, fmt.Sprintf(format, a...)) }

	// relays by server name
	type relays struct{ tcp, udp reflect.Value }
	byName := map[string]*relays{}
	if svcs, ok := field(reflect.ValueOf(m), "services"); ok && svcs.Kind() == reflect.Slice {
		for i := 0; i < svcs.Len(); i++ {
			s := svcs.Index(i)
			tn := typeName(s)
			nameF, ok := field(s, "serverName")
			if !ok || nameF.Kind() != reflect.String {
				continue
			}
			r := byName[nameF.String()]
			if r == nil {
				r = &relays{}
				byName[nameF.String()] = r
			}
			switch {
			case strings.HasSuffix(tn, "TCPRelay"):
				r.tcp = s
			case strings.Contains(tn, "UDP"):
				r.udp = s
			}
		}
	} else {
		note("Manager.services not readable")
	}

	for i := range abs.Servers {
		as := &abs.Servers[i]
		var es EffServer
		es.TCP, es.UDP = []EffTCP{}, []EffUDP{}
		es.MTU, es.Swf = Unread, Unread
		r := byName[as.Name]
		if r == nil {
			r = &relays{}
		}
		if r.tcp.IsValid() {
			if ls, ok := field(r.tcp, "listeners"); ok && ls.Kind() == reflect.Slice {
				for j := 0; j < ls.Len(); j++ {
					l := ls.Index(j)
					var e EffTCP
					ok := true
					if f, fok := field(l, "initialPayloadWaitTimeout"); fok && f.CanInt() {
						e.Ipw = int(time.Duration(f.Int()) / time.Millisecond)
					} else {
						ok = false
					}
					if f, fok := field(l, "initialPayloadWaitBufferSize"); fok && f.CanInt() {
						e.Ipb = int(f.Int())
					} else {
						ok = false
					}
					if f, fok := field(l, "waitForInitialPayload"); fok && f.Kind() == reflect.Bool {
						e.Wait = f.Bool()
					} else {
						ok = false
					}
					if !ok {
						note("server %d: TCP listener settings not readable (layout changed)", i)
						e = EffTCP{Ipw: Unread}
					}
					es.TCP = append(es.TCP, e)
				}
			} else {
				note("TCPRelay.listeners not readable")
			}
			if Is2022(as.Proto) {
				if srv, ok := field(r.tcp, "server"); ok {
					if f, ok := field(srv, "rejectPolicy"); ok {
						es.Rej = funcName(f)
					} else {
						note("StreamServer.rejectPolicy not readable")
					}
				}
			}
		}
		if r.udp.IsValid() {
			if ls, ok := field(r.udp, "listeners"); ok && ls.Kind() == reflect.Slice {
				for j := 0; j < ls.Len(); j++ {
					l := ls.Index(j)
					var e EffUDP
					ok := true
					rd := func(name string) int {
						if f, fok := field(l, name); fok && f.CanInt() {
							return int(f.Int())
						}
						ok = false
						return 0
					}
					e.Nat = int(time.Duration(rd("natTimeout")) / time.Millisecond)
					e.Rb, e.Sb, e.Cap = rd("relayBatchSize"), rd("serverRecvBatchSize"), rd("sendChannelCapacity")
					if f, fok := field(l, "batchMode"); fok && f.Kind() == reflect.String {
						e.Bm = f.String()
					} else {
						ok = false
					}
					if !ok {
						note("server %d: UDP listener settings not readable (layout changed)", i)
						e = EffUDP{Nat: Unread}
					}
					es.UDP = append(es.UDP, e)
				}
			} else {
				note("UDP relay listeners not readable")
			}
			if f, ok := field(r.udp, "mtu"); ok && f.CanInt() {
				es.MTU = int(f.Int())
			} else {
				note("server %d: relay mtu not readable", i)
				es.MTU = Unread
			}
			if Is2022(as.Proto) {
				if srv, ok := field(r.udp, "server"); ok {
					if f, ok := field(srv, "shouldPad"); ok {
						es.Pad = funcName(f)
					} else {
						note("UDPServer.shouldPad not readable")
					}
					if f, ok := field(srv, "filterSize"); ok && f.CanUint() {
						es.Swf = int(f.Uint())
					} else {
						note("UDPServer.filterSize not readable")
						es.Swf = Unread
					}
				}
			}
		}
		// the exported view of the same fields (what ServerConfig hands to the relays)
		if i < len(sc.Servers) && Is2022(as.Proto) {
			rs := &sc.Servers[i]
			if r.tcp.IsValid() {
				if n := RejName(rs.RejectPolicy.Policy()); es.Rej == "" {
					es.Rej = n
				} else if n != es.Rej {
					note("server %d: RejectPolicy.Policy() is %s, the stream server runs %s", i, n, es.Rej)
				}
			}
			if r.udp.IsValid() {
				if n := PadName(rs.PaddingPolicy.Policy()); es.Pad == "" {
					es.Pad = n
				} else if n != es.Pad {
					note("server %d: PaddingPolicy.Policy() is %s, the UDP server runs %s", i, n, es.Pad)
				}
			}
		}
		o.Eff.Servers = append(o.Eff.Servers, es)
	}

	o.Eff.Clients = []EffClient{}
	for i := range sc.Clients {
		c := &sc.Clients[i]
		ec := EffClient{Name: c.Name, Net: c.Network}
		if c.EnableUDP && (c.Protocol == ProtoName("2022-128") || c.Protocol == ProtoName("2022-256")) {
			ec.Pad = PadName(c.PaddingPolicy.Policy())
		}
		o.Eff.Clients = append(o.Eff.Clients, ec)
	}
	return o
}
