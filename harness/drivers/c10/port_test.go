//go:build verif

package c10

import (
	"context"
	"encoding/json"
	"fmt"
	"net/netip"
	"testing"

	"github.com/database64128/shadowsocks-go/conn"
	"github.com/database64128/shadowsocks-go/portset"
	"github.com/database64128/shadowsocks-go/router"

	"verif/harness/internal/vio"
)

type portRange struct {
	From int `json:"from"`
	To   int `json:"to"`
}

type portCase struct {
	S    string      `json:"s"`
	Err  bool        `json:"err"`
	Runs []portRange `json:"runs"`
	Form string      `json:"form"`
}

type portObs struct {
	Ranges []portRange `json:"ranges"`
	Count  int         `json:"count"`
	First  int         `json:"first"`
	Rc     int         `json:"rc"`
}

type portAction struct {
	N    string `json:"n"`
	P    int    `json:"p"`
	From int    `json:"from"`
	To   int    `json:"to"`
	S    string `json:"s"`
	Err  bool   `json:"err"`
}

// membership table of the expected runs, index = port
func expected(runs []portRange) (tab []bool, count int) {
	tab = make([]bool, 65536)
	for _, r := range runs {
		for p := r.From; p <= r.To; p++ {
			tab[p] = true
		}
		count += r.To - r.From + 1
	}
	return
}

// checkPortSet asks the bit set, the range list extracted from it and the single-port form about
// every port, and compares with the runs the model expects.
func checkPortSet(res *vio.Result, ci int, what string, s *portset.PortSet, runs []portRange, replay any) (evals int, ok bool) {
	tab, count := expected(runs)
	fail := func(key, text string, exp, got any) (int, bool) {
		res.Violation(vio.Finding{Key: key, Behaviour: ci, Text: what + ": " + text, Expected: exp, Observed: got, Replay: replay})
		return evals, false
	}
	rs := s.RangeSet()
	n, first, rc := int(s.Count()), int(s.First()), int(s.RangeCount())
	for p := 1; p <= 65535; p++ {
		evals += 2
		if got := s.Contains(uint16(p)); got != tab[p] {
			return fail("portset.contains/bitset", fmt.Sprintf("PortSet.Contains(%d) = %v, the string means %v", p, got, tab[p]), tab[p], got)
		}
		if got := rs.Contains(uint16(p)); got != tab[p] {
			return fail("portset.contains/rangeset", fmt.Sprintf("RangeSet().Contains(%d) = %v, the string means %v (bit set says %v)", p, got, tab[p], s.Contains(uint16(p))), tab[p], got)
		}
		if n == 1 {
			evals++
			if got := uint16(p) == s.First(); got != tab[p] {
				return fail("portset.contains/single", fmt.Sprintf("single-port form (First() = %d) answers %v for %d, the string means %v", first, got, p, tab[p]), tab[p], got)
			}
		}
	}
	if rs.Contains(0) {
		return fail("portset.contains/rangeset", "RangeSet().Contains(0) = true", false, true)
	}
	// the selectors the loader uses to choose the form
	if n != count {
		return fail("portset.count", fmt.Sprintf("Count() = %d, the string means %d ports", n, count), count, n)
	}
	wantFirst := 0
	if len(runs) > 0 {
		wantFirst = runs[0].From
	}
	if first != wantFirst {
		return fail("portset.first", fmt.Sprintf("First() = %d, smallest member %d", first, wantFirst), wantFirst, first)
	}
	if rc != len(runs) {
		return fail("portset.rangecount", fmt.Sprintf("RangeCount() = %d, the set has %d maximal runs", rc, len(runs)), len(runs), rc)
	}
	return evals, true
}

// checkRoute builds a route with the string as fromPortRanges / toPortRanges (the loader picks the
// form: single port, range list or bit set) and asks it about every port.
func checkRoute(res *vio.Result, ci int, s string, runs []portRange, replay any) (evals int) {
	tab, count := expected(runs)
	if count == 0 || count == 65535 {
		return 0
	}
	ip := netip.AddrFrom4([4]byte{10, 0, 0, 1})
	for _, side := range []string{"from", "to"} {
		rc := router.RouteConfig{Name: "r", Client: "reject"}
		if side == "from" {
			rc.FromPortRanges = s
		} else {
			rc.ToPortRanges = s
		}
		route, err := rc.Route(nil, nil, nil, nil, nil, nil, nil, nil, nil)
		if err != nil {
			res.DriftNote(vio.Finding{Key: "portset.route/error", Behaviour: ci, Text: fmt.Sprintf("route with %sPortRanges %q: %v", side, s, err)})
			return
		}
		for p := 1; p <= 65535; p++ {
			ri := router.RequestInfo{SourceAddrPort: netip.AddrPortFrom(ip, 40000), TargetAddr: conn.AddrFromIPPort(netip.AddrPortFrom(ip, 443))}
			if side == "from" {
				ri.SourceAddrPort = netip.AddrPortFrom(ip, uint16(p))
			} else {
				ri.TargetAddr = conn.AddrFromIPPort(netip.AddrPortFrom(ip, uint16(p)))
			}
			evals++
			got, err := route.Match(context.Background(), 0, ri)
			if err != nil || got != tab[p] {
				res.Violation(vio.Finding{Key: "portset.contains/route-" + side, Behaviour: ci,
					Text:     fmt.Sprintf("route with %sPortRanges %q: port %d matched=%v err=%v, the string means %v", side, s, p, got, err, tab[p]),
					Expected: tab[p], Observed: got, Replay: replay})
				return
			}
		}
	}
	return
}

// TestPortCases: range strings tabulated by the PortSet model with their expected runs.
func TestPortCases(t *testing.T) {
	in, res := start(t)
	var cases []portCase
	var routeEvery, offset int
	in.Param("cases", &cases)
	in.Param("routeEvery", &routeEvery)
	in.Param("offset", &offset)
	evals := 0
	for i, c := range cases {
		ci := offset + i
		replay := map[string]any{"test": "TestPortCases", "seed": in.Seed, "offset": ci, "case": c}
		guard(res, "portset.case", ci, replay, func() {
			var s portset.PortSet
			err := s.Parse(c.S)
			if (err != nil) != c.Err {
				res.DriftNote(vio.Finding{Key: "portset.parse/error", Behaviour: ci, Text: fmt.Sprintf("Parse(%q): error %v, model error=%v", c.S, err, c.Err)})
				return
			}
			// after an error the items before the bad one stay applied; the model tabulates those
			res.Seen(fmt.Sprintf("%s/%d/%v", c.Form, len(c.Runs), c.Err))
			res.Count("form:"+c.Form, 1)
			n, ok := checkPortSet(res, ci, fmt.Sprintf("Parse(%q)", c.S), &s, c.Runs, replay)
			evals += n
			if ok && !c.Err && routeEvery > 0 && ci%routeEvery == 0 {
				evals += checkRoute(res, ci, c.S, c.Runs, replay)
				res.Count("routes", 1)
			}
		})
		res.Sample(map[string]any{"range_string": c.S, "expected_runs": c.Runs, "form": c.Form}, 2)
	}
	res.AddSteps(len(cases), evals)
	res.Count("evaluations", evals)
}

// TestPortReplay: behaviours of the PortSet model (Add, AddRange, Parse on one set).
func TestPortReplay(t *testing.T) {
	in, res := start(t)
	evals := 0
	for bi, b := range in.Behaviours {
		var s portset.PortSet
		var hist []portAction
		rp := map[string]any{"test": "TestPortReplay", "seed": in.Seed, "behaviour": b}
		guard(res, "portset.replay", bi, rp, func() {
			for si, st := range b.Steps {
				var a portAction
				var o portObs
				if err := json.Unmarshal(st.A, &a); err != nil {
					res.Break("bad action: %v", err)
					return
				}
				if err := json.Unmarshal(st.O, &o); err != nil {
					res.Break("bad obs: %v", err)
					return
				}
				hist = append(hist, a)
				res.Seen(fmt.Sprintf("%s/%d", a.N, len(o.Ranges)))
				switch a.N {
				case "Add":
					s.Add(uint16(a.P))
				case "AddRange":
					s.AddRange(uint16(a.From), uint16(a.To))
				case "Parse":
					if err := s.Parse(a.S); (err != nil) != a.Err {
						res.DriftNote(vio.Finding{Key: "portset.parse/error", Behaviour: bi, Step: si, Text: fmt.Sprintf("Parse(%q): error %v, model error=%v", a.S, err, a.Err)})
						return
					}
				default:
					res.Break("unknown action %q", a.N)
					return
				}
				n, ok := checkPortSet(res, bi, fmt.Sprintf("after %+v", hist), &s, o.Ranges, rp)
				evals += n
				if !ok {
					return
				}
			}
		})
		res.AddSteps(1, len(b.Steps))
		res.Sample(hist, 2)
	}
	res.Count("evaluations", evals)
}
