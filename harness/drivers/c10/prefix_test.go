//go:build verif

package c10

import (
	"bytes"
	"fmt"
	"math/rand/v2"
	"net/netip"
	"os"
	"path/filepath"
	"strings"
	"testing"

	"github.com/database64128/shadowsocks-go/prefixset"
	"github.com/gaissmai/bart"

	"verif/harness/internal/vio"
)

type pfxLine struct {
	Fam string `json:"fam"`
	A   int    `json:"a"`
	Len int    `json:"len"`
}

type pfxHas struct {
	Fam string `json:"fam"`
	X   int    `json:"x"`
}

type pfxCase struct {
	Src []pfxLine `json:"src"`
	Tbl []pfxLine `json:"tbl"`
	Has []pfxHas  `json:"has"`
}

// embed stretches a w-bit model address over total real bits: model bit i (1 = most significant)
// fills the real bits lens[i-1] .. lens[i]-1, so a model prefix length k is the real length lens[k].
func embed(a, w int, lens []int, total int) netip.Addr {
	var b [16]byte
	for i := 1; i <= w; i++ {
		if a>>(w-i)&1 == 1 {
			for j := lens[i-1]; j < lens[i]; j++ {
				b[j/8] |= 0x80 >> (j % 8)
			}
		}
	}
	if total == 32 {
		return netip.AddrFrom4([4]byte(b[:4]))
	}
	return netip.AddrFrom16(b)
}

// length maps: every strictly increasing choice of w-1 inner lengths from the boundary lengths
func lengthMaps(w, total int, inner []int) [][]int {
	var out [][]int
	var rec func(cur []int, from int)
	rec = func(cur []int, from int) {
		if len(cur) == w-1 {
			m := append([]int{0}, cur...)
			out = append(out, append(m, total))
			return
		}
		for i := from; i < len(inner); i++ {
			rec(append(append([]int(nil), cur...), inner[i]), i+1)
		}
	}
	rec(nil, 0)
	return out
}

func step(a netip.Addr, up bool) (netip.Addr, bool) {
	if up {
		n := a.Next()
		return n, n.IsValid()
	}
	p := a.Prev()
	return p, p.IsValid()
}

func lastOf(p netip.Prefix) netip.Addr {
	b := p.Masked().Addr().AsSlice()
	for j := p.Bits(); j < len(b)*8; j++ {
		b[j/8] |= 0x80 >> (j % 8)
	}
	a, _ := netip.AddrFromSlice(b)
	return a
}

// mutatePrefixText rewrites the text form without changing its meaning.
func mutatePrefixText(lines []string, r *rand.Rand) string {
	lines = append([]string(nil), lines...)
	r.Shuffle(len(lines), func(i, j int) { lines[i], lines[j] = lines[j], lines[i] })
	noise := []string{"", "", "# comment", "#", "#10.0.0.0/8", "# ::/0"}
	var out []string
	for _, l := range lines {
		for r.IntN(4) == 0 {
			out = append(out, noise[r.IntN(len(noise))])
		}
		out = append(out, l)
	}
	for r.IntN(3) == 0 {
		out = append(out, noise[r.IntN(len(noise))])
	}
	if len(out) == 0 {
		return ""
	}
	eol := "\n"
	if r.IntN(2) == 0 {
		eol = "\r\n"
	}
	s := strings.Join(out, eol)
	if r.IntN(3) != 0 || out[len(out)-1] == "" {
		s += eol
	}
	return s
}

func linesOf(text string) []string {
	var out []string
	for _, l := range strings.Split(text, "\n") {
		if l = strings.TrimSuffix(l, "\r"); l != "" && l[0] != '#' {
			out = append(out, l)
		}
	}
	return out
}

// TestPrefixCases: prefix sets tabulated by the PrefixSet model, stretched onto IPv4 and IPv6.
func TestPrefixCases(t *testing.T) {
	in, res := start(t)
	var (
		cases                  []pfxCase
		w, mapsPer, offset, fe int
	)
	in.Param("cases", &cases)
	in.Param("w", &w)
	in.Param("mapsPerCase", &mapsPer)
	in.Param("offset", &offset)
	in.Param("fileEvery", &fe)
	dir := t.TempDir()
	maps := map[string][][]int{
		"4": lengthMaps(w, 32, []int{1, 7, 8, 9, 16, 24, 31}),
		"6": lengthMaps(w, 128, []int{1, 32, 63, 64, 65, 96, 127}),
	}
	total := map[string]int{"4": 32, "6": 128}
	evals := 0
	for i, c := range cases {
		ci := offset + i
		base := map[string]any{"test": "TestPrefixCases", "seed": in.Seed, "offset": ci, "case": c, "w": w, "mapsPerCase": mapsPer}
		guard(res, "prefixset.case", ci, base, func() {
			for mi := range mapsPer {
				r := rng(in.Seed, ci, mi)
				lens := map[string][]int{"4": maps["4"][r.IntN(len(maps["4"]))], "6": maps["6"][r.IntN(len(maps["6"]))]}
				var src []netip.Prefix
				var s0 bart.Lite // the set as the router builds it from fromPrefixes/toPrefixes
				for _, l := range c.Src {
					p := netip.PrefixFrom(embed(l.A, w, lens[l.Fam], total[l.Fam]), lens[l.Fam][l.Len])
					src = append(src, p)
					s0.Insert(p)
				}
				replay := map[string]any{"prefixes": src}
				for k, v := range base {
					replay[k] = v
				}
				res.Seen(fmt.Sprintf("%v/%v", c.Src, lens))
				// probes: every model address stretched, and the edges of every prefix +-1
				has := map[pfxHas]bool{}
				for _, h := range c.Has {
					has[h] = true
				}
				type probe struct {
					a      netip.Addr
					model  bool
					expect bool
				}
				var probes []probe
				for fam, ls := range lens {
					for x := range 1 << w {
						a := embed(x, w, ls, total[fam])
						probes = append(probes, probe{a, true, has[pfxHas{fam, x}]})
						if fam == "4" {
							probes = append(probes, probe{a: netip.AddrFrom16(a.As16())}) // 4in6 form
						}
					}
				}
				for _, p := range src {
					first, last := p.Masked().Addr(), lastOf(p)
					probes = append(probes, probe{a: first}, probe{a: last}, probe{a: p.Addr()})
					if a, ok := step(first, false); ok {
						probes = append(probes, probe{a: a})
					}
					if a, ok := step(last, true); ok {
						probes = append(probes, probe{a: a})
					}
					if a, ok := step(first, true); ok {
						probes = append(probes, probe{a: a})
					}
				}
				naive := func(a netip.Addr) bool {
					for _, p := range src {
						if p.Masked().Contains(a) {
							return true
						}
					}
					return false
				}
				for _, pr := range probes {
					evals++
					got := s0.Contains(pr.a)
					if pr.model && got != pr.expect {
						res.DriftNote(vio.Finding{Key: "prefixset.model/contains", Behaviour: ci, Text: fmt.Sprintf("bart set of %v: Contains(%v) = %v, model %v", src, pr.a, got, pr.expect)})
					}
					if got != naive(pr.a) {
						res.DriftNote(vio.Finding{Key: "prefixset.naive/contains", Behaviour: ci, Text: fmt.Sprintf("bart set of %v: Contains(%v) = %v, netip says %v", src, pr.a, got, !got)})
					}
				}
				if n := s0.Size4() + s0.Size6(); n != len(c.Tbl) {
					res.DriftNote(vio.Finding{Key: "prefixset.model/size", Behaviour: ci, Text: fmt.Sprintf("bart set of %v has %d prefixes, model %d", src, n, len(c.Tbl))})
				}
				same := func(key, what string, s *bart.Lite) bool {
					for _, pr := range probes {
						evals++
						if got, want := s.Contains(pr.a), s0.Contains(pr.a); got != want {
							res.Violation(vio.Finding{Key: key, Behaviour: ci,
								Text:     fmt.Sprintf("%s of the set %v: Contains(%v) = %v, the original set says %v", what, src, pr.a, got, want),
								Expected: want, Observed: got, Replay: replay})
							return false
						}
					}
					return true
				}
				// written out and reloaded
				t1 := string(prefixset.PrefixSetToText(&s0))
				replay["text"] = t1
				s1, err := prefixset.PrefixSetFromText(t1)
				if err != nil {
					res.Violation(vio.Finding{Key: "prefixset.roundtrip/refused", Behaviour: ci, Text: fmt.Sprintf("PrefixSetFromText(PrefixSetToText(%v)): %v", src, err), Replay: replay})
					return
				}
				if !same("prefixset.roundtrip/contains", "PrefixSetFromText(PrefixSetToText(s))", s1) {
					return
				}
				var buf bytes.Buffer
				if err := prefixset.PrefixSetWriteText(&s0, &buf); err != nil {
					res.Break("PrefixSetWriteText: %v", err)
					return
				}
				s2, err := prefixset.PrefixSetFromText(buf.String())
				if err != nil {
					res.Violation(vio.Finding{Key: "prefixset.roundtrip/refused", Behaviour: ci, Text: fmt.Sprintf("PrefixSetFromText(PrefixSetWriteText(%v)): %v", src, err), Replay: replay})
					return
				}
				if !same("prefixset.roundtrip/contains", "PrefixSetFromText(PrefixSetWriteText(s))", s2) {
					return
				}
				if a, b := linesOf(t1), linesOf(buf.String()); !sameSet(a, b) || len(a) != len(c.Tbl) {
					res.DriftNote(vio.Finding{Key: "prefixset.text/lines", Behaviour: ci, Text: fmt.Sprintf("ToText %q, WriteText %q, model %d prefixes", a, b, len(c.Tbl))})
				}
				// twice round is the same text
				if a, b := linesOf(t1), linesOf(string(prefixset.PrefixSetToText(s1))); !sameSet(a, b) {
					res.DriftNote(vio.Finding{Key: "prefixset.text/lines", Behaviour: ci, Text: fmt.Sprintf("text %q, after a round trip %q", a, b)})
				}
				// the text form with host bits, CRLF, blank and comment lines, in any order
				var raw []string
				for _, p := range src {
					raw = append(raw, p.String())
				}
				for _, lines := range [][]string{raw, linesOf(t1)} {
					text := mutatePrefixText(lines, r)
					replay["text"] = text
					s3, err := prefixset.PrefixSetFromText(text)
					if err != nil {
						res.Violation(vio.Finding{Key: "prefixset.text/refused", Behaviour: ci, Text: fmt.Sprintf("PrefixSetFromText(%q): %v", text, err), Replay: replay})
						return
					}
					if !same("prefixset.text/contains", fmt.Sprintf("PrefixSetFromText(%q)", text), s3) {
						return
					}
					if fe > 0 && ci%fe == 0 && mi == 0 {
						p := filepath.Join(dir, fmt.Sprintf("p%d.txt", ci))
						if err := os.WriteFile(p, []byte(text), 0o644); err != nil {
							res.Break("write: %v", err)
							return
						}
						s4, err := prefixset.Config{Name: "x", Path: p}.LoadPrefixSet()
						os.Remove(p)
						if err != nil {
							if text == "" {
								continue // an empty file cannot be mapped: nothing to load
							}
							res.Violation(vio.Finding{Key: "prefixset.file/refused", Behaviour: ci, Text: fmt.Sprintf("LoadPrefixSet of %q: %v", text, err), Replay: replay})
							return
						}
						if !same("prefixset.file/contains", fmt.Sprintf("LoadPrefixSet of %q", text), s4) {
							return
						}
						res.Count("files", 1)
					}
				}
			}
		})
		res.Sample(map[string]any{"model_lines": c.Src, "model_table": c.Tbl, "model_contains": c.Has}, 2)
	}
	res.AddSteps(len(cases), evals)
	res.Count("evaluations", evals)
}
