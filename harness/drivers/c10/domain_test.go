//go:build verif

package c10

import (
	"bytes"
	"encoding/json"
	"fmt"
	"math/rand/v2"
	"os"
	"os/exec"
	"path/filepath"
	"slices"
	"strings"
	"testing"

	"github.com/database64128/shadowsocks-go/domainset"

	"verif/harness/internal/vio"
)

type rules struct {
	D []string `json:"d"`
	S []string `json:"s"`
	K []string `json:"k"`
	R []string `json:"r"`
}

func (r rules) n() int { return len(r.D) + len(r.S) + len(r.K) + len(r.R) }

type domCase struct {
	Ref  rules    `json:"ref"`
	Keys []string `json:"keys"`
	M    []string `json:"m"`
}

type selRow struct {
	Kind string `json:"kind"`
	Bk   string `json:"bk"`
	N    int    `json:"n"`
	Sel  string `json:"sel"`
}

type matcher interface{ Match(string) bool }

var (
	domainBuilders = []struct {
		name string
		mk   func(int) domainset.MatcherBuilder
	}{
		{"DomainLinearMatcher", domainset.NewDomainLinearMatcher},
		{"DomainBinarySearchMatcher", domainset.NewDomainBinarySearchMatcher},
		{"DomainMapMatcher", domainset.NewDomainMapMatcher},
	}
	suffixBuilders = []struct {
		name string
		mk   func(int) domainset.MatcherBuilder
	}{
		{"SuffixLinearMatcher", domainset.NewSuffixLinearMatcher},
		{"SuffixMapMatcher", domainset.NewSuffixMapMatcher},
		{"DomainSuffixTrie", domainset.NewDomainSuffixTrieMatcherBuilder},
	}
)

// the meaning the property gives to a rule
func meansDomain(d string, rs []string) bool { return slices.Contains(rs, d) }
func meansSuffix(d string, rs []string) bool {
	for _, r := range rs {
		if d == r || strings.HasSuffix(d, "."+r) {
			return true
		}
	}
	return false
}

type domRun struct {
	res    *vio.Result
	probes []string
	table  map[string]string
	seed   int64
	dir    string
	evals  int
	sizes  []int
	rows   []selRow
	combos int // builder-kind combinations per size: 3 = all, 1 = one, rotating with case and size
}

// rp is the replay object of a finding: everything TestDomainCases needs to run this case again.
func (dr *domRun) rp(ci int, c domCase, extra map[string]any) map[string]any {
	m := map[string]any{"test": "TestDomainCases", "seed": dr.seed, "offset": ci, "case": c, "probes": dr.probes,
		"sizes": dr.sizes, "table": dr.rows, "combos": dr.combos}
	for k, v := range extra {
		m[k] = v
	}
	return m
}

func (dr *domRun) sel(kind, bk string, n int) (string, bool) {
	s, ok := dr.table[fmt.Sprintf("%s/%s/%d", kind, bk, n)]
	return s, ok
}

// probe asks m about every probe name and reports the first difference from exp.
func (dr *domRun) probe(ci int, key, what string, m matcher, exp map[string]bool, replay any) bool {
	for _, p := range dr.probes {
		dr.evals++
		if got := m.Match(p); got != exp[p] {
			dr.res.Violation(vio.Finding{Key: key, Behaviour: ci,
				Text:     fmt.Sprintf("%s: Match(%q) = %v, the rules mean %v", what, p, got, exp[p]),
				Expected: exp[p], Observed: got, Replay: replay})
			return false
		}
	}
	return true
}

func typeNames(ds domainset.DomainSet) []string {
	out := make([]string, len(ds))
	for i, m := range ds {
		out[i] = strings.TrimPrefix(fmt.Sprintf("%T", m), "*domainset.")
	}
	return out
}

func expressible(r string) bool {
	return r != "" && !strings.ContainsAny(r, "\n") && !strings.HasSuffix(r, "\r")
}

func (r rules) expressible() bool {
	for _, q := range [][]string{r.D, r.S, r.K, r.R} {
		for _, x := range q {
			if !expressible(x) {
				return false
			}
		}
	}
	return true
}

// mutateText rewrites a text document without changing what it means: CRLF line ends, blank
// lines, comment lines (also ones that look like rules), rule lines in any order, the capacity
// hint kept, dropped or wrong, a missing final line end.
func mutateText(text string, r *rand.Rand) string {
	lines := strings.Split(strings.TrimSuffix(text, "\n"), "\n")
	var hint string
	if _, found, _ := domainset.ParseCapacityHint(lines[0]); found {
		hint, lines = lines[0], lines[1:]
	}
	if r.IntN(2) == 0 {
		r.Shuffle(len(lines), func(i, j int) { lines[i], lines[j] = lines[j], lines[i] })
	}
	var out []string
	switch r.IntN(5) {
	case 0:
		if hint != "" {
			out = append(out, hint)
		}
	case 1: // no hint
	case 2:
		out = append(out, "# shadowsocks-go domain set capacity hint 0 0 0 0 DSKR")
	case 3:
		out = append(out, fmt.Sprintf("# shadowsocks-go domain set capacity hint %d %d %d %d DSKR", r.IntN(40), r.IntN(40), r.IntN(3), r.IntN(3)))
	case 4:
		out = append(out, "# a comment first makes the hint below an ordinary comment")
		if hint != "" {
			out = append(out, hint)
		}
	}
	if r.IntN(3) == 0 {
		out = append([]string{""}, out...)
	}
	noise := []string{"", "", "# comment", "#", "#suffix:a", "#domain:b", "# keyword:a", "#regexp:.*"}
	for _, l := range lines {
		for r.IntN(4) == 0 {
			out = append(out, noise[r.IntN(len(noise))])
		}
		out = append(out, l)
	}
	for r.IntN(3) == 0 {
		out = append(out, noise[r.IntN(len(noise))])
	}
	eol := "\n"
	if r.IntN(2) == 0 {
		eol = "\r\n"
	}
	if len(out) == 0 {
		return ""
	}
	s := strings.Join(out, eol)
	if r.IntN(3) != 0 || out[len(out)-1] == "" {
		s += eol
	}
	return s
}

func inert(kind string, i int) string {
	switch kind {
	case "d":
		return fmt.Sprintf("zz%d.pad", i)
	case "s":
		if i%3 == 0 {
			return fmt.Sprintf("yy%d", i) // a single-label suffix
		}
		return fmt.Sprintf("zz%d.x%d.pad", i, i%5)
	case "k":
		return fmt.Sprintf("zz%d", i)
	default:
		return fmt.Sprintf("^zz%d$", i)
	}
}

// padded returns the rules followed by inert rules up to target, in a seeded order.
func padded(kind string, rs []string, target int, r *rand.Rand) []string {
	out := append([]string(nil), rs...)
	for i := 0; len(out) < target; i++ {
		out = append(out, inert(kind, i))
	}
	r.Shuffle(len(out), func(i, j int) { out[i], out[j] = out[j], out[i] })
	return out
}

func (dr *domRun) build(ci int, what string, dsb domainset.Builder, replay any) domainset.DomainSet {
	ds, err := dsb.DomainSet()
	if err != nil {
		dr.res.DriftNote(vio.Finding{Key: "domainset.build/error", Behaviour: ci, Text: fmt.Sprintf("%s: DomainSet(): %v", what, err), Replay: replay})
		return nil
	}
	return ds
}

func fromGob(dsb domainset.Builder) (domainset.Builder, []byte, error) {
	var buf bytes.Buffer
	if err := dsb.WriteGob(&buf); err != nil {
		return domainset.Builder{}, nil, err
	}
	b := buf.Bytes()
	out, err := domainset.BuilderFromGobString(string(b))
	return out, b, err
}

func textOf(dsb domainset.Builder) (string, error) {
	var buf bytes.Buffer
	err := dsb.WriteText(&buf)
	return buf.String(), err
}

func ruleLines(text string) []string {
	var out []string
	for _, l := range strings.Split(text, "\n") {
		l = strings.TrimSuffix(l, "\r")
		if l != "" && l[0] != '#' {
			out = append(out, l)
		}
	}
	return out
}

// oneCase pushes one model state (rule sets + the expected answer for every probe) through
// every representation.
func (dr *domRun) oneCase(ci int, c domCase, files bool, conv string) {
	sizes := dr.sizes
	res := dr.res
	exp := toSet(c.M)
	r := rng(dr.seed, ci)

	// (A) raw matchers, every insertion order
	for _, order := range perms(len(c.Ref.S), 24, r) {
		ins := make([]string, len(order))
		for i, j := range order {
			ins[i] = c.Ref.S[j]
		}
		var ms []matcher
		for _, sb := range suffixBuilders {
			b := sb.mk(0)
			for _, x := range ins {
				b.Insert(x)
			}
			// a rule inserted twice changes nothing
			if len(ins) > 0 && r.IntN(2) == 0 {
				b.Insert(ins[r.IntN(len(ins))])
			}
			ms = append(ms, b.(matcher))
			if sb.name == "DomainSuffixTrie" {
				n, seq := b.Rules()
				keys := slices.Collect(seq)
				if !sameSet(keys, c.Keys) || n != len(c.Keys) {
					res.DriftNote(vio.Finding{Key: "domainset.trie/keys", Behaviour: ci,
						Text: fmt.Sprintf("trie after inserting %q holds %q (count %d), model %q", ins, sorted(keys), n, sorted(c.Keys))})
				}
			}
		}
		for _, p := range dr.probes {
			want := meansSuffix(p, c.Ref.S)
			for i, m := range ms {
				dr.evals++
				if got := m.Match(p); got != want {
					res.Violation(vio.Finding{Key: "domainset.suffix/" + suffixBuilders[i].name, Behaviour: ci,
						Text:     fmt.Sprintf("%s after inserting %q: Match(%q) = %v, the suffix rules mean %v", suffixBuilders[i].name, ins, p, got, want),
						Expected: want, Observed: got, Replay: dr.rp(ci, c, map[string]any{"inserted": ins, "probe": p})})
					return
				}
			}
		}
	}
	for _, order := range perms(len(c.Ref.D), 6, r) {
		ins := make([]string, len(order))
		for i, j := range order {
			ins[i] = c.Ref.D[j]
		}
		for _, db := range domainBuilders {
			b := db.mk(0)
			for _, x := range ins {
				b.Insert(x)
			}
			if len(ins) > 0 {
				b.Insert(ins[0])
			}
			for _, p := range dr.probes {
				dr.evals++
				if got, want := b.(matcher).Match(p), meansDomain(p, c.Ref.D); got != want {
					res.Violation(vio.Finding{Key: "domainset.domain/" + db.name, Behaviour: ci,
						Text:     fmt.Sprintf("%s after inserting %q: Match(%q) = %v, the domain rules mean %v", db.name, ins, p, got, want),
						Expected: want, Observed: got, Replay: dr.rp(ci, c, map[string]any{"inserted": ins, "probe": p})})
					return
				}
			}
		}
	}

	// (B) the whole pipeline at every size across the thresholds
	var executed []int
	for si, target := range sizes {
		if si > 0 && target <= len(c.Ref.D) && target <= len(c.Ref.S) {
			continue // nothing to pad: same as the previous size
		}
		executed = append(executed, si)
	}
	// the loader (files) is used at two of the sizes, the converter command at one
	fileAt := map[int]bool{executed[ci%len(executed)]: true, executed[(ci/2+1)%len(executed)]: true}
	convAt := executed[(ci/3)%len(executed)]
	for _, si := range executed {
		target := sizes[si]
		nd, ns := max(len(c.Ref.D), target), max(len(c.Ref.S), target)
		nk, nr := max(len(c.Ref.K), min(target, 3)), max(len(c.Ref.R), min(target, 2))
		res.Seen(fmt.Sprintf("%v/%d", c.Ref, target))
		for cn := range dr.combos {
			combo := cn
			if dr.combos < 3 {
				combo = (ci + si + cn) % 3
			}
			r := rng(dr.seed, ci, target, combo)
			db, sb := domainBuilders[combo], suffixBuilders[(combo+si)%3]
			D, S := padded("d", c.Ref.D, nd, r), padded("s", c.Ref.S, ns, r)
			K, R := padded("k", c.Ref.K, nk, r), padded("r", c.Ref.R, nr, r)
			replay := dr.rp(ci, c, map[string]any{"size": target, "domainBuilder": db.name, "suffixBuilder": sb.name,
				"inserted": rules{D: D, S: S, K: K, R: R}})
			b0 := domainset.Builder{db.mk(r.IntN(3) * nd), sb.mk(r.IntN(3) * ns), domainset.NewKeywordLinearMatcher(0), domainset.NewRegexpMatcherBuilder(0)}
			for _, x := range D {
				b0[0].Insert(x)
			}
			for _, x := range S {
				b0[1].Insert(x)
			}
			for _, x := range K {
				b0[2].Insert(x)
			}
			for _, x := range R {
				b0[3].Insert(x)
			}
			what := fmt.Sprintf("%d domain rules in %s, %d suffix rules in %s", nd, db.name, ns, sb.name)
			ds0 := dr.build(ci, what, b0, replay)
			if ds0 == nil {
				continue
			}
			// which matchers did the builders choose?
			var want []string
			if s, ok := dr.sel("d", db.name, nd); ok && s != "none" {
				want = append(want, s)
			}
			if s, ok := dr.sel("s", sb.name, ns); ok && s != "none" {
				want = append(want, s)
			}
			if nk > 0 {
				want = append(want, "KeywordLinearMatcher")
			}
			for range nr {
				want = append(want, "RegexpMatcher")
			}
			if _, ok := dr.sel("d", db.name, nd); ok {
				if _, ok := dr.sel("s", sb.name, ns); ok {
					if got := typeNames(ds0); !slices.Equal(got, want) {
						res.DriftNote(vio.Finding{Key: "domainset.select/matcher", Behaviour: ci, Text: fmt.Sprintf("%s: matchers %v, model %v", what, got, want)})
					}
					for i, w := range want {
						if i == 0 || want[i-1] != w {
							res.Count("matcher:"+w, 1)
						}
					}
				}
			}
			if !dr.probe(ci, "domainset.match/built", what+" -> "+strings.Join(typeNames(ds0), "+"), ds0, exp, replay) {
				return
			}
			res.Count("pipelines", 1)

			// gob straight from the builder (other builder kinds are converted by BuilderGobFromBuilder)
			b4, gob0, err := fromGob(b0)
			if err != nil {
				res.DriftNote(vio.Finding{Key: "domainset.gob/error", Behaviour: ci, Text: what + ": " + err.Error(), Replay: replay})
			} else if ds := dr.build(ci, what+" -> gob", b4, replay); ds != nil {
				if !dr.probe(ci, "domainset.match/gob", what+" -> gob -> "+strings.Join(typeNames(ds), "+"), ds, exp, replay) {
					return
				}
			}
			if !c.Ref.expressible() {
				res.Count("no-text-form", 1)
				continue
			}
			// text -> builder -> gob -> builder -> text -> builder
			t1, err := textOf(b0)
			if err != nil {
				res.Break("WriteText: %v", err)
				return
			}
			t1m := mutateText(t1, r)
			replay["text"] = t1m
			b1, err := domainset.BuilderFromText(t1m)
			if err != nil {
				if nd+ns+nk+nr == 0 {
					res.Count("empty-set-text-refused", 1)
					continue
				}
				res.Violation(vio.Finding{Key: "domainset.text/refused", Behaviour: ci,
					Text: fmt.Sprintf("%s: the text form written by WriteText (with CRLF/blank/comment lines injected) is refused: %v", what, err), Replay: replay})
				return
			}
			ds1 := dr.build(ci, what+" -> text", b1, replay)
			if ds1 == nil {
				continue
			}
			if !dr.probe(ci, "domainset.match/text", what+" -> text -> "+strings.Join(typeNames(ds1), "+"), ds1, exp, replay) {
				return
			}
			if s, ok := dr.sel("d", "DomainMapMatcher", nd); ok {
				var w []string
				if s != "none" {
					w = append(w, s)
				}
				if ns > 0 {
					w = append(w, "DomainSuffixTrie")
				}
				if got := typeNames(ds1); len(got) < len(w) || !slices.Equal(got[:len(w)], w) {
					res.DriftNote(vio.Finding{Key: "domainset.select/loader", Behaviour: ci, Text: fmt.Sprintf("%s -> text: matchers %v, model %v...", what, got, w)})
				}
			}
			b2, gob1, err := fromGob(b1)
			if err != nil {
				res.DriftNote(vio.Finding{Key: "domainset.gob/error", Behaviour: ci, Text: what + " -> text: " + err.Error(), Replay: replay})
				continue
			}
			ds2 := dr.build(ci, what+" -> text -> gob", b2, replay)
			if ds2 == nil || !dr.probe(ci, "domainset.match/text-gob", what+" -> text -> gob", ds2, exp, replay) {
				return
			}
			t2, err := textOf(b2)
			if err != nil {
				res.Break("WriteText: %v", err)
				return
			}
			b3, err := domainset.BuilderFromText(t2)
			if err != nil && nd+ns+nk+nr == 0 {
				res.Count("empty-set-text-refused", 1) // a text form without rule lines is "empty domain set"
				continue
			}
			if err != nil {
				res.Violation(vio.Finding{Key: "domainset.text/refused", Behaviour: ci,
					Text: fmt.Sprintf("%s -> text -> gob -> text: refused: %v", what, err), Replay: replay})
				return
			}
			ds3 := dr.build(ci, what+" -> text -> gob -> text", b3, replay)
			if ds3 == nil || !dr.probe(ci, "domainset.match/text-gob-text", what+" -> text -> gob -> text", ds3, exp, replay) {
				return
			}
			// the second text form states the same rules as the first (up to order and covered suffixes)
			if a, b := ruleLines(t1), ruleLines(t2); sb.name == "DomainSuffixTrie" && !sameSet(a, b) {
				res.DriftNote(vio.Finding{Key: "domainset.text/lines", Behaviour: ci, Text: fmt.Sprintf("%s: text forms differ: %q vs %q", what, sorted(a), sorted(b))})
			}

			if files && cn == 0 && fileAt[si] {
				dr.viaFiles(ci, what, t1m, gob1, gob0, exp, replay)
			}
			if conv != "" && cn == 0 && si == convAt {
				dr.viaConverter(ci, what, conv, t1m, rules{D: D, S: S, K: K, R: R}, exp, replay)
			}
		}
	}
}

// viaFiles loads the text and gob forms through the loader the server uses (domainset.Config).
func (dr *domRun) viaFiles(ci int, what, text string, gob1, gob0 []byte, exp map[string]bool, replay any) {
	for _, f := range []struct {
		name, typ string
		data      []byte
	}{{"t.txt", "text", []byte(text)}, {"t0.txt", "", []byte(text)}, {"g1.gob", "gob", gob1}, {"g0.gob", "gob", gob0}} {
		if f.data == nil {
			continue
		}
		p := filepath.Join(dr.dir, fmt.Sprintf("c%d-%s", ci, f.name))
		if err := os.WriteFile(p, f.data, 0o644); err != nil {
			dr.res.Break("write %s: %v", p, err)
			return
		}
		ds, err := domainset.Config{Name: "x", Type: f.typ, Path: p}.DomainSet()
		os.Remove(p)
		if err != nil {
			dr.res.Violation(vio.Finding{Key: "domainset.file/refused", Behaviour: ci, Text: fmt.Sprintf("%s: Config{Type:%q}.DomainSet(): %v", what, f.typ, err), Replay: replay})
			return
		}
		if !dr.probe(ci, "domainset.match/file-"+f.name[strings.IndexByte(f.name, '.')+1:], what+" -> file "+f.name, ds, exp, replay) {
			return
		}
		dr.res.Count("files", 1)
	}
}

// viaConverter runs the converter command (cmd/shadowsocks-go-domain-set-converter) text -> gob + text,
// gob -> text, dlc -> text + gob and loads what it wrote.
func (dr *domRun) viaConverter(ci int, what, conv, text string, all rules, exp map[string]bool, replay any) {
	base := filepath.Join(dr.dir, fmt.Sprintf("v%d", ci))
	p := func(s string) string { return base + s }
	defer func() {
		for _, s := range []string{".txt", ".gob", ".2.txt", ".3.txt", ".dlc", ".4.txt", ".4.gob"} {
			os.Remove(p(s))
		}
	}()
	if err := os.WriteFile(p(".txt"), []byte(text), 0o644); err != nil {
		dr.res.Break("write: %v", err)
		return
	}
	var dlc strings.Builder
	dlc.WriteString("# comment\n\n")
	for _, x := range all.D {
		dlc.WriteString("full:" + x + "\n")
	}
	for _, x := range all.S {
		dlc.WriteString("domain:" + x + "\r\n")
	}
	for _, x := range all.K {
		dlc.WriteString("keyword:" + x + "\n")
	}
	for _, x := range all.R {
		dlc.WriteString("regexp:" + x + "\n")
	}
	if err := os.WriteFile(p(".dlc"), []byte(dlc.String()), 0o644); err != nil {
		dr.res.Break("write: %v", err)
		return
	}
	run := func(args ...string) bool {
		out, err := exec.Command(conv, args...).CombinedOutput()
		if err != nil || len(bytes.TrimSpace(out)) != 0 {
			dr.res.Violation(vio.Finding{Key: "domainset.converter/failed", Behaviour: ci,
				Text: fmt.Sprintf("%s: converter %v: %v %s", what, args, err, out), Replay: replay})
			return false
		}
		return true
	}
	if !run("-inText", p(".txt"), "-outGob", p(".gob"), "-outText", p(".2.txt")) || !run("-inGob", p(".gob"), "-outText", p(".3.txt")) {
		return
	}
	for _, f := range []struct{ suffix, typ string }{{".gob", "gob"}, {".2.txt", "text"}, {".3.txt", "text"}} {
		ds, err := domainset.Config{Name: "x", Type: f.typ, Path: p(f.suffix)}.DomainSet()
		if err != nil {
			dr.res.Violation(vio.Finding{Key: "domainset.converter/refused", Behaviour: ci, Text: fmt.Sprintf("%s: converter output %s: %v", what, f.suffix, err), Replay: replay})
			return
		}
		if !dr.probe(ci, "domainset.match/converter", what+" -> converter "+f.suffix, ds, exp, replay) {
			return
		}
		dr.res.Count("converted", 1)
	}
	// v2fly/dlc input is outside the property's wording (text <-> gob): differences are notes
	if out, err := exec.Command(conv, "-inDlc", p(".dlc"), "-outText", p(".4.txt"), "-outGob", p(".4.gob")).CombinedOutput(); err != nil || len(bytes.TrimSpace(out)) != 0 {
		dr.res.DriftNote(vio.Finding{Key: "domainset.converter/dlc", Behaviour: ci, Text: fmt.Sprintf("%s: -inDlc: %v %s", what, err, out)})
		return
	}
	for _, f := range []struct{ suffix, typ string }{{".4.gob", "gob"}, {".4.txt", "text"}} {
		ds, err := domainset.Config{Name: "x", Type: f.typ, Path: p(f.suffix)}.DomainSet()
		if err != nil {
			dr.res.DriftNote(vio.Finding{Key: "domainset.converter/dlc", Behaviour: ci, Text: fmt.Sprintf("%s: dlc output %s: %v", what, f.suffix, err)})
			return
		}
		for _, q := range dr.probes {
			if ds.Match(q) != exp[q] {
				dr.res.DriftNote(vio.Finding{Key: "domainset.converter/dlc", Behaviour: ci, Text: fmt.Sprintf("%s: dlc -> %s: Match(%q) = %v, rules mean %v", what, f.suffix, q, !exp[q], exp[q])})
				return
			}
		}
		dr.res.Count("converted-dlc", 1)
	}
}

func newDomRun(t *testing.T, in *vio.Input, res *vio.Result) *domRun {
	dr := &domRun{res: res, seed: in.Seed, dir: t.TempDir(), table: map[string]string{}}
	if !in.Param("probes", &dr.probes) || len(dr.probes) == 0 {
		res.Break("no probes")
	}
	dr.combos = 3
	in.Param("combos", &dr.combos)
	in.Param("table", &dr.rows)
	for _, row := range dr.rows {
		dr.table[fmt.Sprintf("%s/%s/%d", row.Kind, row.Bk, row.N)] = row.Sel
	}
	return dr
}

// TestDomainCases: one case per distinct state of the DomainSet model.
func TestDomainCases(t *testing.T) {
	in, res := start(t)
	dr := newDomRun(t, in, res)
	var (
		cases     []domCase
		sizes     []int
		fileEvery int
		convEvery int
		conv      string
		offset    int
	)
	in.Param("cases", &cases)
	in.Param("sizes", &sizes)
	in.Param("fileEvery", &fileEvery)
	in.Param("convEvery", &convEvery)
	in.Param("conv", &conv)
	in.Param("offset", &offset)
	if len(sizes) == 0 {
		sizes = []int{0}
	}
	dr.sizes = sizes
	for i, c := range cases {
		ci := offset + i
		useConv := ""
		if conv != "" && convEvery > 0 && ci%convEvery == 0 {
			useConv = conv
		}
		guard(res, "domainset.case", ci, dr.rp(ci, c, nil), func() {
			dr.oneCase(ci, c, fileEvery > 0 && ci%fileEvery == 0, useConv)
		})
		res.Sample(map[string]any{"rules": c.Ref, "trie_keys": c.Keys, "matched_probes": c.M}, 2)
	}
	res.AddSteps(len(cases), dr.evals)
	res.Count("evaluations", dr.evals)
}

type domAction struct {
	N    string `json:"n"`
	Kind string `json:"kind"`
	Rule string `json:"rule"`
	Text string `json:"text"`
	Err  bool   `json:"err"`
}

type domObs struct {
	M    []string `json:"m"`
	Keys []string `json:"keys"`
	Dnil bool     `json:"dnil"`
	Tnil bool     `json:"tnil"`
}

var kindIndex = map[string]int{"domain": 0, "suffix": 1, "keyword": 2, "regexp": 3}

func loaderBuilder() domainset.Builder {
	return domainset.Builder{domainset.NewDomainMapMatcher(0), domainset.NewDomainSuffixTrieMatcherBuilder(0),
		domainset.NewKeywordLinearMatcher(0), domainset.NewRegexpMatcherBuilder(0)}
}

// TestDomainReplay steps behaviours of the DomainSet model (Insert, Clear, LoadText, GobRoundTrip,
// TextRoundTrip) through one real Builder and compares every probe after every step.
func TestDomainReplay(t *testing.T) {
	in, res := start(t)
	dr := newDomRun(t, in, res)
	for bi, b := range in.Behaviours {
		dsb := loaderBuilder()
		var hist []domAction
		rp := map[string]any{"test": "TestDomainReplay", "seed": in.Seed, "behaviour": b, "probes": dr.probes}
		guard(res, "domainset.replay", bi, rp, func() {
			for si, st := range b.Steps {
				var a domAction
				var o domObs
				if err := json.Unmarshal(st.A, &a); err != nil {
					res.Break("bad action: %v", err)
					return
				}
				if err := json.Unmarshal(st.O, &o); err != nil {
					res.Break("bad obs: %v", err)
					return
				}
				hist = append(hist, a)
				res.Seen(a.N + "/" + a.Kind)
				switch a.N {
				case "Insert":
					dsb[kindIndex[a.Kind]].Insert(a.Rule)
				case "Clear":
					dsb[kindIndex[a.Kind]].Clear()
				case "LoadText":
					nb, err := domainset.BuilderFromText(a.Text)
					if (err != nil) != a.Err {
						res.DriftNote(vio.Finding{Key: "domainset.text/error", Behaviour: bi, Step: si,
							Text: fmt.Sprintf("BuilderFromText(%q): error %v, model error=%v", a.Text, err, a.Err)})
					}
					if err == nil {
						if a.Err {
							return // the model did not load it: nothing to compare further
						}
						dsb = nb
					} else if !a.Err {
						return
					}
				case "GobRoundTrip":
					nb, _, err := fromGob(dsb)
					if err != nil {
						res.Violation(vio.Finding{Key: "domainset.gob/error", Behaviour: bi, Step: si, Text: err.Error(), Replay: rp})
						return
					}
					dsb = nb
				case "TextRoundTrip":
					text, err := textOf(dsb)
					if err != nil {
						res.Break("WriteText: %v", err)
						return
					}
					nb, err := domainset.BuilderFromText(text)
					if (err != nil) != a.Err {
						res.DriftNote(vio.Finding{Key: "domainset.text/error", Behaviour: bi, Step: si,
							Text: fmt.Sprintf("BuilderFromText(WriteText()) of %q: error %v, model error=%v", text, err, a.Err)})
						if err != nil {
							return
						}
					}
					if err == nil {
						dsb = nb
					}
				default:
					res.Break("unknown action %q", a.N)
					return
				}
				ds, err := dsb.DomainSet()
				if err != nil {
					res.DriftNote(vio.Finding{Key: "domainset.build/error", Behaviour: bi, Step: si, Text: err.Error()})
					return
				}
				if !dr.probe(bi, "domainset.replay/"+a.N, fmt.Sprintf("after %+v", hist), ds, toSet(o.M), rp) {
					return
				}
				_, seq := dsb[1].Rules()
				if keys := slices.Collect(seq); !sameSet(keys, o.Keys) {
					res.DriftNote(vio.Finding{Key: "domainset.trie/keys", Behaviour: bi, Step: si, Text: fmt.Sprintf("after %+v: trie holds %q, model %q", hist, sorted(keys), sorted(o.Keys))})
				}
				if dm, ok := dsb[0].(*domainset.DomainMapMatcher); ok && (*dm == nil) != o.Dnil {
					res.DriftNote(vio.Finding{Key: "domainset.gob/nil-map", Behaviour: bi, Step: si, Text: fmt.Sprintf("after %+v: domain map nil=%v, model %v", hist, *dm == nil, o.Dnil)})
				}
				if tr, ok := dsb[1].(*domainset.DomainSuffixTrie); ok && (tr.Children == nil) != o.Tnil {
					res.DriftNote(vio.Finding{Key: "domainset.gob/nil-map", Behaviour: bi, Step: si, Text: fmt.Sprintf("after %+v: trie root nil=%v, model %v", hist, tr.Children == nil, o.Tnil)})
				}
			}
		})
		res.AddSteps(1, len(b.Steps))
		res.Sample(hist, 2)
	}
	res.Count("evaluations", dr.evals)
}
