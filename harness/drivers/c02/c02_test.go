//go:build verif

// Package c02 replays behaviours of specs/Stream/SS2022Attack.tla: a genuine SS2022 session is
// recorded at byte level (ciphertext with frame boundaries from the scripted transport), the
// behaviour's attacker operators are applied to the recorded bytes, and the result is fed to a
// fresh real endpoint (StreamServer.HandleStream + the server tunnel's Read, or the client
// tunnel's Read).  Property C02 is evaluated on what the real endpoint returned.
package c02

import (
	"bytes"
	"encoding/binary"
	"encoding/json"
	"errors"
	"fmt"
	"io"
	"math/rand/v2"
	"testing"

	"github.com/database64128/shadowsocks-go/netio"
	"github.com/database64128/shadowsocks-go/ss2022"

	"verif/harness/drivers/c01/streamkit"
	"verif/harness/internal/vio"
)

type out struct {
	Res   string `json:"res"`
	N     int    `json:"n"`
	Lo    int    `json:"lo"`
	After bool   `json:"after"`
	Gen   bool   `json:"gen"`
}

type action struct {
	N    string `json:"n"`
	I    int    `json:"i"`
	J    int    `json:"j"`
	X    int    `json:"x"`
	Keep int    `json:"keep"`
	Part string `json:"part"`
	Sz   int    `json:"sz"`
	Same bool   `json:"same"`
	Out  out    `json:"out"`
}

type consts struct {
	streamkit.Config
	Role    string `json:"Role"`
	GSizes  []int  `json:"GSizes"`
	GVals   []int  `json:"GVals"`
	XSizes  []int  `json:"XSizes"`
	XVals   []int  `json:"XVals"`
	SameKey bool   `json:"SameKey"`
	Tag     int    `json:"Tag"`
	HdrSz   int    `json:"HdrSz"`
	AddrLen int    `json:"AddrLen"`
	// concretisation of the model's operators at byte level
	FlipAll    bool `json:"FlipAll"`    // every byte of handshake/length frames (else first, last, sampled)
	FlipSample int  `json:"FlipSample"` // seeded offsets per frame otherwise
	CutAll     bool `json:"CutAll"`     // every offset of the first two frames
	CutSample  int  `json:"CutSample"`
	MaxVariant int  `json:"MaxVariant"` // cap on variants per behaviour
}

// frame is a piece of recorded ciphertext: one AEAD-sealed unit (or the whole first header).
type frame struct {
	b   []byte
	ses string       // "V", "X", "J"
	id  int          // 1-based index in its genuine stream
	fl  map[int]byte // bits already flipped per byte offset: a second Flip of the same byte takes another bit, never undoing the first
}

// recording is one genuine session in the attacked direction.
type recording struct {
	sess   *streamkit.Session
	frames []frame
	plain  []byte // the application bytes the genuine writer sent in this direction
	cipher []byte // the genuine ciphertext
}

type env struct {
	k    consts
	res  *vio.Result
	bi   int
	hist []json.RawMessage
	rnd  *rand.Rand
	vi   int // variants run so far (selects the read-buffer size)
}

// Read-buffer sizes of the tampered-session replays: mostly below streamReadMinBufferSize (65551), so that
// the tunnel's internal read buffer and its left-over cursor are in play when a chunk is rejected.
var readBufSizes = [...]int{4096, 1, 70000, 3, 65550}

func chunkData(pat streamkit.Pattern, lo, n, val int) []byte {
	if n == 2 && val >= 0 {
		return binary.BigEndian.AppendUint16(nil, uint16(val))
	}
	return pat.Bytes(lo, n)
}

// record runs one genuine session and returns the ciphertext of the attacked direction with its
// frame boundaries.  For Role "client" nothing of the server's stream has been shown to the client
// yet, so the client tunnel is a fresh reader.
func (e *env) record(p *streamkit.Pair, ses string, sizes, vals []int, pat streamkit.Pattern) (*recording, error) {
	k := e.k
	target, err := streamkit.Target(k.AddrLen, k.Seed+int64(len(ses)), false)
	if err != nil {
		return nil, err
	}
	rec := &recording{}
	var payload []byte
	if k.Role == "server" {
		payload = chunkData(pat, 0, sizes[0], vals[0])
	}
	s, err := p.Dial(target, payload)
	if err != nil {
		return nil, fmt.Errorf("genuine dial: %w", err)
	}
	rec.sess = s
	var link *streamkit.Link
	var first int // size of the first frame inside the first transport write
	if k.Role == "server" {
		link = s.TL.Tx
		rec.plain = append(rec.plain, payload...)
		lo := len(payload)
		for i := 1; i < len(sizes); i++ {
			d := chunkData(pat, lo, sizes[i], vals[i])
			if _, err := s.CConn.Write(d); err != nil {
				return nil, err
			}
			rec.plain = append(rec.plain, d...)
			lo += sizes[i]
		}
		first = k.HdrSz
	} else {
		s.TL.Tx.Deliver(-1)
		if err := s.Handle(); err != nil {
			return nil, fmt.Errorf("genuine handshake: %w", err)
		}
		link = s.TR.Tx
		lo := 0
		for i := range sizes {
			d := chunkData(pat, lo, sizes[i], vals[i])
			if _, err := s.SConn.Write(d); err != nil {
				return nil, err
			}
			rec.plain = append(rec.plain, d...)
			lo += sizes[i]
		}
		first = k.HdrSz
	}
	rec.cipher = bytes.Clone(link.Buf)
	if len(link.Writes) != len(sizes) {
		return nil, fmt.Errorf("genuine session made %d transport writes, model has %d", len(link.Writes), len(sizes))
	}
	off := 0
	id := 1
	for wi, wl := range link.Writes {
		split := 2 + k.Tag
		if wi == 0 {
			split = first
		}
		if split >= wl {
			return nil, fmt.Errorf("transport write %d has %d bytes, first frame should have %d", wi, wl, split)
		}
		rec.frames = append(rec.frames, frame{b: rec.cipher[off : off+split], ses: ses, id: id}, frame{b: rec.cipher[off+split : off+wl], ses: ses, id: id + 1})
		id += 2
		off += wl
	}
	return rec, nil
}

// variant is one byte-level concretisation of the behaviour's attacker operators.
type variant struct {
	desc string
	// choices for the operators that have several concretisations (indexed by operator position)
	flipOff map[int]int
	cutOff  map[int]int
}

func (e *env) violation(key, desc, format string, a ...any) {
	e.res.Violation(vio.Finding{Key: key, Text: fmt.Sprintf("[%s %s] %s: ", e.k.Config, e.k.Role, desc) + fmt.Sprintf(format, a...), Behaviour: e.bi,
		Replay: map[string]any{"consts": e.k, "steps": e.hist, "variant": desc}})
}

func (e *env) drift(key, desc, format string, a ...any) {
	e.res.DriftNote(vio.Finding{Key: key, Text: fmt.Sprintf("[%s %s] %s: ", e.k.Config, e.k.Role, desc) + fmt.Sprintf(format, a...), Behaviour: e.bi,
		Replay: map[string]any{"consts": e.k, "steps": e.hist, "variant": desc}})
}

func classify(err error) string {
	var he *ss2022.HeaderError[[]byte]
	switch {
	case err == nil:
		return "ok"
	case err == io.EOF:
		return "eof"
	case errors.Is(err, io.ErrUnexpectedEOF):
		return "ueof"
	case errors.Is(err, ss2022.ErrFirstRead):
		return "firstread"
	case errors.Is(err, ss2022.ErrClientSaltMismatch):
		return "saltmismatch"
	case errors.Is(err, ss2022.ErrZeroLengthChunk):
		return "zerolen"
	case errors.As(err, &he):
		return "auth" // prefix mismatch: the model does not separate it from a failed open
	case streamkit.IsNoData(err):
		return "nodata"
	default:
		return "auth"
	}
}

// offsets returns the byte offsets of a frame at which a Flip is concretised.
// The offsets lie in [lo, hi): the stream prefix of a first frame or the rest of the frame.
func (e *env) flipOffsets(lo, hi int, isLenOrHs bool) []int {
	if isLenOrHs && (e.k.FlipAll || hi-lo <= 64) {
		all := make([]int, 0, hi-lo)
		for i := lo; i < hi; i++ {
			all = append(all, i)
		}
		return all
	}
	set := map[int]bool{lo: true, hi - 1: true}
	if hi-lo > e.k.Tag {
		set[hi-e.k.Tag] = true   // first tag byte
		set[hi-e.k.Tag-1] = true // last ciphertext byte
	}
	for i := 0; i < e.k.FlipSample; i++ {
		set[lo+e.rnd.IntN(hi-lo)] = true
	}
	var o []int
	for i := lo; i < hi; i++ {
		if set[i] {
			o = append(o, i)
		}
	}
	return o
}

// flipRange is the byte range of frame f (at position idx, 1-based) a Flip of the given part hits.
func (e *env) flipRange(f frame, part string) (lo, hi int) {
	pfx := e.k.RspPfx
	if e.k.Role == "server" {
		pfx = e.k.ReqPfx
	}
	if f.id != 1 || pfx == 0 || len(f.b) <= pfx {
		return 0, len(f.b)
	}
	if part == "pfx" {
		return 0, pfx
	}
	return pfx, len(f.b)
}

func (e *env) cutOffsets(sz, keep, idx int) []int {
	switch {
	case keep == 0:
		return []int{0}
	case keep == 1:
		if idx <= 2 && sz > 2 {
			if e.k.CutAll {
				o := make([]int, 0, sz-2)
				for i := 1; i < sz-1; i++ {
					o = append(o, i)
				}
				return o
			}
			set := map[int]bool{1: true}
			for i := 0; i < e.k.CutSample; i++ {
				set[1+e.rnd.IntN(sz-2)] = true
			}
			var o []int
			for i := 1; i < sz-1; i++ {
				if set[i] {
					o = append(o, i)
				}
			}
			return o
		}
		return []int{1}
	default:
		return []int{sz - 1}
	}
}

// apply builds the tampered frame list for one variant.
func (e *env) apply(ops []action, v *recording, x *recording, choice map[int]int, desc *string) ([]frame, error) {
	w := make([]frame, len(v.frames))
	copy(w, v.frames)
	bad := func(a action) error {
		return fmt.Errorf("operator %s %+v out of range (stream has %d frames)", a.N, a, len(w))
	}
	for oi, a := range ops {
		switch a.N {
		case "Flip":
			if a.I < 1 || a.I > len(w) {
				return nil, bad(a)
			}
			off, ok := choice[oi]
			if lo, hi := e.flipRange(w[a.I-1], a.Part); !ok || off < lo || off >= hi {
				off = lo + e.rnd.IntN(hi-lo)
			}
			b := bytes.Clone(w[a.I-1].b)
			fl := map[int]byte{}
			for o, m := range w[a.I-1].fl {
				fl[o] = m
			}
			bit := byte(1) << uint(e.rnd.IntN(8))
			for fl[off]&bit != 0 && fl[off] != 0xff {
				bit = bit<<1 | bit>>7
			}
			fl[off] |= bit
			b[off] ^= bit
			w[a.I-1] = frame{b: b, ses: "J", fl: fl}
			*desc += fmt.Sprintf("flip a bit of byte %d of frame %d; ", off, a.I)
		case "Cut":
			if a.I < 1 || a.I > len(w) {
				return nil, bad(a)
			}
			off, ok := choice[oi]
			if sz := len(w[a.I-1].b); !ok || off >= sz {
				switch {
				case a.Keep == 0:
					off = 0
				case a.Keep == 1:
					off = min(1, sz-1)
				default:
					off = sz - 1
				}
			}
			head := w[: a.I-1 : a.I-1]
			if off > 0 {
				head = append(head, frame{b: w[a.I-1].b[:off], ses: "J"})
			}
			w = head
			*desc += fmt.Sprintf("cut the stream %d bytes into frame %d; ", off, a.I)
		case "Drop":
			if a.I < 1 || a.I > len(w) {
				return nil, bad(a)
			}
			w = append(w[:a.I-1:a.I-1], w[a.I:]...)
			*desc += fmt.Sprintf("drop frame %d; ", a.I)
		case "Dup", "Splice", "Junk":
			var f frame
			switch a.N {
			case "Dup":
				if a.I < 1 || a.I > len(w) {
					return nil, bad(a)
				}
				f = w[a.I-1]
				*desc += fmt.Sprintf("insert a copy of frame %d before frame %d; ", a.I, a.J)
			case "Splice":
				if a.X < 1 || a.X > len(x.frames) {
					return nil, bad(a)
				}
				f = x.frames[a.X-1]
				*desc += fmt.Sprintf("insert frame %d of the other session before frame %d; ", a.X, a.J)
			default:
				f = frame{b: streamkit.Bytes(e.k.Seed+int64(e.bi), fmt.Sprintf("junk%d", oi), a.Sz), ses: "J"}
				*desc += fmt.Sprintf("insert %d invented bytes before frame %d; ", a.Sz, a.J)
			}
			if a.J < 1 || a.J > len(w)+1 {
				return nil, bad(a)
			}
			nw := make([]frame, 0, len(w)+1)
			nw = append(nw, w[:a.J-1]...)
			nw = append(nw, f)
			nw = append(nw, w[a.J-1:]...)
			w = nw
		case "Swap":
			if a.I < 1 || a.J > len(w) || a.I >= a.J {
				return nil, bad(a)
			}
			w[a.I-1], w[a.J-1] = w[a.J-1], w[a.I-1]
			*desc += fmt.Sprintf("swap frames %d and %d; ", a.I, a.J)
		case "Substitute":
			w = make([]frame, len(x.frames))
			copy(w, x.frames)
			if e.k.Role == "client" {
				*desc += "substitute the response stream recorded from another session; "
			} else {
				*desc += "a client speaking with a key the server does not hold; "
			}
		default:
			return nil, fmt.Errorf("unknown operator %q", a.N)
		}
	}
	return w, nil
}

// runVariant records fresh genuine sessions, applies the operators and lets the real reader consume
// the result with the calls of the behaviour (and keeps reading afterwards).
func (e *env) runVariant(ops, calls []action, choice map[int]int, check bool) {
	k := e.k
	pv, err := streamkit.NewPairFor(k.Config, "victim")
	if err != nil {
		e.res.Break("pair: %v", err)
		return
	}
	px := pv
	if !k.SameKey {
		// a foreign key: every key differs, or (identity headers in use, every other behaviour) the
		// identity key is the server's but the user key is unknown to it
		ilabel := "other"
		if k.Depth > 0 && e.bi%2 == 0 {
			ilabel = "victim"
		}
		if px, err = streamkit.NewPairMixed(k.Config, ilabel, "other"); err != nil {
			e.res.Break("pair: %v", err)
			return
		}
	}
	patV := streamkit.Pattern(uint64(k.Seed)*31 + uint64(e.bi)*17 + 1)
	patX := streamkit.Pattern(uint64(k.Seed)*31 + uint64(e.bi)*17 + 2)
	v, err := e.record(pv, "V", k.GSizes, k.GVals, patV)
	if err != nil {
		e.res.Break("recording the genuine session: %v", err)
		return
	}
	x, err := e.record(px, "X", k.XSizes, k.XVals, patX)
	if err != nil {
		e.res.Break("recording the second session: %v", err)
		return
	}
	desc := ""
	w, err := e.apply(ops, v, x, choice, &desc)
	if err != nil {
		e.res.Break("behaviour %d: %v", e.bi, err)
		return
	}
	if desc == "" {
		desc = "no attack"
	}
	var t []byte
	for _, f := range w {
		t = append(t, f.b...)
	}
	e.res.Count("variants", 1)
	e.vi++

	// the reader
	var rd netio.Conn
	var link *streamkit.Link
	var tr *streamkit.Conn
	if k.Role == "client" {
		link = v.sess.TL.Rx
		rd = v.sess.CConn
	} else {
		// a fresh server with the victim's keys (empty salt pool) on a fresh transport
		fresh, err := streamkit.NewPairFor(k.Config, "victim")
		if err != nil {
			e.res.Break("pair: %v", err)
			return
		}
		pv = fresh
		var l *streamkit.Conn
		l, tr = streamkit.NewPair("attack")
		link = l.Tx
		_ = l
	}
	link.Buf = t
	link.Rd = 0
	link.Arrived = len(t)
	link.Fin = true
	link.Reads = 0
	link.Chop = nil

	// genuine reference of the session the reader is (or becomes) bound to
	peer := v
	delivered := 0 // application bytes returned so far
	failedBefore := false
	keyAfter := func(generic string) string {
		if failedBefore {
			return "stream.tamper/data-after-failed-read"
		}
		return generic
	}
	// Account for the transport bytes one call consumed, frame by frame (identity of the recorded
	// frames, not byte comparison): the call is clean iff it consumed exactly the peer's untouched
	// frames gid, gid+1, ...; the genuine cursor moves past the leading frames that were.
	bounds := make([]int, len(w)+1)
	for i, f := range w {
		bounds[i+1] = bounds[i] + len(f.b)
	}
	peerSes := "V"
	gid := 1
	consume := func(from int) (clean bool) {
		to := link.Rd
		if to == from {
			return true
		}
		fi := -1
		for i := range w {
			if bounds[i] == from {
				fi = i
				break
			}
		}
		if fi < 0 {
			return false
		}
		for ; fi < len(w) && bounds[fi+1] <= to; fi++ {
			if w[fi].ses != peerSes || w[fi].id != gid {
				return false
			}
			gid++
		}
		return bounds[fi] == to
	}
	deliver := func(b []byte, what, key string) bool {
		if delivered+len(b) > len(peer.plain) || !bytes.Equal(b, peer.plain[delivered:delivered+len(b)]) {
			e.violation(key, desc,
				"%s returned %d bytes at position %d that are not the next bytes its genuine peer sent (%d sent)", what, len(b), delivered, len(peer.plain))
			return false
		}
		delivered += len(b)
		return true
	}

	ci := 0
	nextCall := func() (action, bool) {
		if ci < len(calls) {
			ci++
			return calls[ci-1], true
		}
		return action{}, false
	}
	errStreak := 0
	if k.Role == "server" {
		a, fromModel := nextCall()
		var sess streamkit.Session
		sess.Pair = pv
		var herr error
		from := link.Rd
		if p := guard(func() { herr = sess.HandleOn(pv.Server, tr) }); p != nil {
			e.violation("stream.tamper/panic", desc, "HandleStream panicked: %v", p)
			return
		}
		got := classify(herr)
		consumed := t[from:link.Rd]
		switch {
		case herr == nil && sess.Req.Addr.Equals(streamkit.FallbackAddr):
			got = "fallback"
			if !k.Fallback {
				e.violation("stream.tamper/fallback-unconfigured", desc, "fallback request without a configured fallback")
				return
			}
			// the request as the relay holds it: its Payload is written to the fallback destination only after
			// the relay has dialled it, while the server keeps handling other connections
			live := sess.Req.Payload
			if !bytes.Equal(live, consumed) {
				e.violation("stream.tamper/fallback-payload-altered", desc, "fallback payload (%d bytes) is not exactly the %d bytes received", len(live), len(consumed))
				return
			}
			if other, ok := e.interfere(pv, desc); !ok {
				return
			} else if !bytes.Equal(live, consumed) {
				e.violation("stream.tamper/fallback-payload-altered", desc,
					"the fallback payload (%d bytes) no longer equals the bytes received on its connection after the same server handled %d other connections and a client dialled (payload held, not yet written to the fallback)", len(live), other)
				return
			}
			if bytes.Equal(consumed, v.cipher[:min(len(consumed), len(v.cipher))]) && len(consumed) >= k.HdrSz && k.SameKey {
				e.drift("stream.tamper/genuine-to-fallback", desc, "an untouched genuine handshake went to the fallback")
			}
			rd = nil
		case herr == nil:
			// a request was produced: the handshake bytes must be some genuine session's untouched
			// handshake under a key this server holds
			switch {
			case bytes.HasPrefix(v.cipher, consumed):
				peer = v
			case k.SameKey && bytes.HasPrefix(x.cipher, consumed):
				peer = x
				peerSes = "X"
			default:
				e.violation("stream.tamper/request-from-forgery", desc, "HandleStream produced a request (target %s, %d payload bytes) from an altered or foreign handshake", sess.Req.Addr, len(sess.ReqPay))
				return
			}
			gid = 3
			if !sess.Req.Addr.Equals(peer.sess.Target) {
				e.violation("stream.tamper/request-target", desc, "request names %s, the client dialled %s", sess.Req.Addr, peer.sess.Target)
				return
			}
			if sess.Req.Username != peer.sess.Pair.Keys.UserName {
				e.violation("stream.tamper/request-user", desc, "request attributed to %q, the key belongs to %q", sess.Req.Username, peer.sess.Pair.Keys.UserName)
				return
			}
			if !deliver(sess.ReqPay, "HandleStream", keyAfter("stream.tamper/foreign-bytes-delivered")) {
				return
			}
			rd = sess.SConn
		default:
			failedBefore = true
			rd = nil
		}
		if fromModel && check && got != a.Out.Res && !(got == "ok" && a.Out.Res == "ok") {
			e.drift("stream.tamper/model-handshake", desc, "HandleStream: %s (%v), model expects %s", got, herr, a.Out.Res)
		}
		e.res.Seen("ServerHandle/" + got)
	}
	// Reads: those of the behaviour, then keep reading (after failures, and after end of stream).  One model
	// Read is one chunk; with a small buffer the tunnel serves the rest of the chunk from its left-over, so a
	// real Read that consumes nothing from the transport and succeeds continues the previous one.
	m := readBufSizes[(e.bi+e.vi)%len(readBufSizes)]
	buf := make([]byte, m)
	var last *action // model call of the current chunk
	acc := 0         // bytes the current chunk has delivered
	sawEOF := false
	afterEOF := 0
	checkCount := func() {
		if last != nil && check && last.Out.Res == "data" && acc != last.Out.N {
			e.drift("stream.tamper/model-read", desc, "a chunk delivered %d bytes, model expects %d", acc, last.Out.N)
		}
		last = nil
	}
	for reads, extra := 0, 0; rd != nil && reads < 96 && extra < 6; reads++ {
		from := link.Rd
		var n int
		var rerr error
		if p := guard(func() { n, rerr = rd.Read(buf) }); p != nil {
			e.violation("stream.tamper/panic", desc, "Read panicked: %v", p)
			return
		}
		if link.Rd == from && rerr == nil {
			// served from the tunnel's own buffer
			if n == 0 {
				extra++
				continue
			}
			key := "stream.tamper/foreign-bytes-delivered"
			switch {
			case sawEOF:
				key = "stream.tamper/data-after-eof"
			case failedBefore:
				key = "stream.tamper/stale-buffer-after-failed-read"
			}
			if !deliver(buf[:n], fmt.Sprintf("Read(%d) without touching the transport", m), key) {
				return
			}
			acc += n
			continue
		}
		checkCount()
		a, fromModel := nextCall()
		if !fromModel {
			extra++
		}
		clean := consume(from)
		got := classify(rerr)
		if rerr == nil {
			got = "data"
		}
		if n > 0 {
			key := keyAfter("stream.tamper/foreign-bytes-delivered")
			if sawEOF {
				key = "stream.tamper/data-after-eof"
			}
			if !deliver(buf[:n], fmt.Sprintf("Read(%d)", m), key) {
				return
			}
		}
		if !clean && rerr == nil {
			e.violation(keyAfter("stream.tamper/altered-data-accepted"), desc, "a Read that consumed altered ciphertext (stream offset %d..%d) succeeded with %d bytes (next genuine frame %d)", from, link.Rd, n, gid)
			return
		}
		if fromModel && check && a.Out.Res != "dead" && got != a.Out.Res {
			e.drift("stream.tamper/model-read", desc, "Read: %s %d (%v), model expects %s %d", got, n, rerr, a.Out.Res, a.Out.N)
		}
		if fromModel && rerr == nil {
			last, acc = &a, n
		}
		e.res.Seen(fmt.Sprintf("Read/%s/after=%v/buf=%d", got, failedBefore, m))
		switch {
		case rerr == nil:
			errStreak = 0
		case got == "nodata":
			reads = 1 << 20
		case rerr == io.EOF:
			// end of stream is final too: nothing may follow it
			sawEOF = true
			if afterEOF++; afterEOF >= 3 {
				reads = 1 << 20
			}
		default:
			failedBefore = true
			if errStreak++; errStreak >= 3 {
				reads = 1 << 20
			}
		}
	}
	checkCount()
	e.res.AddSteps(0, len(ops)+ci)
}

// interfere lets the server of pair p handle other connections (failing probes that go to the fallback, one
// genuine session) and lets a client dial, as happens between HandleStream returning a request and the relay
// consuming its payload.  Every fallback request produced on the way is itself held and checked at the end.
func (e *env) interfere(p *streamkit.Pair, desc string) (handled int, ok bool) {
	type held struct {
		live []byte
		sent []byte
	}
	var helds []held
	probe := func(i int) bool {
		sent := streamkit.Bytes(e.k.Seed+int64(e.bi), fmt.Sprintf("probe%d/%d", e.vi, i), 40+13*i)
		l, r := streamkit.NewPair("probe")
		l.Tx.Buf = sent
		l.Tx.Arrived = len(sent)
		l.Tx.Fin = true
		var s streamkit.Session
		s.Pair = p
		var err error
		if pv := guard(func() { err = s.HandleOn(p.Server, r) }); pv != nil {
			e.violation("stream.tamper/panic", desc, "HandleStream of a probe connection panicked: %v", pv)
			return false
		}
		handled++
		if err == nil {
			if !s.Req.Addr.Equals(streamkit.FallbackAddr) {
				e.violation("stream.tamper/request-from-forgery", desc, "HandleStream produced a request from %d invented bytes", len(sent))
				return false
			}
			helds = append(helds, held{s.Req.Payload, sent[:r.Rx.Rd]})
		}
		return true
	}
	if !probe(0) {
		return handled, false
	}
	// a genuine session and one more dial
	target, err := streamkit.Target(e.k.AddrLen, e.k.Seed, false)
	if err != nil {
		e.res.Break("%v", err)
		return handled, false
	}
	var gs *streamkit.Session
	if pv := guard(func() { gs, err = p.Dial(target, []byte("genuine initial payload")) }); pv != nil || err != nil {
		e.violation("stream.tamper/genuine-session-failed", desc, "a genuine dial next to the attacked connection failed: %v %v", pv, err)
		return handled, false
	}
	gs.TL.Tx.Deliver(-1)
	if pv := guard(func() { err = gs.Handle() }); pv != nil || err != nil || gs.Req.Addr.Equals(streamkit.FallbackAddr) {
		e.violation("stream.tamper/genuine-session-failed", desc, "a genuine handshake next to the attacked connection failed: %v %v", pv, err)
		return handled, false
	}
	handled++
	if _, err = p.Dial(target, nil); err != nil {
		e.res.Break("dial: %v", err)
		return handled, false
	}
	// a burst of probes, as a scanner produces
	for i := 1; i <= 18; i++ {
		if !probe(i) {
			return handled, false
		}
	}
	for i, h := range helds {
		if !bytes.Equal(h.live, h.sent) {
			e.violation("stream.tamper/fallback-payload-altered", desc, "the held fallback payload of probe connection %d (%d bytes) no longer equals the %d bytes it sent after later connections were handled", i, len(h.live), len(h.sent))
			return handled, false
		}
	}
	return handled, true
}

func guard(f func()) (p any) {
	defer func() { p = recover() }()
	f()
	return nil
}

func runBehaviour(in *vio.Input, k consts, bi int, b vio.Behaviour, res *vio.Result) {
	e := &env{k: k, res: res, bi: bi, rnd: rand.New(rand.NewPCG(uint64(in.Seed), uint64(bi)))}
	var ops, calls []action
	for si, st := range b.Steps {
		var a action
		if err := json.Unmarshal(st.A, &a); err != nil {
			res.Break("behaviour %d step %d: %v", bi, si, err)
			return
		}
		e.hist = append(e.hist, st.A)
		switch a.N {
		case "Start":
		case "ServerHandle", "Read":
			calls = append(calls, a)
		default:
			ops = append(ops, a)
		}
	}
	// sizes of the genuine frames, to enumerate the concretisations of Flip and Cut
	probe, err := streamkit.NewPairFor(k.Config, "victim")
	if err != nil {
		res.Break("pair: %v", err)
		return
	}
	pr, err := e.record(probe, "V", k.GSizes, k.GVals, 1)
	if err != nil {
		res.Break("probe recording: %v", err)
		return
	}
	// enumerate concretisations: a leading Flip/Cut operator is expanded over byte offsets of the
	// genuine frame it hits, every other operator takes a seeded offset
	var offs []int
	if len(ops) > 0 && ops[0].I >= 1 && ops[0].I <= len(pr.frames) {
		f := pr.frames[ops[0].I-1]
		switch ops[0].N {
		case "Flip":
			lo, hi := e.flipRange(f, ops[0].Part)
			offs = e.flipOffsets(lo, hi, ops[0].I <= 2 || len(f.b) == 2+k.Tag)
		case "Cut":
			offs = e.cutOffsets(len(f.b), ops[0].Keep, ops[0].I)
		}
	}
	nvar := 0
	if len(offs) == 0 {
		e.runVariant(ops, calls, map[int]int{}, true)
		nvar++
	}
	for _, off := range offs {
		if k.MaxVariant > 0 && nvar >= k.MaxVariant {
			break
		}
		e.runVariant(ops, calls, map[int]int{0: off}, true)
		nvar++
	}
	res.AddSteps(1, 0)
	res.Sample(map[string]any{"behaviour": bi, "config": k.Config.String(), "role": k.Role, "actions": e.hist, "variants": nvar}, 2)
}

func TestAttack(t *testing.T) {
	in, err := vio.ReadInput()
	if err != nil {
		t.Skip(err)
	}
	res := vio.NewResult()
	res.Samples = []any{}
	defer func() {
		if err := res.Write(); err != nil {
			t.Fatal(err)
		}
	}()
	var k consts
	if err := in.Const("cfg", &k); err != nil {
		res.Break("constants: %v", err)
		return
	}
	for bi, b := range in.Behaviours {
		id := bi
		if b.ID != 0 {
			id = b.ID
		}
		runBehaviour(in, k, id, b, res)
	}
}
