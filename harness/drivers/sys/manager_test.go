//go:build verif

// Package sys: the service manager's run loop (service/service.go Manager.Run) against specs/System/Manager.tla.
//
// Each behaviour of the model fixes which listener (if any) fails to bind; the driver builds the real
// service.Config with that layout, occupies the failing port, runs the real Manager, sends one UDP packet
// through every UDP listener once everything runs (so Stop has sessions to tear down), cancels, and compares
//   - the sequence of start / fail / stop events the manager and its services logged with the behaviour's
//     observable actions,
//   - Run's return value with the model's ok,
//   - which listener ports are still bound after Run returned with the model's `open`,
//   - and, after a clean run, that no goroutine of the service packages is left.
package sys

import (
	"bytes"
	"context"
	"encoding/json"
	"fmt"
	"net"
	"strings"
	"testing"
	"time"

	"github.com/database64128/shadowsocks-go/service"
	"go.uber.org/zap"
	"go.uber.org/zap/zapcore"
	"go.uber.org/zap/zaptest/observer"

	"verif/harness/internal/relayenv"
	"verif/harness/internal/vio"
)

// svc is one entry of the manager's service list, in the order Config.Manager builds it.
type svc struct {
	Kind   string `json:"kind"` // cred | tcp | udp | api
	Server string `json:"server,omitempty"`
	N      int    `json:"n"` // listeners
}

type action struct {
	N  string `json:"n"`
	S  int    `json:"s"`
	L  int    `json:"l"`
	Ok bool   `json:"ok"`
}

type obs struct {
	Open    []int  `json:"open"`
	Running []int  `json:"running"`
	PC      string `json:"pc"`
	Ok      bool   `json:"ok"`
}

type initObs struct {
	Blocked []int `json:"blocked"`
}

type event struct {
	N string `json:"n"`
	S int    `json:"s"`
	L int    `json:"l,omitempty"`
}

func freePort(network string) (int, error) {
	if network == "tcp" {
		l, err := net.Listen("tcp4", "127.0.0.1:0")
		if err != nil {
			return 0, err
		}
		defer l.Close()
		return l.Addr().(*net.TCPAddr).Port, nil
	}
	c, err := net.ListenPacket("udp4", "127.0.0.1:0")
	if err != nil {
		return 0, err
	}
	defer c.Close()
	return c.LocalAddr().(*net.UDPAddr).Port, nil
}

// bound reports whether somebody holds the port.
func bound(network string, port int) bool {
	addr := fmt.Sprintf("127.0.0.1:%d", port)
	if network == "tcp" {
		l, err := net.Listen("tcp4", addr)
		if err != nil {
			return true
		}
		l.Close()
		return false
	}
	c, err := net.ListenPacket("udp4", addr)
	if err != nil {
		return true
	}
	c.Close()
	return false
}

type layout struct {
	svcs  []svc
	ports [][]int // per service, per listener
	net   []string
}

func (lo *layout) config(batchMode string) ([]byte, error) {
	servers := []any{}
	byName := map[string]map[string]any{}
	var api map[string]any
	for i, s := range lo.svcs {
		switch s.Kind {
		case "cred":
		case "tcp", "udp":
			srv := byName[s.Server]
			if srv == nil {
				srv = map[string]any{"name": s.Server, "protocol": "socks5", "mtu": 1500}
				byName[s.Server] = srv
				servers = append(servers, srv)
			}
			var ls []any
			for _, p := range lo.ports[i] {
				if s.Kind == "tcp" {
					ls = append(ls, map[string]any{"network": "tcp4", "address": fmt.Sprintf("127.0.0.1:%d", p)})
				} else {
					ls = append(ls, map[string]any{"network": "udp4", "address": fmt.Sprintf("127.0.0.1:%d", p), "natTimeout": "30s", "batchMode": batchMode})
				}
			}
			srv[s.Kind+"Listeners"] = ls
		case "api":
			var ls []any
			for _, p := range lo.ports[i] {
				ls = append(ls, map[string]any{"network": "tcp4", "address": fmt.Sprintf("127.0.0.1:%d", p)})
			}
			api = map[string]any{"enabled": true, "listeners": ls}
		default:
			return nil, fmt.Errorf("service kind %q", s.Kind)
		}
	}
	cfg := map[string]any{
		"servers": servers,
		"clients": []any{map[string]any{"name": "direct", "protocol": "direct", "enableTCP": true, "dialerTFO": false, "enableUDP": true, "mtu": 1500}},
		"router":  map[string]any{"defaultTCPClientName": "direct", "defaultUDPClientName": "direct"},
	}
	if api != nil {
		cfg["api"] = api
	}
	return json.Marshal(cfg)
}

// events projects the manager's log onto the model's observable actions.
func (lo *layout) events(logs *observer.ObservedLogs) []event {
	idx := func(kind, server string) int {
		for i, s := range lo.svcs {
			if s.Kind == kind && (kind == "api" || s.Server == server) {
				return i + 1
			}
		}
		return 0
	}
	apiL := 0
	var out []event
	for _, e := range logs.All() {
		f := e.ContextMap()
		str := func(k string) string { v, _ := f[k].(string); return v }
		num := func(k string) int {
			switch v := f[k].(type) {
			case int64:
				return int(v)
			case int:
				return v
			}
			return -1
		}
		switch {
		case e.Message == "Started TCP relay service listener":
			out = append(out, event{"OpenListener", idx("tcp", str("server")), num("listener") + 1})
		case strings.HasPrefix(e.Message, "Started UDP") && strings.HasSuffix(e.Message, "relay service listener"):
			out = append(out, event{"OpenListener", idx("udp", str("server")), num("listener") + 1})
		case e.Message == "Started API server listener":
			apiL++
			out = append(out, event{"OpenListener", idx("api", ""), apiL})
		case e.Message == "Failed to start service":
			s := 0
			switch {
			case f["serverTCPRelay"] != nil:
				s = idx("tcp", str("serverTCPRelay"))
			case f["serverUDPNATRelay"] != nil:
				s = idx("udp", str("serverUDPNATRelay"))
			case f["serverUDPSessionRelay"] != nil:
				s = idx("udp", str("serverUDPSessionRelay"))
			case str("service") == "api":
				s = idx("api", "")
			}
			out = append(out, event{"StartFail", s, 0})
		case e.Message == "Stopped TCP relay service":
			out = append(out, event{"StopSvc", idx("tcp", str("server")), 0})
		case strings.HasPrefix(e.Message, "Stopped UDP") && strings.HasSuffix(e.Message, "relay service"):
			out = append(out, event{"StopSvc", idx("udp", str("server")), 0})
		case e.Message == "Stopped API server":
			out = append(out, event{"StopSvc", idx("api", ""), 0})
		}
	}
	return out
}

func runBehaviour(in *vio.Input, bi int, b vio.Behaviour, svcs []svc, res *vio.Result) {
	var io initObs
	if err := json.Unmarshal(b.Init, &io); err != nil || len(io.Blocked) != 2 {
		res.Break("behaviour %d: bad init %s", bi, string(b.Init))
		return
	}
	lo := &layout{svcs: svcs}
	for _, s := range svcs {
		network := "tcp"
		if s.Kind == "udp" {
			network = "udp"
		}
		var ps []int
		for range s.N {
			p, err := freePort(network)
			if err != nil {
				res.Break("no free port: %v", err)
				return
			}
			ps = append(ps, p)
		}
		lo.ports = append(lo.ports, ps)
		lo.net = append(lo.net, network)
	}
	batchMode := "no"
	if (in.Seed+int64(bi))%2 == 1 {
		batchMode = "sendmmsg"
	}
	// occupy the port the model says fails to bind
	if io.Blocked[0] > 0 {
		port := lo.ports[io.Blocked[0]-1][io.Blocked[1]-1]
		addr := fmt.Sprintf("127.0.0.1:%d", port)
		if lo.net[io.Blocked[0]-1] == "tcp" {
			l, err := net.Listen("tcp4", addr)
			if err != nil {
				res.Break("cannot occupy %s: %v", addr, err)
				return
			}
			defer l.Close()
		} else {
			c, err := net.ListenPacket("udp4", addr)
			if err != nil {
				res.Break("cannot occupy %s: %v", addr, err)
				return
			}
			defer c.Close()
		}
	}
	cfgJSON, err := lo.config(batchMode)
	if err != nil {
		res.Break("%v", err)
		return
	}
	var cfg service.Config
	dec := json.NewDecoder(bytes.NewReader(cfgJSON))
	dec.DisallowUnknownFields()
	if err := dec.Decode(&cfg); err != nil {
		res.Break("config decode: %v (%s)", err, cfgJSON)
		return
	}
	core, logs := observer.New(zapcore.InfoLevel)
	m, err := cfg.Manager(zap.New(core))
	if err != nil {
		res.Break("config manager: %v (%s)", err, cfgJSON)
		return
	}
	before := len(relayenv.Goroutines("shadowsocks-go/service", "shadowsocks-go/api", "shadowsocks-go/cred"))
	ctx, cancel := context.WithCancel(context.Background())
	defer cancel()
	done := make(chan bool, 1)
	go func() {
		ok := m.Run(ctx)
		m.Close()
		done <- ok
	}()

	// the model's behaviour, projected on what the log can show
	var want []event
	var final obs
	wantOK, cancels := true, false
	for _, st := range b.Steps {
		var a action
		if err := json.Unmarshal(st.A, &a); err != nil {
			res.Break("bad action %s", string(st.A))
			return
		}
		_ = json.Unmarshal(st.O, &final)
		switch a.N {
		case "OpenListener":
			want = append(want, event{"OpenListener", a.S, a.L})
		case "StartFail":
			want = append(want, event{"StartFail", a.S, 0})
		case "StopSvc":
			if svcs[a.S-1].Kind != "cred" && svcs[a.S-1].N > 0 {
				want = append(want, event{"StopSvc", a.S, 0})
			}
		case "Cancel":
			cancels = true
		case "Return":
			wantOK = a.Ok
		}
	}
	complete := final.PC == "done"

	var gotOK, returned bool
	if cancels {
		// wait until every listener has been announced, push one packet through every UDP listener, then cancel
		total := 0
		for _, s := range svcs {
			total += s.N
		}
		deadline := time.Now().Add(20 * time.Second)
		for len(lo.events(logs)) < total && time.Now().Before(deadline) {
			select {
			case gotOK = <-done:
				returned = true
				deadline = time.Now()
			case <-time.After(2 * time.Millisecond):
			}
		}
		if !returned {
			echo, err := relayenv.ListenSock("127.0.0.1:0", true)
			if err == nil {
				for i, s := range svcs {
					if s.Kind != "udp" {
						continue
					}
					for _, p := range lo.ports[i] {
						c, err := net.Dial("udp4", fmt.Sprintf("127.0.0.1:%d", p))
						if err != nil {
							continue
						}
						pkt, _ := relayenv.Socks5UDP(echo.Addr.String(), []byte("ping"))
						_, _ = c.Write(pkt)
						_ = c.SetReadDeadline(time.Now().Add(2 * time.Second))
						buf := make([]byte, 2048)
						if n, err := c.Read(buf); err == nil && n > 0 {
							res.Count("udp_sessions_echoed", 1)
						}
						c.Close()
					}
				}
				defer echo.Close()
			}
			cancel()
		}
	}
	if !returned {
		select {
		case gotOK = <-done:
			returned = true
		case <-time.After(10 * time.Second):
		}
	}
	hist := map[string]any{"services": svcs, "blocked": io.Blocked, "batchMode": batchMode, "steps": b.Steps}
	if !returned {
		res.Violation(vio.Finding{Key: "system.manager/run-did-not-return", Behaviour: bi,
			Text: "Manager.Run did not return within 10 s after the context was cancelled or a service failed to start", Replay: hist,
			Observed: relayenv.Goroutines("shadowsocks-go/service")})
		return
	}
	if !complete {
		res.AddSteps(1, len(b.Steps))
		return
	}
	got := lo.events(logs)
	gj, _ := json.Marshal(got)
	wj, _ := json.Marshal(want)
	if string(gj) != string(wj) {
		res.DriftNote(vio.Finding{Key: "system.manager/event-sequence", Behaviour: bi, Text: "the manager's start/fail/stop events differ from the model's behaviour",
			Expected: want, Observed: got, Replay: hist})
	}
	if gotOK != wantOK {
		res.DriftNote(vio.Finding{Key: "system.manager/run-result", Behaviour: bi, Text: fmt.Sprintf("Run returned %v, the model says %v", gotOK, wantOK), Replay: hist})
	}
	// which listeners are still bound
	time.Sleep(20 * time.Millisecond)
	boundAfter := make([]int, len(svcs))
	for i, s := range svcs {
		stillOpen := 0
		for li, p := range lo.ports[i] {
			if io.Blocked[0] == i+1 && io.Blocked[1] == li+1 {
				continue // held by the harness
			}
			if bound(lo.net[i], p) {
				stillOpen++
			}
		}
		boundAfter[i] = stillOpen
		if len(final.Open) > i && stillOpen != final.Open[i] {
			f := vio.Finding{Key: fmt.Sprintf("system.manager/%s-listener-left-bound", s.Kind), Behaviour: bi,
				Text:     fmt.Sprintf("after Run returned (ok=%v) service %d (%s %s) holds %d bound listeners, the model says %d", gotOK, i+1, s.Kind, s.Server, stillOpen, final.Open[i]),
				Expected: final.Open, Replay: hist}
			// C12 speaks about the UDP relay after a stop; everything else is a note
			if s.Kind == "udp" && gotOK && stillOpen > final.Open[i] {
				res.Violation(f)
			} else {
				res.DriftNote(f)
			}
		}
		if final.Open[i] > 0 {
			res.Count("partial_start_listeners_left_open_as_modelled", final.Open[i])
		}
	}
	if gotOK {
		var left []string
		for range 100 {
			left = relayenv.Goroutines("shadowsocks-go/service", "shadowsocks-go/api", "shadowsocks-go/cred")
			if len(left) <= before {
				break
			}
			time.Sleep(10 * time.Millisecond)
		}
		if len(left) > before {
			udp := false
			for _, g := range left {
				if strings.Contains(g, "service.(*UDP") {
					udp = true
				}
			}
			f := vio.Finding{Key: "system.manager/goroutines-left-after-clean-stop", Behaviour: bi,
				Text: fmt.Sprintf("%d goroutines of the service packages are left after a clean run", len(left)-before), Observed: left, Replay: hist}
			if udp {
				res.Violation(f)
			} else {
				res.DriftNote(f)
			}
		}
	}
	// the recorded run, for TLC (TraceManager.tla): what was logged, Run's result, which ports are still bound
	var tr strings.Builder
	line := func(v any) {
		j, _ := json.Marshal(v)
		tr.Write(j)
		tr.WriteByte('\n')
	}
	line(map[string]any{"e": "run", "blocked": io.Blocked})
	for _, ev := range got {
		switch ev.N {
		case "OpenListener":
			line(map[string]any{"e": "open", "s": ev.S, "l": ev.L})
		case "StartFail":
			line(map[string]any{"e": "fail", "s": ev.S})
		case "StopSvc":
			line(map[string]any{"e": "stop", "s": ev.S})
		}
	}
	line(map[string]any{"e": "ret", "ok": gotOK})
	line(map[string]any{"e": "bound", "open": boundAfter})
	res.Traces = append(res.Traces, tr.String())
	res.Seen(fmt.Sprintf("%v/%s/%v", io.Blocked, batchMode, gotOK))
	res.AddSteps(1, len(b.Steps))
	res.Sample(map[string]any{"blocked": io.Blocked, "events": got, "ok": gotOK, "open_after": final.Open}, 3)
}

func TestManager(t *testing.T) {
	in, err := vio.ReadInput()
	if err != nil {
		t.Skip(err)
	}
	res := vio.NewResult()
	defer func() {
		if err := res.Write(); err != nil {
			t.Fatal(err)
		}
	}()
	var svcs []svc
	if err := in.Const("services", &svcs); err != nil {
		res.Break("services: %v", err)
		return
	}
	for bi, b := range in.Behaviours {
		runBehaviour(in, bi, b, svcs, res)
	}
}
