//go:build verif

package c04

import (
	"bytes"
	"context"
	"crypto/cipher"
	"crypto/sha256"
	"encoding/binary"
	"encoding/json"
	"errors"
	"fmt"
	"net/netip"
	"sort"
	"strings"
	"testing"
	"testing/synctest"
	"time"

	"github.com/database64128/shadowsocks-go/conn"
	"github.com/database64128/shadowsocks-go/ss2022"
	"github.com/database64128/shadowsocks-go/zerocopy"

	"verif/harness/internal/vio"
)

type sessAction struct {
	N   string `json:"n"`
	S   string `json:"s"`
	P   int    `json:"p"`
	K   string `json:"k"`
	Out string `json:"out"`
	Sk  int64  `json:"sk"`
	Ts  int64  `json:"ts"`
	D   int64  `json:"d"`
	Now int64  `json:"now"`
	// Final marks the deliveries appended to a counterexample of the design: a good copy of every packet, so that a state
	// in which the model says "this packet would be wrongly refused / accepted" shows on the real unpacker.
	Final bool `json:"-"`
}

type sessParams struct {
	W          uint64 `json:"w"`          // filter size handed to NewUDPServer / NewUDPClient
	NatTimeout int64  `json:"natTimeout"` // seconds, what the model was given as UDPServer.Info().MinNATTimeout
	Guard      int64  `json:"guard"`      // seconds, the property's "minute"
	D          int64  `json:"d"`          // seconds, MaxEpochDiff the model was given
	ProbeAll   bool   `json:"probeAll"`   // forged-copy probes in every behaviour (default: in every second one)
}

const ticksPerSec = 3

// tickTime maps a model tick to a virtual instant: the three ticks of a second are .000000000, .000000001, .999999999.
func tickTime(base time.Time, tick int64) time.Time {
	sec, frac := tick/ticksPerSec, tick%ticksPerSec
	t := base.Add(time.Duration(sec) * time.Second)
	switch frac {
	case 1:
		t = t.Add(1)
	case 2:
		t = t.Add(time.Second - 1)
	}
	return t
}

var (
	targetAddrPort = netip.AddrPortFrom(netip.AddrFrom4([4]byte{10, 0, 0, 1}), 53)
	targetAddr     = conn.AddrFromIPPort(targetAddrPort)
	serverAddrPort = netip.AddrPortFrom(netip.AddrFrom4([4]byte{192, 0, 2, 1}), 1080)
	clientAddrPort = netip.AddrPortFrom(netip.AddrFrom4([4]byte{192, 0, 2, 2}), 10800)
)

// packet is one packet made by a real packer (and, for a skewed clock, re-sealed with another timestamp).
type packet struct {
	wire    []byte // bytes on the wire
	sid     uint64
	pid     uint64
	ts      int64 // the timestamp inside
	payload []byte
	c2s     bool
}

// keys holds the key material of a world; the same material is used to make the real objects and to re-seal
// packets whose plaintext the behaviour alters (type, timestamp, client session id).
type keys struct {
	eih      bool
	uPSK     []byte
	iPSK     []byte
	ucc      ss2022.UserCipherConfig // user key: body AEAD of both directions, separate header of server packets
	sepC2S   cipher.Block            // separate header of client packets
	sepS2C   cipher.Block            // separate header of server packets
	nonAEAD  int                     // separate header + identity headers of client packets
	ccc      *ss2022.ClientCipherConfig
	identity ss2022.ServerIdentityCipherConfig
}

func derive(tag string, seed int64, bi, n int) []byte {
	h := sha256.Sum256(fmt.Appendf(nil, "%s/%d/%d", tag, seed, bi))
	return h[:n]
}

type clientSession struct {
	info zerocopy.UDPClientSessionInfo
	sess zerocopy.UDPClientSession
	csid uint64
	// server side of this client session, as the relay keeps it
	unpacker zerocopy.ServerUnpacker
}

// world is one run of a behaviour against real objects.
type world struct {
	t       *testing.T
	res     *vio.Result
	prm     sessParams
	base    time.Time
	k       keys
	server  *ss2022.UDPServer
	client  *ss2022.UDPClient
	pad     ss2022.PaddingPolicy
	seed    int64
	bi      int
	rnd     uint64
	relay   bool                      // true: like the relay, an unpacker enters the table only when its first packet unpacks
	cs      map[string]*clientSession // model client sessions (server side) by name
	table   map[uint64]zerocopy.ServerUnpacker
	lastAct map[uint64]time.Time
	// client side under test
	me      *clientSession
	packers map[string]zerocopy.ServerPacker // model server sessions
	pk      map[string][]*packet
	payload int
}

func (w *world) next() uint64 {
	w.rnd = w.rnd*6364136223846793005 + 1442695040888963407
	return w.rnd >> 33
}

func newWorld(t *testing.T, res *vio.Result, prm sessParams, seed int64, bi int, variant int) (*world, error) {
	w := &world{t: t, res: res, prm: prm, base: time.Now(), seed: seed, bi: bi, rnd: uint64(seed)*1000003 + uint64(bi)*7919 + uint64(variant),
		cs: map[string]*clientSession{}, table: map[uint64]zerocopy.ServerUnpacker{}, lastAct: map[uint64]time.Time{},
		packers: map[string]zerocopy.ServerPacker{}, pk: map[string][]*packet{}}
	keyLen := 32
	if (seed+int64(bi))%2 == 1 {
		keyLen = 16
	}
	w.k.eih = (seed+int64(bi))%3 == 0
	w.relay = (seed+int64(bi))%5 != 0
	w.pad = ss2022.NoPadding
	if (seed+int64(bi))%4 == 1 {
		w.pad = ss2022.PadAll
	}
	w.k.uPSK = derive("upsk", seed, bi, keyLen)
	var err error
	if w.k.ucc, err = ss2022.NewUserCipherConfig(w.k.uPSK, true); err != nil {
		return nil, err
	}
	w.k.sepS2C = w.k.ucc.Block()
	var serverUCC ss2022.UserCipherConfig
	if w.k.eih {
		w.k.iPSK = derive("ipsk", seed, bi, keyLen)
		if w.k.ccc, err = ss2022.NewClientCipherConfig(w.k.uPSK, [][]byte{w.k.iPSK}, true); err != nil {
			return nil, err
		}
		if w.k.identity, err = ss2022.NewServerIdentityCipherConfig(w.k.iPSK, true); err != nil {
			return nil, err
		}
		w.k.sepC2S = w.k.identity.UDP()
		w.k.nonAEAD = ss2022.UDPSeparateHeaderLength + ss2022.IdentityHeaderLength
	} else {
		if w.k.ccc, err = ss2022.NewClientCipherConfig(w.k.uPSK, nil, true); err != nil {
			return nil, err
		}
		serverUCC = w.k.ucc
		w.k.sepC2S = w.k.ucc.Block()
		w.k.nonAEAD = ss2022.UDPSeparateHeaderLength
	}
	w.server = ss2022.NewUDPServer(prm.W, serverUCC, w.k.identity, w.pad)
	if w.k.eih {
		suc, err := ss2022.NewServerUserCipherConfig("user", w.k.uPSK, true)
		if err != nil {
			return nil, err
		}
		other, err := ss2022.NewServerUserCipherConfig("other", derive("other", seed, bi, keyLen), true)
		if err != nil {
			return nil, err
		}
		w.server.ReplaceUserLookupMap(ss2022.UserLookupMap{ss2022.PSKHash(w.k.uPSK): suc, ss2022.PSKHash(other.PSK): other})
	}
	w.client = ss2022.NewUDPClient("c04", "ip", conn.AddrFromIPPort(serverAddrPort), 1500, conn.DefaultUDPClientListenConfig, prm.W, w.k.ccc, w.pad)
	w.payload = 16 + int(w.next()%48)
	return w, nil
}

func (w *world) newClientSession() (*clientSession, error) {
	info, sess, err := w.client.NewSession(context.Background())
	if err != nil {
		return nil, err
	}
	return &clientSession{info: info, sess: sess}, nil
}

// sep decrypts the separate header of a copy of the packet.
func sep(blk cipher.Block, wire []byte) (sid, pid uint64, plain [16]byte) {
	blk.Decrypt(plain[:], wire[:16])
	return binary.BigEndian.Uint64(plain[:8]), binary.BigEndian.Uint64(plain[8:]), plain
}

func (w *world) newPayload(s string, p int) []byte {
	h := sha256.Sum256(fmt.Appendf(nil, "payload/%d/%d/%s/%d", w.seed, w.bi, s, p))
	b := make([]byte, 0, w.payload)
	for len(b) < w.payload {
		b = append(b, h[:]...)
	}
	return b[:w.payload]
}

// packC2S makes the next packet of client session cs with the real client packer.
func (w *world) packC2S(cs *clientSession, payload []byte) (*packet, error) {
	front, rear := cs.info.PackerHeadroom.Front, cs.info.PackerHeadroom.Rear
	b := make([]byte, front+len(payload)+rear)
	copy(b[front:], payload)
	_, start, n, err := cs.sess.Packer.PackInPlace(context.Background(), b, targetAddr, front, len(payload))
	if err != nil {
		return nil, err
	}
	wire := append([]byte(nil), b[start:start+n]...)
	sid, pid, _ := sep(w.k.sepC2S, wire)
	return &packet{wire: wire, sid: sid, pid: pid, ts: time.Now().Unix(), payload: payload, c2s: true}, nil
}

// packS2C makes the next packet of a server session with the real server packer.
func (w *world) packS2C(pk zerocopy.ServerPacker, payload []byte) (*packet, error) {
	hr := pk.ServerPackerInfo().Headroom
	b := make([]byte, hr.Front+len(payload)+hr.Rear)
	copy(b[hr.Front:], payload)
	start, n, err := pk.PackInPlace(b, targetAddrPort, hr.Front, len(payload), 1452)
	if err != nil {
		return nil, err
	}
	wire := append([]byte(nil), b[start:start+n]...)
	sid, pid, _ := sep(w.k.sepS2C, wire)
	return &packet{wire: wire, sid: sid, pid: pid, ts: time.Now().Unix(), payload: payload}, nil
}

// reseal builds a packet with the same separate (and identity) header as pk -- same session, same packet id --
// whose authenticated body carries another type, timestamp or client session id: what a holder of the key could send.
func (w *world) reseal(pk *packet, typ byte, ts int64, csid uint64) ([]byte, error) {
	var body []byte
	hdr := ss2022.UDPSeparateHeaderLength
	blk := w.k.sepS2C
	if pk.c2s {
		hdr = w.k.nonAEAD
		blk = w.k.sepC2S
		body = make([]byte, ss2022.UDPClientMessageHeaderFixedLength+1+4+2+len(pk.payload))
		ss2022.PutUDPClientMessageHeader(body[:len(body)-len(pk.payload)], time.Unix(ts, 0), 0, targetAddr)
	} else {
		body = make([]byte, ss2022.UDPServerMessageHeaderFixedLength+1+4+2+len(pk.payload))
		ss2022.PutUDPServerMessageHeader(body[:len(body)-len(pk.payload)], time.Unix(ts, 0), csid, 0, targetAddrPort)
	}
	body[0] = typ
	copy(body[len(body)-len(pk.payload):], pk.payload)
	_, _, plain := sep(blk, pk.wire)
	aead, err := w.k.ucc.AEAD(plain[:8])
	if err != nil {
		return nil, err
	}
	out := append([]byte(nil), pk.wire[:hdr]...)
	return aead.Seal(out, plain[4:16], body, nil), nil
}

func classify(err error) string {
	switch {
	case err == nil:
		return "ok"
	case errors.Is(err, ss2022.ErrReplay):
		return "replay"
	case errors.Is(err, ss2022.ErrTooManyServerSessions):
		return "toomany"
	case errors.Is(err, ss2022.ErrBadTimestamp):
		return "badts"
	case errors.Is(err, ss2022.ErrTypeMismatch):
		return "typeerr"
	case errors.Is(err, ss2022.ErrClientSessionIDMismatch):
		return "csiderr"
	case errors.Is(err, zerocopy.ErrPacketTooSmall), errors.Is(err, ss2022.ErrPacketIncompleteHeader):
		return "malformed"
	default:
		return "autherr"
	}
}

// alter produces the bytes that reach the receiver for a delivery of kind k.
func (w *world) alter(pk *packet, k string, csid uint64) ([]byte, error) {
	switch k {
	case "good":
		return append([]byte(nil), pk.wire...), nil
	case "forged": // one flipped bit in the authenticated body or its tag
		b := append([]byte(nil), pk.wire...)
		hdr := ss2022.UDPSeparateHeaderLength
		if pk.c2s {
			hdr = w.k.nonAEAD
		}
		pos := hdr + int(w.next()%uint64(len(b)-hdr))
		b[pos] ^= 1 << (w.next() % 8)
		return b, nil
	case "hdrflip": // one flipped bit in the AES-encrypted separate header
		b := append([]byte(nil), pk.wire...)
		b[w.next()%16] ^= 1 << (w.next() % 8)
		return b, nil
	case "badtype":
		typ := byte(ss2022.HeaderTypeServerPacket)
		if !pk.c2s {
			typ = ss2022.HeaderTypeClientPacket
		}
		return w.reseal(pk, typ, pk.ts, csid)
	case "foreign":
		return w.reseal(pk, ss2022.HeaderTypeServerPacket, pk.ts, csid^(1+w.next()))
	}
	return nil, fmt.Errorf("unknown kind %q", k)
}

// serverReceive does what service/udp_session.go does with a datagram: SessionInfo, table lookup or NewUnpacker,
// UnpackInPlace, and the table insert only after a successful unpack.
func (w *world) serverReceive(b []byte) (out string, csid uint64, payload []byte) {
	defer func() {
		if r := recover(); r != nil {
			out, payload = fmt.Sprintf("panic: %v", r), nil
		}
	}()
	csid, err := w.server.SessionInfo(b)
	if err != nil {
		return classify(err), 0, nil
	}
	u, ok := w.table[csid]
	if !ok {
		u, _, err = w.server.NewUnpacker(b, csid)
		if err != nil {
			return classify(err), csid, nil
		}
		if !w.relay {
			w.table[csid] = u
		}
	}
	_, ps, pl, err := u.UnpackInPlace(b, clientAddrPort, 0, len(b))
	if err != nil {
		return classify(err), csid, nil
	}
	w.table[csid] = u
	w.lastAct[csid] = time.Now()
	return "ok", csid, b[ps : ps+pl]
}

func (w *world) clientReceive(b []byte) (out string, payload []byte) {
	defer func() {
		if r := recover(); r != nil {
			out, payload = fmt.Sprintf("panic: %v", r), nil
		}
	}()
	_, ps, pl, err := w.me.sess.Unpacker.UnpackInPlace(b, serverAddrPort, 0, len(b))
	if err != nil {
		return classify(err), nil
	}
	return "ok", b[ps : ps+pl]
}

// ensureMe creates the client session under test and its server-side unpacker (needed to obtain real server packers).
func (w *world) ensureMe() error {
	if w.me != nil {
		return nil
	}
	cs, err := w.newClientSession()
	if err != nil {
		return err
	}
	pk, err := w.packC2S(cs, []byte("hello"))
	if err != nil {
		return err
	}
	cs.csid = pk.sid
	b := append([]byte(nil), pk.wire...)
	csid, err := w.server.SessionInfo(b)
	if err != nil {
		return err
	}
	u, _, err := w.server.NewUnpacker(b, csid)
	if err != nil {
		return err
	}
	if _, _, _, err = u.UnpackInPlace(b, clientAddrPort, 0, len(b)); err != nil {
		return err
	}
	cs.unpacker = u
	w.me = cs
	return nil
}

type stepResult struct {
	out string
	bad bool // forged / stale / wrong type / foreign: the packets the property calls inert
}

type runOpts struct {
	skipBad bool   // twin run: leave out every delivery that the first run classified as bad, and all probes
	bad     []bool // per step, from the first run
	probes  bool
}

type ledger struct {
	delivered map[string]map[int]bool
	max       map[string]int
}

func (l *ledger) fresh(s string, p int, w uint64) bool {
	d := l.delivered[s]
	if d[p] {
		return false
	}
	return len(d) == 0 || p > l.max[s] || uint64(l.max[s]-p) < w
}

func (l *ledger) add(s string, p int) {
	if l.delivered[s] == nil {
		l.delivered[s] = map[int]bool{}
	}
	if len(l.delivered[s]) == 0 || p > l.max[s] {
		l.max[s] = p
	}
	l.delivered[s][p] = true
}

// run executes one behaviour in a fresh world and returns the verdict of every step.
func run(t *testing.T, res *vio.Result, in *vio.Input, prm sessParams, bi int, b vio.Behaviour, acts []sessAction, obs []sessObs, o runOpts, variant int) (outs []stepResult, completed int, ok bool) {
	outs = make([]stepResult, len(acts))
	synctest.Test(t, func(t *testing.T) {
		w, err := newWorld(t, res, prm, in.Seed, bi, variant)
		if err != nil {
			res.Break("behaviour %d: world: %v", bi, err)
			return
		}
		if got := int64(w.server.Info().MinNATTimeout / time.Second); got != prm.NatTimeout {
			res.Break("UDPServer.Info().MinNATTimeout is %ds but the model was given %ds", got, prm.NatTimeout)
			return
		}
		led := &ledger{delivered: map[string]map[int]bool{}, max: map[string]int{}}
		evicted := map[string]bool{}
		var curReal, oldReal string
		var lastChange time.Time
		var haveChange bool
		hist := func(n int) any {
			n = min(n, len(b.Steps)-1)
			return map[string]any{"test": "TestSession", "session": prm, "steps": b.Steps[:n+1], "seed": in.Seed, "behaviour": bi}
		}
		// after the first difference from the model the rest is no longer a model behaviour: it is still executed and
		// the property is still evaluated on it (the oracles need no model), but nothing is compared with the model any more
		drifted := false
		// state projection after EVERY step (also after the clock moved or a packet was packed): a copy with a flipped
		// body bit of every packet packed so far.  Besides comparing the state with the model's, this is the junk --
		// forged packets carrying the ids of the current, the old and unknown sessions at every instant of the history --
		// whose inertness the twin run then judges.
		probeAfter := func(si int) {
			if o.probes && !o.skipBad && !drifted && si < len(obs) && obs[si].valid {
				if !w.probe(obs[si], bi, si, hist) {
					drifted = !b.Cex
				}
			}
		}
		for si, a := range acts {
			if o.skipBad && o.bad[si] {
				continue
			}
			switch a.N {
			case "Advance":
				d := tickTime(w.base, a.Now).Sub(time.Now())
				if d < 0 {
					res.Break("behaviour %d step %d: clock would go backwards", bi, si)
					return
				}
				time.Sleep(d)
				if !drifted {
					completed = si + 1
				}
				probeAfter(si)
				continue
			case "Pack":
				var pk *packet
				if cs, isClient := w.cs[a.S]; isClient || a.S[0] == 'c' {
					if cs == nil {
						if cs, err = w.newClientSession(); err != nil {
							res.Break("NewSession: %v", err)
							return
						}
						w.cs[a.S] = cs
					}
					pk, err = w.packC2S(cs, w.newPayload(a.S, a.P))
					if err == nil {
						cs.csid = pk.sid
					}
				} else {
					if err = w.ensureMe(); err != nil {
						res.Break("client session under test: %v", err)
						return
					}
					sp := w.packers[a.S]
					if sp == nil {
						if sp, err = w.me.unpacker.NewPacker(); err != nil {
							res.Break("NewPacker: %v", err)
							return
						}
						w.packers[a.S] = sp
					}
					pk, err = w.packS2C(sp, w.newPayload(a.S, a.P))
				}
				if err != nil {
					res.Break("behaviour %d step %d: pack: %v", bi, si, err)
					return
				}
				if pk.pid != uint64(a.P) {
					res.DriftNote(vio.Finding{Key: "udp.session/packet-id-sequence", Behaviour: bi, Step: si, Expected: a.P, Observed: pk.pid,
						Text: "the real packer did not number its packets 0,1,2,...", Replay: hist(si)})
					return
				}
				if a.Sk != 0 { // the packing side's clock is skewed: same packet, other timestamp
					pk.ts += a.Sk
					csid := uint64(0)
					typ := byte(ss2022.HeaderTypeClientPacket)
					if !pk.c2s {
						csid, typ = w.me.csid, ss2022.HeaderTypeServerPacket
					}
					if pk.wire, err = w.reseal(pk, typ, pk.ts, csid); err != nil {
						res.Break("reseal: %v", err)
						return
					}
				}
				if pk.ts-w.base.Unix() != a.Ts {
					res.Break("behaviour %d step %d: packet timestamp %d, model %d", bi, si, pk.ts-w.base.Unix(), a.Ts)
					return
				}
				w.pk[a.S] = append(w.pk[a.S], pk)
				if !drifted {
					completed = si + 1
				}
				probeAfter(si)
				continue
			case "Evict":
				cs := w.cs[a.S]
				if cs == nil {
					res.Break("behaviour %d step %d: evict of unknown session", bi, si)
					return
				}
				if idle := time.Since(w.lastAct[cs.csid]); idle < w.server.Info().MinNATTimeout {
					if drifted || o.skipBad {
						continue // the real history is not the model's any more: the relay would not drop the session yet
					}
					res.Break("behaviour %d step %d: model evicts after %s, below the server's MinNATTimeout", bi, si, idle)
					return
				}
				delete(w.table, cs.csid)
				evicted[a.S] = true
				if !drifted {
					completed = si + 1
				}
				probeAfter(si)
				continue
			case "SrvRecv", "CliRecv":
			default:
				res.Break("unknown action %q", a.N)
				return
			}
			// ---- a delivery
			if a.P >= len(w.pk[a.S]) {
				res.Break("behaviour %d step %d: packet %s/%d was never packed", bi, si, a.S, a.P)
				return
			}
			pk := w.pk[a.S][a.P]
			srv := a.N == "SrvRecv"
			var mycsid uint64
			if !srv {
				mycsid = w.me.csid
			}
			wire, err := w.alter(pk, a.K, mycsid)
			if err != nil {
				res.Break("behaviour %d step %d: %v", bi, si, err)
				return
			}
			now := time.Now()
			diff := pk.ts - now.Unix()
			stale := diff > prm.D || diff < -prm.D
			genuine := a.K == "good" && !stale
			var got string
			var payload []byte
			if srv {
				got, _, payload = w.serverReceive(wire)
			} else {
				got, payload = w.clientReceive(wire)
			}
			outs[si] = stepResult{out: got, bad: !genuine}
			side := "client"
			if srv {
				side = "server"
			}
			// ---- the property, on what the real unpacker did
			flagged := false
			viol := func(key, text string) {
				flagged = true
				res.Violation(vio.Finding{Key: key, Behaviour: bi, Step: si, Expected: a.Out, Observed: got, Text: text, Replay: hist(si)})
			}
			if strings.HasPrefix(got, "panic") {
				viol("udp."+side+"/panic", fmt.Sprintf("UnpackInPlace panicked on a %s delivery of %s/%d: %s", a.K, a.S, a.P, got))
			}
			if got == "ok" {
				was := led.delivered[a.S][a.P]
				switch {
				case !genuine:
					what := a.K
					if a.K == "good" {
						what = fmt.Sprintf("stale (timestamp %+ds)", diff)
					}
					viol("udp."+side+"/bad-packet-delivered", fmt.Sprintf("a %s packet (session %s, id %d) was delivered", what, a.S, a.P))
				case was && srv && evicted[a.S]:
					viol("udp.server/replay-reopens-evicted-session", fmt.Sprintf("packet %s/%d, delivered before, is delivered again after the idle session was dropped at the server's minimum NAT timeout (timestamp %+ds still passes)", a.S, a.P, diff))
				case was && !srv && a.S != curReal && haveChange && now.Sub(lastChange) < time.Duration(prm.Guard)*time.Second:
					viol("udp.client/old-session-replay-accepted", fmt.Sprintf("packet %s/%d of the previous server session, delivered before, is delivered again %s after the session change", a.S, a.P, now.Sub(lastChange)))
				case was:
					viol("udp."+side+"/delivered-twice", fmt.Sprintf("packet %s/%d was delivered a second time", a.S, a.P))
				}
				if !bytes.Equal(payload, pk.payload) {
					viol("udp."+side+"/delivered-wrong-payload", fmt.Sprintf("packet %s/%d delivered with a payload that was not sent", a.S, a.P))
				}
				led.add(a.S, a.P)
				if !srv && a.S != curReal && a.S != oldReal {
					// the client accepted a server session it did not know: a session change
					if curReal != "" {
						if haveChange && now.Sub(lastChange) < time.Duration(prm.Guard)*time.Second {
							viol("udp.client/second-session-change-within-minute", fmt.Sprintf("server session changed to %s only %s after the previous change", a.S, now.Sub(lastChange)))
						}
						lastChange, haveChange = now, true
					}
					oldReal, curReal = curReal, a.S
				}
			} else if genuine && led.fresh(a.S, a.P, prm.W) && (srv || a.S == curReal) {
				viol("udp."+side+"/fresh-refused", fmt.Sprintf("genuine packet %s/%d (timestamp %+ds, never delivered, newest delivered %d, window %d) was refused: %s",
					a.S, a.P, diff, led.max[a.S], prm.W, got))
			}
			res.Seen(fmt.Sprintf("%s/%s/%s", a.N, a.K, got))
			if got != a.Out && !o.skipBad && !drifted && !a.Final {
				if !flagged {
					res.DriftNote(vio.Finding{Key: "udp.session/model-drift", Behaviour: bi, Step: si, Expected: a.Out, Observed: got,
						Text: fmt.Sprintf("%s(%s,%d,%s): model expects %q, the unpacker did %q", a.N, a.S, a.P, a.K, a.Out, got), Replay: hist(si)})
				}
				drifted = !b.Cex
			}
			if !drifted {
				completed = si + 1
			}
			probeAfter(si)
		}
		ok = true
		if !o.skipBad && !drifted {
			w.extras(bi, hist(len(acts)-1))
		}
	})
	return
}

type sessObs struct {
	valid bool
	srv   map[string][]string
	cli   map[string][]string
}

func parseObs(raw json.RawMessage) sessObs {
	var o struct {
		Srv json.RawMessage `json:"srv"`
		Cli json.RawMessage `json:"cli"`
	}
	if len(raw) == 0 || json.Unmarshal(raw, &o) != nil {
		return sessObs{}
	}
	r := sessObs{valid: true, srv: map[string][]string{}, cli: map[string][]string{}}
	_ = json.Unmarshal(o.Srv, &r.srv) // an empty function serialises as [] -- nothing to probe then
	_ = json.Unmarshal(o.Cli, &r.cli)
	return r
}

// probe compares, for every packet packed so far, the verdict on a forged copy with the model's.
func (w *world) probe(o sessObs, bi, si int, hist func(int) any) bool {
	check := func(side map[string][]string, srv bool) bool {
		names := make([]string, 0, len(side))
		for s := range side {
			names = append(names, s)
		}
		sort.Strings(names)
		for _, s := range names {
			for p, want := range side[s] {
				if p >= len(w.pk[s]) {
					continue
				}
				wire, _ := w.alter(w.pk[s][p], "forged", 0)
				var got string
				if srv {
					got, _, _ = w.serverReceive(wire)
				} else {
					if w.me == nil {
						continue
					}
					got, _ = w.clientReceive(wire)
				}
				w.res.Count("probes", 1)
				if strings.HasPrefix(got, "panic") {
					w.res.Violation(vio.Finding{Key: "udp.session/panic", Behaviour: bi, Step: si, Expected: want, Observed: got,
						Text: fmt.Sprintf("UnpackInPlace panicked on a copy of packet %s/%d with a flipped bit: %s", s, p, got), Replay: hist(si)})
					return false
				}
				if got == "ok" {
					w.res.Violation(vio.Finding{Key: "udp.session/bad-packet-delivered", Behaviour: bi, Step: si, Expected: want, Observed: got,
						Text: fmt.Sprintf("a copy of packet %s/%d with a flipped bit was delivered", s, p), Replay: hist(si)})
					return false
				}
				if got != want {
					w.res.DriftNote(vio.Finding{Key: "udp.session/probe-drift", Behaviour: bi, Step: si, Expected: want, Observed: got,
						Text: fmt.Sprintf("forged copy of %s/%d: model expects %q, the unpacker did %q", s, p, want, got), Replay: hist(si)})
					return false
				}
			}
		}
		return true
	}
	return check(o.srv, true) && check(o.cli, false)
}

// extras: two packets that only real packers of other sessions can make.
func (w *world) extras(bi int, replay any) {
	// (1) a server packet reflected to the server: right key, wrong direction type
	for _, s := range sortedKeys(w.pk) {
		if len(w.pk[s]) == 0 || w.pk[s][0].c2s || w.k.eih {
			continue
		}
		got, _, _ := w.serverReceive(append([]byte(nil), w.pk[s][0].wire...))
		w.res.Count("extra_reflected", 1)
		if got == "ok" {
			w.res.Violation(vio.Finding{Key: "udp.server/bad-packet-delivered", Behaviour: bi, Text: "a server packet reflected to the server was delivered", Replay: replay})
		}
		break
	}
	// (2) a server packet made for another client session of the same user
	if w.me == nil {
		return
	}
	other, err := w.newClientSession()
	if err != nil {
		return
	}
	pk, err := w.packC2S(other, []byte("other"))
	if err != nil {
		return
	}
	b := append([]byte(nil), pk.wire...)
	csid, err := w.server.SessionInfo(b)
	if err != nil {
		return
	}
	u, _, err := w.server.NewUnpacker(b, csid)
	if err != nil {
		return
	}
	if _, _, _, err = u.UnpackInPlace(b, clientAddrPort, 0, len(b)); err != nil {
		return
	}
	sp, err := u.NewPacker()
	if err != nil {
		return
	}
	fp, err := w.packS2C(sp, []byte("for another client"))
	if err != nil {
		return
	}
	got, _ := w.clientReceive(append([]byte(nil), fp.wire...))
	w.res.Count("extra_foreign", 1)
	w.res.Seen("extra/foreign/" + got)
	if got == "ok" {
		w.res.Violation(vio.Finding{Key: "udp.client/bad-packet-delivered", Behaviour: bi, Text: "a packet the server made for another client session was delivered", Replay: replay})
	}
}

func sortedKeys(m map[string][]*packet) []string {
	ks := make([]string, 0, len(m))
	for k := range m {
		ks = append(ks, k)
	}
	sort.Strings(ks)
	return ks
}

// TestSession replays behaviours of UdpSession.tla.  Every behaviour runs twice: as given (with state probes),
// and without the deliveries the property calls inert (forged, stale, wrong type, foreign session id) -- the
// verdicts on all other deliveries must be the same in both runs.
func TestSession(t *testing.T) {
	in, err := vio.ReadInput()
	if err != nil {
		t.Skip(err)
	}
	res := vio.NewResult()
	defer func() {
		if err := res.Write(); err != nil {
			t.Fatal(err)
		}
	}()
	var prm sessParams
	if !in.Param("session", &prm) || prm.W == 0 {
		res.Break("session parameters missing")
		return
	}
	for bi, b := range in.Behaviours {
		acts := make([]sessAction, len(b.Steps))
		obs := make([]sessObs, len(b.Steps))
		for si, st := range b.Steps {
			if err := json.Unmarshal(st.A, &acts[si]); err != nil {
				res.Break("behaviour %d step %d: %v", bi, si, err)
				return
			}
			obs[si] = parseObs(st.O)
		}
		if b.Cex {
			npk := map[string]int{}
			var order []string
			for _, a := range acts {
				if a.N == "Pack" {
					if npk[a.S] == 0 {
						order = append(order, a.S)
					}
					npk[a.S]++
				}
			}
			for _, s := range order {
				for p := 0; p < npk[s]; p++ {
					n := "CliRecv"
					if s[0] == 'c' {
						n = "SrvRecv"
					}
					acts = append(acts, sessAction{N: n, S: s, P: p, K: "good", Final: true})
					obs = append(obs, sessObs{})
				}
			}
		}
		if b.ID != 0 {
			bi = b.ID
		}
		probes := prm.ProbeAll || (in.Seed+int64(bi))%2 == 0
		full, done, ok := run(t, res, in, prm, bi, b, acts, obs, runOpts{probes: probes}, 0)
		res.AddSteps(1, done)
		if len(res.Broken) > 0 {
			return
		}
		if !ok {
			continue // drift: the rest is not a model behaviour
		}
		bad := make([]bool, len(acts))
		nbad := 0
		for si := range acts {
			if full[si].bad && (acts[si].N == "SrvRecv" || acts[si].N == "CliRecv") {
				bad[si] = true
				nbad++
			}
		}
		if nbad > 0 || probes {
			twin, _, ok2 := run(t, res, in, prm, bi, b, acts, nil, runOpts{skipBad: true, bad: bad}, 1)
			if len(res.Broken) > 0 {
				return
			}
			if ok2 {
				res.Count("twin_runs", 1)
				for si := range acts {
					if bad[si] || (acts[si].N != "SrvRecv" && acts[si].N != "CliRecv") {
						continue
					}
					if (full[si].out == "ok") != (twin[si].out == "ok") {
						side := "client"
						if acts[si].N == "SrvRecv" {
							side = "server"
						}
						res.Violation(vio.Finding{Key: "udp." + side + "/bad-packet-changes-acceptance", Behaviour: bi, Step: si,
							Expected: twin[si].out, Observed: full[si].out,
							Text: fmt.Sprintf("delivery of %s/%d (%s) ends %q when forged/stale/wrong-type/foreign packets were seen before and %q when they were not",
								acts[si].S, acts[si].P, acts[si].K, full[si].out, twin[si].out),
							Replay: map[string]any{"test": "TestSession", "session": prm, "steps": b.Steps[:min(si+1, len(b.Steps))], "seed": in.Seed, "behaviour": bi}})
						break
					}
				}
			}
		}
		res.Sample(map[string]any{"behaviour": bi, "actions": acts}, 3)
	}
}
