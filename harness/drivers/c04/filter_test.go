//go:build verif

// Package c04 binds specs/Replay/SlidingWindow.tla and specs/Replay/UdpSession.tla to the real code:
// TLC behaviours are replayed into the exported ss2022.SlidingWindowFilter and into the real
// ShadowPacketServerUnpacker / ShadowPacketClientUnpacker (obtained through UDPServer / UDPClient, fed with
// packets made by the real packers) under the virtual clock of testing/synctest, and property C04 is
// evaluated on what the real objects answered.
package c04

import (
	"encoding/json"
	"fmt"
	"sort"
	"testing"

	"github.com/database64128/shadowsocks-go/ss2022"

	"verif/harness/internal/vio"
)

type filterAction struct {
	N    string `json:"n"`
	C    uint64 `json:"c"`
	Out  bool   `json:"out"`
	Size uint64 `json:"size"`
}

type filterObs struct {
	Size  uint64   `json:"size"`
	Probe []uint64 `json:"probe"` // the counters the model looks at in this state (alphabet + offsets from last)
	Ok    []uint64 `json:"ok"`    // those of them IsOk accepts
}

type sizeParams struct {
	Ids      []uint64 `json:"ids"`
	RingBits uint64   `json:"ringBits"`
	Rel      []int64  `json:"rel"` // offsets from the newest accepted counter the model may present as well
}

type filterParams struct {
	Sizes map[string]sizeParams `json:"sizes"` // per window size: the model's alphabet and the ring period
	Bases []string              `json:"bases"` // "0", "2^32", "hi"
}

// ghost is the property's own memory of one filter epoch: what was delivered and the newest delivered id.
type ghost struct {
	seen []uint64
	max  uint64
}

func newGhost() *ghost { return &ghost{} }

func (g *ghost) reset() { g.seen = g.seen[:0]; g.max = 0 }

func (g *ghost) delivered(c uint64) bool {
	for _, x := range g.seen {
		if x == c {
			return true
		}
	}
	return false
}

// fresh: not yet delivered and newer than, or fewer than size behind, the newest delivered one.
func (g *ghost) fresh(c, size uint64) bool {
	if g.delivered(c) {
		return false
	}
	return len(g.seen) == 0 || c > g.max || g.max-c < size
}

func (g *ghost) add(c uint64) {
	if len(g.seen) == 0 || c > g.max {
		g.max = c
	}
	g.seen = append(g.seen, c)
}

// base returns the translation for a behaviour whose largest id is maxID.  All bases are multiples of the ring
// period; "hi" puts the ring period that contains maxID at the very top of uint64, so an id that is the last of
// its period lands exactly on 2^64-1.
func base(kind string, ringBits, maxID uint64) (uint64, uint64) {
	switch kind {
	case "0":
		return 0, ^uint64(0)
	case "2^32":
		return (uint64(1) << 32) / ringBits * ringBits, ^uint64(0)
	default:
		periods := maxID/ringBits + 1
		b := -(periods * ringBits) // 2^64 - periods*ringBits
		return b, periods*ringBits - 1
	}
}

// judge evaluates the property on one verdict of the real filter and reports how it relates to the model's.
func judge(res *vio.Result, what string, real, model bool, g *ghost, c, id, size uint64, bi, si int, hist func() any) bool {
	switch {
	case real && g.delivered(c):
		res.Violation(vio.Finding{Key: "udp.filter/accepted-twice", Behaviour: bi, Step: si, Expected: model, Observed: real,
			Text:   fmt.Sprintf("size %d: %s(%d) [alphabet id %d] accepts a counter that was already accepted", size, what, c, id),
			Replay: hist()})
		return false
	case !real && g.fresh(c, size):
		res.Violation(vio.Finding{Key: "udp.filter/fresh-refused", Behaviour: bi, Step: si, Expected: model, Observed: real,
			Text:   fmt.Sprintf("size %d: %s(%d) [alphabet id %d] refuses a counter that was never accepted and is newer than, or fewer than %d behind, the newest accepted one (%d)", size, what, c, id, size, g.max),
			Replay: hist()})
		return false
	case real != model:
		res.DriftNote(vio.Finding{Key: "udp.filter/model-drift", Behaviour: bi, Step: si, Expected: model, Observed: real,
			Text:   fmt.Sprintf("size %d: %s(%d) [alphabet id %d]: model %v, filter %v (the property allows both)", size, what, c, id, model, real),
			Replay: hist()})
		return false
	}
	return true
}

// TestFilter replays behaviours of SlidingWindow.tla into the real filter, once per translation base.
func TestFilter(t *testing.T) {
	in, err := vio.ReadInput()
	if err != nil {
		t.Skip(err)
	}
	res := vio.NewResult()
	defer func() {
		if err := res.Write(); err != nil {
			t.Fatal(err)
		}
	}()
	var fp filterParams
	if !in.Param("filter", &fp) || len(fp.Sizes) == 0 {
		res.Break("filter parameters missing")
		return
	}
	for bi, b := range in.Behaviours {
		acts := make([]filterAction, len(b.Steps))
		obs := make([]map[uint64]bool, len(b.Steps))
		probe := make([][]uint64, len(b.Steps))
		var maxID, size uint64
		if len(b.Init) > 0 {
			var o filterObs
			if json.Unmarshal(b.Init, &o) == nil {
				size = o.Size
			}
		}
		for si, st := range b.Steps {
			if err := json.Unmarshal(st.A, &acts[si]); err != nil {
				res.Break("behaviour %d step %d: %v", bi, si, err)
				return
			}
			if acts[si].N == "New" {
				size = acts[si].Size
			}
			if acts[si].C > maxID {
				maxID = acts[si].C
			}
			if len(st.O) > 0 {
				var o filterObs
				if err := json.Unmarshal(st.O, &o); err != nil {
					res.Break("behaviour %d step %d: obs: %v", bi, si, err)
					return
				}
				if size == 0 {
					size = o.Size
				}
				if o.Ok != nil {
					obs[si] = map[uint64]bool{}
					for _, c := range o.Ok {
						obs[si][c] = true
					}
					probe[si] = o.Probe
					for _, c := range o.Probe {
						if c > maxID {
							maxID = c
						}
					}
				}
			}
		}
		sp, have := fp.Sizes[fmt.Sprint(size)]
		if !have || sp.RingBits == 0 {
			res.Break("behaviour %d: window size %d has no parameters", bi, size)
			return
		}
		p := struct {
			Size     uint64
			Ids      []uint64
			RingBits uint64
			Bases    []string
		}{size, sp.Ids, sp.RingBits, fp.Bases}
		for _, bk := range p.Bases {
			func() {
				defer func() {
					if r := recover(); r != nil {
						res.Violation(vio.Finding{Key: "udp.filter/panic", Behaviour: bi, Text: fmt.Sprintf("size %d, base %s: the filter panicked: %v", p.Size, bk, r),
							Replay: map[string]any{"test": "TestFilter", "filter": filterParams{Sizes: map[string]sizeParams{fmt.Sprint(p.Size): sp}, Bases: []string{bk}},
								"init": map[string]any{"size": p.Size}, "steps": b.Steps}})
					}
				}()
				replayFilter(res, bi, b, bk, p.Size, sp, acts, obs, probe, maxID)
			}()
		}
		res.AddSteps(1, 0)
		if len(acts) > 0 {
			res.Sample(map[string]any{"size": p.Size, "bases": p.Bases, "actions": acts}, 2)
		}
	}
}

func replayFilter(res *vio.Result, bi int, b vio.Behaviour, bk string, size uint64, sp sizeParams, acts []filterAction, obs []map[uint64]bool, probe [][]uint64, maxID uint64) {
	p := struct {
		Size     uint64
		Ids      []uint64
		RingBits uint64
	}{size, sp.Ids, sp.RingBits}
	{
		{
			off, limit := base(bk, p.RingBits, maxID)
			f := ss2022.NewSlidingWindowFilter(p.Size)
			g := newGhost()
			hist := func(n int) func() any {
				return func() any {
					return map[string]any{"test": "TestFilter", "filter": filterParams{Sizes: map[string]sizeParams{fmt.Sprint(p.Size): sp}, Bases: []string{bk}},
						"init": map[string]any{"size": p.Size}, "steps": b.Steps[:n+1]}
				}
			}
			// After the first difference from the model the rest is no longer a model behaviour; it is still executed and the
			// property (ghost set) is still evaluated on it, but nothing is compared with the model any more.
			good, drifted := true, false
			model := func(want, real bool) bool {
				if drifted {
					return real
				}
				return want
			}
			for si, a := range acts {
				c := a.C + off
				switch a.N {
				case "Add":
					real := f.Add(c)
					good = judge(res, "Add", real, model(a.Out, real), g, c, a.C, p.Size, bi, si, hist(si))
					if real {
						g.add(c)
					}
				case "CheckAdd":
					real := f.IsOk(c)
					good = judge(res, "IsOk", real, model(a.Out, real), g, c, a.C, p.Size, bi, si, hist(si))
					if real {
						f.MustAdd(c)
						g.add(c)
					}
				case "IsOk":
					real := f.IsOk(c)
					good = judge(res, "IsOk", real, model(a.Out, real), g, c, a.C, p.Size, bi, si, hist(si))
				case "Reset":
					f.Reset()
					g = newGhost()
				case "New":
				default:
					res.Break("unknown filter action %q", a.N)
					return
				}
				res.Seen(fmt.Sprintf("%d/%s/%s/%v", p.Size, bk, a.N, a.Out))
				// state projection: IsOk over the alphabet (does not change the filter)
				if !good {
					drifted = !b.Cex
				}
				if good && (obs[si] != nil || b.Cex) {
					sweep := probe[si]
					if sweep == nil {
						sweep = p.Ids
					}
					// a counterexample of the design carries no projection: evaluate the property alone on IsOk of the alphabet
					propOnly := obs[si] == nil
					if propOnly && len(g.seen) > 0 {
						sweep = append([]uint64(nil), sweep...)
						for _, d := range sp.Rel {
							if m := int64(g.max-off) + d; m >= 0 {
								sweep = append(sweep, uint64(m))
							}
						}
					}
					for _, id := range sweep {
						if id > limit {
							continue
						}
						real := f.IsOk(id + off)
						want := real
						if !propOnly {
							want = model(obs[si][id], real)
						}
						if !judge(res, "IsOk", real, want, g, id+off, id, p.Size, bi, si, hist(si)) {
							good = false
							drifted = !b.Cex
							break
						}
					}
				}
			}
			res.AddSteps(0, len(acts))
			res.Count("filter_runs", 1)
		}
	}
}

type dfsParams struct {
	Size     uint64   `json:"size"`
	Ids      []uint64 `json:"ids"`
	RingBits uint64   `json:"ringBits"`
	Base     string   `json:"base"`
	Mode     string   `json:"mode"` // "Add" or "CheckAdd"
	Depth    int      `json:"depth"`
	Rel      []int64  `json:"rel"` // offsets from the newest accepted counter that are presented too
}

// TestFilterDFS presents every sequence of at most Depth counters of the model's alphabet to the real filter and
// evaluates the property itself (ghost set) on every verdict, and on IsOk of every alphabet counter in every
// state reached: the bounded-exhaustive half of the quantifier, on the code.
func TestFilterDFS(t *testing.T) {
	in, err := vio.ReadInput()
	if err != nil {
		t.Skip(err)
	}
	res := vio.NewResult()
	defer func() {
		if err := res.Write(); err != nil {
			t.Fatal(err)
		}
	}()
	var jobs []dfsParams
	if !in.Param("dfs", &jobs) {
		res.Break("dfs parameters missing")
		return
	}
	for _, p := range jobs {
		ids := append([]uint64(nil), p.Ids...)
		sort.Slice(ids, func(i, j int) bool { return ids[i] < ids[j] })
		off, limit := base(p.Base, p.RingBits, ids[len(ids)-1])
		var usable []uint64
		for _, id := range ids {
			if id <= limit {
				usable = append(usable, id+off)
			}
		}
		prefix := make([]uint64, 0, p.Depth)
		apply := func(f *ss2022.SlidingWindowFilter, c uint64) bool {
			if p.Mode == "Add" {
				return f.Add(c)
			}
			if f.IsOk(c) {
				f.MustAdd(c)
				return true
			}
			return false
		}
		var sequences, verdicts, distinctStates int
		states := map[string]bool{}
		violations := 0
		report := func(key, text string, seq []uint64) {
			violations++
			if violations > 5 {
				return
			}
			s := make([]string, len(seq))
			for i, c := range seq {
				s[i] = fmt.Sprint(c)
			}
			res.Violation(vio.Finding{Key: key, Text: fmt.Sprintf("size %d, %s, base %s: %s; sequence %v", p.Size, p.Mode, p.Base, text, s),
				Replay: map[string]any{"test": "TestFilterDFS", "dfs": []any{map[string]any{"size": p.Size, "ids": p.Ids, "ringBits": p.RingBits,
					"base": p.Base, "mode": p.Mode, "depth": len(seq), "rel": p.Rel}}}})
		}
		g := newGhost()
		var rec func()
		rec = func() {
			// rebuild the filter and the ghost for this prefix
			f := ss2022.NewSlidingWindowFilter(p.Size)
			g.reset()
			for i, c := range prefix {
				want := g.fresh(c, p.Size)
				got := apply(f, c)
				if i == len(prefix)-1 {
					verdicts++
					switch {
					case got && g.delivered(c):
						report("udp.filter/accepted-twice", fmt.Sprintf("counter %d accepted although it was accepted before", c), prefix)
					case !got && want:
						report("udp.filter/fresh-refused", fmt.Sprintf("counter %d refused although never accepted and within %d of the newest accepted (%d)", c, p.Size, g.max), prefix)
					case got && !want:
						res.Count("accepted_behind_window", 1)
					}
				}
				if got {
					g.add(c)
				}
			}
			sequences++
			if len(prefix) == p.Depth {
				return
			}
			// IsOk over the alphabet in this state
			sig := make([]byte, len(usable))
			for i, c := range usable {
				got := f.IsOk(c)
				verdicts++
				if got {
					sig[i] = 1
				}
				switch {
				case got && g.delivered(c):
					report("udp.filter/accepted-twice", fmt.Sprintf("IsOk(%d) true although the counter was accepted before", c), prefix)
				case !got && g.fresh(c, p.Size):
					report("udp.filter/fresh-refused", fmt.Sprintf("IsOk(%d) false although never accepted and within %d of the newest accepted (%d)", c, p.Size, g.max), prefix)
				}
			}
			if len(prefix) <= 3 {
				states[string(sig)] = true
			}
			if violations > 5 {
				return
			}
			// the children: the alphabet, and the window edge below the newest accepted counter (g is rebuilt by every
			// call, so the candidates are fixed before descending)
			cand := usable
			if len(g.seen) > 0 && len(p.Rel) > 0 {
				cand = append([]uint64(nil), usable...)
				for _, d := range p.Rel {
					c := g.max + uint64(d)
					if (d < 0 && c > g.max) || (d > 0 && c < g.max) || c < off {
						continue // would wrap, or lies below the translated origin (a negative model counter)
					}
					dup := false
					for _, x := range cand {
						dup = dup || x == c
					}
					if !dup {
						cand = append(cand, c)
					}
				}
			}
			for _, c := range cand {
				prefix = append(prefix, c)
				rec()
				prefix = prefix[:len(prefix)-1]
			}
		}
		func() {
			defer func() {
				if r := recover(); r != nil {
					report("udp.filter/panic", fmt.Sprintf("the filter panicked: %v", r), prefix)
				}
			}()
			rec()
		}()
		distinctStates = len(states)
		res.Count("dfs_sequences", sequences)
		res.Count("dfs_verdicts", verdicts)
		res.Count("dfs_jobs", 1)
		res.Sample(map[string]any{"dfs": map[string]any{"size": p.Size, "base": p.Base, "mode": p.Mode, "depth": p.Depth, "alphabet": p.Ids,
			"sequences": sequences, "verdicts": verdicts, "violations": violations}}, 2)
		res.Seen(fmt.Sprintf("dfs/%d/%s/%s/%d", p.Size, p.Base, p.Mode, distinctStates))
		res.AddSteps(0, verdicts)
	}
}
