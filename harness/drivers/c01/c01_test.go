//go:build verif

// Package c01 replays behaviours of specs/Stream/SS2022Stream.tla on real SS2022 tunnels
// (ss2022.StreamClient.DialStream, ss2022.StreamServer.HandleStream and the ShadowStream*Conn
// types they return) over the scripted transport of streamkit, and evaluates property C01 on
// what the real code did: the request the server observed and, byte position by byte position,
// everything either side read, whichever copy path moved it.
package c01

import (
	"bytes"
	"encoding/json"
	"errors"
	"fmt"
	"io"
	"math/rand/v2"
	"testing"
	"testing/synctest"
	"time"

	"github.com/database64128/shadowsocks-go/netio"
	"github.com/database64128/shadowsocks-go/ss2022"

	"verif/harness/drivers/c01/streamkit"
	"verif/harness/internal/vio"
)

type out struct {
	Res    string `json:"res"`
	Lo     int    `json:"lo"`
	N      int    `json:"n"`
	How    string `json:"how"`
	Inreq  int    `json:"inreq"`
	Room   int    `json:"room"`
	Al     int    `json:"al"`
	User   string `json:"user"`
	Tw     []int  `json:"tw"`
	Pieces []int  `json:"pieces"`
	Left   int    `json:"left"`
	Rest   int    `json:"rest"`
	Sent   int    `json:"sent"`
}

type action struct {
	N   string `json:"n"`
	E   string `json:"e"`
	X   string `json:"x"`
	Al  int    `json:"al"`
	P   int    `json:"p"`
	Pad int    `json:"pad"`
	K   int    `json:"k"`
	D   int    `json:"d"`
	Len int    `json:"len"`
	Cap int    `json:"cap"`
	M   int    `json:"m"`
	Out out    `json:"out"`
}

// consts are the model constants of the configuration the behaviours were generated for.
type consts struct {
	streamkit.Config
	MaxChunk int `json:"MaxChunk"`
	PadMax   int `json:"PadMax"`
	Tag      int `json:"Tag"`
	FirstCap int `json:"FirstCap"`
}

const keyLeftover = "stream.writeTo/leftover-after-short-read"

// stream is the driver's own account of one direction: what the writing side put in (exp) and how
// much of it the reading side has been handed (dlv).
type stream struct {
	name   string
	pat    streamkit.Pattern
	exp    []byte // expected content: everything written into the stream, in order
	dlv    int    // bytes handed to the reading application / relayed on
	eof    bool
	closed bool
	// plainRead: the reader used Read; drained: it used WriteTo or a tunnel copy.
	plainRead, drained bool
	// tainted: a relay step that had a left-over pending fed this stream (the F11 pattern upstream)
	tainted bool
}

type world struct {
	t     *testing.T
	res   *vio.Result
	k     consts
	bi    int
	pairs map[string]*streamkit.Pair    // by session
	sess  map[string]*streamkit.Session // by session
	str   map[string]*stream            // by writer endpoint
	hist  []any
	al    map[string]int // SOCKS address length dialled, by session
	rnd   *rand.Rand
	si    int
	stop  bool
	// first: per client endpoint, the length of the request (first transport write) in the model and on the real wire;
	// they differ by the padding, which the real client draws at random
	first map[string][2]int
	// layout: the frame layout on the wire differs from the model's (not part of the property); the
	// behaviour goes on, but scripted partial deliveries may no longer make sense
	layout bool
}

func sessOf(e string) string { return e[:1] }
func isClient(e string) bool { return e[1] == 'c' }
func peer(e string) string {
	if isClient(e) {
		return e[:1] + "s"
	}
	return e[:1] + "c"
}

func (w *world) conn(e string) netio.Conn {
	s := w.sess[sessOf(e)]
	if s == nil {
		return nil
	}
	if isClient(e) {
		return s.CConn
	}
	return s.SConn
}

// txLink is the transport link endpoint e writes to.
func (w *world) txLink(e string) *streamkit.Link {
	s := w.sess[sessOf(e)]
	if s == nil {
		return nil
	}
	if isClient(e) {
		return s.TL.Tx
	}
	return s.TR.Tx
}

func (w *world) violation(key, format string, a ...any) {
	w.res.Violation(vio.Finding{Key: key, Text: fmt.Sprintf("[%s] ", w.k.Config) + fmt.Sprintf(format, a...), Behaviour: w.bi, Step: w.si,
		Replay: map[string]any{"consts": w.k, "steps": w.hist}})
	w.stop = true
}

func (w *world) drift(key, format string, a ...any) {
	w.res.DriftNote(vio.Finding{Key: key, Text: fmt.Sprintf("[%s] ", w.k.Config) + fmt.Sprintf(format, a...), Behaviour: w.bi, Step: w.si,
		Replay: map[string]any{"consts": w.k, "steps": w.hist}})
	w.stop = true
}

// keyFor names the failing pattern of a reader-side mismatch on stream s: the left-over finding is
// named only if this reader really changed its copy path with a left-over pending (or reads data
// relayed by such a reader); a reader that stayed on one copy path never gets that key.
func keyFor(s *stream, leftPending bool, generic string) string {
	if leftPending || s.tainted {
		return keyLeftover
	}
	return generic
}

// layoutDrift notes a difference in the frame layout without abandoning the behaviour: what the
// property says about the request and the byte streams is still checked by the following steps.
func (w *world) layoutDrift(key, format string, a ...any) {
	w.drift(key, format, a...)
	w.stop = false
	w.layout = true
}

// checkTW compares the sizes of the transport writes a call made with the frame layout of the model.
// Layout is not part of the property: a difference is model drift.
func (w *world) checkTW(l *streamkit.Link, before int, want []int, what string) {
	got := l.Writes[before:]
	if len(got) != len(want) {
		w.layoutDrift("stream.layout/transport-writes", "%s: %d transport writes %v, model expects %v", what, len(got), head(got), head(want))
		return
	}
	for i := range got {
		if got[i] != want[i] {
			w.layoutDrift("stream.layout/transport-writes", "%s: transport write %d has %d bytes, model expects %d", what, i, got[i], want[i])
			return
		}
	}
}

func head(x []int) []int {
	if len(x) > 8 {
		return x[:8]
	}
	return x
}

func (w *world) padOK(p, room, pad int) bool {
	switch {
	case p > room, p >= w.k.PadMax:
		return pad == 0
	case p > 0:
		return pad >= 0 && pad <= w.k.PadMax-p
	default:
		return pad >= 1 && pad <= w.k.PadMax
	}
}

func (w *world) newStream(e string) *stream {
	s := &stream{name: e, pat: streamkit.Pattern(uint64(w.k.Seed)*1000003 + uint64(w.bi)*7919 + uint64(e[0])*131 + uint64(e[1]))}
	w.str[e] = s
	return s
}

func (w *world) chop() func() int {
	sizes := []int{1, 2, 3, 17, 100, 1000, 4096, 20000, 1 << 30, 1 << 30}
	r := rand.New(rand.NewPCG(w.rnd.Uint64(), 7))
	return func() int { return sizes[r.IntN(len(sizes))] }
}

// guard runs f and turns a panic of the code under test into a result.
func guard(f func()) (p any) {
	defer func() { p = recover() }()
	f()
	return nil
}

func (w *world) step(a action) {
	switch a.N {
	case "Dial":
		w.dial(a)
	case "Idle":
		// nothing is on the wire; both sides stay silent for a.D seconds of the (virtual) clock
		time.Sleep(time.Duration(a.D) * time.Second)
	case "Deliver":
		l := w.txLink(a.E)
		if l == nil {
			w.res.Break("behaviour %d step %d: Deliver on %s before Dial", w.bi, w.si, a.E)
			w.stop = true
			return
		}
		if a.Out.Rest == 0 {
			l.Deliver(-1)
		} else {
			// a partial delivery is the first delivery of the link (spec: arr = 0).  The model counts bytes of its own
			// request; the real request is longer or shorter by its random padding, so the cut is moved by that
			// difference when it lies behind the request, and kept inside the request when the model cuts inside it
			k := a.K
			if f, ok := w.first[a.E]; ok && l.Arrived == 0 {
				if k >= f[0] {
					k += f[1] - f[0]
				} else if k >= f[1] {
					k = f[1] - 1
				}
			}
			a.K = k
			if a.K >= l.InFlight() {
				if w.layout {
					w.stop = true // the layout already drifted: this scripted segmentation does not apply
					return
				}
				// the real request is longer or shorter than the model's only by its random padding
				w.res.Break("behaviour %d step %d: partial delivery of %d bytes but only %d in flight", w.bi, w.si, a.K, l.InFlight())
				w.stop = true
				return
			}
			l.Deliver(a.K)
		}
	case "ServerHandle":
		w.handle(a)
	case "Write", "ReadFrom":
		w.write(a)
	case "CloseWrite":
		c := w.conn(a.E)
		if err := c.CloseWrite(); err != nil {
			w.violation("stream.closeWrite/error", "CloseWrite on %s failed: %v", a.E, err)
			return
		}
		w.str[a.E].closed = true
	case "Read":
		w.read(a)
	case "WriteTo":
		w.writeTo(a)
	case "Relay":
		w.relay(a)
	default:
		w.res.Break("unknown action %q", a.N)
		w.stop = true
	}
}

func (w *world) dial(a action) {
	s := sessOf(a.E)
	p, err := streamkit.NewPairFor(w.k.Config, "pair"+s)
	if err != nil {
		w.res.Break("building pair: %v", err)
		w.stop = true
		return
	}
	w.pairs[s] = p
	w.al[s] = a.Al
	target, err := streamkit.Target(a.Al, w.k.Seed+int64(w.bi), (w.k.Seed+int64(w.bi))%3 == 0)
	if err != nil {
		w.res.Break("%v", err)
		w.stop = true
		return
	}
	cs := w.newStream(a.E)
	w.newStream(peer(a.E))
	payload := cs.pat.Bytes(0, a.P)
	cs.exp = append(cs.exp, payload...)
	var sess *streamkit.Session
	if pv := guard(func() { sess, err = p.Dial(target, payload) }); pv != nil {
		w.violation("stream.dial/panic", "DialStream(target %s, %d bytes) panicked: %v", target, a.P, pv)
		return
	}
	if err != nil {
		w.violation("stream.dial/error", "DialStream(target %s, %d bytes) failed: %v", target, a.P, err)
		return
	}
	w.sess[s] = sess
	sess.TL.Rx.Chop, sess.TR.Rx.Chop = w.chop(), w.chop()
	sess.TL.Rx.ChopFirst, sess.TR.Rx.ChopFirst = w.k.AllowSeg, w.k.AllowSeg
	// layout: first transport write = prefix, salt, identity headers, both headers; padding is random
	wr := sess.TL.Tx.Writes
	if len(wr) == 0 {
		w.violation("stream.dial/nothing-sent", "DialStream wrote nothing")
		return
	}
	room := w.k.MaxChunk - a.Al - 2
	inreq := min(a.P, room)
	fixed := w.k.ReqPfx + w.k.KeyLen + w.k.Depth*ss2022.IdentityHeaderLength + ss2022.TCPRequestFixedLengthHeaderLength + w.k.Tag + a.Al + 2 + inreq + w.k.Tag
	pad := wr[0] - fixed
	if !w.padOK(a.P, room, pad) {
		w.layoutDrift("stream.layout/request-padding", "request of %d bytes for payload %d, address %d: padding %d outside the rule", wr[0], a.P, a.Al, pad)
	}
	if len(a.Out.Tw) > 0 {
		if w.first == nil {
			w.first = map[string][2]int{}
		}
		w.first[a.E] = [2]int{a.Out.Tw[0], wr[0]}
		want := append([]int{wr[0]}, a.Out.Tw[1:]...)
		w.checkTW(sess.TL.Tx, 0, want, "Dial")
	}
	if sess.TL.Tx.MiddleErr != nil {
		w.violation("stream.request/identity-chain", "identity header chain of depth %d not accepted by the relays: %v", w.k.Depth, sess.TL.Tx.MiddleErr)
	}
}

func (w *world) handle(a action) {
	s := sessOf(a.E)
	sess := w.sess[s]
	cs := w.str[peer(a.E)]
	var err error
	if pv := guard(func() { err = sess.Handle() }); pv != nil {
		w.violation("stream.handshake/panic", "HandleStream panicked: %v", pv)
		return
	}
	if a.Out.Res == "firstread" {
		if err == nil {
			w.drift("stream.handshake/short-first-read-accepted", "model expects the short first read to be refused, server accepted")
		} else if !errors.Is(err, ss2022.ErrFirstRead) {
			w.drift("stream.handshake/short-first-read-error", "short first read refused with %v", err)
		}
		w.stop = true // the session is over
		return
	}
	if err != nil {
		w.violation("stream.handshake/refused", "genuine request (payload %d) refused: %v", len(sess.Payload), err)
		return
	}
	// ---- the property: the server observes exactly T, the owning user and P[0, min(|P|, room)) ----
	if !sess.Req.Addr.Equals(sess.Target) {
		w.violation("stream.request/target", "server observed target %s, client dialled %s", sess.Req.Addr, sess.Target)
		return
	}
	if sess.Req.Username != sess.Pair.Keys.UserName {
		w.violation("stream.request/username", "server observed user %q, the key belongs to %q", sess.Req.Username, sess.Pair.Keys.UserName)
		return
	}
	room := w.k.MaxChunk - w.al[s] - 2
	wantN := min(len(sess.Payload), room)
	if len(sess.ReqPay) != wantN {
		w.violation("stream.request/payload-split", "request carries %d payload bytes, %d of the %d-byte initial payload fit", len(sess.ReqPay), wantN, len(sess.Payload))
		return
	}
	if i := cs.pat.Match(sess.ReqPay, 0); i >= 0 {
		w.violation("stream.request/payload", "request payload differs from the initial payload at byte %d", i)
		return
	}
	cs.dlv += len(sess.ReqPay)
	if a.Out.User != "" != (sess.Req.Username != "") {
		w.drift("stream.request/model-user", "model user %q, server %q", a.Out.User, sess.Req.Username)
	}
}

func (w *world) write(a action) {
	c := w.conn(a.E)
	s := w.str[a.E]
	l := w.txLink(a.E)
	before := len(l.Writes)
	lo := len(s.exp)
	data := s.pat.Bytes(lo, a.Len)
	s.exp = append(s.exp, data...)
	var n int64
	var err error
	what := fmt.Sprintf("%s.Write(%d)", a.E, a.Len)
	if a.N == "Write" {
		if pv := guard(func() { var nn int; nn, err = c.Write(data); n = int64(nn) }); pv != nil {
			w.violation("stream.write/panic", "%s panicked: %v", what, pv)
			return
		}
	} else {
		what = fmt.Sprintf("%s.ReadFrom(%d bytes, <=%d per read)", a.E, a.Len, a.Cap)
		src := &streamkit.ScriptReader{Pat: s.pat, Lo: lo, Total: a.Len, Cap: a.Cap, EOFWithData: w.rnd.IntN(2) == 0}
		rf, ok := c.(io.ReaderFrom)
		if !ok {
			w.res.Break("%s does not implement io.ReaderFrom", a.E)
			w.stop = true
			return
		}
		if pv := guard(func() { n, err = rf.ReadFrom(src) }); pv != nil {
			w.violation("stream.readFrom/panic", "%s panicked: %v", what, pv)
			return
		}
	}
	if err != nil || n != int64(a.Len) {
		w.violation("stream.write/short-or-error", "%s = (%d, %v)", what, n, err)
		return
	}
	w.checkTW(l, before, a.Out.Tw, what)
}

// deliver checks bytes handed to the reader of stream s against the next positions.
func (w *world) deliver(s *stream, got []byte, leftPending bool, what string) bool {
	if s.dlv+len(got) > len(s.exp) {
		w.violation(keyFor(s, leftPending, "stream.read/invented-bytes"), "%s returned %d bytes at position %d but only %d were ever written", what, len(got), s.dlv, len(s.exp))
		return false
	}
	if !bytes.Equal(got, s.exp[s.dlv:s.dlv+len(got)]) {
		i := 0
		for i < len(got) && got[i] == s.exp[s.dlv+i] {
			i++
		}
		w.violation(keyFor(s, leftPending, "stream.read/wrong-bytes"), "%s: byte %d of the %d returned is not stream position %d (bytes lost, repeated, reordered or altered)", what, i, len(got), s.dlv+i)
		return false
	}
	s.dlv += len(got)
	return true
}

func (w *world) checkEOF(s *stream, what string, leftPending bool) bool {
	if !s.closed {
		w.violation("stream.eof/without-close", "%s reported end of stream although the writer never closed", what)
		return false
	}
	if s.dlv != len(s.exp) {
		w.violation(keyFor(s, leftPending, "stream.eof/early"), "%s reported end of stream after %d of %d bytes", what, s.dlv, len(s.exp))
		return false
	}
	s.eof = true
	return true
}

func (w *world) read(a action) {
	c := w.conn(a.E)
	s := w.str[peer(a.E)]
	buf := make([]byte, a.M)
	var n int
	var err error
	what := fmt.Sprintf("%s.Read(%d)", a.E, a.M)
	if pv := guard(func() { n, err = c.Read(buf) }); pv != nil {
		w.violation("stream.read/panic", "%s panicked: %v", what, pv)
		return
	}
	s.plainRead = true
	if n > 0 && !w.deliver(s, buf[:n], false, what) {
		return
	}
	switch {
	case err == io.EOF:
		if !w.checkEOF(s, what, false) {
			return
		}
		if a.Out.Res != "eof" {
			w.drift("stream.read/model-eof", "%s: end of stream, model expects %q", what, a.Out.Res)
		}
	case err != nil:
		switch a.Out.Res {
		case "firstread":
			if !errors.Is(err, ss2022.ErrFirstRead) {
				w.drift("stream.read/short-first-read-error", "%s: short first read refused with %v", what, err)
			}
			w.stop = true
		default:
			// the model says the bytes of the next chunk have arrived (or the stream ended): a failing read loses them
			w.violation(keyFor(s, false, "stream.read/error"), "%s failed with %v at position %d of %d", what, err, s.dlv, len(s.exp))
		}
	default:
		if a.Out.Res != "data" {
			w.drift("stream.read/model-result", "%s returned %d bytes, model expects %q", what, n, a.Out.Res)
		} else if n != a.Out.N {
			// io.Reader may return fewer bytes than available; the property does not fix n
			w.drift("stream.read/model-count", "%s returned %d bytes, model expects %d (%s)", what, n, a.Out.N, a.Out.How)
		}
	}
}

func (w *world) writeTo(a action) {
	c := w.conn(a.E)
	s := w.str[peer(a.E)]
	what := fmt.Sprintf("%s.WriteTo(sink)", a.E)
	wt, ok := c.(io.WriterTo)
	if !ok {
		w.res.Break("%s does not implement io.WriterTo", a.E)
		w.stop = true
		return
	}
	if l := w.txLink(peer(a.E)); l.InFlight() != 0 {
		w.res.Break("%s with %d bytes in flight", what, l.InFlight())
		w.stop = true
		return
	}
	// a left-over is pending only if this reader used plain Read before (the driver's own account)
	// and the design model, which has tracked every call so far, holds undelivered decrypted bytes
	leftPending := a.Out.Left > 0 && s.plainRead
	sink := &streamkit.Sink{}
	var n int64
	var err error
	if pv := guard(func() { n, err = wt.WriteTo(sink) }); pv != nil {
		w.violation(keyFor(s, leftPending, "stream.writeTo/panic"), "%s panicked: %v", what, pv)
		return
	}
	s.drained = true
	if !w.deliver(s, sink.Data, leftPending, what) {
		return
	}
	// everything written has arrived, so the copy must have handed over all of it
	if s.dlv != len(s.exp) {
		w.violation(keyFor(s, leftPending, "stream.writeTo/bytes-left-behind"), "%s returned (%d, %v) after %d of %d bytes although all had arrived", what, n, err, s.dlv, len(s.exp))
		return
	}
	switch {
	case err == nil:
		// WriteTo returns nil at end of stream
		if !w.checkEOF(s, what, leftPending) {
			return
		}
	case streamkit.IsNoData(err):
		if s.closed {
			w.violation("stream.eof/missed", "%s ended with %v although the writer closed and everything arrived", what, err)
			return
		}
	default:
		w.violation(keyFor(s, leftPending, "stream.writeTo/error"), "%s failed: %v", what, err)
		return
	}
	if n != int64(len(sink.Data)) {
		w.drift("stream.writeTo/count", "%s reports %d bytes, wrote %d", what, n, len(sink.Data))
	}
	if fmt.Sprint(sink.Sizes) != fmt.Sprint(a.Out.Pieces) && !(len(sink.Sizes) == 0 && len(a.Out.Pieces) == 0) {
		w.drift("stream.writeTo/pieces", "%s wrote pieces %v, model expects %v", what, head(sink.Sizes), head(a.Out.Pieces))
	}
}

func (w *world) relay(a action) {
	r, x := w.conn(a.E), w.conn(a.X)
	src := w.str[peer(a.E)]
	dst := w.str[a.X]
	leftPending := a.Out.Left > 0 && src.plainRead
	viaReadFrom := w.rnd.IntN(2) == 0
	what := fmt.Sprintf("%s.WriteTo(%s)", a.E, a.X)
	if viaReadFrom {
		what = fmt.Sprintf("%s.ReadFrom(%s)", a.X, a.E)
	}
	if l := w.txLink(peer(a.E)); l.InFlight() != 0 {
		w.res.Break("%s with %d bytes in flight", what, l.InFlight())
		w.stop = true
		return
	}
	lx := w.txLink(a.X)
	before := len(lx.Writes)
	want := len(src.exp) - src.dlv // everything has arrived, so the copy must move all of it
	moved := src.exp[src.dlv:]
	var n int64
	var err error
	pv := guard(func() {
		if viaReadFrom {
			n, err = x.(io.ReaderFrom).ReadFrom(r)
		} else {
			n, err = r.(io.WriterTo).WriteTo(x)
		}
	})
	src.drained = true
	if pv != nil {
		key := keyFor(src, leftPending, "stream.relay/panic")
		if src.plainRead && !isClient(a.X) && len(dst.exp) == 0 {
			// the relay read the first response bytes with Read, then hands the rest to a server tunnel
			// that has not written its response header yet
			key = "stream.relay/first-write-after-plain-read"
		}
		w.violation(key, "%s panicked: %v", what, pv)
		return
	}
	// what the downstream reader must see: the relayed bytes, in order, after what x wrote before
	dst.exp = append(dst.exp, moved...)
	if leftPending {
		dst.tainted = true
	}
	src.dlv += want
	if n != int64(want) {
		w.violation(keyFor(src, leftPending, "stream.relay/bytes-left-behind"), "%s moved %d bytes (err %v), %d had arrived and were not yet read", what, n, err, want)
		return
	}
	switch {
	case err == nil:
		if !w.checkEOF(src, what, leftPending) {
			return
		}
	case streamkit.IsNoData(err):
		if src.closed {
			w.violation("stream.eof/missed", "%s ended with %v although the writer closed and everything arrived", what, err)
			return
		}
	default:
		w.violation(keyFor(src, leftPending, "stream.relay/error"), "%s failed: %v", what, err)
		return
	}
	w.checkTW(lx, before, a.Out.Tw, what)
}

type obs struct {
	Sent map[string]int  `json:"sent"`
	Dlv  map[string]int  `json:"dlv"`
	Eof  map[string]bool `json:"eof"`
}

// runBehaviour replays one behaviour inside a synctest bubble: the tunnels are driven sequentially over the scripted
// in-memory transport, so the only effect of the bubble is a virtual clock on which Idle can let minutes pass.
func runBehaviour(t *testing.T, in *vio.Input, k consts, bi int, b vio.Behaviour, res *vio.Result) {
	synctest.Test(t, func(t *testing.T) { runBehaviourIn(t, in, k, bi, b, res) })
}

func runBehaviourIn(t *testing.T, in *vio.Input, k consts, bi int, b vio.Behaviour, res *vio.Result) {
	w := &world{t: t, res: res, k: k, bi: bi, pairs: map[string]*streamkit.Pair{}, sess: map[string]*streamkit.Session{},
		str: map[string]*stream{}, al: map[string]int{}, rnd: rand.New(rand.NewPCG(uint64(in.Seed), uint64(bi)))}
	for si, st := range b.Steps {
		var a action
		if err := json.Unmarshal(st.A, &a); err != nil {
			res.Break("behaviour %d step %d: %v", bi, si, err)
			return
		}
		w.si = si
		w.hist = append(w.hist, st.A)
		w.step(a)
		if w.stop {
			res.AddSteps(1, si+1)
			return
		}
		res.Seen(a.N + "/" + a.Out.Res + "/" + a.Out.How)
		// cross-check the driver's account with the model's projection
		if len(st.O) > 0 && string(st.O) != "null" {
			var o obs
			if err := json.Unmarshal(st.O, &o); err == nil {
				for e, s := range w.str {
					if o.Sent[e] != len(s.exp) || o.Dlv[e] != s.dlv || o.Eof[e] != s.eof {
						w.drift("stream.model/state", "after %s: stream %s has sent=%d dlv=%d eof=%v, model %d/%d/%v", a.N, e, len(s.exp), s.dlv, s.eof, o.Sent[e], o.Dlv[e], o.Eof[e])
						res.AddSteps(1, si+1)
						return
					}
				}
			}
		}
	}
	res.AddSteps(1, len(b.Steps))
	res.Sample(map[string]any{"behaviour": bi, "config": k.Config.String(), "actions": w.hist}, 2)
}

func TestReplay(t *testing.T) {
	in, err := vio.ReadInput()
	if err != nil {
		t.Skip(err)
	}
	res := vio.NewResult()
	res.Samples = []any{}
	defer func() {
		if err := res.Write(); err != nil {
			t.Fatal(err)
		}
	}()
	var k consts
	if err := in.Const("cfg", &k); err != nil {
		res.Break("constants: %v", err)
		return
	}
	for bi, b := range in.Behaviours {
		id := bi
		if b.ID != 0 {
			id = b.ID
		}
		runBehaviour(t, in, k, id, b, res)
	}
}
