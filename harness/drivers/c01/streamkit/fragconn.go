//go:build verif

// Package streamkit is the implementation-side toolkit of the Stream family (C01, C02):
// a scripted transport between two real SS2022 tunnel endpoints (every transport write is
// recorded, bytes arrive at the reader when the script says so and are returned in the pieces
// it dictates), real client/server pairs for every configuration, and position-coded payloads.
package streamkit

import (
	"errors"
	"io"
	"net"
	"os"
	"time"
)

// ErrNoData is returned by Conn.Read when nothing has arrived and the peer has not closed:
// in a sequential driver a read that would block is a read deadline that fired.
var ErrNoData = &net.OpError{Op: "read", Net: "frag", Err: os.ErrDeadlineExceeded}

// Link is one direction of the scripted transport.
type Link struct {
	Name    string
	Buf     []byte // every byte written (after the middlebox)
	Rd      int    // consumed by the reader
	Arrived int    // bytes the reader may see
	Fin     bool   // the writer closed its side
	Auto    bool   // everything written arrives at once
	Writes  []int  // length of every Write call of the tunnel, as written by the writer
	Reads   int    // number of Read calls served
	// Chop caps the number of bytes a single Read returns (exercising io.ReadFull loops).  It
	// is not applied to the very first Read of the link unless ChopFirst is set, because the
	// first read is the one readOnceExpectFull inspects.
	Chop      func() int
	ChopFirst bool
	// Middle, when set, is applied to the stream once at least MiddleNeed bytes are buffered:
	// it may drop bytes of the head (the identity-header relay of the EIH chain).
	Middle     func(head []byte) ([]byte, error)
	MiddleNeed int
	middleDone bool
	pending    []byte
	MiddleErr  error
	Closed     bool // reader side closed
}

func (l *Link) write(b []byte) (int, error) {
	if l.Fin {
		return 0, io.ErrClosedPipe
	}
	l.Writes = append(l.Writes, len(b))
	if l.Middle != nil && !l.middleDone {
		l.pending = append(l.pending, b...)
		if len(l.pending) < l.MiddleNeed {
			return len(b), nil
		}
		out, err := l.Middle(l.pending)
		l.middleDone = true
		if err != nil {
			l.MiddleErr = err
			out = l.pending
		}
		l.Buf = append(l.Buf, out...)
		l.pending = nil
	} else {
		l.Buf = append(l.Buf, b...)
	}
	if l.Auto {
		l.Arrived = len(l.Buf)
	}
	return len(b), nil
}

// Deliver lets k more bytes arrive; k < 0 means everything written so far.
func (l *Link) Deliver(k int) int {
	if k < 0 || l.Arrived+k > len(l.Buf) {
		k = len(l.Buf) - l.Arrived
	}
	l.Arrived += k
	return k
}

// InFlight is the number of bytes written and not yet arrived.
func (l *Link) InFlight() int { return len(l.Buf) - l.Arrived }

// Pending is the number of bytes arrived and not yet consumed.
func (l *Link) Pending() int { return l.Arrived - l.Rd }

func (l *Link) read(b []byte) (int, error) {
	if l.Closed {
		return 0, io.ErrClosedPipe
	}
	avail := l.Arrived - l.Rd
	if avail == 0 {
		if l.Fin && l.Arrived == len(l.Buf) {
			return 0, io.EOF
		}
		return 0, ErrNoData
	}
	if len(b) == 0 {
		return 0, nil
	}
	n := min(len(b), avail)
	if l.Chop != nil && (l.Reads > 0 || l.ChopFirst) {
		if c := l.Chop(); c > 0 && c < n {
			n = c
		}
	}
	l.Reads++
	copy(b, l.Buf[l.Rd:l.Rd+n])
	l.Rd += n
	return n, nil
}

type fragAddr struct{}

func (fragAddr) Network() string { return "frag" }
func (fragAddr) String() string  { return "frag" }

// Conn is one end of the scripted transport; it implements netio.Conn.
type Conn struct {
	Rx, Tx *Link
}

// NewPair returns the two ends of a scripted transport: left writes l2r and reads r2l.
func NewPair(name string) (left, right *Conn) {
	a := &Link{Name: name + ">"}
	b := &Link{Name: name + "<"}
	return &Conn{Rx: b, Tx: a}, &Conn{Rx: a, Tx: b}
}

func (c *Conn) Read(b []byte) (int, error)  { return c.Rx.read(b) }
func (c *Conn) Write(b []byte) (int, error) { return c.Tx.write(b) }
func (c *Conn) CloseWrite() error {
	c.Tx.Fin = true
	return nil
}
func (c *Conn) Close() error {
	c.Tx.Fin = true
	c.Rx.Closed = true
	return nil
}
func (c *Conn) LocalAddr() net.Addr              { return fragAddr{} }
func (c *Conn) RemoteAddr() net.Addr             { return fragAddr{} }
func (c *Conn) SetDeadline(time.Time) error      { return nil }
func (c *Conn) SetReadDeadline(time.Time) error  { return nil }
func (c *Conn) SetWriteDeadline(time.Time) error { return nil }

// IsNoData reports whether err is the would-block error of the scripted transport.
func IsNoData(err error) bool { return errors.Is(err, os.ErrDeadlineExceeded) }

// ScriptReader is an io.Reader holding Total position-coded bytes of a stream starting at
// position Lo; every Read returns at most Cap bytes, then io.EOF.
type ScriptReader struct {
	Pat   Pattern
	Lo    int
	Total int
	Cap   int
	Calls int
	// EOFWithData makes the last Read return its bytes together with io.EOF, as io.Reader allows.
	EOFWithData bool
}

func (r *ScriptReader) Read(p []byte) (int, error) {
	r.Calls++
	if r.Total == 0 {
		return 0, io.EOF
	}
	n := min(len(p), r.Total)
	if r.Cap > 0 {
		n = min(n, r.Cap)
	}
	r.Pat.Fill(p[:n], r.Lo)
	r.Lo += n
	r.Total -= n
	if r.Total == 0 && r.EOFWithData {
		return n, io.EOF
	}
	return n, nil
}

// Sink is an io.Writer recording the size of every Write and the bytes.
type Sink struct {
	Sizes []int
	Data  []byte
}

func (s *Sink) Write(p []byte) (int, error) {
	s.Sizes = append(s.Sizes, len(p))
	s.Data = append(s.Data, p...)
	return len(p), nil
}

// Pattern is a position-coded byte stream: byte i is a keyed hash of i, so a shifted, repeated,
// dropped or foreign byte is detected by comparing with the expected positions.
type Pattern uint64

func (p Pattern) At(i int) byte {
	x := uint64(i)*0x9E3779B97F4A7C15 + uint64(p)
	x ^= x >> 29
	x *= 0xBF58476D1CE4E5B9
	x ^= x >> 32
	return byte(x)
}

func (p Pattern) Fill(b []byte, lo int) {
	for i := range b {
		b[i] = p.At(lo + i)
	}
}

func (p Pattern) Bytes(lo, n int) []byte {
	b := make([]byte, n)
	p.Fill(b, lo)
	return b
}

// Match returns -1 if b equals positions [lo, lo+len(b)), else the index of the first mismatch.
func (p Pattern) Match(b []byte, lo int) int {
	for i := range b {
		if b[i] != p.At(lo+i) {
			return i
		}
	}
	return -1
}
