//go:build verif

package streamkit

import (
	"bytes"
	"context"
	"crypto/sha256"
	"encoding/binary"
	"errors"
	"fmt"
	"net/netip"
	"strings"

	"github.com/database64128/shadowsocks-go/conn"
	"github.com/database64128/shadowsocks-go/netio"
	"github.com/database64128/shadowsocks-go/ss2022"
	"go.uber.org/zap"
)

// Config is one point of the configuration space of the property.
type Config struct {
	KeyLen   int   `json:"KeyLen"` // 16 = 2022-blake3-aes-128-gcm, 32 = aes-256
	Depth    int   `json:"Depth"`  // number of iPSKs of the client (0 = no identity header)
	ReqPfx   int   `json:"ReqPfx"` // unsafe request stream prefix length
	RspPfx   int   `json:"RspPfx"` // unsafe response stream prefix length
	AllowSeg bool  `json:"AllowSeg"`
	Fallback bool  `json:"Fallback"` // the server has an unsafe fallback address
	Seed     int64 `json:"Seed"`
}

func (c Config) String() string {
	return fmt.Sprintf("aes%d/eih%d/pfx%d-%d/seg=%v/fb=%v", c.KeyLen*8, c.Depth, c.ReqPfx, c.RspPfx, c.AllowSeg, c.Fallback)
}

// Bytes derives n deterministic pseudo-random bytes.
func Bytes(seed int64, label string, n int) []byte {
	out := make([]byte, 0, n+32)
	var ctr uint64
	for len(out) < n {
		h := sha256.Sum256(binary.LittleEndian.AppendUint64(binary.LittleEndian.AppendUint64([]byte(label), uint64(seed)), ctr))
		out = append(out, h[:]...)
		ctr++
	}
	return out[:n]
}

// FallbackAddr is the address a server built with Config.Fallback hands unauthenticated connections to.
var FallbackAddr = conn.AddrFromIPAndPort(netip.AddrFrom4([4]byte{192, 0, 2, 99}), 8443)

// Keys is the key material of one client/server pair.
type Keys struct {
	IPSKs    [][]byte
	UPSK     []byte
	UserName string
}

// Pair is a real StreamClient and the real StreamServer that terminates its tunnels.
type Pair struct {
	Cfg    Config
	Keys   Keys
	Client *ss2022.StreamClient
	Server *ss2022.StreamServer
	Inner  *Inner
	ReqPfx []byte
	RspPfx []byte
}

// Inner is the transport factory handed to the SS2022 client as its inner stream client.
type Inner struct {
	pair *Pair
	// Last is the transport created by the most recent DialStream: L is the client's end.
	LastL, LastR *Conn
	N            int
}

func (in *Inner) NewStreamDialer() (netio.StreamDialer, netio.StreamDialerInfo) {
	return in, netio.StreamDialerInfo{Name: "frag", NativeInitialPayload: true}
}

func (in *Inner) DialStream(ctx context.Context, addr conn.Addr, payload []byte) (netio.Conn, error) {
	in.N++
	l, r := NewPair(fmt.Sprintf("t%d", in.N))
	in.pair.installMiddlebox(l.Tx)
	in.LastL, in.LastR = l, r
	if len(payload) > 0 {
		if _, err := l.Write(payload); err != nil {
			return nil, err
		}
	}
	return l, nil
}

// installMiddlebox makes the client-to-server link behave like the chain of identity-header
// relays in front of the terminating server: relay i holds iPSK i, opens identity header i, checks
// that it names the next hop (iPSK i+1) and forwards salt, the remaining identity headers and the
// rest of the stream untouched.  With Depth <= 1 there is no relay.
func (p *Pair) installMiddlebox(l *Link) {
	d := p.Cfg.Depth
	if d <= 1 {
		return
	}
	saltStart := p.Cfg.ReqPfx
	saltEnd := saltStart + p.Cfg.KeyLen
	strip := (d - 1) * ss2022.IdentityHeaderLength
	l.MiddleNeed = saltEnd + d*ss2022.IdentityHeaderLength
	l.Middle = func(head []byte) ([]byte, error) {
		salt := head[saltStart:saltEnd]
		for i := 0; i < d-1; i++ {
			ic, err := ss2022.NewServerIdentityCipherConfig(p.Keys.IPSKs[i], false)
			if err != nil {
				return nil, err
			}
			blk, err := ic.TCP(salt)
			if err != nil {
				return nil, err
			}
			var plain [ss2022.IdentityHeaderLength]byte
			blk.Decrypt(plain[:], head[saltEnd+i*ss2022.IdentityHeaderLength:saltEnd+(i+1)*ss2022.IdentityHeaderLength])
			if plain != ss2022.PSKHash(p.Keys.IPSKs[i+1]) {
				return nil, fmt.Errorf("identity header %d does not name the next hop", i)
			}
		}
		out := make([]byte, 0, len(head)-strip)
		out = append(out, head[:saltEnd]...)
		out = append(out, head[saltEnd+strip:]...)
		return out, nil
	}
}

// NewPair builds the real client and server of a configuration.  label separates key material of
// different pairs built from the same seed (second session under a different key).
func NewPairFor(cfg Config, label string) (*Pair, error) {
	return NewPairMixed(cfg, label, label)
}

// NewPairMixed is NewPairFor with the identity keys (iPSKs, prefixes) derived from label and the user
// keys from ulabel: a client that passes the identity relays but whose user key the server of
// NewPairFor(cfg, label) does not know.
func NewPairMixed(cfg Config, label, ulabel string) (*Pair, error) {
	p := &Pair{Cfg: cfg}
	// the stream prefixes are protocol camouflage shared by every user of a deployment
	p.ReqPfx = Bytes(cfg.Seed, "reqpfx", cfg.ReqPfx)
	p.RspPfx = Bytes(cfg.Seed, "rsppfx", cfg.RspPfx)
	for i := 0; i < cfg.Depth; i++ {
		p.Keys.IPSKs = append(p.Keys.IPSKs, Bytes(cfg.Seed, fmt.Sprintf("%s/ipsk%d", label, i), cfg.KeyLen))
	}
	const nusers = 5
	mine := int(uint64(cfg.Seed) % nusers)
	var ulm ss2022.UserLookupMap
	if cfg.Depth > 0 {
		ulm = make(ss2022.UserLookupMap, nusers)
	}
	for i := 0; i < nusers; i++ {
		psk := Bytes(cfg.Seed, fmt.Sprintf("%s/upsk%d", ulabel, i), cfg.KeyLen)
		if i == mine {
			p.Keys.UPSK = psk
			if cfg.Depth > 0 {
				p.Keys.UserName = fmt.Sprintf("user-%d", i)
			}
		}
		if cfg.Depth > 0 {
			c, err := ss2022.NewServerUserCipherConfig(fmt.Sprintf("user-%d", i), psk, false)
			if err != nil {
				return nil, err
			}
			ulm[ss2022.PSKHash(psk)] = c
		}
	}
	ccc, err := ss2022.NewClientCipherConfig(p.Keys.UPSK, p.Keys.IPSKs, false)
	if err != nil {
		return nil, err
	}
	p.Inner = &Inner{pair: p}
	p.Client = (&ss2022.StreamClientConfig{
		Name:                            "c",
		InnerClient:                     p.Inner,
		Addr:                            conn.AddrFromIPAndPort(netip.IPv6Loopback(), 20220),
		AllowSegmentedFixedLengthHeader: cfg.AllowSeg,
		CipherConfig:                    ccc,
		UnsafeRequestStreamPrefix:       p.ReqPfx,
		UnsafeResponseStreamPrefix:      p.RspPfx,
	}).NewStreamClient()
	sc := ss2022.StreamServerConfig{
		AllowSegmentedFixedLengthHeader: cfg.AllowSeg,
		UnsafeRequestStreamPrefix:       p.ReqPfx,
		UnsafeResponseStreamPrefix:      p.RspPfx,
	}
	if cfg.Fallback {
		sc.UnsafeFallbackAddr = FallbackAddr
	}
	if cfg.Depth == 0 {
		if sc.UserCipherConfig, err = ss2022.NewUserCipherConfig(p.Keys.UPSK, false); err != nil {
			return nil, err
		}
	} else {
		if sc.IdentityCipherConfig, err = ss2022.NewServerIdentityCipherConfig(p.Keys.IPSKs[cfg.Depth-1], false); err != nil {
			return nil, err
		}
	}
	p.Server = sc.NewStreamServer()
	if cfg.Depth > 0 {
		p.Server.ReplaceUserLookupMap(ulm)
	}
	return p, nil
}

// Target returns a target address whose SOCKS form is al bytes long: 7 = IPv4, 19 = IPv6,
// otherwise a domain name of al-4 bytes (alt selects a domain for 7 and 19 as well).
func Target(al int, seed int64, alt bool) (conn.Addr, error) {
	port := uint16(1 + uint64(seed)%65000)
	switch {
	case al == 7 && !alt:
		b := Bytes(seed, "ip4", 4)
		return conn.AddrFromIPAndPort(netip.AddrFrom4([4]byte(b)), port), nil
	case al == 19 && !alt:
		b := Bytes(seed, "ip6", 16)
		b[0] = 0x20 // never IPv4-mapped
		return conn.AddrFromIPAndPort(netip.AddrFrom16([16]byte(b)), port), nil
	case al >= 5 && al <= 259:
		n := al - 4
		raw := Bytes(seed, "dom", n)
		var sb strings.Builder
		for i := 0; i < n; i++ {
			sb.WriteByte('a' + raw[i]%26)
		}
		return conn.AddrFromDomainPort(sb.String(), port)
	}
	return conn.Addr{}, fmt.Errorf("no target with SOCKS address length %d", al)
}

// Session is one dialled tunnel: the client's tunnel conn, the transport, and (after Handle)
// the server's request and tunnel conn.
type Session struct {
	Pair    *Pair
	Target  conn.Addr
	Payload []byte
	CConn   netio.Conn // client tunnel
	TL, TR  *Conn      // transport: TL is the client's end
	Req     netio.ConnRequest
	ReqPay  []byte     // copy of Req.Payload taken when HandleStream returned
	SConn   netio.Conn // server tunnel
	HErr    error
}

// Dial runs the real StreamClient.DialStream.
func (p *Pair) Dial(target conn.Addr, payload []byte) (*Session, error) {
	c, err := p.Client.DialStream(context.Background(), target, payload)
	s := &Session{Pair: p, Target: target, Payload: payload, CConn: c, TL: p.Inner.LastL, TR: p.Inner.LastR}
	return s, err
}

// Handle runs the real StreamServer.HandleStream on the server's end of the transport.
func (s *Session) Handle() error {
	return s.HandleOn(s.Pair.Server, s.TR)
}

// HandleOn runs HandleStream of srv on transport end tr.
func (s *Session) HandleOn(srv *ss2022.StreamServer, tr netio.Conn) error {
	req, err := srv.HandleStream(tr, zap.NewNop())
	s.Req, s.HErr = req, err
	if err != nil {
		return err
	}
	s.ReqPay = bytes.Clone(req.Payload)
	if req.PendingConn == nil {
		return errors.New("HandleStream returned neither error nor PendingConn")
	}
	sc, err := req.PendingConn.Proceed()
	if err != nil {
		return err
	}
	s.SConn = sc
	return nil
}
