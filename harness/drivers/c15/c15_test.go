//go:build verif

// Package c15 binds specs/Pipe/Pipe.tla to the real netio.PipeConn.
//
// TestReplay executes TLC behaviours (sequential-start schedules of the model): every call of
// the behaviour runs in its own goroutine on a real pipe, the driver waits until every goroutine
// has returned or is parked (goroutine states from runtime.Stack), compares with the model and
// records the call/return history.  TestFree runs free-running randomised histories from 2..4
// goroutines per end.  Every recorded history is judged twice: by the direct oracles in this
// file (exactly-once, counts, atomic writes, half-close, deadlines, panics, stuck calls) and by
// TLC against specs/Pipe/TracePipe.tla (the Python side feeds Result.Traces to it).
package c15

import (
	"encoding/json"
	"errors"
	"fmt"
	"io"
	"math/rand/v2"
	"net"
	"os"
	"reflect"
	"runtime"
	"runtime/debug"
	"strconv"
	"strings"
	"sync"
	"sync/atomic"
	"testing"
	"time"
	"unsafe"

	"github.com/database64128/shadowsocks-go/netio"

	"verif/harness/internal/vio"
)

// ---------------------------------------------------------------- events

type event struct {
	E    string   `json:"e"`
	T    string   `json:"t,omitempty"`
	Op   string   `json:"op,omitempty"`
	Sz   int      `json:"sz"`
	K    string   `json:"k,omitempty"`
	ID   int      `json:"id"`
	N    int      `json:"n"`
	Err  string   `json:"err,omitempty"`
	Data [][2]int `json:"data"`
	Src  any      `json:"src,omitempty"` // reset events: where the history comes from (calls of a model behaviour / scripts)
	// reset events of replayed behaviours: the pipe left the model's path (or the behaviour was cut short); a history
	// without this mark equals the model's own path at every quiescent point
	Drift bool `json:"drift,omitempty"`
	// not part of the trace TLC reads
	call int // index of the matching call event (ret events)
}

var (
	errCustom = errors.New("c15 custom close error")
	errSink   = errors.New("c15 sink full")
)

const inf = 99

type limSink struct {
	lim int
	buf []byte
}

func (s *limSink) Write(b []byte) (int, error) {
	n := len(b)
	if s.lim != inf && n > s.lim {
		n = s.lim
	}
	s.buf = append(s.buf, b[:n]...)
	if s.lim != inf {
		s.lim -= n
	}
	if n < len(b) {
		return n, errSink
	}
	return n, nil
}

type world struct {
	pl, pr   *netio.PipeConn
	mu       sync.Mutex
	log      []event
	wid      int
	future   func() time.Duration // how far in the future a "future" deadline lies
	panicked atomic.Value         // string
	// lastSet["l/wr"]: the instant the most recent Set*Deadline call of that end asked for, for that half, if it lies in
	// the future (what the CALLER asked for, whatever the pipe made of it); used by the real-time replay only
	lastSet map[string]time.Time
}

func newWorld(future func() time.Duration) *world {
	pl, pr := netio.NewPipe()
	return &world{pl: pl, pr: pr, future: future, log: []event{{E: "reset", Data: [][2]int{}}}, lastSet: map[string]time.Time{}}
}

func (w *world) end(t string) *netio.PipeConn {
	if strings.HasPrefix(t, "l") {
		return w.pl
	}
	return w.pr
}

func classify(err error) string {
	switch {
	case err == nil:
		return "nil"
	case err == io.EOF:
		return "eof"
	case err == io.ErrClosedPipe:
		return "closed"
	case errors.Is(err, os.ErrDeadlineExceeded):
		var ne net.Error
		if errors.As(err, &ne) && !ne.Timeout() {
			return "other:deadline error without Timeout()"
		}
		return "timeout"
	case errors.Is(err, errCustom):
		return "custom"
	case errors.Is(err, errSink):
		return "sink"
	}
	return "other:" + err.Error()
}

func decode(b []byte) [][2]int {
	d := make([][2]int, len(b))
	for i, x := range b {
		d[i] = [2]int{int(x) / 4, int(x) % 4}
	}
	return d
}

// do executes one call on the real pipe and logs its call and return events.
func (w *world) do(t, op string, sz int, k string, started func()) {
	c := w.end(t)
	w.mu.Lock()
	ev := event{E: "call", T: t, Op: op, Sz: sz, K: k, Data: [][2]int{}}
	if k == "" {
		ev.K = "-"
	}
	var buf []byte
	if op == "Write" {
		w.wid++
		ev.ID = w.wid
		buf = make([]byte, sz)
		for i := range buf {
			buf[i] = byte(ev.ID*4 + i)
		}
	}
	ci := len(w.log)
	w.log = append(w.log, ev)
	w.mu.Unlock()
	if started != nil {
		started()
	}

	var n int
	var err error
	data := [][2]int{}
	var when time.Time
	switch k {
	case "past":
		when = time.Now().Add(-time.Second)
	case "future":
		when = time.Now().Add(w.future())
	}
	if halves := map[string][]string{"SetRD": {"rd"}, "SetWD": {"wr"}, "SetD": {"rd", "wr"}}[op]; halves != nil {
		w.mu.Lock()
		for _, h := range halves {
			if k == "future" {
				w.lastSet[t[:1]+"/"+h] = when
			} else {
				delete(w.lastSet, t[:1]+"/"+h)
			}
		}
		w.mu.Unlock()
	}
	switch op {
	case "Write":
		n, err = c.Write(buf)
	case "Read":
		b := make([]byte, sz)
		n, err = c.Read(b)
		if n >= 0 && n <= len(b) {
			data = decode(b[:n])
		}
	case "WriteTo":
		s := &limSink{lim: sz}
		var n64 int64
		n64, err = c.WriteTo(s)
		n = int(n64)
		data = decode(s.buf)
	case "CloseRead":
		if k == "custom" {
			c.CloseReadWithError(errCustom)
		} else {
			err = c.CloseRead()
		}
	case "CloseWrite":
		if k == "custom" {
			c.CloseWriteWithError(errCustom)
		} else {
			err = c.CloseWrite()
		}
	case "Close":
		if k == "custom" {
			c.CloseWithError(errCustom)
		} else {
			err = c.Close()
		}
	case "SetRD":
		err = c.SetReadDeadline(when)
	case "SetWD":
		err = c.SetWriteDeadline(when)
	case "SetD":
		err = c.SetDeadline(when)
	default:
		panic("c15 driver: unknown op " + op)
	}
	w.mu.Lock()
	w.log = append(w.log, event{E: "ret", T: t, Op: op, N: n, Err: classify(err), Data: data, call: ci})
	w.mu.Unlock()
}

// guarded runs f and turns a panic of the code under test into a recorded fact.
func (w *world) guarded(f func()) {
	defer func() {
		if r := recover(); r != nil {
			w.panicked.CompareAndSwap(nil, fmt.Sprintf("%v\n%s", r, debug.Stack()))
		}
	}()
	f()
}

func (w *world) ndjson() string {
	var sb strings.Builder
	w.mu.Lock()
	defer w.mu.Unlock()
	for _, e := range w.log {
		b, _ := json.Marshal(e)
		sb.Write(b)
		sb.WriteByte('\n')
	}
	return sb.String()
}

// ---------------------------------------------------------------- goroutine states

func goid() uint64 {
	var b [64]byte
	n := runtime.Stack(b[:], false)
	f := strings.Fields(string(b[:n]))
	id, _ := strconv.ParseUint(f[1], 10, 64)
	return id
}

var stackBuf = make([]byte, 1<<20)

// goStates returns the scheduler state of every goroutine ("select", "sync.Mutex.Lock", "runnable", ...).
func goStates() map[uint64]string {
	for {
		n := runtime.Stack(stackBuf, true)
		if n < len(stackBuf) {
			m := map[uint64]string{}
			for _, blk := range strings.Split(string(stackBuf[:n]), "\n\n") {
				if !strings.HasPrefix(blk, "goroutine ") {
					continue
				}
				hdr, _, _ := strings.Cut(blk, "\n")
				rest := hdr[len("goroutine "):]
				ids, st, ok := strings.Cut(rest, " [")
				if !ok {
					continue
				}
				id, err := strconv.ParseUint(ids, 10, 64)
				if err != nil {
					continue
				}
				st, _, _ = strings.Cut(st, "]")
				st, _, _ = strings.Cut(st, ",")
				m[id] = st
			}
			return m
		}
		stackBuf = make([]byte, 2*len(stackBuf))
	}
}

// parkedState: the goroutine is blocked where a pipe call legitimately waits for another call:
// in a select (read/write/writeTo) or on wrMu.
func parkedState(st string) bool {
	return strings.HasPrefix(st, "select") || strings.HasPrefix(st, "sync.Mutex.Lock")
}

// waitingState: blocked on anything at all (the count-back channel operations included).
func waitingState(st string) bool {
	return parkedState(st) || strings.HasPrefix(st, "chan ") || strings.HasPrefix(st, "semacquire") || strings.HasPrefix(st, "sync.")
}

type opRun struct {
	t, op string
	gid   atomic.Uint64
	done  atomic.Bool
}

// settle waits until every outstanding call has returned or is parked; it returns the state of
// each outstanding call ("" = returned).  The done flags are read BEFORE the stop-the-world
// snapshot, so at the instant of the snapshot every call is finished or parked and nothing can
// move any more (except timers).  Calls that sit in a plain channel operation (the count-back) for
// two seconds are reported as they are: the caller's shutdown watchdog decides about them.
func settle(ops []*opRun, limit time.Duration) (map[*opRun]string, bool) {
	start := time.Now()
	deadline := start.Add(limit)
	pause := 5 * time.Microsecond
	var stuckSince time.Time
	for {
		finished := map[*opRun]bool{}
		ready := true
		for _, o := range ops {
			if o.done.Load() {
				finished[o] = true
			} else if o.gid.Load() == 0 {
				ready = false
			}
		}
		if ready {
			st := goStates()
			out := map[*opRun]string{}
			all, allWaiting := true, true
			for _, o := range ops {
				if finished[o] {
					out[o] = ""
					continue
				}
				s, ok := st[o.gid.Load()]
				out[o] = s
				if !ok || !parkedState(s) {
					all = false
				}
				if !ok || !waitingState(s) {
					allWaiting = false
				}
			}
			if all {
				return out, true
			}
			if allWaiting {
				if stuckSince.IsZero() {
					stuckSince = time.Now()
				} else if time.Since(stuckSince) > 2*time.Second {
					return out, true
				}
			} else {
				stuckSince = time.Time{}
			}
		}
		if time.Now().After(deadline) {
			return nil, false
		}
		time.Sleep(pause)
		if pause < 500*time.Microsecond {
			pause *= 2
		}
	}
}

// ---------------------------------------------------------------- deadline internals (replay only)

// dlHandle reaches the unexported pipeDeadline of a PipeConn so that the replay driver can make
// an armed timer expire now (the model's Fire action) and see that its channel is closed.
type dlHandle struct {
	mu     *sync.Mutex
	timer  **time.Timer
	cancel *chan struct{}
}

func deadlineOf(c *netio.PipeConn, which string) (*dlHandle, error) {
	name := "readDeadline"
	if which == "wr" {
		name = "writeDeadline"
	}
	v := reflect.ValueOf(c).Elem().FieldByName(name)
	if !v.IsValid() {
		return nil, fmt.Errorf("PipeConn has no field %s", name)
	}
	mu, tm, ch := v.FieldByName("mu"), v.FieldByName("timer"), v.FieldByName("cancel")
	if !mu.IsValid() || !tm.IsValid() || !ch.IsValid() ||
		mu.Type() != reflect.TypeFor[sync.Mutex]() || tm.Type() != reflect.TypeFor[*time.Timer]() || ch.Type() != reflect.TypeFor[chan struct{}]() {
		return nil, fmt.Errorf("pipeDeadline no longer has mu/timer/cancel of the expected types")
	}
	return &dlHandle{
		mu:     (*sync.Mutex)(unsafe.Pointer(mu.UnsafeAddr())),
		timer:  (**time.Timer)(unsafe.Pointer(tm.UnsafeAddr())),
		cancel: (*chan struct{})(unsafe.Pointer(ch.UnsafeAddr())),
	}, nil
}

// fire makes the pending timer expire (almost) immediately and waits for the channel to close.
// It returns "noTimer" if no timer is pending, "ok", or "stuck".
func (d *dlHandle) fire() string {
	d.mu.Lock()
	tm, ch := *d.timer, *d.cancel
	if tm == nil {
		d.mu.Unlock()
		return "noTimer"
	}
	select {
	case <-ch:
		d.mu.Unlock()
		return "noTimer" // already expired
	default:
	}
	tm.Reset(50 * time.Microsecond)
	d.mu.Unlock()
	select {
	case <-ch:
		return "ok"
	case <-time.After(10 * time.Second):
		return "stuck"
	}
}

// ---------------------------------------------------------------- direct oracles on a history

type violation struct{ key, text string }

// judge evaluates C15 on one recorded history (events in log order; log order extends real-time
// order: a call event precedes the call, a ret event follows the return).
func judge(log []event) []violation {
	var vs []violation
	add := func(key, f string, a ...any) { vs = append(vs, violation{key, fmt.Sprintf(f, a...)}) }
	type wr struct {
		sz, n  int
		ret    bool
		end    string
		callAt int
		retAt  int
	}
	writes := map[int]*wr{}
	consumed := map[[2]int]int{} // byte -> index of the ret event that delivered it
	readBy := map[int][][3]int{} // write id -> (lo, hi, ret index) chunks
	// per direction (named by writer end): when a CloseWrite by the writer end / CloseRead by the reader end returned
	type shut struct{ closeWriteRet, closeReadRet, anyRet int }
	shutAt := map[string]*shut{"l": {-1, -1, -1}, "r": {-1, -1, -1}}
	other := func(e string) string {
		if e == "l" {
			return "r"
		}
		return "l"
	}
	endOf := func(t string) string { return t[:1] }
	customSeen := false
	closeReadCalled := map[string]bool{} // direction -> its reader end has called CloseRead/Close
	pending := 0
	for _, e := range log {
		if e.E == "call" {
			pending++
		} else if e.E == "ret" {
			pending--
		}
	}
	for i, e := range log {
		switch e.E {
		case "call":
			if e.Op == "Write" {
				writes[e.ID] = &wr{sz: e.Sz, end: endOf(e.T), callAt: i, retAt: -1}
			}
			if e.K == "custom" {
				customSeen = true
			}
			if e.Op == "CloseRead" || e.Op == "Close" {
				closeReadCalled[other(endOf(e.T))] = true
			}
		case "ret":
			if strings.HasPrefix(e.Err, "other:") {
				add("pipe.error/unexpected-error", "%s(%s) returned an error that is neither nil, EOF, ErrClosedPipe, a timeout nor the close error: %s", e.Op, e.T, e.Err)
			}
			if e.Err == "custom" && !customSeen {
				add("pipe.error/unexpected-error", "%s(%s) returned the custom close error although no Close*WithError was called", e.Op, e.T)
			}
			c := log[e.call]
			end := endOf(e.T)
			switch e.Op {
			case "Write":
				w := writes[c.ID]
				w.n, w.ret, w.retAt = e.N, true, i
				if e.N < 0 || e.N > w.sz {
					add("pipe.write/count-out-of-range", "Write of %d bytes reported %d", w.sz, e.N)
				}
				if e.Err == "nil" && e.N != w.sz {
					add("pipe.write/short-write-without-error", "Write of %d bytes reported (%d, nil)", w.sz, e.N)
				}
				if e.Err != "nil" && e.N == w.sz && w.sz > 0 {
					// allowed by io.Writer, and the pipe may be shut down right after the last chunk: not judged
				}
				s := shutAt[end]
				if s.anyRet >= 0 && s.anyRet < e.call {
					if e.N != 0 || e.Err == "nil" {
						add("pipe.halfclose/write-after-close-succeeds", "Write started after its direction was shut down returned (%d, %s)", e.N, e.Err)
					}
				}
			case "Read", "WriteTo":
				d := other(end)
				if e.N != len(e.Data) && !(e.Op == "WriteTo" && e.Err == "sink") {
					add("pipe.read/count-differs-from-data", "%s reported %d bytes but delivered %d", e.Op, e.N, len(e.Data))
				}
				if e.Op == "Read" && e.N > c.Sz {
					add("pipe.read/count-out-of-range", "Read into %d bytes reported %d", c.Sz, e.N)
				}
				s := shutAt[d]
				if s.anyRet >= 0 && s.anyRet < e.call {
					if e.N != 0 || (e.Op == "Read" && e.Err == "nil") {
						add("pipe.halfclose/read-after-close-succeeds", "%s started after its direction was shut down returned (%d, %s)", e.Op, e.N, e.Err)
					}
				}
				// end-of-stream after the writer's CloseWrite (when the reader end itself did not CloseRead first)
				if s.closeWriteRet >= 0 && s.closeWriteRet < e.call && !closeReadCalled[d] && !customSeen {
					want := "eof"
					if e.Op == "WriteTo" {
						want = "nil"
					}
					if e.Err != want && e.Err != "timeout" {
						add("pipe.halfclose/no-eof-after-closewrite", "%s started after the peer's CloseWrite returned (%d, %s), want %s", e.Op, e.N, e.Err, want)
					}
				}
				if e.Err == "eof" && s.anyRet < 0 {
					// EOF needs a CloseWrite/Close that has at least been called
					called := false
					for j := 0; j < i; j++ {
						if log[j].E == "call" && (log[j].Op == "CloseWrite" || log[j].Op == "Close") && endOf(log[j].T) == d {
							called = true
						}
					}
					if !called {
						add("pipe.halfclose/eof-without-closewrite", "Read returned EOF although the peer never closed its write side")
					}
				}
				// bytes: exactly once, each chunk inside the write it comes from
				for _, b := range e.Data {
					if prev, dup := consumed[b]; dup {
						add("pipe.stream/byte-delivered-twice", "byte %d of write %d delivered by return events %d and %d", b[1], b[0], prev, i)
					}
					consumed[b] = i
					w := writes[b[0]]
					if w == nil || b[1] >= w.sz || w.end != d || w.callAt > i {
						add("pipe.stream/byte-never-written", "reader received byte (%d,%d) that no Write of the peer carries", b[0], b[1])
					}
				}
				// a Read is one rendezvous: one contiguous chunk of one write
				if e.Op == "Read" {
					for j := 1; j < len(e.Data); j++ {
						if e.Data[j][0] != e.Data[0][0] || e.Data[j][1] != e.Data[j-1][1]+1 {
							add("pipe.stream/read-not-contiguous", "one Read returned bytes %v", e.Data)
							break
						}
					}
				}
				for j := 0; j < len(e.Data); {
					k := j
					for k+1 < len(e.Data) && e.Data[k+1][0] == e.Data[j][0] && e.Data[k+1][1] == e.Data[k][1]+1 {
						k++
					}
					readBy[e.Data[j][0]] = append(readBy[e.Data[j][0]], [3]int{e.Data[j][1], e.Data[k][1] + 1, i})
					// within one WriteTo, bytes of one write must come in order
					if k+1 < len(e.Data) && e.Data[k+1][0] == e.Data[j][0] {
						add("pipe.stream/out-of-order", "WriteTo received bytes of write %d out of order: %v", e.Data[j][0], e.Data)
					}
					j = k + 1
				}
			case "CloseWrite":
				s := shutAt[end]
				if s.closeWriteRet < 0 {
					s.closeWriteRet = i
				}
				if s.anyRet < 0 {
					s.anyRet = i
				}
			case "CloseRead":
				s := shutAt[other(end)]
				if s.closeReadRet < 0 {
					s.closeReadRet = i
				}
				if s.anyRet < 0 {
					s.anyRet = i
				}
			case "Close":
				s := shutAt[end]
				if s.closeWriteRet < 0 {
					s.closeWriteRet = i
				}
				if s.anyRet < 0 {
					s.anyRet = i
				}
				s = shutAt[other(end)]
				if s.closeReadRet < 0 {
					s.closeReadRet = i
				}
				if s.anyRet < 0 {
					s.anyRet = i
				}
			}
			if e.Err == "timeout" {
				// a timeout needs a past or future deadline set on that end before the return
				okDl := false
				for j := 0; j < i; j++ {
					if log[j].E == "call" && endOf(log[j].T) == end && (log[j].K == "past" || log[j].K == "future") {
						switch {
						case log[j].Op == "SetD":
							okDl = true
						case log[j].Op == "SetWD" && e.Op == "Write":
							okDl = true
						case log[j].Op == "SetRD" && (e.Op == "Read" || e.Op == "WriteTo"):
							okDl = true
						}
					}
				}
				if !okDl {
					add("pipe.deadline/timeout-without-deadline", "%s(%s) timed out although no deadline was ever set for it", e.Op, e.T)
				}
			}
		}
	}
	// WriteCountsConsumed: once a Write has returned n, readers have consumed exactly bytes [0, n) of it
	// (judged when every call of the history has returned, which the drivers ensure).
	for id, w := range writes {
		if !w.ret || pending != 0 {
			continue
		}
		got := map[int]bool{}
		for b := range consumed {
			if b[0] == id {
				got[b[1]] = true
			}
		}
		for o := 0; o < w.sz; o++ {
			if o < w.n && !got[o] {
				add("pipe.write/reported-unconsumed-bytes", "Write %d reported %d bytes but byte %d was never delivered to a reader", id, w.n, o)
				break
			}
			if o >= w.n && got[o] {
				add("pipe.write/consumed-bytes-not-reported", "Write %d reported %d bytes but byte %d was delivered to a reader", id, w.n, o)
				break
			}
		}
	}
	// AtomicWrites, on what real-time order decides: if reader return events are totally ordered for
	// two chunks (A before B before C) then A, C of one write with B of another write of the same end is
	// an interleaving.  Chunk order is known between chunks of one WriteTo and between Reads that do not
	// overlap in time; TLC decides the rest.
	type ch struct {
		id, lo, hi int
		callAt     int
		retAt      int
	}
	var chunks []ch
	for id, cs := range readBy {
		for _, c := range cs {
			chunks = append(chunks, ch{id, c[0], c[1], log[c[2]].call, c[2]})
		}
	}
	before := func(a, b ch) bool { return a.retAt < b.callAt } // a's call returned before b's call started
	for _, a := range chunks {
		for _, c := range chunks {
			if a.id != c.id || a.lo >= c.lo {
				continue
			}
			if before(c, a) {
				add("pipe.stream/out-of-order", "bytes [%d,%d) of write %d were read before bytes [%d,%d)", c.lo, c.hi, c.id, a.lo, a.hi)
			}
			for _, b := range chunks {
				if b.id != a.id && writes[b.id] != nil && writes[a.id] != nil && writes[b.id].end == writes[a.id].end && before(a, b) && before(b, c) {
					add("pipe.write/interleaved", "a chunk of write %d was read between chunks [%d,%d) and [%d,%d) of write %d", b.id, a.lo, a.hi, c.lo, c.hi, a.id)
				}
			}
		}
	}
	return vs
}

func dedup(vs []violation) []violation {
	seen := map[string]bool{}
	var out []violation
	for _, v := range vs {
		if !seen[v.key] {
			seen[v.key] = true
			out = append(out, v)
		}
	}
	return out
}

// ---------------------------------------------------------------- replay of model behaviours

type action struct {
	N   string `json:"n"`
	T   string `json:"t,omitempty"`
	Op  string `json:"op,omitempty"`
	Sz  int    `json:"sz,omitempty"`
	K   any    `json:"k,omitempty"` // deadline/close kind for Call, chunk length for Send/CountBack
	E   string `json:"e,omitempty"`
	W   any    `json:"w,omitempty"` // "rd"/"wr" for Fire, writer thread for CountBack
	Cnt int    `json:"cnt,omitempty"`
	Err string `json:"err,omitempty"`
}

type obs struct {
	Pc map[string]string `json:"pc"`
	Q  bool              `json:"q"`
}

type expectRet struct {
	op, err string
	n       int
}

func modelParked(pc string) string {
	switch pc {
	case "wpark", "rpark":
		return "select"
	case "wlk":
		return "sync.Mutex.Lock"
	}
	return "?"
}

// finishWorld shuts both ends down from the driver's own threads and waits for every call to return.
func finishWorld(w *world, ops []*opRun, res *vio.Result, bi int, what string, hist any) bool {
	for _, t := range []string{"l9", "r9"} {
		w.guarded(func() { w.do(t, "Close", 0, "nil", nil) })
	}
	deadline := time.Now().Add(10 * time.Second)
	for {
		all := true
		for _, o := range ops {
			if !o.done.Load() {
				all = false
			}
		}
		if all {
			return true
		}
		if time.Now().After(deadline) {
			var stuck []string
			for _, o := range ops {
				if !o.done.Load() {
					stuck = append(stuck, o.op+"("+o.t+")")
				}
			}
			res.Violation(vio.Finding{Key: "pipe.deadlock/call-blocked-after-close", Behaviour: bi,
				Text:   fmt.Sprintf("%s: both ends were closed 10 s ago and these calls have not returned: %v", what, stuck),
				Replay: hist})
			return false
		}
		time.Sleep(200 * time.Microsecond)
	}
}

func report(w *world, res *vio.Result, bi int, hist any) {
	if p := w.panicked.Load(); p != nil {
		res.Violation(vio.Finding{Key: "pipe.panic/call-panicked", Behaviour: bi, Text: "a pipe call panicked: " + firstLine(p.(string)), Observed: p, Replay: hist})
	}
	w.mu.Lock()
	log := append([]event(nil), w.log...)
	w.mu.Unlock()
	for _, v := range dedup(judge(log)) {
		res.Violation(vio.Finding{Key: v.key, Behaviour: bi, Text: v.text, Replay: hist, Observed: log})
	}
}

// callList renders the calls of a behaviour issued so far, for violation texts.
func callList(hist []any) string {
	var sb strings.Builder
	for i, h := range hist {
		a, ok := h.(action)
		if !ok {
			continue
		}
		if i > 0 {
			sb.WriteString(" ; ")
		}
		if a.N == "Fire" {
			fmt.Fprintf(&sb, "%v deadline of %s expires", a.W, a.E)
			continue
		}
		fmt.Fprintf(&sb, "%s.%s", a.T, a.Op)
		if k, _ := a.K.(string); k != "" && k != "-" {
			fmt.Fprintf(&sb, "(%s)", k)
		}
	}
	return sb.String()
}

func firstLine(s string) string {
	a, _, _ := strings.Cut(s, "\n")
	return a
}

// realFuture is the distance of a "future" deadline in the real-time replay; an expiry is awaited for
// realFuture + realMargin (margin = 3x).
const (
	realFuture = 60 * time.Millisecond
	realMargin = 3 * realFuture
)

// realtimeReruns bounds the number of behaviours a process re-executes in real time.
var realtimeReruns = 12

// replayBehaviour executes one behaviour of the model.  Normally a "future" deadline lies an hour ahead and the
// model's Fire action makes the armed timer expire through the timer's own handle.  If the pipe has NO armed timer
// where the model has one, the behaviour is executed a second time in real time (realtime = true): "future" is
// realFuture ahead and Fire waits until that instant has passed by the margin, so that what is judged is again only
// what a caller can see: a call that is still parked although the deadline its end was given has expired.
func replayBehaviour(in *vio.Input, bi int, b vio.Behaviour, res *vio.Result, realtime bool) (trace string) {
	w := newWorld(func() time.Duration {
		if realtime {
			return realFuture
		}
		return time.Hour
	})
	needRealtime := false
	var ops []*opRun
	var hist []any
	byThread := map[string]*opRun{}
	expected := map[string]expectRet{}
	var lastObs *obs
	steps := 0
	drifted := false

	compare := func(si int) bool {
		st, ok := settle(ops, 10*time.Second)
		if !ok {
			res.Break("behaviour %d step %d: calls neither returned nor parked within 10 s", bi, si)
			return false
		}
		if lastObs == nil || !lastObs.Q || drifted {
			// nothing to compare with (or no longer on the model's path): only forget finished calls
			for t, o := range byThread {
				if st[o] == "" {
					delete(byThread, t)
				}
			}
			return true
		}
		// returned calls
		w.mu.Lock()
		log := append([]event(nil), w.log...)
		w.mu.Unlock()
		for t, o := range byThread {
			pc := lastObs.Pc[t]
			var got string
			if st[o] == "" {
				// find its ret event
				for i := len(log) - 1; i >= 0; i-- {
					if log[i].E == "ret" && log[i].T == t {
						got = fmt.Sprintf("returned (%d,%s)", log[i].N, log[i].Err)
						break
					}
				}
				delete(byThread, t)
			} else {
				got = "parked in " + st[o]
			}
			var want string
			if x, ok := expected[t]; ok && pc == "idle" {
				want = fmt.Sprintf("returned (%d,%s)", x.n, x.err)
			} else {
				want = "parked in " + modelParked(pc)
			}
			res.Seen(o.op + "/" + want)
			if got != want && strings.HasPrefix(got, "parked in select") && strings.HasPrefix(want, "returned") {
				// Every schedule of the model returns this call here (a fired deadline / a closed done channel
				// enables each call parked on it, whatever else happens); the real call is still parked.
				switch {
				case strings.HasSuffix(want, ",timeout)"):
					res.Violation(vio.Finding{Key: "pipe.deadline/parked-call-not-unblocked", Behaviour: bi, Step: si, Expected: want, Observed: got,
						Text: fmt.Sprintf("%s(%s) stays parked although its deadline has expired (model: %s); calls: %s", o.op, t, want, callList(hist)),
						Replay: map[string]any{"behaviour": b, "calls": hist}})
				case strings.HasSuffix(want, ",closed)") || strings.HasSuffix(want, ",eof)") || strings.HasSuffix(want, ",custom)"):
					res.Violation(vio.Finding{Key: "pipe.halfclose/parked-call-not-unblocked", Behaviour: bi, Step: si, Expected: want, Observed: got,
						Text: fmt.Sprintf("%s(%s) stays parked although its direction was shut down (model: %s); calls: %s", o.op, t, want, callList(hist)),
						Replay: map[string]any{"behaviour": b, "calls": hist}})
				}
			}
			if got != want {
				res.DriftNote(vio.Finding{Key: "pipe.replay/model-drift", Behaviour: bi, Step: si, Expected: want, Observed: got,
					Text: fmt.Sprintf("%s(%s): model expects %q, pipe did %q", o.op, t, want, got), Replay: hist})
				drifted = true
			}
		}
		for t := range expected {
			delete(expected, t)
		}
		// after a drift the remaining calls are still issued (as far as their goroutine slot is free): the
		// recorded history is judged on its own by the oracles and by trace validation
		return true
	}

	for si, st := range b.Steps {
		var a action
		if err := json.Unmarshal(st.A, &a); err != nil {
			res.Break("behaviour %d step %d: %v", bi, si, err)
			return ""
		}
		switch a.N {
		case "Call", "Fire":
			// the model is quiescent here: compare what happened since the previous call
			if si > 0 && !compare(si) {
				goto end
			}
			hist = append(hist, a)
			if a.N == "Call" {
				if prev := byThread[a.T]; prev != nil && !prev.done.Load() {
					// only after a drift: the model thinks this goroutine is free, the real call is still parked
					goto end
				}
				o := &opRun{t: a.T, op: a.Op}
				ops = append(ops, o)
				byThread[a.T] = o
				go func() {
					defer o.done.Store(true)
					kind, _ := a.K.(string)
					w.guarded(func() { w.do(a.T, a.Op, a.Sz, kind, func() { o.gid.Store(goid()) }) })
				}()
			} else {
				c := w.pl
				if a.E == "r" {
					c = w.pr
				}
				which, _ := a.W.(string)
				if realtime {
					w.mu.Lock()
					at, ok := w.lastSet[a.E+"/"+which]
					w.mu.Unlock()
					if !ok {
						if !drifted {
							res.DriftNote(vio.Finding{Key: "pipe.replay/model-drift", Behaviour: bi, Step: si,
								Text: fmt.Sprintf("model fires the %s deadline timer of end %s but no call asked for a future deadline there", a.W, a.E), Replay: hist})
						}
						drifted = true
						break
					}
					if d := time.Until(at.Add(realMargin)); d > 0 {
						time.Sleep(d)
					}
					break
				}
				h, err := deadlineOf(c, which)
				if err != nil {
					res.Break("cannot reach the deadline timer: %v", err)
					return ""
				}
				switch h.fire() {
				case "noTimer":
					if !drifted {
						// On the model's path so far, and the model has an armed timer here (a Set*Deadline(future) of this
						// end reached this half).  Whether that matters to a caller is decided by executing the behaviour in
						// real time.
						res.DriftNote(vio.Finding{Key: "pipe.replay/model-drift", Behaviour: bi, Step: si,
							Text: fmt.Sprintf("model fires the %s deadline timer of end %s but the pipe has no pending timer (behaviour re-executed in real time)", a.W, a.E), Replay: hist})
						if realtimeReruns > 0 {
							realtimeReruns--
							needRealtime = true
							goto end
						}
					}
					drifted = true
				case "stuck":
					res.Violation(vio.Finding{Key: "pipe.deadline/expired-timer-does-not-close-channel", Behaviour: bi, Step: si,
						Text: "an armed deadline timer expired but its cancel channel was not closed within 10 s", Replay: hist})
					goto end
				}
			}
		case "Ret":
			expected[a.T] = expectRet{a.Op, a.Err, a.Cnt}
		}
		if len(st.O) > 0 {
			var o obs
			if json.Unmarshal(st.O, &o) == nil {
				lastObs = &o
			}
		}
		steps = si + 1
	}
	compare(len(b.Steps))
end:
	if _, ok := settle(ops, 10*time.Second); !ok {
		res.Break("behaviour %d: calls neither returned nor parked within 10 s", bi)
	}
	finishWorld(w, ops, res, bi, "replay", hist)
	report(w, res, bi, hist)
	res.AddSteps(1, steps)
	if drifted {
		res.Count("behaviours_with_drift", 1)
	}
	res.Sample(map[string]any{"behaviour": bi, "calls": hist}, 2)
	w.log[0].Src = hist
	w.log[0].Drift = drifted || needRealtime || steps < len(b.Steps)
	trace = w.ndjson()
	if needRealtime {
		trace += replayBehaviour(in, bi, b, res, true)
	}
	return trace
}

func TestReplay(t *testing.T) {
	in, err := vio.ReadInput()
	if err != nil {
		t.Skip(err)
	}
	res := vio.NewResult()
	defer func() {
		if err := res.Write(); err != nil {
			t.Fatal(err)
		}
	}()
	for bi, b := range in.Behaviours {
		tr := replayBehaviour(in, bi, b, res, false)
		if tr != "" {
			res.Traces = append(res.Traces, tr)
		}
		if len(res.Broken) > 0 {
			return
		}
	}
}

// ---------------------------------------------------------------- free-running histories

type scriptOp struct {
	Op string `json:"op"`
	Sz int    `json:"sz"`
	K  string `json:"k"`
}

// genScript draws one goroutine's calls.  profile 0: everything; 1: data-heavy (multi-chunk writes against
// small read buffers, where atomicity and counting matter); 2: control-heavy (closes and deadlines).
func genScript(r *rand.Rand, nops int, maxW int, profile int) []scriptOp {
	var s []scriptOp
	kinds := []string{"past", "future", "zero"}
	for len(s) < nops {
		x := r.IntN(100)
		switch profile {
		case 1:
			switch {
			case x < 45:
				x = 0 // Write
			case x < 88:
				x = 30 // Read
			case x < 92:
				x = 55 // WriteTo
			}
		case 2:
			if x < 40 {
				x = 63 + r.IntN(37)
			}
		}
		switch {
		case x < 30:
			sz := r.IntN(maxW + 1)
			if profile == 1 && maxW >= 2 {
				sz = 2 + r.IntN(maxW-1)
			}
			s = append(s, scriptOp{"Write", sz, "-"})
		case x < 55:
			w := 1 + r.IntN(maxW)
			capacity := r.IntN(3*w + 1)
			if profile == 1 {
				capacity = 1 + r.IntN(2)
			}
			s = append(s, scriptOp{"Read", capacity, "-"})
		case x < 63:
			lim := inf
			if r.IntN(3) == 0 {
				lim = r.IntN(maxW + 1)
			}
			s = append(s, scriptOp{"WriteTo", lim, "-"})
		case x < 68:
			s = append(s, scriptOp{"CloseWrite", 0, closeKind(r)})
		case x < 72:
			s = append(s, scriptOp{"CloseRead", 0, closeKind(r)})
		case x < 75:
			s = append(s, scriptOp{"Close", 0, closeKind(r)})
		case x < 84:
			s = append(s, scriptOp{"SetRD", 0, kinds[r.IntN(3)]})
		case x < 93:
			s = append(s, scriptOp{"SetWD", 0, kinds[r.IntN(3)]})
		default:
			s = append(s, scriptOp{"SetD", 0, kinds[r.IntN(3)]})
		}
	}
	return s
}

func closeKind(r *rand.Rand) string {
	if r.IntN(4) == 0 {
		return "custom"
	}
	return "nil"
}

func freeHistory(r *rand.Rand, hi int, res *vio.Result, perEndMin, perEndMax, nops, maxW int) string {
	var fmu sync.Mutex
	w := newWorld(func() time.Duration {
		fmu.Lock()
		defer fmu.Unlock()
		return time.Duration(20+r.IntN(400)) * time.Microsecond
	})
	var ops []*opRun
	scripts := map[string][]scriptOp{}
	profile := hi % 3
	for _, e := range []string{"l", "r"} {
		n := perEndMin + r.IntN(perEndMax-perEndMin+1)
		for i := 1; i <= n; i++ {
			k := 1 + r.IntN(nops)
			if profile == 1 {
				k = nops
			}
			if n >= 4 && k > 2 {
				// many goroutines x many calls makes the number of interleavings TLC has to infer explode
				k = 2
			}
			scripts[fmt.Sprintf("%s%d", e, i)] = genScript(r, k, maxW, profile)
		}
	}
	w.log[0].Src = scripts
	gun := make(chan struct{})
	for t, sc := range scripts {
		o := &opRun{t: t, op: "script"}
		ops = append(ops, o)
		delays := make([]time.Duration, len(sc))
		for i := range delays {
			if r.IntN(3) == 0 {
				delays[i] = time.Duration(r.IntN(150)) * time.Microsecond
			}
		}
		// at most a handful of goroutines leave at the starting gun, the others join a little later
		var late time.Duration
		if len(ops) > 3 {
			late = time.Duration(30+r.IntN(300)) * time.Microsecond
		}
		go func() {
			defer o.done.Store(true)
			o.gid.Store(goid())
			<-gun
			if late > 0 {
				time.Sleep(late)
			}
			for i, s := range sc {
				if delays[i] > 0 {
					time.Sleep(delays[i])
				} else if i%2 == 1 {
					runtime.Gosched()
				}
				stop := false
				w.guarded(func() { w.do(t, s.Op, s.Sz, s.K, nil) })
				if w.panicked.Load() != nil {
					stop = true
				}
				if stop {
					return
				}
			}
		}()
	}
	close(gun)
	// let the scripts run until everybody is finished or parked (sleeping between calls counts as running)
	limit := time.Now().Add(3 * time.Second)
	for time.Now().Before(limit) {
		st := goStates()
		busy := false
		for _, o := range ops {
			if o.done.Load() {
				continue
			}
			s := st[o.gid.Load()]
			if !parkedState(s) {
				busy = true
			}
		}
		if !busy {
			break
		}
		time.Sleep(100 * time.Microsecond)
	}
	finishWorld(w, ops, res, hi, "free-running history", scripts)
	report(w, res, hi, scripts)
	res.AddSteps(1, len(w.log))
	res.Sample(map[string]any{"history": hi, "scripts": scripts}, 1)
	for _, e := range w.log {
		if e.E == "ret" {
			res.Seen(e.Op + "/" + e.Err + "/" + strconv.Itoa(e.N))
		}
	}
	return w.ndjson()
}

func TestFree(t *testing.T) {
	in, err := vio.ReadInput()
	if err != nil {
		t.Skip(err)
	}
	res := vio.NewResult()
	defer func() {
		if err := res.Write(); err != nil {
			t.Fatal(err)
		}
	}()
	n, perMin, perMax, nops, maxW := 50, 2, 4, 3, 3
	in.Param("histories", &n)
	in.Param("perEndMin", &perMin)
	in.Param("perEndMax", &perMax)
	in.Param("ops", &nops)
	in.Param("maxWrite", &maxW)
	r := rand.New(rand.NewPCG(uint64(in.Seed), 0xC15))
	for hi := 0; hi < n; hi++ {
		tr := freeHistory(r, hi, res, perMin, perMax, nops, maxW)
		res.Traces = append(res.Traces, tr)
		if len(res.Violations) > 20 {
			return
		}
	}
}

// TestScripts re-executes recorded scripts (the --replay path for free-running histories): the same
// goroutines issue the same calls; scheduling is again free, so it is repeated many times.
func TestScripts(t *testing.T) {
	in, err := vio.ReadInput()
	if err != nil {
		t.Skip(err)
	}
	res := vio.NewResult()
	defer func() {
		if err := res.Write(); err != nil {
			t.Fatal(err)
		}
	}()
	var scripts map[string][]scriptOp
	if !in.Param("scripts", &scripts) {
		res.Break("no scripts parameter")
		return
	}
	reps := 200
	in.Param("reps", &reps)
	for hi := 0; hi < reps; hi++ {
		w := newWorld(func() time.Duration { return 100 * time.Microsecond })
		w.log[0].Src = scripts
		var ops []*opRun
		gun := make(chan struct{})
		for t, sc := range scripts {
			o := &opRun{t: t, op: "script"}
			ops = append(ops, o)
			go func() {
				defer o.done.Store(true)
				o.gid.Store(goid())
				<-gun
				for _, s := range sc {
					w.guarded(func() { w.do(t, s.Op, s.Sz, s.K, nil) })
					if w.panicked.Load() != nil {
						return
					}
				}
			}()
		}
		close(gun)
		limit := time.Now().Add(3 * time.Second)
		for time.Now().Before(limit) {
			st := goStates()
			busy := false
			for _, o := range ops {
				if !o.done.Load() && !parkedState(st[o.gid.Load()]) {
					busy = true
				}
			}
			if !busy {
				break
			}
			time.Sleep(100 * time.Microsecond)
		}
		finishWorld(w, ops, res, hi, "scripted history", scripts)
		report(w, res, hi, scripts)
		res.AddSteps(1, len(w.log))
		res.Traces = append(res.Traces, w.ndjson())
		if len(res.Violations) > 0 {
			return
		}
	}
}

// ---------------------------------------------------------------- race probes

// spinWait burns about d without parking the goroutine.
func spinWait(d time.Duration) {
	t := time.Now()
	for time.Since(t) < d {
	}
}

// TestRace aims at the narrow windows the model shows to matter but free scheduling rarely hits:
//   - store-then-close (NoPanic): calls that never park (their own deadline is in the past) spin on one end
//     while another goroutine shuts the direction down; a call that sees the done channel closed must find
//     an error to load, and once a call has reported the shutdown every later call reports it too;
//   - timer expiry racing a re-arm (pipeDeadline.set must wait for a fired timer's callback).
//
// The histories are long, so they are judged by direct oracles only (not sent to TLC).
func TestRace(t *testing.T) {
	in, err := vio.ReadInput()
	if err != nil {
		t.Skip(err)
	}
	res := vio.NewResult()
	defer func() {
		if err := res.Write(); err != nil {
			t.Fatal(err)
		}
	}()
	trials := 200
	in.Param("trials", &trials)
	r := rand.New(rand.NewPCG(uint64(in.Seed), 0xACE))
	modes := []string{"read/CloseWrite", "read/CloseRead", "read/Close", "write/CloseRead", "write/CloseWrite", "write/Close",
		"writeto/CloseWrite", "setrd/CloseRead", "setwd/CloseWrite", "churn"}
	for ti := 0; ti < trials; ti++ {
		mode := modes[ti%len(modes)]
		pl, pr := netio.NewPipe()
		var panicked atomic.Value
		guard := func(f func()) {
			defer func() {
				if x := recover(); x != nil {
					panicked.CompareAndSwap(nil, fmt.Sprintf("%v\n%s", x, debug.Stack()))
				}
			}()
			f()
		}
		var wg sync.WaitGroup
		var bad atomic.Value
		var closerDone atomic.Bool
		what, _, _ := strings.Cut(mode, "/")
		if mode == "churn" {
			// two goroutines keep re-arming the read deadline of pr a few tens of microseconds ahead while a
			// reader keeps timing out: expiry and re-arm collide all the time
			delays := make([][]time.Duration, 2)
			for g := range delays {
				for i := 0; i < 150; i++ {
					delays[g] = append(delays[g], time.Duration(10+r.IntN(70))*time.Microsecond)
				}
			}
			for g := 0; g < 2; g++ {
				wg.Go(func() {
					guard(func() {
						for _, d := range delays[g] {
							_ = pr.SetReadDeadline(time.Now().Add(d))
							spinWait(d - 5*time.Microsecond + time.Duration(g)*4*time.Microsecond)
						}
					})
				})
			}
			wg.Go(func() {
				guard(func() {
					b := make([]byte, 1)
					for i := 0; i < 300; i++ {
						_, err := pr.Read(b)
						if c := classify(err); c != "timeout" {
							bad.CompareAndSwap(nil, "Read with nothing written and nothing closed returned "+c)
							return
						}
					}
				})
			})
			wg.Wait()
		} else {
			// the spinning end: reads happen on pr, writes on pl; the direction is pl -> pr
			past := time.Now().Add(-time.Hour)
			_ = pr.SetReadDeadline(past)
			_ = pl.SetWriteDeadline(past)
			allowedAfter := map[string]bool{"eof": true, "closed": true}
			if what == "writeto" {
				allowedAfter["nil"] = true
			}
			for g := 0; g < 2; g++ {
				wg.Go(func() {
					guard(func() {
						b := make([]byte, 1)
						shut, post := 0, 0
						for i := 0; i < 5000000; i++ {
							var err error
							switch what {
							case "read":
								_, err = pr.Read(b)
							case "writeto":
								_, err = pr.WriteTo(io.Discard)
							case "write":
								_, err = pl.Write(b)
							case "setrd":
								err = pr.SetReadDeadline(past)
							case "setwd":
								err = pl.SetWriteDeadline(past)
							}
							c := classify(err)
							after := closerDone.Load()
							switch what {
							case "read", "write", "writeto":
								// the own deadline is in the past: "timeout" is always an admissible answer
								if c != "timeout" && !allowedAfter[c] {
									bad.CompareAndSwap(nil, fmt.Sprintf("%s returned %s", what, c))
									return
								}
								if c != "timeout" {
									shut++
								}
							default:
								if c != "nil" && c != "closed" {
									bad.CompareAndSwap(nil, what+" returned "+c)
									return
								}
							}
							if after {
								post++
							}
							if shut > 20 || post > 2000 {
								return
							}
							if panicked.Load() != nil {
								return
							}
						}
					})
				})
			}
			d := time.Duration(r.IntN(60)) * time.Microsecond
			wg.Go(func() {
				guard(func() {
					spinWait(d)
					switch mode {
					case "read/CloseWrite", "write/CloseWrite", "writeto/CloseWrite", "setwd/CloseWrite":
						_ = pl.CloseWrite()
					case "read/CloseRead", "write/CloseRead", "setrd/CloseRead":
						_ = pr.CloseRead()
					case "read/Close":
						_ = pl.Close()
					case "write/Close":
						_ = pr.Close()
					}
					closerDone.Store(true)
				})
			})
			done := make(chan struct{})
			go func() { wg.Wait(); close(done) }()
			select {
			case <-done:
			case <-time.After(20 * time.Second):
				res.Violation(vio.Finding{Key: "pipe.deadlock/call-blocked-after-close", Behaviour: ti,
					Text: "race probe " + mode + ": calls that cannot park did not finish within 20 s of the close", Replay: map[string]any{"race": mode}})
				return
			}
		}
		pl.Close()
		pr.Close()
		res.AddSteps(1, 1)
		res.Seen(mode)
		if p := panicked.Load(); p != nil {
			res.Violation(vio.Finding{Key: "pipe.panic/call-panicked", Behaviour: ti, Text: "race probe " + mode + ": a pipe call panicked: " + firstLine(p.(string)),
				Observed: p, Replay: map[string]any{"race": mode}})
			return
		}
		if b := bad.Load(); b != nil {
			res.Violation(vio.Finding{Key: "pipe.halfclose/wrong-result-around-close", Behaviour: ti, Text: "race probe " + mode + ": " + b.(string),
				Replay: map[string]any{"race": mode}})
			return
		}
	}
}
