package relayenv

import (
	"errors"
	"fmt"
	"io"
	"net"
	"net/netip"
	"os"
	"sort"
	"strconv"
	"sync"
	"syscall"
	"time"
)

// Socks5Server is a minimal SOCKS5 server for UDP ASSOCIATE: one TCP control connection per association (kept open
// until the client closes it), one UDP endpoint that forwards each datagram to the target it names from a socket of
// its own per client address, and wraps the targets' replies on the way back.  Every socket it needs is created up
// front, so that serving an association does not need a new descriptor beyond the accepted control connection.
type Socks5Server struct {
	ln   *net.TCPListener
	udp  *net.UDPConn
	mu   sync.Mutex
	open map[net.Conn]bool // control connections not yet closed by the client
	seen int               // control connections accepted
	pool []*net.UDPConn
	fwd  map[netip.AddrPort]*net.UDPConn
	wg   sync.WaitGroup
}

func StartSocks5Server(forwarders int) (*Socks5Server, error) {
	ln, err := net.ListenTCP("tcp4", &net.TCPAddr{IP: net.IPv4(127, 0, 0, 1)})
	if err != nil {
		return nil, err
	}
	udp, err := net.ListenUDP("udp4", &net.UDPAddr{IP: net.IPv4(127, 0, 0, 1)})
	if err != nil {
		ln.Close()
		return nil, err
	}
	s := &Socks5Server{ln: ln, udp: udp, open: map[net.Conn]bool{}, fwd: map[netip.AddrPort]*net.UDPConn{}}
	for range forwarders {
		c, err := net.ListenUDP("udp4", &net.UDPAddr{IP: net.IPv4(127, 0, 0, 1)})
		if err != nil {
			s.Close()
			return nil, err
		}
		s.pool = append(s.pool, c)
	}
	s.wg.Add(2)
	go s.accept()
	go s.serveUDP()
	return s, nil
}

// Addr is the TCP address clients connect to.
func (s *Socks5Server) Addr() string { return s.ln.Addr().String() }

// OpenControlConns is the number of control connections the clients still hold open.
func (s *Socks5Server) OpenControlConns() int {
	s.mu.Lock()
	defer s.mu.Unlock()
	return len(s.open)
}

// Accepted is the number of control connections accepted so far.
func (s *Socks5Server) Accepted() int {
	s.mu.Lock()
	defer s.mu.Unlock()
	return s.seen
}

func (s *Socks5Server) Close() {
	s.ln.Close()
	s.udp.Close()
	s.mu.Lock()
	for c := range s.open {
		c.Close()
	}
	for _, c := range s.pool {
		c.Close()
	}
	for _, c := range s.fwd {
		c.Close()
	}
	s.mu.Unlock()
	s.wg.Wait()
}

func (s *Socks5Server) accept() {
	defer s.wg.Done()
	for {
		c, err := s.ln.AcceptTCP()
		if err != nil {
			if errors.Is(err, net.ErrClosed) {
				return
			}
			// accept4 reserves a descriptor before it looks for a pending connection: while the descriptor limit is the
			// injected fault it fails with EMFILE although nobody is connecting; keep serving
			time.Sleep(2 * time.Millisecond)
			continue
		}
		s.mu.Lock()
		s.open[c] = true
		s.seen++
		s.mu.Unlock()
		s.wg.Add(1)
		go s.control(c)
	}
}

func (s *Socks5Server) control(c *net.TCPConn) {
	defer s.wg.Done()
	defer func() {
		s.mu.Lock()
		delete(s.open, c)
		s.mu.Unlock()
		c.Close()
	}()
	hdr := make([]byte, 2)
	if _, err := io.ReadFull(c, hdr); err != nil || hdr[0] != 5 {
		return
	}
	if _, err := io.ReadFull(c, make([]byte, hdr[1])); err != nil {
		return
	}
	if _, err := c.Write([]byte{5, 0}); err != nil {
		return
	}
	req := make([]byte, 4)
	if _, err := io.ReadFull(c, req); err != nil || req[1] != 3 {
		return
	}
	var n int
	switch req[3] {
	case 1:
		n = 4 + 2
	case 4:
		n = 16 + 2
	case 3:
		l := make([]byte, 1)
		if _, err := io.ReadFull(c, l); err != nil {
			return
		}
		n = int(l[0]) + 2
	default:
		return
	}
	if _, err := io.ReadFull(c, make([]byte, n)); err != nil {
		return
	}
	ua := s.udp.LocalAddr().(*net.UDPAddr)
	rep := []byte{5, 0, 0, 1, 127, 0, 0, 1, byte(ua.Port >> 8), byte(ua.Port)}
	if _, err := c.Write(rep); err != nil {
		return
	}
	// the association lives as long as the client keeps this connection open
	_, _ = io.Copy(io.Discard, c)
}

func (s *Socks5Server) serveUDP() {
	defer s.wg.Done()
	buf := make([]byte, 65536)
	for {
		n, from, err := s.udp.ReadFromUDPAddrPort(buf)
		if err != nil {
			return
		}
		target, payload, err := ParseSocks5UDP(buf[:n])
		if err != nil {
			continue
		}
		ta, err := net.ResolveUDPAddr("udp4", target)
		if err != nil {
			continue
		}
		from = netip.AddrPortFrom(from.Addr().Unmap(), from.Port())
		s.mu.Lock()
		f := s.fwd[from]
		if f == nil && len(s.pool) > 0 {
			f = s.pool[0]
			s.pool = s.pool[1:]
			s.fwd[from] = f
			s.wg.Add(1)
			go s.back(f, from)
		}
		s.mu.Unlock()
		if f != nil {
			_, _ = f.WriteToUDP(payload, ta)
		}
	}
}

func (s *Socks5Server) back(f *net.UDPConn, client netip.AddrPort) {
	defer s.wg.Done()
	buf := make([]byte, 65536)
	for {
		n, from, err := f.ReadFromUDPAddrPort(buf)
		if err != nil {
			return
		}
		pkt, err := Socks5UDP(netip.AddrPortFrom(from.Addr().Unmap(), from.Port()).String(), buf[:n])
		if err != nil {
			continue
		}
		_, _ = s.udp.WriteToUDPAddrPort(pkt, client)
	}
}

// ---------------------------------------------------------------- descriptor limit as a fault

// LimitFDs lowers the soft RLIMIT_NOFILE so that exactly `free` more descriptors can be opened by this process, and
// returns a function that restores the limit.  With free = 2 a SOCKS5 client session of the relay can be created
// (its TCP socket and the harness server's accepted connection) and the next socket() fails with EMFILE.
func LimitFDs(free int) (restore func(), err error) {
	d, err := os.Open("/proc/self/fd")
	if err != nil {
		return nil, err
	}
	names, err := d.Readdirnames(-1)
	own := int(d.Fd()) // the descriptor used for this listing is free again in a moment
	d.Close()
	if err != nil {
		return nil, err
	}
	var used []int
	for _, name := range names {
		if n, err := strconv.Atoi(name); err == nil && n != own {
			used = append(used, n)
		}
	}
	sort.Ints(used)
	inUse := map[int]bool{}
	for _, n := range used {
		inUse[n] = true
	}
	limit, got := 0, 0
	for got < free {
		if !inUse[limit] {
			got++
		}
		limit++
	}
	var old syscall.Rlimit
	if err := syscall.Getrlimit(syscall.RLIMIT_NOFILE, &old); err != nil {
		return nil, err
	}
	if uint64(limit) > old.Cur {
		return nil, fmt.Errorf("descriptor limit %d already below %d", old.Cur, limit)
	}
	nl := syscall.Rlimit{Cur: uint64(limit), Max: old.Max}
	if err := syscall.Setrlimit(syscall.RLIMIT_NOFILE, &nl); err != nil {
		return nil, err
	}
	return func() { _ = syscall.Setrlimit(syscall.RLIMIT_NOFILE, &old) }, nil
}
