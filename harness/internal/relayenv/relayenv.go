// Package relayenv runs real shadowsocks-go services (built from a JSON service.Config, exactly as
// the program does) on loopback, and provides the harness ends: target sockets, a scripted DNS
// server behind net.DefaultResolver, SOCKS5 UDP framing, goroutine and descriptor accounting.
package relayenv

import (
	"bytes"
	"context"
	"encoding/binary"
	"encoding/json"
	"errors"
	"fmt"
	"net"
	"net/netip"
	"os"
	"runtime"
	"strings"
	"sync"
	"time"

	"github.com/database64128/shadowsocks-go/service"
	"go.uber.org/zap"
	"go.uber.org/zap/zapcore"
	"go.uber.org/zap/zaptest/observer"
)

// Relay is a running service manager.
type Relay struct {
	Mgr    *service.Manager
	Logs   *observer.ObservedLogs
	cancel context.CancelFunc
	done   chan bool
	// listen addresses by "kind/server/listenerIndex", kind = tcp | udp
	mu    sync.Mutex
	addrs map[string]string
}

// Start builds the manager from the JSON configuration and runs it.
func Start(cfgJSON []byte, level zapcore.Level) (*Relay, error) {
	var cfg service.Config
	dec := json.NewDecoder(bytes.NewReader(cfgJSON))
	dec.DisallowUnknownFields()
	if err := dec.Decode(&cfg); err != nil {
		return nil, fmt.Errorf("config decode: %w", err)
	}
	core, logs := observer.New(level)
	logger := zap.New(core)
	m, err := cfg.Manager(logger)
	if err != nil {
		return nil, fmt.Errorf("config manager: %w", err)
	}
	ctx, cancel := context.WithCancel(context.Background())
	r := &Relay{Mgr: m, Logs: logs, cancel: cancel, done: make(chan bool, 1), addrs: map[string]string{}}
	go func() {
		ok := m.Run(ctx)
		m.Close()
		r.done <- ok
	}()
	return r, nil
}

// Addr waits for the listener's start log line and returns its address.
func (r *Relay) Addr(kind, server string, index int, timeout time.Duration) (netip.AddrPort, error) {
	deadline := time.Now().Add(timeout)
	want := "Started TCP relay service listener"
	for {
		for _, e := range r.Logs.All() {
			if kind == "tcp" && e.Message != want {
				continue
			}
			if kind == "udp" && !(strings.HasPrefix(e.Message, "Started UDP") && strings.HasSuffix(e.Message, "relay service listener")) {
				continue
			}
			m := e.ContextMap()
			if m["server"] == server && fmt.Sprint(m["listener"]) == fmt.Sprint(index) {
				return netip.ParseAddrPort(fmt.Sprint(m["listenAddress"]))
			}
		}
		select {
		case ok := <-r.done:
			r.done <- ok
			return netip.AddrPort{}, fmt.Errorf("manager exited (ok=%v) before listener %s/%s/%d started: %s", ok, kind, server, index, r.LogTail(5))
		default:
		}
		if time.Now().After(deadline) {
			return netip.AddrPort{}, fmt.Errorf("listener %s/%s/%d did not start: %s", kind, server, index, r.LogTail(5))
		}
		time.Sleep(2 * time.Millisecond)
	}
}

func (r *Relay) LogTail(n int) string {
	var all []observer.LoggedEntry
	for _, e := range r.Logs.All() {
		if e.Message != "Handled API request" { // the harness' own polling
			all = append(all, e)
		}
	}
	if len(all) > n {
		all = all[len(all)-n:]
	}
	var sb strings.Builder
	for _, e := range all {
		fmt.Fprintf(&sb, "[%s %s %v] ", e.Level, e.Message, e.ContextMap())
	}
	return sb.String()
}

// CountLogs counts log entries with the given message.
func (r *Relay) CountLogs(msg string) int {
	return r.Logs.FilterMessage(msg).Len()
}

// Exited reports whether the manager's Run has returned (e.g. because a service failed to start).
func (r *Relay) Exited() bool {
	select {
	case ok := <-r.done:
		r.done <- ok
		return true
	default:
		return false
	}
}

// BeginStop cancels the manager's context (what SIGTERM does) and returns immediately.
func (r *Relay) BeginStop() { r.cancel() }

// WaitStopped waits for Run to return.
func (r *Relay) WaitStopped(timeout time.Duration) (time.Duration, bool) {
	t0 := time.Now()
	select {
	case <-r.done:
		return time.Since(t0), true
	case <-time.After(timeout):
		return time.Since(t0), false
	}
}

// Stop = BeginStop + WaitStopped.
func (r *Relay) Stop(timeout time.Duration) (time.Duration, bool) {
	r.BeginStop()
	return r.WaitStopped(timeout)
}

// ---------------------------------------------------------------- SOCKS5 UDP framing

// Socks5UDP builds RSV RSV FRAG ATYP ADDR PORT DATA.
func Socks5UDP(target string, payload []byte) ([]byte, error) {
	host, portStr, err := net.SplitHostPort(target)
	if err != nil {
		return nil, err
	}
	var port uint16
	if _, err := fmt.Sscanf(portStr, "%d", &port); err != nil {
		return nil, err
	}
	b := []byte{0, 0, 0}
	if ip, err := netip.ParseAddr(host); err == nil {
		if ip.Is4() {
			b = append(b, 1)
			b = append(b, ip.AsSlice()...)
		} else {
			b = append(b, 4)
			b = append(b, ip.AsSlice()...)
		}
	} else {
		if len(host) > 255 {
			return nil, errors.New("domain too long")
		}
		b = append(b, 3, byte(len(host)))
		b = append(b, host...)
	}
	b = binary.BigEndian.AppendUint16(b, port)
	return append(b, payload...), nil
}

// ParseSocks5UDP splits a SOCKS5 UDP datagram into source address and payload.
func ParseSocks5UDP(b []byte) (string, []byte, error) {
	if len(b) < 4 {
		return "", nil, errors.New("short socks5 udp packet")
	}
	b = b[3:]
	switch b[0] {
	case 1:
		if len(b) < 7 {
			return "", nil, errors.New("short")
		}
		ip, _ := netip.AddrFromSlice(b[1:5])
		return netip.AddrPortFrom(ip, binary.BigEndian.Uint16(b[5:7])).String(), b[7:], nil
	case 4:
		if len(b) < 19 {
			return "", nil, errors.New("short")
		}
		ip, _ := netip.AddrFromSlice(b[1:17])
		return netip.AddrPortFrom(ip, binary.BigEndian.Uint16(b[17:19])).String(), b[19:], nil
	case 3:
		n := int(b[1])
		if len(b) < 2+n+2 {
			return "", nil, errors.New("short")
		}
		return fmt.Sprintf("%s:%d", b[2:2+n], binary.BigEndian.Uint16(b[2+n:4+n])), b[4+n:], nil
	}
	return "", nil, errors.New("bad atyp")
}

// ---------------------------------------------------------------- targets

// Datagram is one packet seen by a harness socket.
type Datagram struct {
	From    netip.AddrPort
	Payload []byte
}

// Sock is a harness UDP socket with a receive queue.
type Sock struct {
	Conn *net.UDPConn
	Addr netip.AddrPort
	In   chan Datagram
	Echo bool // reply "re:"+payload to the sender
	wg   sync.WaitGroup
}

func ListenSock(addr string, echo bool) (*Sock, error) {
	ua, err := net.ResolveUDPAddr("udp", addr)
	if err != nil {
		return nil, err
	}
	c, err := net.ListenUDP("udp", ua)
	if err != nil {
		return nil, err
	}
	s := &Sock{Conn: c, Addr: c.LocalAddr().(*net.UDPAddr).AddrPort(), In: make(chan Datagram, 4096), Echo: echo}
	s.wg.Add(1)
	go func() {
		defer s.wg.Done()
		buf := make([]byte, 65536)
		for {
			n, from, err := c.ReadFromUDPAddrPort(buf)
			if err != nil {
				return
			}
			p := append([]byte(nil), buf[:n]...)
			select {
			case s.In <- Datagram{From: netip.AddrPortFrom(from.Addr().Unmap(), from.Port()), Payload: p}:
			default:
			}
			if s.Echo {
				_, _ = c.WriteToUDPAddrPort(append([]byte("re:"), p...), from)
			}
		}
	}()
	return s, nil
}

func (s *Sock) Close() {
	_ = s.Conn.Close()
	s.wg.Wait()
}

// Recv waits for one datagram.
func (s *Sock) Recv(timeout time.Duration) (Datagram, bool) {
	select {
	case d := <-s.In:
		return d, true
	case <-time.After(timeout):
		return Datagram{}, false
	}
}

// Drain returns everything queued right now.
func (s *Sock) Drain() []Datagram {
	var out []Datagram
	for {
		select {
		case d := <-s.In:
			out = append(out, d)
		default:
			return out
		}
	}
}

// ---------------------------------------------------------------- scripted DNS

// DNS is a tiny authoritative server for a fixed name -> IPv4 table; net.DefaultResolver is
// pointed at it so that conn.ResolveIP uses it.
type DNS struct {
	sock    *net.UDPConn
	mu      sync.Mutex
	table   map[string]netip.Addr
	Queries map[string]int
}

func StartDNS(table map[string]netip.Addr) (*DNS, error) {
	c, err := net.ListenUDP("udp", &net.UDPAddr{IP: net.IPv4(127, 0, 0, 1)})
	if err != nil {
		return nil, err
	}
	d := &DNS{sock: c, table: table, Queries: map[string]int{}}
	go d.serve()
	addr := c.LocalAddr().String()
	net.DefaultResolver = &net.Resolver{
		PreferGo: true,
		Dial: func(ctx context.Context, network, _ string) (net.Conn, error) {
			var dl net.Dialer
			return dl.DialContext(ctx, "udp", addr)
		},
	}
	return d, nil
}

func (d *DNS) serve() {
	buf := make([]byte, 1500)
	for {
		n, from, err := d.sock.ReadFromUDPAddrPort(buf)
		if err != nil {
			return
		}
		q := buf[:n]
		if n < 12 {
			continue
		}
		// parse the single question
		i := 12
		var labels []string
		for i < n && q[i] != 0 {
			l := int(q[i])
			if i+1+l > n {
				break
			}
			labels = append(labels, string(q[i+1:i+1+l]))
			i += 1 + l
		}
		if i+5 > n {
			continue
		}
		name := strings.ToLower(strings.Join(labels, "."))
		qtype := binary.BigEndian.Uint16(q[i+1 : i+3])
		qend := i + 5
		resp := make([]byte, 0, 128)
		resp = append(resp, q[0], q[1], 0x84, 0x00, 0, 1, 0, 0, 0, 0, 0, 0)
		resp = append(resp, q[12:qend]...)
		d.mu.Lock()
		ip, ok := d.table[name]
		d.Queries[name]++
		d.mu.Unlock()
		if !ok {
			resp[3] = 0x03 // NXDOMAIN
		} else if qtype == 1 && ip.Is4() {
			resp[7] = 1
			resp = append(resp, 0xc0, 12, 0, 1, 0, 1, 0, 0, 0, 0, 0, 4)
			resp = append(resp, ip.AsSlice()...)
		}
		_, _ = d.sock.WriteToUDPAddrPort(resp, from)
	}
}

func (d *DNS) Close() { _ = d.sock.Close() }

// ---------------------------------------------------------------- accounting

// Goroutines returns the stacks of goroutines whose stack mentions one of the substrings.
func Goroutines(substr ...string) []string {
	buf := make([]byte, 4<<20)
	n := runtime.Stack(buf, true)
	var out []string
	for _, g := range strings.Split(string(buf[:n]), "\n\n") {
		for _, s := range substr {
			if strings.Contains(g, s) {
				out = append(out, g)
				break
			}
		}
	}
	return out
}

// FDs lists the open descriptors of this process (name -> link target).
func FDs() map[string]string {
	out := map[string]string{}
	ents, err := os.ReadDir("/proc/self/fd")
	if err != nil {
		return out
	}
	for _, e := range ents {
		l, err := os.Readlink("/proc/self/fd/" + e.Name())
		if err == nil {
			out[e.Name()] = l
		}
	}
	return out
}

// SocketFDs counts descriptors that are sockets.
func SocketFDs() int {
	n := 0
	for _, l := range FDs() {
		if strings.HasPrefix(l, "socket:") {
			n++
		}
	}
	return n
}

// GoID returns the current goroutine's id.
func GoID() int64 {
	var buf [64]byte
	n := runtime.Stack(buf[:], false)
	var id int64
	fmt.Sscanf(string(buf[:n]), "goroutine %d ", &id)
	return id
}
