// Package vio is the I/O contract between the Python runner and the Go drivers:
// behaviours (TLC-generated action sequences) come in through $VERIF_IN, the driver's
// result object goes out through $VERIF_OUT.
package vio

import (
	"encoding/json"
	"fmt"
	"os"
	"sync"
)

// Step is one edge of the model's state graph: the action (name + arguments + the outputs the
// model expects) and, optionally, the projection of the model state after it.
type Step struct {
	A json.RawMessage `json:"a"`
	O json.RawMessage `json:"o,omitempty"`
}

// Behaviour is a path through the model from an initial state.
type Behaviour struct {
	Init  json.RawMessage `json:"init,omitempty"`
	Steps []Step          `json:"steps"`
	Cex   bool            `json:"cex,omitempty"`
	ID    int             `json:"id,omitempty"`
}

// Input is what a driver test receives.
type Input struct {
	Consts     map[string]json.RawMessage `json:"consts,omitempty"`
	Behaviours []Behaviour                `json:"behaviours,omitempty"`
	Seed       int64                      `json:"seed"`
	Tier       string                     `json:"tier,omitempty"`
	Params     map[string]json.RawMessage `json:"params,omitempty"`
}

// Finding is a property violation (or a model drift) observed on the real code.
type Finding struct {
	Key       string `json:"key"`  // stable key of the failing history pattern
	Text      string `json:"text"` // human-readable description
	Behaviour int    `json:"behaviour"`
	Step      int    `json:"step"`
	Expected  any    `json:"expected,omitempty"`
	Observed  any    `json:"observed,omitempty"`
	Replay    any    `json:"replay,omitempty"`
}

// Result is what a driver test reports.
type Result struct {
	mu         sync.Mutex
	Behaviours int            `json:"behaviours"`
	Steps      int            `json:"steps"`
	Violations []Finding      `json:"violations"`
	Drift      []Finding      `json:"drift"`
	Broken     []string       `json:"broken"`
	Counters   map[string]int `json:"counters"`
	Samples    []any          `json:"samples"`
	Distinct   map[string]int `json:"-"`
	NDistinct  int            `json:"distinct"`
	Traces     []string       `json:"traces,omitempty"`
}

func NewResult() *Result {
	return &Result{Counters: map[string]int{}, Distinct: map[string]int{}}
}

func (r *Result) Violation(f Finding) {
	r.mu.Lock()
	defer r.mu.Unlock()
	if len(r.Violations) < 200 {
		r.Violations = append(r.Violations, f)
	}
	r.Counters["violations"]++
}

func (r *Result) DriftNote(f Finding) {
	r.mu.Lock()
	defer r.mu.Unlock()
	if len(r.Drift) < 50 {
		r.Drift = append(r.Drift, f)
	}
	r.Counters["drift"]++
}

func (r *Result) Break(format string, a ...any) {
	r.mu.Lock()
	defer r.mu.Unlock()
	if len(r.Broken) < 50 {
		r.Broken = append(r.Broken, fmt.Sprintf(format, a...))
	}
}

func (r *Result) Count(k string, n int) {
	r.mu.Lock()
	r.Counters[k] += n
	r.mu.Unlock()
}

// Seen records an abstract case for distinct counting.
func (r *Result) Seen(k string) {
	r.mu.Lock()
	r.Distinct[k]++
	r.mu.Unlock()
}

func (r *Result) Sample(s any, limit int) {
	r.mu.Lock()
	if len(r.Samples) < limit {
		r.Samples = append(r.Samples, s)
	}
	r.mu.Unlock()
}

func (r *Result) AddSteps(b, s int) {
	r.mu.Lock()
	r.Behaviours += b
	r.Steps += s
	r.mu.Unlock()
}

// ReadInput loads $VERIF_IN.
func ReadInput() (*Input, error) {
	p := os.Getenv("VERIF_IN")
	if p == "" {
		return nil, fmt.Errorf("VERIF_IN not set")
	}
	b, err := os.ReadFile(p)
	if err != nil {
		return nil, err
	}
	var in Input
	if err := json.Unmarshal(b, &in); err != nil {
		return nil, err
	}
	return &in, nil
}

// Write stores the result at $VERIF_OUT.
func (r *Result) Write() error {
	r.mu.Lock()
	defer r.mu.Unlock()
	r.NDistinct = len(r.Distinct)
	if r.Violations == nil {
		r.Violations = []Finding{}
	}
	if r.Drift == nil {
		r.Drift = []Finding{}
	}
	if r.Broken == nil {
		r.Broken = []string{}
	}
	b, err := json.Marshal(r)
	if err != nil {
		return err
	}
	p := os.Getenv("VERIF_OUT")
	if p == "" {
		return fmt.Errorf("VERIF_OUT not set")
	}
	return os.WriteFile(p, b, 0o644)
}

// Const decodes a constant.
func (in *Input) Const(name string, v any) error {
	raw, ok := in.Consts[name]
	if !ok {
		return fmt.Errorf("constant %q missing", name)
	}
	return json.Unmarshal(raw, v)
}

// Param decodes a parameter if present.
func (in *Input) Param(name string, v any) bool {
	raw, ok := in.Params[name]
	if !ok {
		return false
	}
	return json.Unmarshal(raw, v) == nil
}
