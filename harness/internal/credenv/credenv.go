// Package credenv builds a real multi-user Shadowsocks 2022 server pair (TCP + UDP cred stores),
// the real credential manager on a store file, and the real management API handlers mounted
// in-process, and projects their state to the abstract views of specs/Cred/CredStore.tla.
package credenv

import (
	"bytes"
	"context"
	"crypto/sha256"
	"encoding/base64"
	"encoding/json"
	"errors"
	"fmt"
	"net/http"
	"net/http/httptest"
	"net/netip"
	"os"
	"path/filepath"
	"sort"
	"strings"
	"sync"

	"github.com/database64128/shadowsocks-go/api/ssm"
	"github.com/database64128/shadowsocks-go/conn"
	"github.com/database64128/shadowsocks-go/cred"
	"github.com/database64128/shadowsocks-go/netio"
	"github.com/database64128/shadowsocks-go/ss2022"
	"github.com/database64128/shadowsocks-go/stats"
	"go.uber.org/zap"
)

const None = "-"

// Env is one server with managed credentials.
type Env struct {
	Dir, Path string
	KeyLen    int
	IPSK      []byte
	TCP       *ss2022.StreamServer
	UDP       *ss2022.UDPServer
	Mgr       *cred.Manager
	MS        *cred.ManagedServer
	Mux       *http.ServeMux
	KeyNames  []string
	Logger    *zap.Logger
}

// Key returns the deterministic key material for an abstract key name.
func Key(name string, n int) []byte {
	h := sha256.Sum256([]byte("verif-upsk/" + name))
	return h[:n]
}

func (e *Env) KeyName(b []byte) string {
	for _, k := range e.KeyNames {
		if bytes.Equal(Key(k, e.KeyLen), b) {
			return k
		}
	}
	return "?" + base64.StdEncoding.EncodeToString(b)
}

// Content is a file content in the abstract: kind in {"doc","invalid","empty","partial"} and,
// for documents, the user -> key-name map ("-" = absent).
type Content struct {
	Kind string            `json:"kind"`
	M    map[string]string `json:"m"`
}

// Render turns an abstract content into file bytes.
func Render(c Content, keyLen int) []byte {
	switch c.Kind {
	case "empty":
		return nil
	case "invalid":
		return []byte("{\"A\": \"not base64 and not closed\n")
	case "partial":
		return []byte("{\n    \"A\": \"AAAA")
	}
	users := make([]string, 0, len(c.M))
	for u, k := range c.M {
		if k != None {
			users = append(users, u)
		}
	}
	sort.Strings(users)
	var sb strings.Builder
	sb.WriteString("{")
	for i, u := range users {
		if i > 0 {
			sb.WriteString(",")
		}
		fmt.Fprintf(&sb, "\n    %q: %q", u, base64.StdEncoding.EncodeToString(Key(c.M[u], keyLen)))
	}
	if len(users) > 0 {
		sb.WriteString("\n")
	}
	sb.WriteString("}\n")
	return []byte(sb.String())
}

// register mounts a restapi.HandlerFunc (an internal type) on regMux; passing this generic function
// itself to RegisterHandlers lets Go infer the handler type.
var (
	regMu  sync.Mutex
	regMux *http.ServeMux
)

func register[F ~func(http.ResponseWriter, *http.Request) (int, error)](method, path string, h F) {
	regMux.HandleFunc(method+" "+path, func(w http.ResponseWriter, r *http.Request) {
		_, _ = h(w, r)
	})
}

// New creates the environment. initial is written to the store file before registration.
func New(dir string, keyLen int, withTCP, withUDP bool, initial []byte, keyNames []string, logger *zap.Logger) (*Env, error) {
	if err := os.WriteFile(filepath.Join(dir, "upsks.json"), initial, 0o644); err != nil {
		return nil, err
	}
	return open(dir, keyLen, withTCP, withUDP, keyNames, logger)
}

// Open is what a (re)start of the service does with an existing store file.
func Open(dir string, keyLen int, keyNames []string) (*Env, error) {
	return open(dir, keyLen, true, true, keyNames, nil)
}

func open(dir string, keyLen int, withTCP, withUDP bool, keyNames []string, logger *zap.Logger) (*Env, error) {
	if logger == nil {
		logger = zap.NewNop()
	}
	e := &Env{Dir: dir, Path: filepath.Join(dir, "upsks.json"), KeyLen: keyLen, KeyNames: keyNames, Logger: logger}
	h := sha256.Sum256([]byte("verif-ipsk"))
	e.IPSK = h[:keyLen]
	var tcpStore, udpStore *ss2022.CredStore
	if withTCP {
		icc, err := ss2022.NewServerIdentityCipherConfig(e.IPSK, false)
		if err != nil {
			return nil, err
		}
		e.TCP = (&ss2022.StreamServerConfig{IdentityCipherConfig: icc}).NewStreamServer()
		tcpStore = &e.TCP.CredStore
	}
	if withUDP {
		icc, err := ss2022.NewServerIdentityCipherConfig(e.IPSK, true)
		if err != nil {
			return nil, err
		}
		e.UDP = ss2022.NewUDPServer(0, ss2022.UserCipherConfig{}, icc, ss2022.NoPadding)
		udpStore = &e.UDP.CredStore
	}
	e.Mgr = cred.NewManager(logger)
	ms, err := e.Mgr.RegisterServer("s", e.Path, keyLen, tcpStore, udpStore)
	if err != nil {
		return nil, err
	}
	e.MS = ms
	sm := ssm.NewServerManager(map[string]ssm.Server{"s": {CredentialManager: ms, StatsCollector: stats.Config{Enabled: true}.Collector()}}, []string{"s"})
	e.Mux = http.NewServeMux()
	regMu.Lock()
	regMux = e.Mux
	sm.RegisterHandlers(register)
	regMux = nil
	regMu.Unlock()
	return e, nil
}

// API performs one management API request in-process.
func (e *Env) API(method, path string, body any) (int, []byte) {
	var rd *bytes.Reader
	if body != nil {
		b, _ := json.Marshal(body)
		rd = bytes.NewReader(b)
	} else {
		rd = bytes.NewReader(nil)
	}
	req := httptest.NewRequest(method, path, rd)
	w := httptest.NewRecorder()
	e.Mux.ServeHTTP(w, req)
	return w.Code, w.Body.Bytes()
}

func ok(code int) string {
	if code >= 200 && code < 300 {
		return "ok"
	}
	return "error"
}

func (e *Env) Add(u, k string) string {
	code, _ := e.API("POST", "/servers/s/users", map[string]any{"username": u, "uPSK": Key(k, e.KeyLen)})
	return ok(code)
}

func (e *Env) Update(u, k string) string {
	code, _ := e.API("PATCH", "/servers/s/users/"+u, map[string]any{"uPSK": Key(k, e.KeyLen)})
	return ok(code)
}

func (e *Env) Delete(u string) string {
	code, _ := e.API("DELETE", "/servers/s/users/"+u, nil)
	return ok(code)
}

func (e *Env) Reload() string {
	code, _ := e.API("POST", "/servers/s/reload-users", nil)
	return ok(code)
}

// List is the API's view: user -> key name.
func (e *Env) List(users []string) (map[string]string, error) {
	code, body := e.API("GET", "/servers/s/users", nil)
	if code != 200 {
		return nil, fmt.Errorf("list users: status %d", code)
	}
	var resp struct {
		Users []struct {
			Name string `json:"username"`
			UPSK []byte `json:"uPSK"`
		} `json:"users"`
	}
	if err := json.Unmarshal(body, &resp); err != nil {
		return nil, err
	}
	m := map[string]string{}
	for _, u := range users {
		m[u] = None
	}
	for _, u := range resp.Users {
		m[u.Name] = e.KeyName(u.UPSK)
	}
	return m, nil
}

// Lookup is the live view of one store: key name -> user.
func (e *Env) Lookup(store string) map[string]string {
	m := map[string]string{}
	for _, k := range e.KeyNames {
		h := ss2022.PSKHash(Key(k, e.KeyLen))
		var c ss2022.ServerUserCipherConfig
		var found bool
		if store == "tcp" {
			c, found = e.TCP.LookupUser(h)
		} else {
			c, found = e.UDP.LookupUser(h)
		}
		if found {
			m[k] = c.Name
		} else {
			m[k] = None
		}
	}
	return m
}

// File reads the store file in the abstract.
func (e *Env) File(users []string) Content {
	return ParseFile(e.Path, users, e)
}

func ParseFile(path string, users []string, e *Env) Content {
	c := Content{M: map[string]string{}}
	for _, u := range users {
		c.M[u] = None
	}
	b, err := os.ReadFile(path)
	if err != nil {
		c.Kind = "nofile"
		return c
	}
	if len(b) == 0 {
		c.Kind = "empty"
		return c
	}
	var m map[string][]byte
	d := json.NewDecoder(bytes.NewReader(b))
	if err := d.Decode(&m); err != nil {
		c.Kind = "invalid"
		return c
	}
	c.Kind = "doc"
	for u, k := range m {
		c.M[u] = e.KeyName(k)
	}
	return c
}

type pipeClient struct {
	server *ss2022.StreamServer
	logger *zap.Logger
	res    chan hsResult
}

type hsResult struct {
	req netio.ConnRequest
	err error
}

func (c *pipeClient) NewStreamDialer() (netio.StreamDialer, netio.StreamDialerInfo) {
	return c, netio.StreamDialerInfo{Name: "pipe", NativeInitialPayload: true}
}

func (c *pipeClient) DialStream(ctx context.Context, addr conn.Addr, payload []byte) (netio.Conn, error) {
	pl, pr := netio.NewPipe()
	go func() {
		req, err := c.server.HandleStream(pr, c.logger)
		c.res <- hsResult{req, err}
		_ = pr.Close()
	}()
	go func() {
		_, _ = pl.Write(payload)
	}()
	return pl, nil
}

// HandshakeTCP performs a real TCP handshake with the user key and reports the user name the
// server attributes it to, or "-" when the server refuses it.
func (e *Env) HandshakeTCP(k string) (string, error) {
	ccc, err := ss2022.NewClientCipherConfig(Key(k, e.KeyLen), [][]byte{e.IPSK}, false)
	if err != nil {
		return "", err
	}
	pc := &pipeClient{server: e.TCP, logger: e.Logger, res: make(chan hsResult, 1)}
	client := (&ss2022.StreamClientConfig{Name: "c", InnerClient: pc, Addr: conn.AddrFromIPPort(netip.MustParseAddrPort("127.0.0.1:1")), CipherConfig: ccc}).NewStreamClient()
	target := conn.AddrFromIPPort(netip.MustParseAddrPort("10.1.2.3:80"))
	cc, err := client.DialStream(context.Background(), target, []byte("x"))
	if err != nil {
		return "", err
	}
	r := <-pc.res
	_ = cc.Close()
	if r.err != nil {
		if errors.Is(r.err, ss2022.ErrIdentityHeaderUserPSKNotFound) {
			return None, nil
		}
		return None, nil
	}
	if !r.req.Addr.Equals(target) {
		return "", fmt.Errorf("handshake delivered target %s", r.req.Addr)
	}
	return r.req.Username, nil
}

// HandshakeUDP sends a real first packet of a new client session made with the user key.
func (e *Env) HandshakeUDP(k string) (string, error) {
	ccc, err := ss2022.NewClientCipherConfig(Key(k, e.KeyLen), [][]byte{e.IPSK}, true)
	if err != nil {
		return "", err
	}
	serverAddr := conn.AddrFromIPPort(netip.MustParseAddrPort("127.0.0.1:1"))
	client := ss2022.NewUDPClient("c", "ip", serverAddr, 1500, conn.ListenConfig{}, 0, ccc, ss2022.NoPadding)
	info, sess, err := client.NewSession(context.Background())
	if err != nil {
		return "", err
	}
	defer sess.Close()
	front := info.PackerHeadroom.Front
	if h := e.UDP.Info().UnpackerHeadroom.Front; h > front {
		front = h
	}
	payload := []byte("udp-probe")
	b := make([]byte, front+len(payload)+info.PackerHeadroom.Rear+64)
	copy(b[front:], payload)
	target := conn.AddrFromIPPort(netip.MustParseAddrPort("10.1.2.3:53"))
	dest, ps, pl, err := sess.Packer.PackInPlace(context.Background(), b, target, front, len(payload))
	if err != nil {
		return "", err
	}
	pkt := b[ps : ps+pl]
	csid, err := e.UDP.SessionInfo(pkt)
	if err != nil {
		return "", err
	}
	unp, username, err := e.UDP.NewUnpacker(pkt, csid)
	if err != nil {
		return None, nil
	}
	ta, s, l, err := unp.UnpackInPlace(b, dest, ps, pl)
	if err != nil {
		return None, nil
	}
	if !ta.Equals(target) || !bytes.Equal(b[s:s+l], payload) {
		return "", fmt.Errorf("udp packet garbled")
	}
	return username, nil
}
