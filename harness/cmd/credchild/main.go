// credchild performs one real credential save (or one real start-up load) in its own process so
// that the parent can inject faults: a file-size limit (partial write + EFBIG), a SIGKILL at a
// verifhook point, or an strace of the system calls the save performs.
//
//	credchild -mode save -dir D -keylen 32 -old A=k1,B=k2 -op add:C=k3 [-fsize N] [-killat point]
//	credchild -mode load -dir D -keylen 32
package main

import (
	"context"
	"encoding/json"
	"flag"
	"fmt"
	"os"
	"os/signal"
	"strings"
	"syscall"

	"github.com/database64128/shadowsocks-go/verifhook"

	"verif/harness/internal/credenv"
)

var keyNames = []string{"k1", "k2", "k3", "k4", "k5"}
var users = []string{"A", "B", "C", "D", "E"}

func parseMap(s string) map[string]string {
	m := map[string]string{}
	for _, kv := range strings.Split(s, ",") {
		if kv == "" {
			continue
		}
		p := strings.SplitN(kv, "=", 2)
		m[p[0]] = p[1]
	}
	return m
}

func main() {
	mode := flag.String("mode", "save", "save | load")
	dir := flag.String("dir", "", "directory of the store file")
	keyLen := flag.Int("keylen", 32, "uPSK length")
	old := flag.String("old", "", "initial users user=key,...")
	op := flag.String("op", "", "add:U=k | del:U | upd:U=k")
	fsize := flag.Int64("fsize", -1, "RLIMIT_FSIZE applied just before the save")
	killAt := flag.String("killat", "", "verifhook point at which the process kills itself")
	flag.Parse()
	out := map[string]any{}
	emit := func() {
		json.NewEncoder(os.Stdout).Encode(out)
	}
	switch *mode {
	case "load":
		// what a restart does: RegisterServer -> LoadFromFile on the existing file
		e, err := credenv.Open(*dir, *keyLen, keyNames)
		if err != nil {
			out["loaded"] = false
			out["error"] = err.Error()
			emit()
			return
		}
		m, err := e.List(users)
		out["loaded"] = err == nil
		out["users"] = m
		// the restarted server must accept exactly the persisted users
		out["tcp"] = e.Lookup("tcp")
		out["udp"] = e.Lookup("udp")
		// and must be able to take a further change
		out["add_after_restart"] = e.Add("E", "k5")
		emit()
	case "save":
		signal.Ignore(syscall.SIGXFSZ)
		var initial []byte
		if *old == "@empty" {
			initial = []byte{} // a store file of zero bytes: no users (the freshly provisioned store)
		} else {
			initial = credenv.Render(credenv.Content{Kind: "doc", M: parseMap(*old)}, *keyLen)
		}
		e, err := credenv.New(*dir, *keyLen, true, true, initial, keyNames, nil)
		if err != nil {
			fmt.Fprintln(os.Stderr, "setup:", err)
			os.Exit(3)
		}
		ctx, cancel := context.WithCancel(context.Background())
		_ = e.Mgr.Start(ctx)
		p := strings.SplitN(*op, ":", 2)
		var res string
		switch p[0] {
		case "add":
			kv := strings.SplitN(p[1], "=", 2)
			res = e.Add(kv[0], kv[1])
		case "upd":
			kv := strings.SplitN(p[1], "=", 2)
			res = e.Update(kv[0], kv[1])
		case "del":
			res = e.Delete(p[1])
		}
		out["op"] = res
		if *killAt != "" {
			verifhook.Set(func(point string, args ...any) {
				if point == *killAt {
					_ = syscall.Kill(os.Getpid(), syscall.SIGKILL)
					select {}
				}
			})
		}
		if *fsize >= 0 {
			lim := syscall.Rlimit{Cur: uint64(*fsize), Max: uint64(*fsize)}
			if err := syscall.Setrlimit(syscall.RLIMIT_FSIZE, &lim); err != nil {
				fmt.Fprintln(os.Stderr, "setrlimit:", err)
				os.Exit(3)
			}
		}
		// the acknowledged change is saved when the service stops
		os.Stderr.WriteString("VERIF-SAVE-BEGIN\n")
		cancel()
		_ = e.Mgr.Stop()
		out["stopped"] = true
		emit()
	}
}
