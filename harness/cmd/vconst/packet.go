package main

import (
	"context"
	"net/netip"

	"github.com/database64128/shadowsocks-go/conn"
	"github.com/database64128/shadowsocks-go/direct"
	"github.com/database64128/shadowsocks-go/socks5"
	"github.com/database64128/shadowsocks-go/ss2022"
	"github.com/database64128/shadowsocks-go/zerocopy"
)

// Constants of the UDP packet layout family (specs/Packet/UdpLayout.tla, property C05): header field
// sizes, SOCKS address sizes, the IP/UDP overheads behind MaxPacketSizeForAddr, and the headroom every
// codec advertises (read from the objects the services ask: UDPClient.Info, UDPSessionServer.Info,
// UDPNATServer.Info, the packers' and unpackers' Info methods).  The MTU above which an IPv6 packet
// carries the jumbo payload option is a literal in zerocopy.MaxPacketSizeForAddr and is measured.  The
// cap of the padding length (math.MaxUint16 in the packers) follows from the width of the padding
// length field, CFix - 1 (type) - 8 (timestamp) bytes; the check script derives it.
func init() {
	extras = append(extras, func(c map[string]any) {
		p := map[string]any{
			"SepLen": int64(ss2022.UDPSeparateHeaderLength), "IdLen": int64(ss2022.IdentityHeaderLength),
			"CFix": int64(ss2022.UDPClientMessageHeaderFixedLength), "SFix": int64(ss2022.UDPServerMessageHeaderFixedLength),
			"CMax": int64(ss2022.UDPClientMessageHeaderMaxLength), "SMax": int64(ss2022.UDPServerMessageHeaderMaxLength),
			"MaxPaddingLength": int64(ss2022.MaxPaddingLength),
			"V4AddrLen":        int64(socks5.IPv4AddrLen), "V6AddrLen": int64(socks5.IPv6AddrLen), "MaxAddrLen": int64(socks5.MaxAddrLen),
			"IPv4Hdr": int64(zerocopy.IPv4HeaderLength), "IPv6Hdr": int64(zerocopy.IPv6HeaderLength),
			"UdpHdr": int64(zerocopy.UDPHeaderLength), "JumboOpt": int64(zerocopy.JumboPayloadOptionLength),
		}
		// largest MTU whose IPv6 packets do not carry the jumbo payload option
		v6 := netip.IPv6Loopback()
		jumbo := int64(-1)
		for mtu := 60000; mtu < 70000; mtu++ {
			if zerocopy.MaxPacketSizeForAddr(mtu, v6) != mtu-zerocopy.IPv6HeaderLength-zerocopy.UDPHeaderLength {
				jumbo = int64(mtu - 1)
				break
			}
		}
		p["JumboMtu"] = jumbo

		hr := func(h zerocopy.Headroom) []int64 { return []int64{int64(h.Front), int64(h.Rear)} }
		server := conn.AddrFromIPPort(netip.AddrPortFrom(netip.AddrFrom4([4]byte{192, 0, 2, 1}), 1080))
		cp := map[string]any{} // client packer (UDPClient.Info().PackerHeadroom)
		su := map[string]any{} // server unpacker (server Info().UnpackerHeadroom)
		sp := map[string]any{} // server packer
		cu := map[string]any{} // client unpacker
		psk := make([]byte, 16)
		names := []string{"ss0", "ss1", "ss2", "ss3"}
		for k := 0; k <= 3; k++ {
			ipsks := make([][]byte, k)
			for i := range ipsks {
				ipsks[i] = make([]byte, 16)
				ipsks[i][0] = byte(i + 1)
			}
			ccc, err := ss2022.NewClientCipherConfig(psk, ipsks, true)
			if err != nil {
				continue
			}
			cl := ss2022.NewUDPClient("vconst", "ip", server, 1500, conn.DefaultUDPClientListenConfig, 0, ccc, ss2022.NoPadding)
			cp[names[k]] = hr(cl.Info().PackerHeadroom)
		}
		if ucc, err := ss2022.NewUserCipherConfig(psk, true); err == nil {
			su["ss0"] = hr(ss2022.NewUDPServer(0, ucc, ss2022.ServerIdentityCipherConfig{}, ss2022.NoPadding).Info().UnpackerHeadroom)
		}
		if icc, err := ss2022.NewServerIdentityCipherConfig(psk, true); err == nil {
			su["ss1"] = hr(ss2022.NewUDPServer(0, ss2022.UserCipherConfig{}, icc, ss2022.NoPadding).Info().UnpackerHeadroom)
		}
		for _, n := range names {
			sp[n] = hr(ss2022.ShadowPacketServerMessageHeadroom)
			cu[n] = hr(ss2022.ShadowPacketServerMessageHeadroom)
		}
		p["Tag"] = int64(ss2022.ShadowPacketServerMessageHeadroom.Rear)

		cp["none"] = hr(direct.NewShadowsocksNoneUDPClient("vconst", "ip", server, 1500, conn.DefaultUDPClientListenConfig).Info().PackerHeadroom)
		su["none"] = hr(direct.ShadowsocksNoneUDPNATServer{}.Info().UnpackerHeadroom)
		sp["none"] = hr(direct.ShadowsocksNonePacketServerPacker{}.ServerPackerInfo().Headroom)
		cu["none"] = hr(direct.ShadowsocksNonePacketClientUnpacker{}.ClientUnpackerInfo().Headroom)

		cp["socks5"] = hr((&direct.Socks5UDPClientConfig{Name: "vconst", MTU: 1500}).NewClient().Info().PackerHeadroom)
		su["socks5"] = hr(direct.Socks5UDPNATServer{}.Info().UnpackerHeadroom)
		sp["socks5"] = hr(direct.Socks5PacketServerPacker{}.ServerPackerInfo().Headroom)
		cu["socks5"] = hr(direct.Socks5PacketClientUnpacker{}.ClientUnpackerInfo().Headroom)

		cp["direct"] = hr(direct.NewDirectUDPClient("vconst", "ip", 1500, conn.DefaultUDPClientListenConfig).Info().PackerHeadroom)
		su["direct"] = hr(direct.NewDirectUDPNATServer(server, false).Info().UnpackerHeadroom)
		sp["direct"] = hr(direct.DirectPacketServerPackUnpacker{}.ServerPackerInfo().Headroom)
		cu["direct"] = hr(direct.DirectPacketClientUnpacker{}.ClientUnpackerInfo().Headroom)

		// RSV RSV FRAG of a SOCKS5 UDP request (RFC 1928) is a literal in the SOCKS5 packers: measured on a packed packet
		rsv := int64(-1)
		func() {
			defer func() { _ = recover() }()
			const front, n = 64, 5
			b := make([]byte, front+n)
			target := conn.AddrFromIPPort(netip.AddrPortFrom(netip.AddrFrom4([4]byte{192, 0, 2, 7}), 53))
			pk := direct.NewSocks5PacketClientPacker(netip.AddrPortFrom(netip.AddrFrom4([4]byte{192, 0, 2, 1}), 1080), 1472)
			if _, start, plen, err := pk.PackInPlace(context.Background(), b, target, front, n); err == nil && start+plen == front+n {
				rsv = int64(plen - n - socks5.IPv4AddrLen)
			}
		}()
		p["Socks5Rsv"] = rsv

		p["HrClientPacker"], p["HrServerUnpacker"], p["HrServerPacker"], p["HrClientUnpacker"] = cp, su, sp, cu
		c["Packet"] = p
	})
}
