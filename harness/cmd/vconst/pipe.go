package main

import (
	"reflect"

	"github.com/database64128/shadowsocks-go/netio"
)

// Pipe (C15): the structural constants Pipe.tla relies on, read from a live *netio.PipeConn:
// the capacities of the data / count / done channels (the model is a rendezvous: all 0) and the
// presence of the fields the replay driver reaches into.
func init() {
	extras = append(extras, func(c map[string]any) {
		pl, pr := netio.NewPipe()
		defer pl.Close()
		defer pr.Close()
		v := reflect.ValueOf(pl).Elem()
		capOf := func(name string) int64 {
			f := v.FieldByName(name)
			if !f.IsValid() || f.Kind() != reflect.Chan {
				return -1
			}
			return int64(f.Cap())
		}
		c["PipeDataChanCap"] = capOf("wrTx")
		c["PipeCountChanCap"] = capOf("wrRx")
		c["PipeDoneChanCap"] = capOf("localDone")
		has := func(outer, inner string) bool {
			f := v.FieldByName(outer)
			if !f.IsValid() {
				return false
			}
			if inner == "" {
				return true
			}
			return f.Kind() == reflect.Struct && f.FieldByName(inner).IsValid()
		}
		c["PipeHasWrMu"] = has("wrMu", "")
		c["PipeDeadlineFields"] = has("readDeadline", "timer") && has("readDeadline", "cancel") && has("readDeadline", "mu") &&
			has("writeDeadline", "timer")
	})
}
