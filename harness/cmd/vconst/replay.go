package main

import (
	"math/bits"
	"reflect"
	"strconv"

	"github.com/database64128/shadowsocks-go/ss2022"
)

// Constants of the UDP replay family (C04): the block width and the allocated ring length of
// ss2022.SlidingWindowFilter for the window sizes of the property, and the minimum NAT timeout
// a Shadowsocks 2022 UDP server imposes on its relay.
func init() {
	extras = append(extras, func(c map[string]any) {
		c["SwfBlockBits"] = int64(bits.UintSize)
		ring := map[string]any{}
		for _, size := range []uint64{1, 2, 3, 63, 64, 65, 128, 256, 1000} {
			f := ss2022.NewSlidingWindowFilter(size)
			// len() of the unexported ring: reading the length through reflection is allowed;
			// -1 if the field is gone (the check then falls back to the documented formula).
			n := int64(-1)
			if v := reflect.ValueOf(f).Elem().FieldByName("ring"); v.IsValid() && v.Kind() == reflect.Slice {
				n = int64(v.Len())
			}
			ring[strconv.FormatUint(size, 10)] = n
		}
		c["SwfRingBlocks"] = ring
		ucc, err := ss2022.NewUserCipherConfig(make([]byte, 16), true)
		if err == nil {
			s := ss2022.NewUDPServer(0, ucc, ss2022.ServerIdentityCipherConfig{}, ss2022.NoPadding)
			c["UDPMinNATTimeoutNs"] = int64(s.Info().MinNATTimeout)
		}
	})
}
