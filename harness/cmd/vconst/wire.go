package main

import (
	"github.com/database64128/shadowsocks-go/conn"
	"github.com/database64128/shadowsocks-go/socks5"
)

// Constants of the proxy handshakes (specs/Wire/Handshake.tla, property C07).
func init() {
	extras = append(extras, func(c map[string]any) {
		w := map[string]int64{
			"Ver": socks5.Version, "AuthVer": socks5.UsernamePasswordAuthVersion,
			"MNoAuth": socks5.MethodNoAuthenticationRequired, "MUserPass": socks5.MethodUsernamePassword,
			"MNoAccept":  socks5.MethodNoAcceptable,
			"CmdConnect": socks5.CmdConnect, "CmdBind": socks5.CmdBind, "CmdUdp": socks5.CmdUDPAssociate,
			"AtypV4": socks5.AtypIPv4, "AtypDom": socks5.AtypDomainName, "AtypV6": socks5.AtypIPv6,
			"MaxAddrLen": socks5.MaxAddrLen,
			"RepOK":      socks5.ReplySucceeded, "RepFail": socks5.ReplyGeneralSocksServerFailure,
			"RepRuleset": socks5.ReplyConnectionNotAllowedByRuleset, "RepNetUnreach": socks5.ReplyNetworkUnreachable,
			"RepHostUnreach": socks5.ReplyHostUnreachable, "RepRefused": socks5.ReplyConnectionRefused,
			"RepCmd":    socks5.ReplyCommandNotSupported,
			"DcSuccess": int64(conn.DialResultCodeSuccess), "DcEACCES": int64(conn.DialResultCodeEACCES),
			"DcENETDOWN": int64(conn.DialResultCodeENETDOWN), "DcENETUNREACH": int64(conn.DialResultCodeENETUNREACH),
			"DcENETRESET": int64(conn.DialResultCodeENETRESET), "DcECONNABORTED": int64(conn.DialResultCodeECONNABORTED),
			"DcECONNRESET": int64(conn.DialResultCodeECONNRESET), "DcETIMEDOUT": int64(conn.DialResultCodeETIMEDOUT),
			"DcECONNREFUSED": int64(conn.DialResultCodeECONNREFUSED), "DcEHOSTDOWN": int64(conn.DialResultCodeEHOSTDOWN),
			"DcEHOSTUNREACH": int64(conn.DialResultCodeEHOSTUNREACH), "DcDNS": int64(conn.DialResultCodeErrDomainNameLookup),
			"DcOther": int64(conn.DialResultCodeErrOther),
		}
		c["Wire"] = w
		// the code's own table, for every possible code value (compared with the spec's ExpectedRep)
		tab := make([]int64, 256)
		for i := range tab {
			tab[i] = int64(socks5.ReplyFromDialResultCode(conn.DialResultCode(i)))
		}
		c["WireReplyTable"] = tab
	})
}
