package main

import (
	"go/ast"
	"go/parser"
	"go/token"
	"math/bits"
	"path/filepath"
	"reflect"
	"runtime"
	"strconv"

	"github.com/database64128/shadowsocks-go/clientgroups"
)

// Groups family (C19).  The availability ring is a uint (bits.UintSize rounds, exported by the
// standard library and used verbatim by clientgroups/probe.go).  The latency ring size and the
// probe defaults are unexported constants: they are read from the source file the compiled
// package was built from (located through the debug information of an exported method), so
// that a changed constant is a changed model; when the source cannot be read the keys are
// absent and the check falls back to the values the property text names (stated as assumed).
func init() {
	extras = append(extras, func(c map[string]any) {
		c["GroupsAvailRing"] = int64(bits.UintSize)
		pols := []string{
			string(clientgroups.PolicyRoundRobin), string(clientgroups.PolicyRandom), string(clientgroups.PolicyAvailability),
			string(clientgroups.PolicyLatency), string(clientgroups.PolicyMinMaxLatency),
		}
		c["GroupsPolicies"] = pols
		fn := runtime.FuncForPC(reflect.ValueOf((*clientgroups.ClientGroupConfig).AddClientGroup).Pointer())
		if fn == nil {
			return
		}
		file, _ := fn.FileLine(fn.Entry())
		if file == "" {
			return
		}
		src := filepath.Join(filepath.Dir(file), "probe.go")
		f, err := parser.ParseFile(token.NewFileSet(), src, nil, 0)
		if err != nil {
			return
		}
		c["GroupsSource"] = src
		units := map[string]int64{"Nanosecond": 1, "Microsecond": 1e3, "Millisecond": 1e6, "Second": 1e9, "Minute": 60e9, "Hour": 3600e9}
		var eval func(e ast.Expr) (int64, bool)
		eval = func(e ast.Expr) (int64, bool) {
			switch x := e.(type) {
			case *ast.BasicLit:
				if x.Kind == token.INT {
					v, err := strconv.ParseInt(x.Value, 0, 64)
					return v, err == nil
				}
			case *ast.ParenExpr:
				return eval(x.X)
			case *ast.SelectorExpr:
				if id, ok := x.X.(*ast.Ident); ok && id.Name == "time" {
					v, ok := units[x.Sel.Name]
					return v, ok
				}
			case *ast.BinaryExpr:
				a, ok1 := eval(x.X)
				b, ok2 := eval(x.Y)
				if ok1 && ok2 {
					switch x.Op {
					case token.MUL:
						return a * b, true
					case token.ADD:
						return a + b, true
					case token.SUB:
						return a - b, true
					case token.SHL:
						return a << uint(b), true
					}
				}
			}
			return 0, false
		}
		want := map[string]string{
			"latencyProbeResultSize":  "GroupsLatRing",
			"defaultProbeTimeout":     "GroupsDefaultTimeoutNs",
			"defaultProbeInterval":    "GroupsDefaultIntervalNs",
			"defaultProbeConcurrency": "GroupsDefaultConcurrency",
		}
		for _, d := range f.Decls {
			gd, ok := d.(*ast.GenDecl)
			if !ok || gd.Tok != token.CONST {
				continue
			}
			for _, sp := range gd.Specs {
				vs := sp.(*ast.ValueSpec)
				for i, n := range vs.Names {
					key, ok := want[n.Name]
					if !ok || i >= len(vs.Values) {
						continue
					}
					if v, ok := eval(vs.Values[i]); ok {
						c[key] = v
					}
				}
			}
		}
	})
}
