package main

import (
	"reflect"
	"strings"

	"github.com/database64128/shadowsocks-go/stats"
)

// Stats family (C14): the figures of stats.Traffic in declaration order (= the order in which
// snapshot()/snapshotAndReset() read them) under their JSON names, and the JSON name of the user
// name in stats.User, all read from the compiled types.
func init() {
	extras = append(extras, func(c map[string]any) {
		jsonName := func(f reflect.StructField) string {
			name, _, _ := strings.Cut(f.Tag.Get("json"), ",")
			if name == "" {
				name = f.Name
			}
			return name
		}
		var fields []string
		t := reflect.TypeFor[stats.Traffic]()
		for i := range t.NumField() {
			if t.Field(i).Type.Kind() == reflect.Uint64 {
				fields = append(fields, jsonName(t.Field(i)))
			}
		}
		c["StatsTrafficFields"] = fields
		u := reflect.TypeFor[stats.User]()
		for i := range u.NumField() {
			if u.Field(i).Type.Kind() == reflect.String {
				c["StatsUserNameField"] = jsonName(u.Field(i))
			}
		}
		s := reflect.TypeFor[stats.Server]()
		for i := range s.NumField() {
			if s.Field(i).Type.Kind() == reflect.Slice {
				c["StatsUsersField"] = jsonName(s.Field(i))
			}
		}
	})
}
