package main

import (
	"reflect"
	"strconv"
	"strings"

	"github.com/database64128/shadowsocks-go/domainset"
	"github.com/database64128/shadowsocks-go/router"
)

// Router family (C09).  MaxLinearDomains / MaxLinearSuffixes are exported constants.  The
// threshold between the range-set and the bit-set representation of a port criterion is a literal
// in router/route.go (`portRangeCount <= 16`), so it is measured: routes with n separate ports are
// built and the type of the resulting criterion is read by reflection.
func init() {
	extras = append(extras, func(c map[string]any) {
		c["MaxLinearDomains"] = int64(domainset.MaxLinearDomains)
		c["MaxLinearSuffixes"] = int64(domainset.MaxLinearSuffixes)
		c["MaxRangeSet"] = int64(measureMaxRangeSet())
	})
}

func portCriterionType(n int) string {
	parts := make([]string, n)
	for i := range parts {
		parts[i] = strconv.Itoa(1001 + 2*i)
	}
	rc := router.RouteConfig{Name: "probe", Client: "reject", ToPortRanges: strings.Join(parts, ",")}
	route, err := rc.Route(nil, nil, nil, nil, nil, nil, nil, nil, nil)
	if err != nil {
		return "error: " + err.Error()
	}
	cs := reflect.ValueOf(route).FieldByName("criteria")
	if !cs.IsValid() || cs.Len() != 1 {
		return "unknown"
	}
	v := cs.Index(0)
	for v.Kind() == reflect.Interface || v.Kind() == reflect.Pointer {
		v = v.Elem()
	}
	return v.Type().Name()
}

// measureMaxRangeSet returns the largest number of port ranges still kept as a PortRangeSet
// (-1 if the representation could not be read).
func measureMaxRangeSet() int {
	best := -1
	for n := 2; n <= 64; n++ {
		switch portCriterionType(n) {
		case "DestPortRangeSetCriterion":
			best = n
		case "DestPortSetCriterion":
			return best
		default:
			return -1
		}
	}
	return best
}
