package main

import (
	"math/bits"
	"unsafe"

	"github.com/database64128/shadowsocks-go/domainset"
	"github.com/database64128/shadowsocks-go/portset"
)

// Constants of the set family (C10): the rule counts at which the domain set builders switch
// matcher, and the word size / word count of portset.PortSet (its only field is the block array,
// so the count is the struct size over the word size).
func init() {
	extras = append(extras, func(c map[string]any) {
		c["MaxLinearDomains"] = int64(domainset.MaxLinearDomains)
		c["MaxLinearSuffixes"] = int64(domainset.MaxLinearSuffixes)
		c["PortBlockBits"] = int64(bits.UintSize)
		c["PortNBlocks"] = int64(unsafe.Sizeof(portset.PortSet{}) / (bits.UintSize / 8))
	})
}
