package main

import (
	"net/netip"
	"os"
	"path/filepath"
	"reflect"
	"runtime"
	"strings"

	"github.com/database64128/shadowsocks-go/conn"
	"github.com/database64128/shadowsocks-go/prefixset"
	"github.com/database64128/shadowsocks-go/router"
	"github.com/database64128/shadowsocks-go/service"
	"github.com/database64128/shadowsocks-go/ss2022"
	"go.uber.org/zap"
)

// Constants of the configuration family (C18, specs/Config/Config.tla): what the compiled code
// does where the documentation and the code are known to be able to differ.  Each value is
// obtained by asking the code (exported API only), not by reading its source.
func init() {
	extras = append(extras, func(c map[string]any) {
		rej := func(p ss2022.RejectPolicy) string {
			if p == nil {
				return ""
			}
			n := runtime.FuncForPC(reflect.ValueOf(p).Pointer()).Name()
			return n[strings.LastIndex(n, ".")+1:]
		}
		pad := func(p ss2022.PaddingPolicy) string {
			if p == nil {
				return ""
			}
			dns := p(conn.MustAddrFromDomainPort("example.com", 53))
			web := p(conn.MustAddrFromDomainPort("example.com", 443))
			switch {
			case dns && web:
				return "PadAll"
			case dns:
				return "PadPlainDNS"
			case !web:
				return "NoPadding"
			}
			return "?"
		}
		var rf ss2022.RejectPolicyField
		c["CfgOmittedReject"] = rej(rf.Policy())
		if err := rf.UnmarshalText(nil); err == nil {
			c["CfgEmptyReject"] = rej(rf.Policy())
		} else {
			c["CfgEmptyReject"] = "?"
		}
		var pf ss2022.PaddingPolicyField
		c["CfgOmittedPad"] = pad(pf.Policy())
		if err := pf.UnmarshalText(nil); err == nil {
			c["CfgEmptyPad"] = pad(pf.Policy())
		} else {
			c["CfgEmptyPad"] = "?"
		}

		// is a direct server with a domain tunnelRemoteAddress and tunnelUDPTargetOnly refused at load?
		udp := []service.UDPListenerConfig{{ListenerConfig: service.ListenerConfig{Network: "udp", Address: "127.0.0.1:0"}}}
		sc := service.Config{Servers: []service.ServerConfig{{
			Name: "t", Protocol: "direct", UDPListeners: udp, MTU: 1500,
			TunnelRemoteAddress: conn.MustAddrFromDomainPort("localhost", 53), TunnelUDPTargetOnly: true,
		}}}
		m, err := sc.Manager(zap.NewNop())
		c["CfgRefusesDomainTargetOnly"] = err != nil
		if m != nil {
			m.Close()
		}
		// the same server with an IP address must load, or the probe above says nothing
		sc = service.Config{Servers: []service.ServerConfig{{
			Name: "t", Protocol: "direct", UDPListeners: udp, MTU: 1500,
			TunnelRemoteAddress: conn.AddrFromIPPort(netip.MustParseAddrPort("127.0.0.1:53")), TunnelUDPTargetOnly: true,
		}}}
		m, err = sc.Manager(zap.NewNop())
		c["CfgProbeBaselineLoads"] = err == nil
		if m != nil {
			m.Close()
		}

		// are two prefix sets of one name refused?
		dir, err := os.MkdirTemp("", "vconst-cfg-")
		if err == nil {
			defer os.RemoveAll(dir)
			p := filepath.Join(dir, "p.txt")
			_ = os.WriteFile(p, []byte("10.0.0.0/8\n"), 0o600)
			sc = service.Config{
				Servers: []service.ServerConfig{{Name: "t", Protocol: "socks5",
					TCPListeners: []service.TCPListenerConfig{{ListenerConfig: service.ListenerConfig{Network: "tcp", Address: "127.0.0.1:0"}}}}},
				Router: router.Config{PrefixSets: []prefixset.Config{{Name: "p0", Path: p}, {Name: "p0", Path: p}}},
			}
			m, err = sc.Manager(zap.NewNop())
			c["CfgRefusesDuplicateSets"] = err != nil
			if m != nil {
				m.Close()
			}
		}
	})
}
