// vconst prints, as JSON, the constants of the compiled code that the TLA+ specifications
// take as CONSTANTS, so that a changed constant is a changed model.
package main

import (
	"encoding/json"
	"os"

	"github.com/database64128/shadowsocks-go/ss2022"
)

// extras lets each family add its constants from its own file (init() appends).
var extras []func(map[string]any)

func main() {
	c := map[string]any{
		"MaxEpochDiff":             int64(ss2022.MaxEpochDiff),
		"MaxTimeDiffNs":            int64(ss2022.MaxTimeDiff),
		"ReplayWindowNs":           int64(ss2022.ReplayWindowDuration),
		"DefaultSlidingWindowSize": int64(ss2022.DefaultSlidingWindowFilterSize),
		"MaxPaddingLength":         int64(ss2022.MaxPaddingLength),
		"IdentityHeaderLength":     int64(ss2022.IdentityHeaderLength),
	}
	for _, f := range extras {
		f(c)
	}
	json.NewEncoder(os.Stdout).Encode(c)
}
