package main

import (
	"github.com/database64128/shadowsocks-go/conn"
	"github.com/database64128/shadowsocks-go/direct"
	"github.com/database64128/shadowsocks-go/socks5"
	"github.com/database64128/shadowsocks-go/ss2022"
)

// Constants of the wire grammars (specs/Wire/Lattice.tla, property C06).  Everything the parser
// programs of the specification compute with is read here from the compiled code; tagSize is not
// exported and is measured on a real AEAD.
func init() {
	extras = append(extras, func(c map[string]any) {
		l := map[string]int64{
			"Ver": socks5.Version, "AuthVer": socks5.UsernamePasswordAuthVersion,
			"MNoAuth": socks5.MethodNoAuthenticationRequired, "MUserPass": socks5.MethodUsernamePassword,
			"MNoAccept":  socks5.MethodNoAcceptable,
			"CmdConnect": socks5.CmdConnect, "CmdBind": socks5.CmdBind, "CmdUdp": socks5.CmdUDPAssociate,
			"AtypV4": socks5.AtypIPv4, "AtypDom": socks5.AtypDomainName, "AtypV6": socks5.AtypIPv6,
			"IPv4AddrLen": socks5.IPv4AddrLen, "IPv6AddrLen": socks5.IPv6AddrLen, "MaxAddrLen": socks5.MaxAddrLen,
			"RepOK": socks5.ReplySucceeded, "RepCmd": socks5.ReplyCommandNotSupported,
			"TcpReqFixed": ss2022.TCPRequestFixedLengthHeaderLength,
			"UdpSep":      ss2022.UDPSeparateHeaderLength,
			"UdpCliFixed": ss2022.UDPClientMessageHeaderFixedLength,
			"UdpSrvFixed": ss2022.UDPServerMessageHeaderFixedLength,
			"MaxPadding":  ss2022.MaxPaddingLength, "IdHdr": ss2022.IdentityHeaderLength,
			"MaxEpochDiff":  ss2022.MaxEpochDiff,
			"TypeCliStream": ss2022.HeaderTypeClientStream, "TypeSrvStream": ss2022.HeaderTypeServerStream,
			"TypeCliPacket": ss2022.HeaderTypeClientPacket, "TypeSrvPacket": ss2022.HeaderTypeServerPacket,
			"S5CliFront":   int64(direct.Socks5PacketClientMessageHeadroom.Front),
			"S5SrvFront":   int64(direct.Socks5PacketServerMessageHeadroom.Front),
			"NoneCliFront": int64(direct.ShadowsocksNonePacketClientMessageHeadroom.Front),
			"NoneSrvFront": int64(direct.ShadowsocksNonePacketServerMessageHeadroom.Front),
			"SsCliFront":   int64(ss2022.ShadowPacketClientMessageHeadroom(0).Front),
			"SsSrvFront":   int64(ss2022.ShadowPacketServerMessageHeadroom.Front),
		}
		l["TagSize"] = -1
		if ucc, err := ss2022.NewUserCipherConfig(make([]byte, 32), true); err == nil {
			if aead, err := ucc.AEAD(make([]byte, 8)); err == nil {
				l["TagSize"] = int64(aead.Overhead())
			}
		}
		c["Lattice"] = l
		// every dial result code the code names, with the SOCKS5 reply the code maps it to
		codes := []conn.DialResultCode{conn.DialResultCodeSuccess, conn.DialResultCodeEACCES, conn.DialResultCodeENETDOWN,
			conn.DialResultCodeENETUNREACH, conn.DialResultCodeENETRESET, conn.DialResultCodeECONNABORTED,
			conn.DialResultCodeECONNRESET, conn.DialResultCodeETIMEDOUT, conn.DialResultCodeECONNREFUSED,
			conn.DialResultCodeEHOSTDOWN, conn.DialResultCodeEHOSTUNREACH, conn.DialResultCodeErrDomainNameLookup,
			conn.DialResultCodeErrOther}
		tab := make([][2]int64, 0, len(codes)+2)
		for _, k := range codes {
			tab = append(tab, [2]int64{int64(k), int64(socks5.ReplyFromDialResultCode(k))})
		}
		// two values no constant names (the type is a uint8: every value can be constructed)
		for _, k := range []conn.DialResultCode{1, 200} {
			tab = append(tab, [2]int64{int64(k), int64(socks5.ReplyFromDialResultCode(k))})
		}
		c["LatticeDialCodes"] = tab
	})
}
