//go:build verif

package main

import (
	"fmt"

	"github.com/database64128/shadowsocks-go/socks5"
	"github.com/database64128/shadowsocks-go/ss2022"

	"verif/harness/drivers/c01/streamkit"
)

// Constants of the Stream family (C01/C02).  The exported ones are read directly; the unexported
// ones (tagSize, streamMaxPayloadSize, the payload capacity of the server's first write buffer)
// are measured on the compiled code by running a real tunnel over a recording transport.
func init() {
	extras = append(extras, func(c map[string]any) {
		c["TCPRequestFixedLengthHeaderLength"] = int64(ss2022.TCPRequestFixedLengthHeaderLength)
		c["Socks5IPv4AddrLen"] = int64(socks5.IPv4AddrLen)
		c["Socks5IPv6AddrLen"] = int64(socks5.IPv6AddrLen)
		c["Socks5MaxAddrLen"] = int64(socks5.MaxAddrLen)
		fail := func(err error) { c["StreamProbeError"] = err.Error() }

		// tagSize: AEAD overhead of the stream cipher
		ucc, err := ss2022.NewUserCipherConfig(streamkit.Bytes(1, "vconst", 16), false)
		if err != nil {
			fail(err)
			return
		}
		sc, err := ucc.ShadowStreamCipher(streamkit.Bytes(1, "salt", 16))
		if err != nil {
			fail(err)
			return
		}
		tag := len(sc.EncryptAppend(nil, []byte{0})) - 1
		c["StreamTag"] = int64(tag)

		firstCap := map[string]int64{}
		for _, keyLen := range []int{16, 32} {
			for _, rspPfx := range []int{0, 19, 70000} {
				p, err := streamkit.NewPairFor(streamkit.Config{KeyLen: keyLen, RspPfx: rspPfx, Seed: 1}, "vconst")
				if err != nil {
					fail(err)
					return
				}
				target, _ := streamkit.Target(7, 1, false)
				s, err := p.Dial(target, nil)
				if err != nil {
					fail(err)
					return
				}
				s.TL.Tx.Deliver(-1)
				if err := s.Handle(); err != nil {
					fail(err)
					return
				}
				// streamMaxPayloadSize: payload of the first chunk of one large client write
				if keyLen == 16 && rspPfx == 0 {
					before := len(s.TL.Tx.Writes)
					if _, err := s.CConn.Write(make([]byte, 300000)); err != nil {
						fail(err)
						return
					}
					c["StreamMaxChunk"] = int64(s.TL.Tx.Writes[before] - 2 - 2*tag)
				}
				// first-write payload capacity: payload of the first chunk of one large server write
				if _, err := s.SConn.Write(make([]byte, 300000)); err != nil {
					fail(err)
					return
				}
				hdr := rspPfx + keyLen + ss2022.TCPRequestFixedLengthHeaderLength + keyLen + tag
				firstCap[fmt.Sprintf("%d/%d", keyLen, rspPfx)] = int64(s.TR.Tx.Writes[0] - hdr - tag)
			}
		}
		c["StreamFirstCap"] = firstCap
	})
}
