package main

func extra(map[string]any) {}
