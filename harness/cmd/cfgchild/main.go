//go:build verif

// cfgchild runs configuration cases of specs/Config (property C18) against the real
// service.Config.Manager in its own process, so that a panic of the code under test is a result
// of the case that was running and not the end of the check.
//
//	cfgchild -in cases.json -out results.ndjson -dir scratch [-start k] [-smoke=false]
//
// cases.json is an array of cfgkit.Case.  For every case from index k on the child appends a
// line {"begin": id} to the result file before it touches the code under test and the
// cfgkit.Result line after it.  A begin line without a result line is the case that killed the
// process; the parent restarts the child behind it.
package main

import (
	"encoding/json"
	"flag"
	"fmt"
	"os"

	"verif/harness/drivers/c18/cfgkit"
)

func main() {
	in := flag.String("in", "", "cases (JSON array)")
	out := flag.String("out", "", "results (NDJSON, appended)")
	dir := flag.String("dir", "", "scratch directory")
	start := flag.Int("start", 0, "index of the first case to run")
	smoke := flag.Bool("smoke", true, "start accepted configurations and run traffic")
	flag.Parse()
	fail := func(format string, a ...any) {
		fmt.Fprintf(os.Stderr, "cfgchild: "+format+"\n", a...)
		os.Exit(3)
	}
	b, err := os.ReadFile(*in)
	if err != nil {
		fail("%v", err)
	}
	var cases []cfgkit.Case
	if err := json.Unmarshal(b, &cases); err != nil {
		fail("%v", err)
	}
	f, err := os.OpenFile(*out, os.O_APPEND|os.O_CREATE|os.O_WRONLY, 0o600)
	if err != nil {
		fail("%v", err)
	}
	defer f.Close()
	w, err := cfgkit.NewWorld(*dir, *smoke)
	if err != nil {
		fail("fixtures: %v", err)
	}
	enc := json.NewEncoder(f)
	for i := *start; i < len(cases); i++ {
		if err := enc.Encode(map[string]int{"begin": cases[i].ID}); err != nil {
			fail("%v", err)
		}
		res := w.Run(&cases[i])
		if err := enc.Encode(res); err != nil {
			fail("%v", err)
		}
	}
}
