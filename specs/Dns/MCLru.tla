------------------------------- MODULE MCLru -------------------------------
(* Model-checking front end of Lru.tla (placeholders filled in by lib/props/c17.py). *)
EXTENDS Lru, Json
MCKeys == ${Keys}
MCVals == ${Vals}
View == sv
\* what the driver compares with cache.BoundedCache after every call: All(), Len(), membership
Obs == [fwd |-> [i \in 1..Len(Fwd) |-> [k |-> Fwd[i], v |-> val[Fwd[i]]]], len |-> Cardinality(map)]
Emit == PrintT("EDGE " \o ToJson([f |-> sv, a |-> act', t |-> sv', o |-> Obs']))
EmitInit == PrintT("INIT " \o ToJson([t |-> sv, o |-> Obs]))
InitE == Init /\ EmitInit
=============================================================================
