CONSTANTS
  Keys <- MCKeys
  Vals <- MCVals
  Cap = ${Cap}
  MaxOps = ${MaxOps}
INIT InitE
NEXT Next
VIEW View
${EMIT}
INVARIANTS TypeOK ListMapAgree Bounded RefinesLru
PROPERTIES EvictsLru
CHECK_DEADLOCK FALSE
