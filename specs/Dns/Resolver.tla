------------------------------ MODULE Resolver ------------------------------
(* The caching DNS resolver of shadowsocks-go.                                         *)
(* Code: dns/dns.go  Resolver.Lookup / sendQueries / sendQueriesUDP / sendQueriesTCP / *)
(*       doTCP / resultBuilder.parseMsg / Result.HasExpired;  cache/cache.go           *)
(*       BoundedCache (the pointer structure has its own module, Lru.tla; here the     *)
(*       cache is the sequence of entries in list order, head = least recently used).  *)
(*                                                                                     *)
(* One action per place where the code talks to the outside or to the cache:           *)
(*   Lookup      Resolver.Lookup entry: cache.Get under r.mu (promotes the node),      *)
(*               HasExpired, dnsmessage.NewName, then the first transport is started   *)
(*   UdpRecv     one iteration of the receive loop of sendQueriesUDP (source check,    *)
(*               parseMsg, truncation => TCP, isDone, cancel4/cancel6)                 *)
(*   UdpTimeout  the 20 s context of sendQueriesUDP expires (read deadline forced)     *)
(*   TcpDial     dialer.DialStream in doTCP returns (connection or error)              *)
(*   TcpRecv     one iteration of the read loop of doTCP (length, message, parseMsg)   *)
(*   TcpEof      io.EOF on the length field: doTCP returns true, sendQueriesTCP        *)
(*               retries the unanswered queries once ("for range 2")                   *)
(*   TcpCut      the stream ends inside a length field / message, or length = 0        *)
(*   TcpTimeout  the 20 s context of sendQueriesTCP expires (covers both attempts)     *)
(*   Cancel      the caller's context is cancelled                                     *)
(*   Advance     the clock moves                                                       *)
(* Returning (cache.Set under r.mu, serve-stale, ErrLookup) is part of the step that   *)
(* ends the last transport, exactly as in the code where nothing blocks in between.    *)
(*                                                                                     *)
(* Time is in whole seconds (DNS TTLs are whole seconds; the 20 s / 30 s constants of  *)
(* the code are CONSTANTS here and are measured on the compiled code by the check).    *)
(* Messages are abstract records (see Msg below); the check turns them into real DNS   *)
(* wire bytes.  Addresses are tokens.                                                  *)
EXTENDS Integers, Sequences, FiniteSets, TLC

CONSTANTS
    Names,          \* names that dnsmessage.NewName accepts
    BadNames,       \* names it rejects (longer than 254 bytes): sendQueries fails before any traffic
    Procs,          \* concurrent callers of Lookup
    Cap,            \* code: cacheSize given to NewResolver (<= 0: unbounded)
    HasUdp, HasTcp, \* code: r.udpClient # nil, r.tcpClient # nil
    FailTtl,        \* code: rcodeFailureCachingDuration, seconds
    Timeout,        \* code: lookupTimeout, seconds
    FailOverwrites, \* TRUE: a failure rcode OVERWRITES expiresAt (parseMsg as written);
                    \* FALSE: it takes the minimum like every other source (the design)
    SoaOnlyIfUnset, \* TRUE: the SOA (negative caching) TTL is read only while expiresAt is still
                    \* zero (parseMsg as written); FALSE: whenever the message has no answers, minimum
    Msgs,           \* the alphabet of upstream messages
    Deltas,         \* clock advances
    MaxAdv,         \* bound on the number of clock advances
    MaxLookups,     \* bound on the number of Lookup calls
    AllowCancel     \* whether caller cancellation is explored

ASSUME HasUdp \/ HasTcp        \* ResolverConfig.NewSimpleResolver refuses a resolver with neither

VARIABLES
    now,        \* the clock
    cache,      \* Seq of [n, a, aaaa, exp, bnd], head first (least recently used first)
    lk,         \* lk[p]: the Lookup call of caller p (see Idle)
    late,       \* ghost: some Lookup was answered from the cache after the property's bound
    nadv, nlook,
    act         \* last action with the outcome the model expects (output only, hidden by the VIEW)

sv == <<now, cache, lk, late, nadv, nlook>>
vars == <<sv, act>>

NoExp == -1         \* the zero time.Time: "no TTL seen"; HasExpired() is true for it at any time
NoSoa == -1
Inf == 1000000

-----------------------------------------------------------------------------
(* Messages.  k     name of the message kind (for reports)                             *)
(*            src   "srv" = the configured server, anything else = another UDP source  *)
(*            hdr   "ok" | "short" (fewer than 12 bytes: parser.Start fails)           *)
(*            id    "a" (the A query, ID 4) | "aaaa" (ID 6) | "foreign"                *)
(*            qr,ra,tc  header bits Response, RecursionAvailable, Truncated            *)
(*            rc    "ok" | "nx" | "fail" (FORMERR/SERVFAIL/NOTIMP/REFUSED) | "unk"      *)
(*            body  "ok" | "badq" (question section cut) | "badans" (cut after the     *)
(*                  listed answers) | "badauth" (authority section cut)                *)
(*            ans   Seq of [t \in {"A","AAAA","CNAME","TXT"}, ttl, ip] (TXT: + n bytes)       *)
(*            soa   TTL of the SOA record in the authority section, or NoSoa           *)

Min(x, y) == IF x < y THEN x ELSE y
\* code: if r.expiresAt.IsZero() || r.expiresAt.After(t) { r.expiresAt = t }
MinExp(e, t) == IF e = NoExp \/ e > t THEN t ELSE e

EmptyRb == [a |-> <<>>, aaaa |-> <<>>, exp |-> NoExp, v4 |-> FALSE, v6 |-> FALSE, bnd |-> Inf]
IsDone(rb) == rb.v4 /\ rb.v6                       \* resultBuilder.isDone
IdDone(rb, id) == IF id = "a" THEN rb.v4 ELSE rb.v6
Unanswered(rb) == (IF rb.v4 THEN {} ELSE {"a"}) \cup (IF rb.v6 THEN {} ELSE {"aaaa"})

\* the answer loop of parseMsg: every RR lowers expiresAt; A/AAAA RRs are appended by RR type
RECURSIVE FoldAns(_, _, _)
FoldAns(rb, ans, t) ==
    IF ans = <<>> THEN rb
    ELSE LET h == Head(ans)
             r1 == [rb EXCEPT !.exp = MinExp(@, t + h.ttl)]
             r2 == IF h.t = "A" THEN [r1 EXCEPT !.a = Append(@, h.ip)]
                   ELSE IF h.t = "AAAA" THEN [r1 EXCEPT !.aaaa = Append(@, h.ip)]
                   ELSE r1
         IN FoldAns(r2, Tail(ans), t)

RECURSIVE MinTtl(_)
MinTtl(ans) == IF ans = <<>> THEN Inf ELSE Min(Head(ans).ttl, MinTtl(Tail(ans)))

\* What the PROPERTY allows as lifetime for a result built from message m received at t:
\* the smallest TTL in it, the negative caching time if it is a negative answer, the failure
\* caching time if it is a failure.
MsgBound(m, t) ==
    LET pos == IF m.ans = <<>> THEN Inf ELSE t + MinTtl(m.ans)
        neg == IF m.ans = <<>> /\ m.rc # "fail" /\ m.soa # NoSoa THEN t + m.soa ELSE Inf
        fl  == IF m.rc = "fail" THEN t + FailTtl ELSE Inf
    IN Min(pos, Min(neg, fl))

\* resultBuilder.parseMsg(msg, isUDP) at time t.  Returns the new builder and whether an error
\* was returned.  Mirrors the order of the checks in the code, including what is already
\* modified when a later check fails.
Parse(rb, m, isUdp, t) ==
    IF m.hdr = "short" THEN [rb |-> rb, err |-> TRUE]                     \* parser.Start
    ELSE IF m.id = "foreign" THEN [rb |-> rb, err |-> TRUE]               \* unexpected transaction ID
    ELSE IF IdDone(rb, m.id) THEN [rb |-> rb, err |-> FALSE]              \* duplicate: return header, nil
    ELSE
      LET r0 == IF m.id = "a" THEN [rb EXCEPT !.a = <<>>] ELSE [rb EXCEPT !.aaaa = <<>>]
      IN IF ~m.qr \/ ~m.ra \/ m.rc = "unk" THEN [rb |-> r0, err |-> TRUE]
         ELSE
         LET r1 == IF m.rc = "fail"                                       \* RFC 9520 failure caching
                     THEN [r0 EXCEPT !.exp = IF FailOverwrites THEN t + FailTtl ELSE MinExp(@, t + FailTtl)]
                     ELSE r0
         IN IF m.body = "badq" THEN [rb |-> r1, err |-> TRUE]             \* SkipAllQuestions
            ELSE
            LET r2 == FoldAns(r1, m.ans, t)
            IN IF m.body = "badans" THEN [rb |-> r2, err |-> TRUE]        \* AnswerHeader / AResource
               ELSE
               LET readAuth == IF SoaOnlyIfUnset THEN r2.exp = NoExp
                                                 ELSE m.ans = <<>> /\ m.rc # "fail"
               IN IF readAuth /\ m.body = "badauth" THEN [rb |-> r2, err |-> TRUE]
                  ELSE
                  LET r3 == IF readAuth /\ m.soa # NoSoa
                              THEN [r2 EXCEPT !.exp = MinExp(@, t + m.soa)] ELSE r2
                      r4 == IF ~m.tc \/ ~isUdp                            \* mark v4 / v6 done
                              THEN [r3 EXCEPT !.v4 = @ \/ m.id = "a", !.v6 = @ \/ m.id = "aaaa",
                                              !.bnd = Min(@, MsgBound(m, t))]
                              ELSE r3
                  IN [rb |-> r4, err |-> FALSE]

-----------------------------------------------------------------------------
(* The cache: cache/cache.go BoundedCache seen through Get / Set (see Lru.tla).        *)
EffCap == IF Cap <= 0 THEN Inf ELSE Cap
Idx(c, n) == IF \E i \in 1..Len(c) : c[i].n = n THEN CHOOSE i \in 1..Len(c) : c[i].n = n ELSE 0
Without(c, i) == SubSeq(c, 1, i - 1) \o SubSeq(c, i + 1, Len(c))
\* Get: moveToTail even when the entry turns out to be expired
Touch(c, n) == LET i == Idx(c, n) IN IF i = 0 THEN c ELSE Append(Without(c, i), c[i])
\* Set: update + moveToTail, or insert at the tail evicting the head when full
SetC(c, e) == LET i == Idx(c, e.n)
              IN IF i # 0 THEN Append(Without(c, i), e)
                 ELSE Append(IF Len(c) = EffCap THEN Tail(c) ELSE c, e)
Content(c) == {c[i] : i \in 1..Len(c)}

-----------------------------------------------------------------------------
NoStale == [ok |-> FALSE, a |-> <<>>, aaaa |-> <<>>]
Idle == [ph |-> "idle",     \* "idle" | "udp" | "dial" (DialStream called, not returned) | "tcp"
         name |-> "",
         st |-> NoStale,    \* the (expired) entry cache.Get returned at the start: `result, ok`
         rb |-> EmptyRb,    \* newResult
         dl |-> 0,          \* deadline of the current transport's context
         att |-> 0,         \* DialStream calls made by sendQueriesTCP
         q |-> {},          \* queries in the payload of the current / last DialStream call
         asked |-> FALSE]   \* ghost: a transport was started

Act(n, p, arg, out) == [n |-> n, p |-> p, arg |-> arg, out |-> out]

\* --- the three ways a step of caller p can end (they set lk', cache', act') ---
Pending(p, L, n, arg) ==
    /\ lk' = [lk EXCEPT ![p] = L] /\ cache' = cache
    /\ act' = Act(n, p, arg, [r |-> "pending"])

\* sendQueriesTCP / its retry loop calls doTCP -> dialer.DialStream(ctx, serverAddr, queries)
ToDial(p, L, n, arg) ==
    LET qs == Unanswered(L.rb) IN
    /\ lk' = [lk EXCEPT ![p] = [L EXCEPT !.ph = "dial", !.q = qs, !.att = @ + 1, !.asked = TRUE]]
    /\ cache' = cache
    /\ act' = Act(n, p, arg, [r |-> "dial", q |-> qs])

\* sendQueries returned: Lookup stores and returns the new result, or serves the stale entry,
\* or fails with ErrLookup.
Return(p, L, n, arg) ==
    /\ lk' = [lk EXCEPT ![p] = Idle]
    /\ IF IsDone(L.rb)
         THEN /\ cache' = SetC(cache, [n |-> L.name, a |-> L.rb.a, aaaa |-> L.rb.aaaa, exp |-> L.rb.exp, bnd |-> L.rb.bnd])
              /\ act' = Act(n, p, arg, [r |-> "ok", a |-> L.rb.a, aaaa |-> L.rb.aaaa])
         ELSE /\ cache' = cache
              /\ IF L.st.ok THEN act' = Act(n, p, arg, [r |-> "stale", a |-> L.st.a, aaaa |-> L.st.aaaa])    \* RFC 8767
                            ELSE act' = Act(n, p, arg, [r |-> "error", a |-> <<>>, aaaa |-> <<>>])

\* the UDP leg of sendQueries is over: "Fallback to TCP if UDP failed or is unavailable"
EndUdp(p, L, n, arg) ==
    IF IsDone(L.rb) \/ ~HasTcp THEN Return(p, L, n, arg)
    ELSE ToDial(p, [L EXCEPT !.att = 0, !.dl = now + Timeout], n, arg)

\* doTCP returned ok (true: clean EOF or both done; false: any error)
EndTcp(p, L, ok, n, arg) ==
    IF ok /\ ~IsDone(L.rb) /\ L.att < 2 THEN ToDial(p, L, n, arg) ELSE Return(p, L, n, arg)

-----------------------------------------------------------------------------
\* A timer fires at its instant, before anything else happens at that instant.
TimerDue == \E q \in Procs : lk[q].ph # "idle" /\ now = lk[q].dl

Init ==
    /\ now = 0 /\ cache = <<>> /\ lk = [p \in Procs |-> Idle]
    /\ late = FALSE /\ nadv = 0 /\ nlook = 0
    /\ act = [n |-> "Init"]

\* Resolver.Lookup(ctx, name) up to its first blocking point.
Lookup(p, nm) ==
    /\ lk[p].ph = "idle" /\ nlook < MaxLookups /\ ~TimerDue
    /\ nlook' = nlook + 1 /\ UNCHANGED <<now, nadv>>
    /\ LET i == Idx(cache, nm)
           c1 == Touch(cache, nm)                       \* r.cache.Get(name) under r.mu
           ok == i # 0
           e  == IF ok THEN cache[i] ELSE [n |-> nm, a |-> <<>>, aaaa |-> <<>>, exp |-> NoExp, bnd |-> Inf]
           st == [ok |-> ok, a |-> e.a, aaaa |-> e.aaaa]
           L0 == [Idle EXCEPT !.name = nm, !.st = st]
       IN IF ok /\ e.exp # NoExp /\ now <= e.exp       \* ok && !result.HasExpired()
            THEN /\ cache' = c1 /\ lk' = lk
                 /\ late' = (late \/ now > e.bnd)
                 /\ act' = Act("Lookup", p, nm, [r |-> "hit", a |-> e.a, aaaa |-> e.aaaa])
          ELSE IF nm \in BadNames                        \* dnsmessage.NewName fails: no traffic at all
            THEN /\ cache' = c1 /\ lk' = lk /\ late' = late
                 /\ act' = Act("Lookup", p, nm, IF ok THEN [r |-> "stale", a |-> e.a, aaaa |-> e.aaaa]
                                                      ELSE [r |-> "error", a |-> <<>>, aaaa |-> <<>>])
          ELSE IF HasUdp                                 \* "Try UDP first if available"
            THEN /\ cache' = c1 /\ late' = late
                 /\ lk' = [lk EXCEPT ![p] = [L0 EXCEPT !.ph = "udp", !.dl = now + Timeout, !.asked = TRUE,
                                                        !.q = {"a", "aaaa"}]]
                 /\ act' = Act("Lookup", p, nm, [r |-> "udp", q |-> {"a", "aaaa"}])
          ELSE /\ late' = late
               /\ lk' = [lk EXCEPT ![p] = [L0 EXCEPT !.ph = "dial", !.dl = now + Timeout, !.asked = TRUE,
                                                      !.att = 1, !.q = {"a", "aaaa"}]]
               /\ cache' = c1
               /\ act' = Act("Lookup", p, nm, [r |-> "dial", q |-> {"a", "aaaa"}])

\* One datagram reaches the lookup's socket.
UdpRecv(p, m) ==
    /\ lk[p].ph = "udp" /\ ~TimerDue
    /\ UNCHANGED <<now, late, nadv, nlook>>
    /\ IF m.src # "srv"
         THEN Pending(p, lk[p], "UdpRecv", m)            \* "Ignoring UDP DNS response packet from unknown server"
         ELSE LET r == Parse(lk[p].rb, m, TRUE, now)
                  L == [lk[p] EXCEPT !.rb = r.rb]
              IN IF r.err THEN EndUdp(p, L, "UdpRecv", m)             \* parse error: break
                 ELSE IF m.tc THEN EndUdp(p, L, "UdpRecv", m)         \* "Immediately fall back to TCP"
                 ELSE IF IsDone(L.rb) THEN EndUdp(p, L, "UdpRecv", m)
                 ELSE Pending(p, L, "UdpRecv", m)                     \* cancel4() / cancel6()

\* The senders of sendQueriesUDP: the query for id is (re)sent every 2 s, at most 10 times, until a
\* response with that id was processed.  Derived, not a variable.
SenderActive(p, id) == lk[p].ph = "udp" /\ ~IdDone(lk[p].rb, id)

UdpTimeout(p) ==
    /\ lk[p].ph = "udp" /\ now = lk[p].dl
    /\ UNCHANGED <<now, late, nadv, nlook>>
    /\ EndUdp(p, lk[p], "UdpTimeout", "")

TcpDial(p, res) ==
    /\ lk[p].ph = "dial" /\ ~TimerDue
    /\ UNCHANGED <<now, late, nadv, nlook>>
    /\ IF res = "ok" THEN Pending(p, [lk[p] EXCEPT !.ph = "tcp"], "TcpDial", res)
                     ELSE EndTcp(p, lk[p], FALSE, "TcpDial", res)

TcpRecv(p, m) ==
    /\ lk[p].ph = "tcp" /\ ~TimerDue /\ m.src = "srv"
    /\ UNCHANGED <<now, late, nadv, nlook>>
    /\ LET r == Parse(lk[p].rb, m, FALSE, now)
           L == [lk[p] EXCEPT !.rb = r.rb]
       IN IF r.err THEN EndTcp(p, L, FALSE, "TcpRecv", m)
          ELSE IF IsDone(L.rb) THEN EndTcp(p, L, TRUE, "TcpRecv", m)
          ELSE Pending(p, L, "TcpRecv", m)

TcpEof(p) ==
    /\ lk[p].ph = "tcp" /\ ~TimerDue
    /\ UNCHANGED <<now, late, nadv, nlook>>
    /\ EndTcp(p, lk[p], TRUE, "TcpEof", "")

\* how: "len1" (one byte of the length field), "msg" (length, then part of the message),
\*      "zero" (length field 0), "big" (a complete frame of 2000 bytes of noise: longer than any
\*      UDP response the resolver advertises room for)
TcpCut(p, how) ==
    /\ lk[p].ph = "tcp" /\ ~TimerDue
    /\ UNCHANGED <<now, late, nadv, nlook>>
    /\ EndTcp(p, lk[p], FALSE, "TcpCut", how)

TcpTimeout(p) ==
    /\ lk[p].ph \in {"dial", "tcp"} /\ now = lk[p].dl
    /\ UNCHANGED <<now, late, nadv, nlook>>
    /\ EndTcp(p, lk[p], FALSE, "TcpTimeout", "")

\* The caller's context is cancelled: the read in progress fails (or DialStream does), the TCP leg
\* that would follow a UDP leg fails at once.
Cancel(p) ==
    /\ AllowCancel /\ lk[p].ph # "idle" /\ ~TimerDue
    /\ UNCHANGED <<now, late, nadv, nlook>>
    /\ Return(p, lk[p], "Cancel", "")

\* Timers fire at their instant: the clock cannot pass a pending deadline.
Advance(d) ==
    /\ nadv < MaxAdv
    /\ \A p \in Procs : lk[p].ph # "idle" => now + d <= lk[p].dl
    /\ now' = now + d /\ nadv' = nadv + 1
    /\ UNCHANGED <<cache, lk, late, nlook>>
    /\ act' = Act("Advance", "", d, [r |-> "time", now |-> now + d])

Next ==
    \/ \E p \in Procs, nm \in Names \cup BadNames : Lookup(p, nm)
    \/ \E p \in Procs, m \in Msgs : UdpRecv(p, m) \/ TcpRecv(p, m)
    \/ \E p \in Procs : UdpTimeout(p) \/ TcpTimeout(p) \/ TcpEof(p) \/ Cancel(p)
    \/ \E p \in Procs, res \in {"ok", "err"} : TcpDial(p, res)
    \/ \E p \in Procs, how \in {"len1", "msg", "zero", "big"} : TcpCut(p, how)
    \/ \E d \in Deltas : Advance(d)

Spec == Init /\ [][Next]_vars

\* SimpleResolver API on top of Lookup
LookupIPs(res) == res.aaaa \o res.a
LookupIP(res) == IF res.aaaa # <<>> THEN res.aaaa[1] ELSE IF res.a # <<>> THEN res.a[1] ELSE "ErrDomainNoAssociatedIPs"

-----------------------------------------------------------------------------
Range(s) == {s[i] : i \in 1..Len(s)}
Addrs(ans) == {ans[i].ip : i \in {j \in 1..Len(ans) : ans[j].t \in {"A", "AAAA"}}}
\* addresses that occur only in messages the property forbids to use
Evil == UNION {Addrs(m.ans) : m \in {x \in Msgs : x.src # "srv" \/ x.id = "foreign" \/ ~x.qr \/ x.hdr = "short"}}

TypeOK ==
    /\ now \in Nat /\ late \in BOOLEAN
    /\ \A i \in 1..Len(cache) : cache[i].n \in Names /\ cache[i].exp \in Nat \cup {NoExp}
    /\ \A p \in Procs : lk[p].ph \in {"idle", "udp", "dial", "tcp"} /\ lk[p].att \in 0..2
                        /\ (lk[p].ph # "idle" => lk[p].name \in Names /\ now <= lk[p].dl)

\* C17: only answers to the lookup's own queries from the configured server are ever used.
OnlyOwnAnswers ==
    /\ \A i \in 1..Len(cache) : (Range(cache[i].a) \cup Range(cache[i].aaaa)) \cap Evil = {}
    /\ \A p \in Procs : (Range(lk[p].rb.a) \cup Range(lk[p].rb.aaaa)) \cap Evil = {}

\* C17: a cached result is reused only until the smallest TTL / negative / failure caching time.
TtlHonoured == ~late
\* The stronger state form: what is stored never outlives the bound (holds for the design, i.e.
\* with FailOverwrites = SoaOnlyIfUnset = FALSE; with the code's semantics it fails before the
\* late reuse becomes observable, so the check lists it only for the design).
ExpiryIsMinimum == \A i \in 1..Len(cache) : cache[i].exp <= cache[i].bnd

\* cache/cache.go as seen from here: bounded, one entry per name.
LruConsistent ==
    /\ Len(cache) <= EffCap
    /\ \A i, j \in 1..Len(cache) : cache[i].n = cache[j].n => i = j

\* an in-flight lookup is consistent with the transports the resolver has
PhaseOK ==
    \A p \in Procs :
        /\ lk[p].ph = "udp" => HasUdp
        /\ lk[p].ph \in {"dial", "tcp"} => HasTcp /\ lk[p].att \in 1..2 /\ Unanswered(lk[p].rb) \subseteq lk[p].q
        /\ lk[p].ph # "idle" => ~IsDone(lk[p].rb) /\ lk[p].asked

\* --- action properties (they refer to act', which the step determines) ---
Ret(r) == act'.n # "Advance" /\ act'.out.r = r
Caller == act'.p

\* C17: TCP is tried iff UDP did not complete both answers; over TCP the unanswered queries (and
\* only those) are retried, once.
FallbackOrder ==
    [][ (act'.n # "Advance" /\ act'.out.r = "dial") =>
            /\ HasTcp
            /\ ~IsDone(lk'[Caller].rb)
            /\ act'.out.q = Unanswered(lk'[Caller].rb)
            /\ lk'[Caller].att <= 2
            /\ (HasUdp => lk[Caller].ph \in {"udp", "tcp"})
            /\ (lk[Caller].ph = "tcp" => lk[Caller].att = 1 /\ act'.n = "TcpEof") ]_vars

\* C17: failure is reported iff neither transport yielded both answers and nothing is cached;
\* success stores exactly the built result.
FailureMeansFailure ==
    [][ /\ Ret("error") => (~IsDone(lk[Caller].rb) \/ act'.n = "Lookup") /\ ~lk[Caller].st.ok
        /\ Ret("ok") => /\ lk[Caller].ph # "idle"
                        /\ Idx(cache', lk[Caller].name) = Len(cache')
                        /\ cache'[Len(cache')].a = act'.out.a /\ cache'[Len(cache')].aaaa = act'.out.aaaa ]_vars

\* C17: a stale entry is served only when upstream was asked and did not yield both answers.
StaleOnlyOnFailure ==
    [][ Ret("stale") => \/ /\ lk[Caller].asked /\ lk[Caller].st.ok /\ lk'[Caller].ph = "idle"
                           /\ act'.n \in {"UdpRecv", "UdpTimeout", "TcpDial", "TcpRecv", "TcpEof", "TcpCut", "TcpTimeout", "Cancel"}
                        \/ act'.n = "Lookup" /\ act'.arg \in BadNames ]_vars

\* C17: failed or malformed exchanges leave the cache unchanged (only a successful lookup writes;
\* a Lookup call merely promotes the entry it reads).
NoPoisoning ==
    [][ cache' # cache => \/ Ret("ok")
                          \/ act'.n = "Lookup" /\ Content(cache') = Content(cache) ]_vars

\* the clock never passes a pending deadline, so every timeout fires exactly at its instant
TimersFire == \A p \in Procs : lk[p].ph # "idle" => now <= lk[p].dl
=============================================================================
