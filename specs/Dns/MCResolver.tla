----------------------------- MODULE MCResolver -----------------------------
(* Model-checking front end of Resolver.tla.  ${...} placeholders are filled in by              *)
(* lib/props/c17.py (the code's constants are measured on the compiled resolver first).         *)
EXTENDS Resolver, Json

RR(t, ttl, ip) == [t |-> t, ttl |-> ttl, ip |-> ip]
\* a well-formed response from the configured server
M(k, id, rc, ans, soa) ==
    [k |-> k, src |-> "srv", hdr |-> "ok", id |-> id, qr |-> TRUE, ra |-> TRUE, tc |-> FALSE,
     rc |-> rc, body |-> "ok", ans |-> ans, soa |-> soa]

\* The message kinds of the property's quantifier: valid, NXDOMAIN+SOA, NODATA with / without SOA,
\* failure rcodes, truncated, wrong id, wrong source, not-a-response, RA=0, unknown rcode, garbage
\* (short, cut in the question / answer / authority section).  TTLs: T1 < TS < TF=FailTtl < T2.
T0 == ${T0}      \* TTL of the answer in front of a cut answer section (0 in virtual time)
T1 == ${T1}
T2 == ${T2}
TS == ${TS}
Kind(k) ==
    CASE k = "A1"    -> M(k, "a", "ok", <<RR("A", T1, "a1")>>, NoSoa)
      [] k = "A2"    -> M(k, "a", "ok", <<RR("CNAME", T2, ""), RR("A", T2, "a1"), RR("A", T2, "a2")>>, NoSoa)
      [] k = "Ac"    -> M(k, "a", "ok", <<RR("CNAME", T1, ""), RR("A", T2, "a3")>>, NoSoa)   \* CNAME TTL is the smallest
      \* more than 1232 bytes (the advertised EDNS(0) size) of answer section: two addresses and ~1.5 KB of
      \* TXT records in between, which parseMsg skips but whose TTL counts.  TCP alphabets only.
      [] k = "Abig"  -> M(k, "a", "ok", <<RR("A", T2, "a1"), [t |-> "TXT", ttl |-> T2, ip |-> "", n |-> 1500], RR("A", T2, "a2")>>, NoSoa)
      [] k = "Bbig"  -> M(k, "aaaa", "ok", <<[t |-> "TXT", ttl |-> T2, ip |-> "", n |-> 2400], RR("AAAA", T2, "b1")>>, NoSoa)
      [] k = "Anx"   -> M(k, "a", "nx", <<>>, TS)
      [] k = "And"   -> M(k, "a", "ok", <<>>, NoSoa)                                   \* NODATA without SOA
      [] k = "Ands"  -> M(k, "a", "ok", <<>>, TS)                                      \* NODATA with SOA
      [] k = "Afail" -> M(k, "a", "fail", <<>>, NoSoa)
      [] k = "Atc"   -> [M(k, "a", "ok", <<RR("A", T1, "a4")>>, NoSoa) EXCEPT !.tc = TRUE]
      [] k = "Aq0"   -> [M(k, "a", "ok", <<RR("A", T2, "x1")>>, NoSoa) EXCEPT !.qr = FALSE] \* a query, not a response
      [] k = "Ara0"  -> [M(k, "a", "ok", <<RR("A", T2, "a5")>>, NoSoa) EXCEPT !.ra = FALSE]
      [] k = "Aunk"  -> M(k, "a", "unk", <<>>, NoSoa)
      [] k = "Abq"   -> [M(k, "a", "fail", <<>>, NoSoa) EXCEPT !.body = "badq"]        \* failure rcode, then garbage
      [] k = "Aba"   -> [M(k, "a", "ok", <<RR("A", T0, "a6")>>, NoSoa) EXCEPT !.body = "badans"]
      [] k = "Abau"  -> [M(k, "a", "ok", <<>>, TS) EXCEPT !.body = "badauth"]
      [] k = "B1"    -> M(k, "aaaa", "ok", <<RR("AAAA", T1, "b1")>>, NoSoa)
      [] k = "B2"    -> M(k, "aaaa", "ok", <<RR("AAAA", T2, "b1"), RR("AAAA", T2, "b2")>>, NoSoa)
      [] k = "Bnx"   -> M(k, "aaaa", "nx", <<>>, TS)
      [] k = "Bnd"   -> M(k, "aaaa", "ok", <<>>, NoSoa)
      [] k = "Bnds"  -> M(k, "aaaa", "ok", <<>>, TS)
      [] k = "Bfail" -> M(k, "aaaa", "fail", <<>>, NoSoa)
      [] k = "Btc"   -> [M(k, "aaaa", "ok", <<RR("AAAA", T1, "b4")>>, NoSoa) EXCEPT !.tc = TRUE]
      [] k = "Bq0"   -> [M(k, "aaaa", "ok", <<RR("AAAA", T2, "y1")>>, NoSoa) EXCEPT !.qr = FALSE]
      [] k = "Bra0"  -> [M(k, "aaaa", "ok", <<RR("AAAA", T2, "b5")>>, NoSoa) EXCEPT !.ra = FALSE]
      [] k = "Bba"   -> [M(k, "aaaa", "ok", <<RR("AAAA", T0, "b6")>>, NoSoa) EXCEPT !.body = "badans"]
      [] k = "Bbau"  -> [M(k, "aaaa", "ok", <<>>, TS) EXCEPT !.body = "badauth"]
      [] k = "Fid"   -> M(k, "foreign", "ok", <<RR("A", T2, "x2"), RR("AAAA", T2, "y2")>>, NoSoa)
      [] k = "Short" -> [M(k, "a", "ok", <<>>, NoSoa) EXCEPT !.hdr = "short"]
      [] k = "OA2"   -> [M(k, "a", "ok", <<RR("A", T2, "x3")>>, NoSoa) EXCEPT !.src = "otherport"]
      [] k = "OB2"   -> [M(k, "aaaa", "ok", <<RR("AAAA", T2, "y3")>>, NoSoa) EXCEPT !.src = "otherip"]

MCMsgs == {Kind(k) : k \in ${Kinds}}
MCDeltas == ${Deltas}
MCNames == ${Names}
MCBadNames == ${BadNames}
MCProcs == ${Procs}

View == sv
\* what the driver compares with the real resolver after every step: the cache in list order
Obs == [now |-> now,
        cache |-> [i \in 1..Len(cache) |-> [n |-> cache[i].n, a |-> cache[i].a, aaaa |-> cache[i].aaaa, exp |-> cache[i].exp, bnd |-> cache[i].bnd]],
        ph |-> [p \in Procs |-> lk[p].ph]]
Emit == PrintT("EDGE " \o ToJson([f |-> sv, a |-> act', t |-> sv', o |-> Obs']))
EmitInit == PrintT("INIT " \o ToJson([t |-> sv, o |-> Obs]))
InitE == Init /\ EmitInit
=============================================================================
