-------------------------------- MODULE Lru --------------------------------
(* cache/cache.go BoundedCache: a map from keys to nodes of a doubly linked list; the head is   *)
(* the least recently used node, the tail the most recently used one; an insertion into a full  *)
(* cache evicts the head.  The module follows the pointer manipulation of insert / moveToTail / *)
(* remove line by line (a node is identified by its key, every key has at most one node) and    *)
(* checks that the structure stays a well-formed list that agrees with the map and with the     *)
(* abstract LRU sequence `abs` kept alongside.                                                  *)
EXTENDS Integers, Sequences, FiniteSets, TLC

CONSTANTS Keys, Vals, Cap, MaxOps

Nil == "nil"

VARIABLES
    map,        \* nodeByKey: the set of keys that have a node
    val,        \* node.Value
    prev, next, \* node.prev, node.next  (Nil = nil pointer)
    head, tail,
    abs,        \* ghost: Seq of [k, v], least recently used first
    nops,
    act

sv == <<map, val, prev, next, head, tail, abs, nops>>
vars == <<sv, act>>

Act(n, k, v, out) == [n |-> n, k |-> k, v |-> v, out |-> out]

Init ==
    /\ map = {} /\ val = [k \in Keys |-> 0]
    /\ prev = [k \in Keys |-> Nil] /\ next = [k \in Keys |-> Nil]
    /\ head = Nil /\ tail = Nil /\ abs = <<>> /\ nops = 0
    /\ act = [n |-> "Init"]

\* ---- the three private list operations, as functions on the record of list variables ----
S == [map |-> map, val |-> val, prev |-> prev, next |-> next, head |-> head, tail |-> tail]

\* func (c *BoundedCache) remove(node)
RemoveNode(s, n) ==
    LET s1 == [s EXCEPT !.map = @ \ {n}]
        s2 == IF s1.prev[n] # Nil THEN [s1 EXCEPT !.next[s1.prev[n]] = s1.next[n]]
                                  ELSE [s1 EXCEPT !.head = s1.next[n]]
        s3 == IF s2.next[n] # Nil THEN [s2 EXCEPT !.prev[s2.next[n]] = s2.prev[n]]
                                  ELSE [s2 EXCEPT !.tail = s2.prev[n]]
    IN s3

\* func (c *BoundedCache) insert(key, value)
InsertNode(s, k, v) ==
    LET s0 == IF Cardinality(s.map) = Cap THEN RemoveNode(s, s.head) ELSE s
        s1 == [s0 EXCEPT !.prev[k] = s0.tail, !.next[k] = Nil, !.val[k] = v, !.map = @ \cup {k}]
        s2 == IF s1.tail # Nil THEN [s1 EXCEPT !.next[s1.tail] = k] ELSE [s1 EXCEPT !.head = k]
    IN [s2 EXCEPT !.tail = k]

\* func (c *BoundedCache) moveToTail(node)
MoveToTail(s, n) ==
    IF s.next[n] = Nil THEN s
    ELSE LET s1 == [s EXCEPT !.prev[s.next[n]] = s.prev[n]]
             s2 == IF s1.prev[n] # Nil THEN [s1 EXCEPT !.next[s1.prev[n]] = s1.next[n]]
                                       ELSE [s1 EXCEPT !.head = s1.next[n]]
             s3 == [s2 EXCEPT !.prev[n] = s2.tail, !.next[n] = Nil]
             s4 == [s3 EXCEPT !.next[s3.tail] = n]
         IN [s4 EXCEPT !.tail = n]

Install(s) ==
    /\ map' = s.map /\ val' = s.val /\ prev' = s.prev /\ next' = s.next /\ head' = s.head /\ tail' = s.tail

\* ---- the abstract LRU sequence ----
AIdx(k) == IF \E i \in 1..Len(abs) : abs[i].k = k THEN CHOOSE i \in 1..Len(abs) : abs[i].k = k ELSE 0
AWithout(i) == SubSeq(abs, 1, i - 1) \o SubSeq(abs, i + 1, Len(abs))
ATouch(k) == LET i == AIdx(k) IN IF i = 0 THEN abs ELSE Append(AWithout(i), abs[i])
AInsert(k, v) == Append(IF Len(abs) = Cap THEN Tail(abs) ELSE abs, [k |-> k, v |-> v])

Step == nops < MaxOps /\ nops' = nops + 1

\* ---- the public operations ----
Get(k) ==          \* also GetEntry
    /\ Step
    /\ IF k \in map
         THEN /\ Install(MoveToTail(S, k)) /\ abs' = ATouch(k)
              /\ act' = Act("Get", k, 0, [ok |-> TRUE, v |-> val[k]])
         ELSE /\ UNCHANGED <<map, val, prev, next, head, tail, abs>>
              /\ act' = Act("Get", k, 0, [ok |-> FALSE, v |-> 0])

Contains(k) ==
    /\ Step /\ UNCHANGED <<map, val, prev, next, head, tail, abs>>
    /\ act' = Act("Contains", k, 0, [ok |-> k \in map, v |-> 0])

Set(k, v) ==
    /\ Step
    /\ act' = Act("Set", k, v, [ok |-> TRUE, v |-> 0])
    /\ IF k \in map
         THEN /\ Install(MoveToTail([S EXCEPT !.val[k] = v], k))
              /\ abs' = Append(AWithout(AIdx(k)), [k |-> k, v |-> v])
         ELSE /\ Install(InsertNode(S, k, v)) /\ abs' = AInsert(k, v)

Insert(k, v) ==
    /\ Step
    /\ IF k \in map
         THEN /\ UNCHANGED <<map, val, prev, next, head, tail, abs>>
              /\ act' = Act("Insert", k, v, [ok |-> FALSE, v |-> 0])
         ELSE /\ Install(InsertNode(S, k, v)) /\ abs' = AInsert(k, v)
              /\ act' = Act("Insert", k, v, [ok |-> TRUE, v |-> 0])

Remove(k) ==
    /\ Step
    /\ IF k \in map
         THEN /\ Install(RemoveNode(S, k)) /\ abs' = AWithout(AIdx(k))
              /\ act' = Act("Remove", k, 0, [ok |-> TRUE, v |-> 0])
         ELSE /\ UNCHANGED <<map, val, prev, next, head, tail, abs>>
              /\ act' = Act("Remove", k, 0, [ok |-> FALSE, v |-> 0])

Clear ==
    /\ Step
    /\ map' = {} /\ head' = Nil /\ tail' = Nil /\ abs' = <<>>
    /\ UNCHANGED <<val, prev, next>>           \* the nodes are garbage; their fields are not reset
    /\ act' = Act("Clear", "", 0, [ok |-> TRUE, v |-> 0])

Next ==
    \/ \E k \in Keys : Get(k) \/ Contains(k) \/ Remove(k)
    \/ \E k \in Keys, v \in Vals : Set(k, v) \/ Insert(k, v)
    \/ Clear

Spec == Init /\ [][Next]_vars

-----------------------------------------------------------------------------
\* the list read forward from head (bounded walk: a cycle shows up as a too long / repeating walk)
RECURSIVE Walk(_, _, _)
Walk(n, nx, fuel) == IF n = Nil \/ fuel = 0 THEN <<>> ELSE <<n>> \o Walk(nx[n], nx, fuel - 1)
Fwd == Walk(head, next, Cardinality(Keys) + 1)
Bwd == Walk(tail, prev, Cardinality(Keys) + 1)
Rev(s) == [i \in 1..Len(s) |-> s[Len(s) + 1 - i]]

TypeOK == map \subseteq Keys /\ head \in Keys \cup {Nil} /\ tail \in Keys \cup {Nil}

\* list and map agree; forward and backward walks are each other's reverse; no node twice
ListMapAgree ==
    /\ Len(Fwd) = Cardinality(map)
    /\ {Fwd[i] : i \in 1..Len(Fwd)} = map
    /\ Bwd = Rev(Fwd)
    /\ (map = {}) = (head = Nil) /\ (map = {}) = (tail = Nil)
    /\ head # Nil => prev[head] = Nil
    /\ tail # Nil => next[tail] = Nil

Bounded == Cardinality(map) <= Cap

\* the pointer structure implements the abstract LRU sequence
RefinesLru ==
    /\ Len(abs) = Len(Fwd)
    /\ \A i \in 1..Len(abs) : abs[i].k = Fwd[i] /\ abs[i].v = val[Fwd[i]]

\* eviction is least-recently-used: an insertion into a full cache removes exactly the head
EvictsLru ==
    [][ \A k \in map : k \notin map' /\ act'.n \in {"Set", "Insert"} => k = head /\ Cardinality(map) = Cap ]_vars
=============================================================================
