CONSTANTS
  Names <- MCNames
  BadNames <- MCBadNames
  Procs <- MCProcs
  Cap = ${Cap}
  HasUdp = ${HasUdp}
  HasTcp = ${HasTcp}
  FailTtl = ${FailTtl}
  Timeout = ${Timeout}
  FailOverwrites = ${FailOverwrites}
  SoaOnlyIfUnset = ${SoaOnlyIfUnset}
  Msgs <- MCMsgs
  Deltas <- MCDeltas
  MaxAdv = ${MaxAdv}
  MaxLookups = ${MaxLookups}
  AllowCancel = ${AllowCancel}
INIT InitE
NEXT Next
VIEW View
${EMIT}
INVARIANTS TypeOK OnlyOwnAnswers LruConsistent PhaseOK TimersFire ${INVS}
PROPERTIES FallbackOrder FailureMeansFailure StaleOnlyOnFailure NoPoisoning
CHECK_DEADLOCK FALSE
