---------------------------- MODULE MCHandshake ----------------------------
EXTENDS Handshake, Json
MCProtos == ${Protos}
MCUsers == ${Users}
MCCreds == ${Creds}
MCCredIdx == ${CredIdx}
MCAddrs == ${Addrs}
MCHttpAddrs == ${HttpAddrs}
MCMethodLists == ${MethodLists}
MCCmdSet == ${CmdSet}
MCAuthModes == ${AuthModes}
MCEnables == ${Enables}
MCBnds == ${Bnds}
MCUdpBnd == ${UdpBnd}
MCHttpPlans == ${HttpPlans}
MCAbortCodes == ${AbortCodes}
MCWriteSizes == ${WriteSizes}
MCReadSizes == ${ReadSizes}

View == sv

\* what the driver compares with the real parties whenever both are blocked
Obs == [spc |-> spc, sst |-> sres.st, suser |-> sres.user, cpc |-> cpc, cst |-> cres.st, ccode |-> cres.code, cwhy |-> cres.why,
        eof |-> eof, quiet |-> Quiet]

\* Node identity for the emitted graph: the state with its sequences replaced by lengths and a few sample
\* positions (TLC's own search uses the full state through VIEW; given the scenario, the parties are
\* deterministic, so the buffers are a function of the rest; a collision could only make a replayed walk
\* leave the model, which the driver would report as drift).
Node == <<sid, cpc, cneed, cres.st, cres.code, crb, spc, sneed, sres.st, Len(sres.user), sres.e,
          Len(sb), At(sb, 0), At(sb, 1), At(sb, 2), At(sb, 3), At(sb, 4), look, srb,
          natt.req, natt.failed, dec.k, dec.code, eof, bad, lost,
          Len(hs["c2s"]), Len(hs["s2c"]), HSLen("s2c"),
          nd["c2s"], nd["s2c"], rd["c2s"], rd["s2c"], av["c2s"], av["s2c"], got["c2s"], got["s2c"]>>
Emit == PrintT("EDGE " \o ToJson([f |-> Node, a |-> act', t |-> Node', o |-> Obs']))
EmitInit == PrintT("INIT " \o ToJson([t |-> Node, o |-> [scn |-> scn, conf |-> [c |-> ClientConformant, s |-> ServerConformant],
                                                          exp |-> Expected, obs |-> Obs]]))
InitE == Init /\ EmitInit

\* the spec's reply table for every value a DialResultCode can take (compared with the compiled
\* socks5.ReplyFromDialResultCode by lib/props/c07.py)
ASSUME PrintT("REPTABLE " \o ToJson([c \in 1..256 |-> <<c - 1, ExpectedRep(c - 1)>>]))
=============================================================================
