------------------------------ MODULE Handshake ------------------------------
(* Proxy handshakes of one connection: SOCKS5 (RFC 1928/1929), HTTP CONNECT and            *)
(* Shadowsocks "none", client and server side, followed by the transparent stream.          *)
(*                                                                                          *)
(* Code: socks5/stream.go   clientNegotiateAuthMethod, clientDoUsernamePasswordAuth,        *)
(*                          clientDoRequest, serverHandleMethodSelection,                   *)
(*                          serverHandleUsernamePassword, serverHandleRequest,              *)
(*                          serverPendingConn.Proceed/Abort, ReplyFromDialResultCode        *)
(*       socks5/addr.go     WriteAddrFromConnAddr, AppendFromReader, ConnAddrFromSlice,     *)
(*                          ConnAddrFromReader                                              *)
(*       ssnone/stream.go   StreamClient.DialStream, StreamServer.HandleStream              *)
(*       httpproxy/client.go ClientConnect, readBufferedNetioConn                           *)
(*       httpproxy/server.go ServerHandle, serverHandleBasicAuth, serverConnectPendingConn, *)
(*                          hostHeaderToAddr, send200/400/407/502                           *)
(*                                                                                          *)
(* Shape.  Each party is a single goroutine that alternates between "block in a read of     *)
(* the wire" and "process what arrived, possibly write, block in the next read".  One spec  *)
(* action = one such wake-up, i.e. one io.ReadFull / bufio fill of the code together with   *)
(* the straight-line code up to the next blocking read.  The transport (Deliver) hands the  *)
(* reader an arbitrary further segment of what the peer has written, and does so only when  *)
(* both parties are blocked (run-to-block): because every party is sequential this loses no *)
(* behaviour, a segmentation of the byte stream being exactly a sequence of Deliver steps.  *)
(*                                                                                          *)
(* Units.  A direction of the wire is  handshake units ++ data units.  For SOCKS5 and       *)
(* ss-none a handshake unit is a byte (the model computes with the real byte values and the *)
(* real buffer offsets of the 262-byte scratch buffer).  For HTTP a unit is one line of a   *)
(* message head (net/http does the text parsing; it is not re-modelled): line i of message  *)
(* j is the number 16*j+i, the terminating blank line is 16*j+15.  Data units are counted,  *)
(* data unit i is "the i-th byte written after the handshake".                              *)
(*                                                                                          *)
(* Scripted peers.  The scenario scn fixes what the client asks for and how the peer        *)
(* deviates from this repository's own peer (method lists, wrong credentials, zero-length   *)
(* fields, foreign BND.ADDR types, an extra response header, a second pipelined request).   *)
(* ClientConformant / ServerConformant say when a side behaves as this repository's code,   *)
(* i.e. when the real function can take that side in a replay.                              *)
EXTENDS Integers, Sequences, FiniteSets, TLC

CONSTANTS
    \* ---- values read from the compiled code (harness/cmd/vconst/wire.go) ----
    Ver, AuthVer, MNoAuth, MUserPass, MNoAccept,
    CmdConnect, CmdBind, CmdUdp,
    AtypV4, AtypDom, AtypV6,
    MaxAddrLen,                 \* socks5.MaxAddrLen; the scratch buffer is 3+MaxAddrLen bytes
    RepOK, RepFail, RepRuleset, RepNetUnreach, RepHostUnreach, RepRefused, RepCmd,
    DcSuccess, DcEACCES, DcENETDOWN, DcENETUNREACH, DcENETRESET, DcECONNABORTED, DcECONNRESET,
    DcETIMEDOUT, DcECONNREFUSED, DcEHOSTDOWN, DcEHOSTUNREACH, DcDNS, DcOther,
    \* ---- scenario alphabets (chosen by lib/props/c07.py) ----
    Protos,         \* subset of {"socks5","http","none"}
    Users,          \* configured users: Seq([u: Seq(byte), p: Seq(byte)])
    Creds,          \* presentable credentials: Seq([u, p]); scn.cred = 0 means "none presented"
    CredIdx,        \* subset of 0..Len(Creds) used for scn.cred
    Addrs,          \* set of [k: {"v4","v6","dom","dom0","bad"}, b: Seq(byte), port: 0..65535]
    HttpAddrs,      \* the same for HTTP (host names over the characters a request line can carry; no "bad")
    MethodLists,    \* SOCKS5 METHODS fields offered by the client
    CmdSet,         \* SOCKS5 CMD bytes
    AuthModes,      \* subset of BOOLEAN
    Enables,        \* set of <<enableTCP, enableUDP>>
    Bnds,           \* BND.ADDR type in a CONNECT reply: "v4" (this repository), "v6", "dom" (foreign servers)
    UdpBnd,         \* bytes of the SOCKS address of the server's local address (UDP ASSOCIATE reply)
    HttpPlans,      \* set of [atts: Seq([cred, close]), pipe: BOOLEAN, meth: {"CONNECT","GET"}, xh: 0..1]
    AbortCodes,     \* dial result codes handed to Abort
    MaxData,        \* data units per direction
    WriteSizes, ReadSizes,      \* application write / read sizes (0 in ReadSizes = drain, the WriteTo path)
    CutMode,        \* "all": every segmentation; "edge": cuts at and next to field boundaries only
    Variant         \* "code", or a design mutant: "lookup-after-overwrite", "raw-conn-after-2xx"

VARIABLES
    sid,            \* index of the scenario in ScnSeq (constant along a behaviour); scn == ScnSeq[sid]
    hs,             \* hs[d]: handshake messages written so far in direction d (records, see Bytes)
    nd,             \* nd[d]: data units written so far
    rd,             \* rd[d]: units the reader has taken off the wire (including into its bufio)
    av,             \* av[d]: units the transport has delivered, rd[d] <= av[d] <= Total(d)
    eof,            \* eof["c2s"]: the client has closed its write side
    cpc, cneed,     \* client phase; units its pending io.ReadFull still needs
    cres,           \* client outcome [st, code]
    crb,            \* units sitting in the HTTP client's bufio.Reader (read off the wire, not consumed)
    spc, sneed,     \* server phase; units its pending io.ReadFull needs
    sres,           \* server outcome [st, addr, user, e]
    sb,             \* the server's scratch buffer b (SOCKS5), grown to the highest offset written
    look,           \* result of userInfoByUsername[string(uname)]: index into Users or 0
    srb,            \* units sitting in the HTTP server's bufio.Reader rwbr
    natt,           \* HTTP: number of requests read; failed auth attempts so far
    dec,            \* what the relay decided for the pending connection: "none", "proceed" or an abort code
    got,            \* got[d]: data units the application on the reading side of d has received
    bad,            \* ghost: the application was handed something other than the next data unit
    lost,           \* ghost: units dropped with a discarded bufio.Reader
    act             \* last action (output only)

Dirs == {"c2s", "s2c"}
sv == <<sid, hs, nd, rd, av, eof, cpc, cneed, cres, crb, spc, sneed, sres, sb, look, srb, natt, dec, got, bad, lost>>
vars == <<sv, act>>

-----------------------------------------------------------------------------
\* Helpers
Range(s) == {s[i] : i \in DOMAIN s}
Max(a, b) == IF a > b THEN a ELSE b
Min(a, b) == IF a < b THEN a ELSE b
Zeros(n) == [i \in 1..n |-> 0]
Port2(p) == <<p \div 256, p % 256>>
BufLen == 3 + MaxAddrLen                          \* make([]byte, 3+MaxAddrLen)

\* b[off:off+len(bs)] = bs on a zero-initialised buffer (off is the 0-based Go offset)
Put(buf, off, bs) ==
    [i \in 1..Max(Len(buf), off + Len(bs)) |->
        IF i > off /\ i <= off + Len(bs) THEN bs[i - off] ELSE IF i <= Len(buf) THEN buf[i] ELSE 0]
\* b[lo:hi] (0-based, hi exclusive); bytes never written are zero
Slice(buf, lo, hi) == [i \in 1..(hi - lo) |-> IF lo + i <= Len(buf) THEN buf[lo + i] ELSE 0]
At(buf, off) == IF off + 1 <= Len(buf) THEN buf[off + 1] ELSE 0
\* bytes.IndexByte(s, c) >= 0
Contains(s, c) == \E i \in DOMAIN s : s[i] = c

\* socks5.WriteAddrFromConnAddr / AppendAddrFromConnAddr.  "dom0" (zero-length domain) and "bad"
\* (unknown ATYP) can only come from a foreign client.
AddrBytes(a) ==
    CASE a.k = "v4"   -> <<AtypV4>> \o a.b \o Port2(a.port)
      [] a.k = "v6"   -> <<AtypV6>> \o a.b \o Port2(a.port)
      [] a.k = "dom"  -> <<AtypDom, Len(a.b)>> \o a.b \o Port2(a.port)
      [] a.k = "dom0" -> <<AtypDom, 0>> \o Port2(a.port)
      [] OTHER        -> <<9, 0, 0, 0, 0, 0, 0>>
WellFormedAddr(a) == a.k \in {"v4", "v6", "dom"}
NoAddr == [k |-> "none", b |-> <<>>, port |-> 0]

\* BND.ADDR of a CONNECT reply.  replyWithStatus always writes IPv4UnspecifiedAddr.
BndBytes(k) ==
    CASE k = "v4" -> <<AtypV4, 0, 0, 0, 0, 0, 0>>
      [] k = "v6" -> <<AtypV6>> \o Zeros(16) \o <<0, 0>>
      [] OTHER    -> <<AtypDom, 2, 98, 110, 0, 0>>

\* ---- credentials ----
NoBytes == <<>>
CredU(c) == IF c = 0 THEN NoBytes ELSE Creds[c].u
CredP(c) == IF c = 0 THEN NoBytes ELSE Creds[c].p
\* map lookup userInfoByUsername[name]: index of the configured user or 0
Lookup(name) == IF \E i \in DOMAIN Users : Users[i].u = name
                  THEN CHOOSE i \in DOMAIN Users : Users[i].u = name ELSE 0
\* the declarative meaning of "the presented credentials match a configured user"
CredMatches(c) == c # 0 /\ \E i \in DOMAIN Users : Users[i].u = Creds[c].u /\ Users[i].p = Creds[c].p

\* ---- scenarios ----
DefaultPlan == [atts |-> <<[cred |-> 0, close |-> FALSE]>>, pipe |-> FALSE, meth |-> "CONNECT", xh |-> 0]
Scenarios ==
    {[proto |-> "socks5", auth |-> a, en |-> e, addr |-> ad, cmd |-> c, ml |-> ml, cred |-> cr, bnd |-> b, plan |-> DefaultPlan] :
        a \in AuthModes, e \in Enables, ad \in Addrs, c \in CmdSet, ml \in MethodLists, cr \in CredIdx, b \in Bnds}
    \cup
    {[proto |-> "none", auth |-> FALSE, en |-> <<TRUE, FALSE>>, addr |-> ad, cmd |-> CmdConnect, ml |-> <<MNoAuth>>, cred |-> 0,
      bnd |-> "v4", plan |-> DefaultPlan] : ad \in Addrs}
    \cup
    {[proto |-> "http", auth |-> a, en |-> <<TRUE, FALSE>>, addr |-> ad, cmd |-> CmdConnect, ml |-> <<MNoAuth>>, cred |-> 0,
      bnd |-> "v4", plan |-> p] : a \in AuthModes, ad \in HttpAddrs, p \in HttpPlans}

\* scenarios that only differ in fields their protocol does not look at are not generated twice, and
\* pointless ones are dropped: credentials are only presented to an authenticating SOCKS5 server, a
\* second HTTP request is pipelined only behind one that is going to be answered 407 and kept alive.
Sensible(s) ==
    /\ s.proto \in Protos
    /\ s.proto = "socks5" /\ ~s.auth => s.cred \in {0, Min(1, Len(Creds))} \cap CredIdx
    /\ s.proto = "socks5" /\ s.bnd # "v4" => s.cmd = CmdConnect /\ s.en[1]
    /\ s.proto = "http" =>
          /\ \A j \in 1..Len(s.plan.atts) : ~s.auth => s.plan.atts[j].cred \in {0, 1}
          /\ Len(s.plan.atts) > 1 =>
                /\ s.auth /\ ~CredMatches(s.plan.atts[1].cred) /\ ~s.plan.atts[1].close
          /\ s.plan.pipe => Len(s.plan.atts) > 1

\* TLC evaluates this constant-level definition once.
RECURSIVE SetToSeq(_)
SetToSeq(T) == IF T = {} THEN <<>> ELSE LET x == CHOOSE y \in T : TRUE IN <<x>> \o SetToSeq(T \ {x})
ScnSeq == SetToSeq({s \in Scenarios : Sensible(s)})
scn == ScnSeq[sid]

\* ---- dial result -> reply (RFC 1928 section 6, by the meaning of the errno) ----
ExpectedRep(code) ==
    CASE code = DcSuccess -> RepOK
      [] code = DcEACCES -> RepRuleset
      [] code \in {DcENETDOWN, DcENETUNREACH, DcENETRESET} -> RepNetUnreach
      [] code \in {DcEHOSTDOWN, DcEHOSTUNREACH} -> RepHostUnreach
      [] code = DcECONNREFUSED -> RepRefused
      [] OTHER -> RepFail
AllDialCodes == {DcSuccess, DcEACCES, DcENETDOWN, DcENETUNREACH, DcENETRESET, DcECONNABORTED, DcECONNRESET,
                 DcETIMEDOUT, DcECONNREFUSED, DcEHOSTDOWN, DcEHOSTUNREACH, DcDNS, DcOther}

\* ---- HTTP heads as line units ----
Units(base, n) == [i \in 1..n |-> IF i = n THEN base + 15 ELSE base + i - 1]
IsBlank(u) == u % 16 = 15
Att(j) == scn.plan.atts[j]
\* request line, Host, User-Agent, [Proxy-Authorization], [Connection: close], blank
ReqUnits(j) == Units(16 * j, 4 + (IF Att(j).cred # 0 THEN 1 ELSE 0) + (IF Att(j).close THEN 1 ELSE 0))
\* status line, [one header: Proxy-Authenticate / Connection: close / the foreign server's extra header], blank
RespUnits(k, st) == Units(16 * k, 2 + (IF st # 200 \/ scn.plan.xh = 1 THEN 1 ELSE 0))

\* ---- messages ----
Bytes(msg) ==
    CASE msg.m = "methods" -> <<Ver, Len(scn.ml)>> \o scn.ml
      [] msg.m = "auth"    -> <<AuthVer, Len(CredU(scn.cred))>> \o CredU(scn.cred) \o <<Len(CredP(scn.cred))>> \o CredP(scn.cred)
      [] msg.m = "request" -> <<Ver, scn.cmd, 0>> \o AddrBytes(scn.addr)
      [] msg.m = "naddr"   -> AddrBytes(scn.addr)
      [] msg.m = "hreq"    -> ReqUnits(msg.j)
      [] msg.m = "hresp"   -> RespUnits(msg.k, msg.st)
      [] OTHER             -> msg.b                                  \* "raw"
Raw(bs) == [m |-> "raw", b |-> bs]

\* Len(Bytes(msg)) without building the bytes (TypeOK checks that the two agree)
AddrLen(a) == CASE a.k = "v4" -> 7 [] a.k = "v6" -> 19 [] a.k = "dom" -> 4 + Len(a.b) [] a.k = "dom0" -> 4 [] OTHER -> 7
MsgLen(msg) ==
    CASE msg.m = "methods" -> 2 + Len(scn.ml)
      [] msg.m = "auth"    -> 3 + Len(CredU(scn.cred)) + Len(CredP(scn.cred))
      [] msg.m = "request" -> 3 + AddrLen(scn.addr)
      [] msg.m = "naddr"   -> AddrLen(scn.addr)
      [] msg.m = "hreq"    -> Len(ReqUnits(msg.j))
      [] msg.m = "hresp"   -> Len(RespUnits(msg.k, msg.st))
      [] OTHER             -> Len(msg.b)

RECURSIVE FlatTo(_, _)
FlatTo(ms, n) == IF n = 0 THEN <<>> ELSE FlatTo(ms, n - 1) \o Bytes(ms[n])
RECURSIVE LenTo(_, _)
LenTo(ms, n) == IF n = 0 THEN 0 ELSE LenTo(ms, n - 1) + MsgLen(ms[n])
HS(d) == FlatTo(hs[d], Len(hs[d]))
HSLen(d) == LenTo(hs[d], Len(hs[d]))
Total(d) == HSLen(d) + nd[d]
Readable(d) == av[d] - rd[d]
\* the next n handshake units the reader of d takes off the wire
Peek(d, n) == SubSeq(HS(d), rd[d] + 1, rd[d] + n)

-----------------------------------------------------------------------------
\* Scenario predicates

WantedMethod == IF scn.auth THEN MUserPass ELSE MNoAuth
\* the method this repository's client offers: AuthStreamClient when it has credentials, else StreamClient
ClientMethod == IF scn.cred # 0 THEN MUserPass ELSE MNoAuth
HttpLast == Len(scn.plan.atts)

ClientConformant ==
    CASE scn.proto = "socks5" ->
            /\ scn.ml = <<ClientMethod>> /\ WellFormedAddr(scn.addr) /\ scn.cmd \in {CmdConnect, CmdUdp}
            /\ scn.cred # 0 => Len(CredU(scn.cred)) \in 1..255 /\ Len(CredP(scn.cred)) \in 1..255
      [] scn.proto = "none" -> WellFormedAddr(scn.addr)
      [] OTHER -> /\ HttpLast = 1 /\ ~Att(1).close /\ scn.plan.meth = "CONNECT" /\ WellFormedAddr(scn.addr)
ServerConformant ==
    CASE scn.proto = "socks5" -> scn.bnd = "v4"
      [] scn.proto = "none" -> TRUE
      [] OTHER -> scn.plan.xh = 0

\* What the property demands of the server for this scenario, stated without reference to
\* segmentation or to the automaton: [st, addr, user].  st: "pending" (request handed to the
\* relay), "udp" (UDP ASSOCIATE answered), "refused" (a reply that says no), "error" (malformed
\* input, connection dropped), "waiting" (the client never sends what the server waits for).
HttpAuthOK(j) == ~scn.auth \/ CredMatches(Att(j).cred)
\* the attempts are served in order: the first acceptable one wins, a refused one with Connection: close ends it
RECURSIVE HttpRun(_)
HttpRun(j) == IF j > HttpLast THEN [r |-> "waiting", j |-> 0]
              ELSE IF HttpAuthOK(j) THEN [r |-> "ok", j |-> j]
              ELSE IF Att(j).close THEN [r |-> "refused", j |-> j]
              ELSE HttpRun(j + 1)
UserOf(c) == IF CredMatches(c) THEN CredU(c) ELSE NoBytes
Outcome(st, a, u) == [st |-> st, addr |-> a, user |-> u, e |-> "-"]
WithE(o, e) == [o EXCEPT !.e = e]
Expected ==
    CASE scn.proto = "socks5" ->
            IF ~Contains(scn.ml, WantedMethod) THEN Outcome("refused", NoAddr, NoBytes)
            ELSE IF scn.auth /\ scn.cred = 0 THEN Outcome("waiting", NoAddr, NoBytes)
            ELSE IF scn.auth /\ (Len(CredU(scn.cred)) = 0 \/ Len(CredP(scn.cred)) = 0) THEN Outcome("error", NoAddr, NoBytes)
            ELSE IF scn.auth /\ ~CredMatches(scn.cred) THEN Outcome("refused", NoAddr, NoBytes)
            ELSE IF ~WellFormedAddr(scn.addr) THEN Outcome("error", NoAddr, NoBytes)
            ELSE IF scn.cmd = CmdConnect /\ scn.en[1] THEN Outcome("pending", scn.addr, IF scn.auth THEN UserOf(scn.cred) ELSE NoBytes)
            ELSE IF scn.cmd = CmdUdp /\ scn.en[2] THEN Outcome("udp", scn.addr, IF scn.auth THEN UserOf(scn.cred) ELSE NoBytes)
            ELSE Outcome("refused", scn.addr, IF scn.auth THEN UserOf(scn.cred) ELSE NoBytes)
      [] scn.proto = "none" ->
            IF WellFormedAddr(scn.addr) THEN Outcome("pending", scn.addr, NoBytes) ELSE Outcome("error", NoAddr, NoBytes)
      [] OTHER ->
            LET h == HttpRun(1) IN
            IF h.r = "ok"
              THEN IF WellFormedAddr(scn.addr)
                     THEN Outcome("pending", scn.addr, IF scn.auth THEN UserOf(Att(h.j).cred) ELSE NoBytes)
                     ELSE Outcome("refused", NoAddr, IF scn.auth THEN UserOf(Att(h.j).cred) ELSE NoBytes)
            ELSE Outcome(h.r, NoAddr, NoBytes)

-----------------------------------------------------------------------------
\* Initial states: one per scenario

NoOutcome == Outcome("none", NoAddr, NoBytes)

Init ==
    /\ sid \in DOMAIN ScnSeq
    /\ hs = [d \in Dirs |-> <<>>] /\ nd = [d \in Dirs |-> 0]
    /\ rd = [d \in Dirs |-> 0] /\ av = [d \in Dirs |-> 0]
    /\ eof = FALSE
    /\ cpc = "start" /\ cneed = 0 /\ cres = [st |-> "none", code |-> 0, why |-> "-"] /\ crb = 0
    /\ spc = (CASE scn.proto = "socks5" -> "m3" [] scn.proto = "none" -> "n2" [] OTHER -> "hread")
    /\ sneed = (CASE scn.proto = "socks5" -> 3 [] scn.proto = "none" -> 2 [] OTHER -> 1)
    /\ sres = NoOutcome /\ sb = <<>> /\ look = 0 /\ srb = 0 /\ natt = [req |-> 0, failed |-> 0]
    /\ dec = [k |-> "none", code |-> 0]
    /\ got = [d \in Dirs |-> 0] /\ bad = FALSE /\ lost = 0
    /\ act = [n |-> "Init"]

-----------------------------------------------------------------------------
\* Sending: append a handshake message to a direction.  The writer never blocks.
Send(d, msg) == hs' = [hs EXCEPT ![d] = Append(@, msg)]
Send2(d, m1, m2) == hs' = [hs EXCEPT ![d] = Append(Append(@, m1), m2)]
Take(d, n) == rd' = [rd EXCEPT ![d] = @ + n]
A(name, side, snd, out) == act' = [n |-> name, side |-> side, snd |-> snd, out |-> out]
Snd(d, msg) == <<[d |-> d, msg |-> msg, b |-> Bytes(msg)]>>
NoSnd == <<>>

\* ---- which party can run ----
UnitAt(d, p) == IF p <= HSLen(d) THEN HS(d)[p] ELSE 0       \* data units are never blank lines
HeadIn(d, buffered) ==      \* the bufio.Reader of d's reader holds a complete message head
    \E i \in 1..buffered : IsBlank(UnitAt(d, rd[d] - buffered + i))
HeadLen(d, buffered) ==     \* units up to and including the first blank line in the buffer
    CHOOSE i \in 1..buffered : IsBlank(UnitAt(d, rd[d] - buffered + i)) /\ \A j \in 1..(i - 1) : ~IsBlank(UnitAt(d, rd[d] - buffered + j))

SReading == spc \in {"m3", "mrest", "a4", "arest", "apw", "r5", "rrest", "n2", "nrest"}
CReading == cpc \in {"wmsel", "wauth", "wrep", "wrep2"}
\* the server's pending read can only end in EOF: the client is gone and what is left is not enough
SEof == /\ eof /\ av["c2s"] = Total("c2s")
        /\ \/ SReading /\ Readable("c2s") < sneed
           \/ spc = "hread" /\ ~HeadIn("c2s", srb) /\ Readable("c2s") = 0
SRunnable ==
    \/ SEof
    \/ SReading /\ Readable("c2s") >= sneed
    \/ spc = "hread" /\ (HeadIn("c2s", srb) \/ Readable("c2s") > 0)
    \/ spc = "udphold" /\ (Readable("c2s") > 0 \/ (eof /\ rd["c2s"] = Total("c2s")))
CRunnable ==
    \/ cpc = "start"
    \/ cpc = "failed" /\ ~eof
    \/ CReading /\ Readable("s2c") >= cneed
    \/ cpc = "hwait" /\ (HeadIn("s2c", crb) \/ Readable("s2c") > 0)
Quiet == ~SRunnable /\ ~CRunnable

UC == UNCHANGED <<cpc, cneed, cres, crb>>                       \* client untouched
US == UNCHANGED <<spc, sneed, sres, sb, look, srb, natt, dec>>  \* server untouched
UW == UNCHANGED <<nd, av, eof, got, bad, lost>>                 \* wire bookkeeping untouched (hs, rd handled per action)
Fail(e) == /\ spc' = "failed" /\ sneed' = 0
           /\ sres' = WithE(Outcome("error", NoAddr, NoBytes), e)

-----------------------------------------------------------------------------
\* SOCKS5 client.  socks5/stream.go ClientRequest / ClientRequestUsernamePassword.

\* clientNegotiateAuthMethod, write half: VER, NMETHODS, METHODS.  ss-none: StreamClient.DialStream writes
\* the SOCKS address (the initial payload, if any, is data).  HTTP: ClientConnect writes the request head;
\* a pipelining foreign client writes its second request right behind.
C_Start ==
    /\ cpc = "start" /\ sid' = sid
    /\ UNCHANGED <<rd, cres, crb>> /\ US /\ UW
    /\ CASE scn.proto = "socks5" ->
              /\ Send("c2s", [m |-> "methods"]) /\ cpc' = "wmsel" /\ cneed' = 2
              /\ A("C_Start", "c", Snd("c2s", [m |-> "methods"]), "sent")
         [] scn.proto = "none" ->
              /\ Send("c2s", [m |-> "naddr"]) /\ cpc' = "est" /\ cneed' = 0
              /\ A("C_Start", "c", Snd("c2s", [m |-> "naddr"]), "est")
         [] OTHER ->
              /\ IF scn.plan.pipe
                   THEN /\ Send2("c2s", [m |-> "hreq", j |-> 1], [m |-> "hreq", j |-> 2])
                        /\ A("C_Start", "c", Snd("c2s", [m |-> "hreq", j |-> 1]) \o Snd("c2s", [m |-> "hreq", j |-> 2]), "sent")
                   ELSE /\ Send("c2s", [m |-> "hreq", j |-> 1])
                        /\ A("C_Start", "c", Snd("c2s", [m |-> "hreq", j |-> 1]), "sent")
              /\ cpc' = "hwait" /\ cneed' = 1

CDone(st, code, why) == /\ cpc' = (IF st = "ok" THEN "est" ELSE "failed") /\ cneed' = 0
                        /\ cres' = [st |-> st, code |-> code, why |-> why]

\* clientNegotiateAuthMethod, read half: io.ReadFull(rw, b[:2]); check VER, METHOD; then the next write.
\* A foreign client with a longer method list accepts whichever offered method the server selects.
C_ReadMsel ==
    /\ cpc = "wmsel" /\ Readable("s2c") >= 2 /\ sid' = sid
    /\ LET r == Peek("s2c", 2) IN
       /\ Take("s2c", 2) /\ UNCHANGED crb /\ US /\ UW
       /\ IF r[1] # Ver THEN /\ CDone("fail", 0, "badver") /\ UNCHANGED hs /\ A("C_ReadMsel", "c", NoSnd, "badver")
          ELSE IF ~Contains(scn.ml, r[2]) \/ r[2] \notin {MNoAuth, MUserPass}
                 THEN /\ CDone("fail", 0, "nomethod") /\ UNCHANGED hs /\ A("C_ReadMsel", "c", NoSnd, "nomethod")
          ELSE IF r[2] = MUserPass
                 THEN IF scn.cred = 0
                        THEN /\ cpc' = "stuck" /\ cneed' = 0 /\ cres' = cres /\ UNCHANGED hs
                             /\ A("C_ReadMsel", "c", NoSnd, "nocreds")
                        ELSE \* clientDoUsernamePasswordAuth, write half
                             /\ Send("c2s", [m |-> "auth"]) /\ cpc' = "wauth" /\ cneed' = 2 /\ cres' = cres
                             /\ A("C_ReadMsel", "c", Snd("c2s", [m |-> "auth"]), "auth")
          ELSE \* clientDoRequest, write half
               /\ Send("c2s", [m |-> "request"]) /\ cpc' = "wrep" /\ cneed' = 5 /\ cres' = cres
               /\ A("C_ReadMsel", "c", Snd("c2s", [m |-> "request"]), "request")

\* clientDoUsernamePasswordAuth, read half: VER, STATUS.
C_ReadAuth ==
    /\ cpc = "wauth" /\ Readable("s2c") >= 2 /\ sid' = sid
    /\ LET r == Peek("s2c", 2) IN
       /\ Take("s2c", 2) /\ UNCHANGED crb /\ US /\ UW
       /\ IF r[1] # AuthVer THEN /\ CDone("fail", 0, "badauthver") /\ UNCHANGED hs /\ A("C_ReadAuth", "c", NoSnd, "badauthver")
          ELSE IF r[2] # 0 THEN /\ CDone("fail", 0, "authfail") /\ UNCHANGED hs /\ A("C_ReadAuth", "c", NoSnd, "authfail")
          ELSE /\ Send("c2s", [m |-> "request"]) /\ cpc' = "wrep" /\ cneed' = 5 /\ cres' = cres
               /\ A("C_ReadAuth", "c", Snd("c2s", [m |-> "request"]), "request")

\* clientDoRequest, read half 1: io.ReadFull(rw, b[:5]) = VER, REP, RSV, ATYP and one more byte; the
\* address type decides how much AppendFromReader still reads.  REP is looked at only after the whole
\* reply has been consumed, so that nothing of it is left in front of the tunnelled data.
C_ReadRep5 ==
    /\ cpc = "wrep" /\ Readable("s2c") >= 5 /\ sid' = sid
    /\ LET r == Peek("s2c", 5) IN
       /\ Take("s2c", 5) /\ UNCHANGED <<crb, hs>> /\ US /\ UW
       /\ IF r[1] # Ver THEN CDone("fail", 0, "badver") /\ A("C_ReadRep5", "c", NoSnd, "badver")
          ELSE IF r[4] \notin {AtypV4, AtypV6, AtypDom} THEN CDone("fail", 0, "badatyp") /\ A("C_ReadRep5", "c", NoSnd, "badatyp")
          ELSE /\ cpc' = "wrep2" /\ cres' = [st |-> "none", code |-> r[2], why |-> "-"]
               /\ cneed' = (CASE r[4] = AtypV4 -> 5 [] r[4] = AtypV6 -> 17 [] OTHER -> r[5] + 2)
               /\ A("C_ReadRep5", "c", NoSnd, "more")

\* clientDoRequest, read half 2: the rest of BND.ADDR, then the REP check.
C_ReadRepRest ==
    /\ cpc = "wrep2" /\ Readable("s2c") >= cneed /\ sid' = sid
    /\ Take("s2c", cneed) /\ UNCHANGED <<crb, hs>> /\ US /\ UW
    /\ IF cres.code = RepOK
         THEN IF scn.cmd = CmdUdp
                THEN /\ cpc' = "udpok" /\ cneed' = 0 /\ cres' = [st |-> "ok", code |-> RepOK, why |-> "udp"]
                     /\ A("C_ReadRepRest", "c", NoSnd, "udpok")
                ELSE CDone("ok", RepOK, "reply") /\ A("C_ReadRepRest", "c", NoSnd, "est")
         ELSE CDone("fail", cres.code, "reply") /\ A("C_ReadRepRest", "c", NoSnd, "replyerror")

\* A client whose handshake failed closes the connection (DialStream: _ = rw.Close()); the server's pending
\* read sees EOF once it has consumed everything that was written.
C_Close ==
    /\ cpc = "failed" /\ ~eof /\ sid' = sid
    /\ eof' = TRUE /\ UNCHANGED <<hs, nd, rd, av, got, bad, lost>> /\ UC /\ US
    /\ A("C_Close", "c", NoSnd, "closed")

\* HTTP client.  httpproxy/client.go ClientConnect: br := bufio.NewReader(rw); http.ReadResponse(br, nil).
\* A fill takes whatever the transport has delivered - possibly more than the head.
C_HFill ==
    /\ cpc = "hwait" /\ ~HeadIn("s2c", crb) /\ Readable("s2c") > 0 /\ sid' = sid
    /\ crb' = crb + Readable("s2c") /\ rd' = [rd EXCEPT !["s2c"] = av["s2c"]]
    /\ UNCHANGED <<hs, cpc, cneed, cres>> /\ US /\ UW
    /\ A("C_HFill", "c", NoSnd, "fill")

\* The head is complete: 2xx => the tunnel is up, and what the reader holds beyond the head is served first
\* (newReadBufferedNetioConn when br.Buffered() > 0).  A foreign client answers a 407 with its next request.
C_HParse ==
    /\ cpc = "hwait" /\ HeadIn("s2c", crb) /\ sid' = sid
    /\ LET n == HeadLen("s2c", crb)
           k == HS("s2c")[rd["s2c"] - crb + 1] \div 16
           msg == CHOOSE m \in Range(hs["s2c"]) : m.m = "hresp" /\ m.k = k
           st == msg.st IN
       /\ UNCHANGED rd /\ US /\ UNCHANGED <<nd, av, eof, got, bad>>
       /\ IF st \in 200..299
            THEN /\ CDone("ok", st, "status") /\ UNCHANGED hs
                 /\ IF Variant = "raw-conn-after-2xx"
                      THEN crb' = 0 /\ lost' = lost + (crb - n)
                      ELSE crb' = crb - n /\ lost' = lost
                 /\ A("C_HParse", "c", NoSnd, "est")
          ELSE IF st = 407 /\ k < HttpLast /\ ~scn.plan.pipe
            THEN /\ Send("c2s", [m |-> "hreq", j |-> k + 1]) /\ crb' = crb - n /\ lost' = lost
                 /\ UNCHANGED <<cpc, cneed, cres>>
                 /\ A("C_HParse", "c", Snd("c2s", [m |-> "hreq", j |-> k + 1]), "retry")
          ELSE IF st = 407 /\ k < HttpLast
            THEN /\ crb' = crb - n /\ lost' = lost /\ UNCHANGED <<hs, cpc, cneed, cres>>
                 /\ A("C_HParse", "c", NoSnd, "next")
          ELSE /\ CDone("fail", st, "status") /\ crb' = crb - n /\ lost' = lost /\ UNCHANGED hs
               /\ A("C_HParse", "c", NoSnd, "status")

-----------------------------------------------------------------------------
\* SOCKS5 server.  socks5/stream.go ServerAccept / ServerAcceptUsernamePassword on the scratch buffer b.

\* serverHandleMethodSelection: io.ReadFull(rw, b[:3]) = VER, NMETHODS and the first METHOD.
SelectMethod(name, buf, nm) ==     \* tail of serverHandleMethodSelection once METHODS is in b[2:2+nm]
    IF Contains(Slice(buf, 2, 2 + nm), WantedMethod)
      THEN /\ sb' = Put(buf, 1, <<WantedMethod>>)
           /\ Send("s2c", Raw(<<At(buf, 0), WantedMethod>>))
           /\ IF scn.auth THEN spc' = "a4" /\ sneed' = 4 ELSE spc' = "r5" /\ sneed' = 5
           /\ sres' = sres
           /\ A(name, "s", Snd("s2c", Raw(<<At(buf, 0), WantedMethod>>)), "selected")
      ELSE /\ sb' = Put(buf, 1, <<MNoAccept>>)
           /\ Send("s2c", Raw(<<At(buf, 0), MNoAccept>>))
           /\ spc' = "failed" /\ sneed' = 0
           /\ sres' = WithE(Outcome("refused", NoAddr, NoBytes), "nomethod")
           /\ A(name, "s", Snd("s2c", Raw(<<At(buf, 0), MNoAccept>>)), "nomethod")

S_M3 ==
    /\ spc = "m3" /\ Readable("c2s") >= 3 /\ sid' = sid
    /\ LET buf == Put(sb, 0, Peek("c2s", 3))
           nm == At(buf, 1) IN
       /\ Take("c2s", 3) /\ UC /\ UW /\ UNCHANGED <<look, srb, natt, dec>>
       /\ IF At(buf, 0) # Ver THEN Fail("badver") /\ sb' = buf /\ UNCHANGED hs /\ A("S_M3", "s", NoSnd, "badver")
          ELSE IF nm = 0 THEN Fail("zeromethods") /\ sb' = buf /\ UNCHANGED hs /\ A("S_M3", "s", NoSnd, "zeromethods")
          ELSE IF nm = 1 THEN SelectMethod("S_M3", buf, 1)
          ELSE /\ spc' = "mrest" /\ sneed' = nm - 1 /\ sb' = buf /\ sres' = sres /\ UNCHANGED hs
               /\ A("S_M3", "s", NoSnd, "more")

\* io.ReadFull(rw, b[3:3+nmethods-1]); bytes.IndexByte(b[2:2+nmethods], method)
S_MRest ==
    /\ spc = "mrest" /\ Readable("c2s") >= sneed /\ sid' = sid
    /\ LET buf == Put(sb, 3, Peek("c2s", sneed)) IN
       /\ Take("c2s", sneed) /\ UC /\ UW /\ UNCHANGED <<look, srb, natt, dec>>
       /\ SelectMethod("S_MRest", buf, At(buf, 1))

\* serverHandleUsernamePassword: io.ReadFull(rw, b[:4]) = VER, ULEN and two more bytes.
\* With ULEN = 1 these are UNAME and PLEN, and the map lookup happens here.
AfterUname(name, buf, ul) ==   \* UNAME and PLEN are in the buffer: lookup, PLEN check
    LET plen == At(buf, 2 + ul) IN
    /\ look' = (IF Variant = "lookup-after-overwrite" THEN 0 ELSE Lookup(Slice(buf, 2, 2 + ul)))
    /\ sb' = buf /\ UNCHANGED hs
    /\ IF plen = 0 THEN Fail("zeroplen") /\ A(name, "s", NoSnd, "zeroplen")
       ELSE /\ spc' = "apw" /\ sneed' = plen /\ sres' = sres /\ A(name, "s", NoSnd, "more")

S_A4 ==
    /\ spc = "a4" /\ Readable("c2s") >= 4 /\ sid' = sid
    /\ LET buf == Put(sb, 0, Peek("c2s", 4))
           ul == At(buf, 1) IN
       /\ Take("c2s", 4) /\ UC /\ UW /\ UNCHANGED <<srb, natt, dec>>
       /\ IF At(buf, 0) # AuthVer THEN Fail("badauthver") /\ sb' = buf /\ look' = look /\ UNCHANGED hs /\ A("S_A4", "s", NoSnd, "badauthver")
          ELSE IF ul = 0 THEN Fail("zeroulen") /\ sb' = buf /\ look' = look /\ UNCHANGED hs /\ A("S_A4", "s", NoSnd, "zeroulen")
          ELSE IF ul > 1
            THEN /\ spc' = "arest" /\ sneed' = ul - 1 /\ sb' = buf /\ look' = look /\ sres' = sres /\ UNCHANGED hs
                 /\ A("S_A4", "s", NoSnd, "more")
          ELSE AfterUname("S_A4", buf, ul)

\* io.ReadFull(rw, b[4:4+ulen-1]): the rest of UNAME and PLEN
S_ARest ==
    /\ spc = "arest" /\ Readable("c2s") >= sneed /\ sid' = sid
    /\ LET buf == Put(sb, 4, Peek("c2s", sneed)) IN
       /\ Take("c2s", sneed) /\ UC /\ UW /\ UNCHANGED <<srb, natt, dec>>
       /\ AfterUname("S_ARest", buf, At(buf, 1))

\* passwd := b[2:2+plen]; io.ReadFull(rw, passwd) - PASSWD overwrites UNAME; compare; write VER, STATUS.
\* (The design mutant performs the map lookup only now, on the overwritten bytes.)
S_APw ==
    /\ spc = "apw" /\ Readable("c2s") >= sneed /\ sid' = sid
    /\ LET ul == At(sb, 1)
           buf == Put(sb, 2, Peek("c2s", sneed))
           pw == Slice(buf, 2, 2 + sneed)
           lk == IF Variant = "lookup-after-overwrite" THEN Lookup(Slice(buf, 2, 2 + ul)) ELSE look
           ok == lk # 0 /\ pw = Users[lk].p
           status == IF ok THEN 0 ELSE 1
           reply == Raw(<<At(buf, 0), status>>) IN
       /\ Take("c2s", sneed) /\ UC /\ UW /\ UNCHANGED <<srb, natt, dec>>
       /\ sb' = Put(buf, 1, <<status>>) /\ look' = lk
       /\ Send("s2c", reply)
       /\ IF ok THEN /\ spc' = "r5" /\ sneed' = 5
                     /\ sres' = [sres EXCEPT !.user = Users[lk].u]
                     /\ A("S_APw", "s", Snd("s2c", reply), "authok")
               ELSE /\ spc' = "failed" /\ sneed' = 0
                    /\ sres' = WithE(Outcome("refused", NoAddr, NoBytes), "authfail")
                    /\ A("S_APw", "s", Snd("s2c", reply), "authfail")

\* serverHandleRequest: io.ReadFull(rw, b[:5]) = VER, CMD, RSV, ATYP and one more byte; AppendFromReader
\* re-reads b[3:5] through the prefixedReader and sizes the rest from ATYP (and the domain length).
S_R5 ==
    /\ spc = "r5" /\ Readable("c2s") >= 5 /\ sid' = sid
    /\ LET buf == Put(sb, 0, Peek("c2s", 5))
           atyp == At(buf, 3) IN
       /\ Take("c2s", 5) /\ UC /\ UW /\ UNCHANGED <<look, srb, natt, dec, hs>>
       /\ sb' = buf
       /\ IF At(buf, 0) # Ver THEN Fail("badver") /\ A("S_R5", "s", NoSnd, "badver")
          ELSE IF atyp \notin {AtypV4, AtypV6, AtypDom} THEN Fail("badatyp") /\ A("S_R5", "s", NoSnd, "badatyp")
          ELSE /\ spc' = "rrest" /\ sres' = sres
               /\ sneed' = (CASE atyp = AtypV4 -> 5 [] atyp = AtypV6 -> 17 [] OTHER -> At(buf, 4) + 2)
               /\ A("S_R5", "s", NoSnd, "more")

\* socks5.ConnAddrFromSlice on b[3:]
Decode(buf, off) ==
    LET atyp == At(buf, off) IN
    CASE atyp = AtypV4 -> [k |-> "v4", b |-> Slice(buf, off + 1, off + 5), port |-> At(buf, off + 5) * 256 + At(buf, off + 6)]
      [] atyp = AtypV6 -> [k |-> "v6", b |-> Slice(buf, off + 1, off + 17), port |-> At(buf, off + 17) * 256 + At(buf, off + 18)]
      [] OTHER -> LET dl == At(buf, off + 1) IN
                  [k |-> IF dl = 0 THEN "dom0" ELSE "dom", b |-> Slice(buf, off + 2, off + 2 + dl),
                   port |-> At(buf, off + 2 + dl) * 256 + At(buf, off + 3 + dl)]

\* the rest of the SOCKS address into b[5:]; ConnAddrFromSlice; the command switch.
S_RRest ==
    /\ spc = "rrest" /\ Readable("c2s") >= sneed /\ sid' = sid
    /\ LET buf == Put(sb, 5, Peek("c2s", sneed))
           a == Decode(buf, 3)
           cmd == At(buf, 1)
           user == sres.user IN
       /\ Take("c2s", sneed) /\ UC /\ UW /\ UNCHANGED <<look, srb, natt, dec>>
       /\ Len(buf) <= BufLen                               \* the request never outgrows the scratch buffer
       /\ IF a.k = "dom0" THEN Fail("emptydomain") /\ sb' = buf /\ UNCHANGED hs /\ A("S_RRest", "s", NoSnd, "emptydomain")
          ELSE IF cmd = CmdConnect /\ scn.en[1]
            THEN /\ spc' = "pending" /\ sneed' = 0 /\ sb' = buf /\ UNCHANGED hs
                 /\ sres' = Outcome("pending", a, user)
                 /\ A("S_RRest", "s", NoSnd, "pending")
          ELSE IF cmd = CmdUdp /\ scn.en[2]
            THEN \* b[1] = ReplySucceeded; reply := AppendAddrFromAddrPort(b[:3], local address)
                 LET reply == Raw(<<At(buf, 0), RepOK, At(buf, 2)>> \o UdpBnd) IN
                 /\ spc' = "udphold" /\ sneed' = 1 /\ sb' = Put(buf, 1, <<RepOK>>)
                 /\ Send("s2c", reply)
                 /\ sres' = Outcome("udp", a, user)
                 /\ A("S_RRest", "s", Snd("s2c", reply), "udp")
          ELSE \* replyWithStatus(rw, b, ReplyCommandNotSupported)
               LET reply == Raw(<<Ver, RepCmd, 0>> \o BndBytes("v4")) IN
               /\ spc' = "failed" /\ sneed' = 0 /\ sb' = Put(buf, 0, reply.b)
               /\ Send("s2c", reply)
               /\ sres' = WithE(Outcome("refused", a, user), "cmd")
               /\ A("S_RRest", "s", Snd("s2c", reply), "cmdunsupported")

\* UDP ASSOCIATE: rw.Read(b[:1]) holds the control connection until the client goes away.
S_UdpHold ==
    /\ spc = "udphold" /\ sid' = sid /\ UC /\ UNCHANGED <<hs, nd, av, eof, got, bad, sb, look, srb, natt, dec, sneed>>
    /\ IF Readable("c2s") > 0
         THEN Take("c2s", 1) /\ lost' = lost /\ spc' = "done" /\ sres' = sres /\ A("S_UdpHold", "s", NoSnd, "done")
         ELSE /\ eof /\ rd["c2s"] = Total("c2s") /\ rd' = rd /\ lost' = lost /\ spc' = "done" /\ sres' = sres
              /\ A("S_UdpHold", "s", NoSnd, "done")

\* io.ReadFull / http.ReadRequest return io.EOF / io.ErrUnexpectedEOF: every handler gives up without a reply.
S_Eof ==
    /\ SEof /\ sid' = sid /\ UC /\ UW /\ UNCHANGED <<hs, rd, sb, look, srb, natt, dec>>
    /\ spc' = "failed" /\ sneed' = 0
    /\ sres' = WithE(Outcome("error", NoAddr, NoBytes), "eof")
    /\ A("S_Eof", "s", NoSnd, "eof")

\* ss-none server.  ssnone/stream.go HandleStream -> socks5.ConnAddrFromReader: ATYP and one more byte ...
S_N2 ==
    /\ spc = "n2" /\ Readable("c2s") >= 2 /\ sid' = sid
    /\ LET buf == Put(<<>>, 0, Peek("c2s", 2))
           atyp == At(buf, 0) IN
       /\ Take("c2s", 2) /\ UC /\ UW /\ UNCHANGED <<look, srb, natt, dec, hs>>
       /\ sb' = buf
       /\ IF atyp \notin {AtypV4, AtypV6, AtypDom} THEN Fail("badatyp") /\ A("S_N2", "s", NoSnd, "badatyp")
          ELSE /\ spc' = "nrest" /\ sres' = sres
               /\ sneed' = (CASE atyp = AtypV4 -> 5 [] atyp = AtypV6 -> 17 [] OTHER -> At(buf, 1) + 2)
               /\ A("S_N2", "s", NoSnd, "more")

\* ... then the rest; netio.NopPendingConn(c): the raw connection, no reply in either case.
S_NRest ==
    /\ spc = "nrest" /\ Readable("c2s") >= sneed /\ sid' = sid
    /\ LET buf == Put(sb, 2, Peek("c2s", sneed))
           a == Decode(buf, 0) IN
       /\ Take("c2s", sneed) /\ UC /\ UW /\ UNCHANGED <<look, srb, natt, dec, hs>>
       /\ sb' = buf
       /\ IF a.k = "dom0" THEN Fail("emptydomain") /\ A("S_NRest", "s", NoSnd, "emptydomain")
          ELSE /\ spc' = "pending" /\ sneed' = 0 /\ sres' = Outcome("pending", a, NoBytes)
               /\ A("S_NRest", "s", NoSnd, "pending")

-----------------------------------------------------------------------------
\* HTTP server.  httpproxy/server.go ServerHandle: rwbr := bufio.NewReader(rw); loop http.ReadRequest(rwbr).
S_HFill ==
    /\ spc = "hread" /\ ~HeadIn("c2s", srb) /\ Readable("c2s") > 0 /\ sid' = sid
    /\ srb' = srb + Readable("c2s") /\ rd' = [rd EXCEPT !["c2s"] = av["c2s"]]
    /\ UNCHANGED <<hs, spc, sneed, sres, sb, look, natt, dec>> /\ UC /\ UW
    /\ A("S_HFill", "s", NoSnd, "fill")

\* A request head is complete.  Basic auth against the token map; 407 and loop (or stop on Connection: close);
\* CONNECT target / Host header -> address; the CONNECT pending conn wraps the RAW connection, so whatever
\* rwbr still holds is gone (the property does not cover data sent before the 2xx, and a conformant
\* client sends none; `lost` records it).
S_HParse ==
    /\ spc = "hread" /\ HeadIn("c2s", srb) /\ sid' = sid
    /\ LET n == HeadLen("c2s", srb)
           j == HS("c2s")[rd["c2s"] - srb + 1] \div 16
           at == Att(j)
           authok == ~scn.auth \/ CredMatches(at.cred)
           user == IF scn.auth /\ authok THEN CredU(at.cred) ELSE NoBytes IN
       /\ UNCHANGED <<rd, sb, look, dec>> /\ UC /\ UNCHANGED <<nd, av, eof, got, bad>>
       /\ IF ~authok
            THEN LET reply == [m |-> "hresp", k |-> j, st |-> 407] IN
                 /\ Send("s2c", reply) /\ srb' = srb - n /\ lost' = lost
                 /\ natt' = [req |-> j, failed |-> natt.failed + 1]
                 /\ IF at.close
                      THEN /\ spc' = "failed" /\ sneed' = 0
                           /\ sres' = WithE(Outcome("refused", NoAddr, NoBytes), "authfail")
                           /\ A("S_HParse", "s", Snd("s2c", reply), "407close")
                      ELSE /\ UNCHANGED <<spc, sneed, sres>>
                           /\ A("S_HParse", "s", Snd("s2c", reply), "407")
          ELSE IF ~WellFormedAddr(scn.addr)
            THEN LET reply == [m |-> "hresp", k |-> j, st |-> 400] IN
                 /\ Send("s2c", reply) /\ srb' = srb - n /\ lost' = lost
                 /\ natt' = [natt EXCEPT !.req = j]
                 /\ spc' = "failed" /\ sneed' = 0
                 /\ sres' = WithE(Outcome("refused", NoAddr, user), "badtarget")
                 /\ A("S_HParse", "s", Snd("s2c", reply), "400")
          ELSE /\ UNCHANGED hs /\ natt' = [natt EXCEPT !.req = j]
               /\ spc' = "pending" /\ sneed' = 0
               /\ sres' = Outcome("pending", scn.addr, user)
               /\ IF scn.plan.meth = "CONNECT" THEN srb' = 0 /\ lost' = lost + (srb - n)
                                                ELSE srb' = srb - n /\ lost' = lost
               /\ A("S_HParse", "s", NoSnd, "pending")

-----------------------------------------------------------------------------
\* The relay's decision on the pending connection (service/tcp.go: dial, then Proceed or Abort).

\* serverPendingConn.Proceed: replyWithStatus(ReplySucceeded); serverConnectPendingConn.Proceed: send200;
\* nopPendingConn.Proceed: nothing.  A foreign SOCKS5 server may report an IPv6 or domain BND.ADDR, a foreign
\* HTTP proxy may add a header.
Proceed ==
    /\ spc = "pending" /\ sid' = sid
    /\ ~(scn.proto = "http" /\ scn.plan.meth = "GET")        \* plain HTTP forwarding is the Http/Forwarder family
    /\ dec' = [k |-> "proceed", code |-> DcSuccess] /\ spc' = "est" /\ UC /\ UW /\ UNCHANGED <<rd, sneed, sres, look, srb, natt>>
    /\ CASE scn.proto = "socks5" ->
              LET reply == Raw(<<Ver, RepOK, 0>> \o BndBytes(scn.bnd)) IN
              /\ Send("s2c", reply) /\ sb' = Put(sb, 0, <<Ver, RepOK, 0>> \o BndBytes("v4"))
              /\ A("Proceed", "s", Snd("s2c", reply), "est")
         [] scn.proto = "none" -> UNCHANGED <<hs, sb>> /\ A("Proceed", "s", NoSnd, "est")
         [] OTHER ->
              LET reply == [m |-> "hresp", k |-> natt.req, st |-> 200] IN
              Send("s2c", reply) /\ sb' = sb /\ A("Proceed", "s", Snd("s2c", reply), "est")

\* serverPendingConn.Abort: replyWithStatus(ReplyFromDialResultCode(code)); HTTP: send502; ss-none: nothing.
Abort(code) ==
    /\ spc = "pending" /\ sid' = sid
    /\ dec' = [k |-> "abort", code |-> code] /\ spc' = "aborted" /\ UC /\ UW /\ UNCHANGED <<rd, sneed, sres, look, srb, natt>>
    /\ CASE scn.proto = "socks5" ->
              LET reply == Raw(<<Ver, ExpectedRep(code), 0>> \o BndBytes("v4")) IN
              /\ Send("s2c", reply) /\ sb' = Put(sb, 0, reply.b)
              /\ act' = [n |-> "Abort", side |-> "s", code |-> code, snd |-> Snd("s2c", reply), out |-> "aborted"]
         [] scn.proto = "none" ->
              /\ UNCHANGED <<hs, sb>>
              /\ act' = [n |-> "Abort", side |-> "s", code |-> code, snd |-> NoSnd, out |-> "aborted"]
         [] OTHER ->
              LET reply == [m |-> "hresp", k |-> natt.req, st |-> 502] IN
              /\ Send("s2c", reply) /\ sb' = sb
              /\ act' = [n |-> "Abort", side |-> "s", code |-> code, snd |-> Snd("s2c", reply), out |-> "aborted"]

-----------------------------------------------------------------------------
\* Transport and applications

\* Where the transport may put the next segment boundary (as an absolute stream position).  "all": anywhere.
\* "edge": at and next to message ends, the amount the reader's pending io.ReadFull waits for, the end of
\* what has been written, and within the first bytes of what the reader has not consumed yet.
MsgEnds(d) == {LenTo(hs[d], i) : i \in 0..Len(hs[d])}
CutPoints(d) ==
    IF CutMode = "all" THEN (av[d] + 1)..Total(d)
    ELSE LET marks == MsgEnds(d) \cup {rd[d] + (IF d = "c2s" THEN sneed ELSE cneed), Total(d)}
             cand == UNION {{e - 1, e, e + 1} : e \in marks} \cup {av[d] + 1, av[d] + 2} \cup (rd[d] + 1)..(rd[d] + 6) IN
         {p \in cand : p > av[d] /\ p <= Total(d)}

\* The transport hands the reader of d everything up to stream position p: one segment boundary.
Deliver(d, p) ==
    /\ sid' = sid
    /\ av' = [av EXCEPT ![d] = p]
    /\ UNCHANGED <<hs, nd, rd, eof, got, bad, lost>> /\ UC /\ US
    /\ act' = [n |-> "Deliver", d |-> d, k |-> p - av[d], out |-> p]

Writer(d) == IF d = "c2s" THEN cpc = "est" ELSE spc = "est"
Reader(d) == IF d = "c2s" THEN spc = "est" ELSE cpc = "est"

\* An application writes n bytes into the established connection.  The far side (server's application)
\* may do so as soon as Proceed has returned - before the client has seen the reply.
AppWrite(d, n) ==
    /\ Writer(d) /\ nd[d] + n <= MaxData /\ sid' = sid
    /\ nd' = [nd EXCEPT ![d] = @ + n]
    /\ UNCHANGED <<hs, rd, av, eof, got, bad, lost>> /\ UC /\ US
    /\ act' = [n |-> "AppWrite", d |-> d, k |-> n, out |-> nd[d] + n]

\* An application reads up to n bytes (n = 0: drains, io.Copy -> WriteTo).  The HTTP client's connection
\* serves its bufio.Reader first (readBufferedNetioConn.Read / WriteTo); everything else reads the raw
\* connection.  It must be handed the next data units, in order.
AppRead(d, n) ==
    /\ Reader(d) /\ sid' = sid
    /\ LET buffered == IF d = "s2c" THEN crb ELSE 0
           pos == rd[d] - buffered                         \* units consumed so far by the reader's application side
           fromBuf == buffered > 0
           m == IF n = 0 THEN buffered + Readable(d)
                ELSE IF fromBuf THEN Min(n, buffered) ELSE Min(n, Readable(d)) IN
       /\ m > 0
       /\ IF d = "s2c" THEN crb' = (IF n = 0 THEN 0 ELSE IF fromBuf THEN crb - m ELSE 0) /\ UNCHANGED <<cpc, cneed, cres>>
                       ELSE UC
       /\ rd' = [rd EXCEPT ![d] = IF n = 0 THEN av[d] ELSE IF fromBuf THEN @ ELSE @ + m]
       /\ got' = [got EXCEPT ![d] = @ + m]
       /\ bad' = (bad \/ pos # HSLen(d) + got[d])          \* the first unit handed over is data unit got[d]+1
       /\ UNCHANGED <<hs, nd, av, eof, lost>> /\ US
       /\ act' = [n |-> "AppRead", d |-> d, k |-> n, out |-> m]

\* The client closes its write side (ends a UDP ASSOCIATE control connection).
ClientClose ==
    /\ ~eof /\ cpc = "udpok" /\ sid' = sid
    /\ eof' = TRUE /\ UNCHANGED <<hs, nd, rd, av, got, bad, lost>> /\ UC /\ US
    /\ act' = [n |-> "ClientClose", out |-> "eof"]

Client == C_Close \/ C_Start \/ C_ReadMsel \/ C_ReadAuth \/ C_ReadRep5 \/ C_ReadRepRest \/ C_HFill \/ C_HParse
Server == S_Eof \/ S_M3 \/ S_MRest \/ S_A4 \/ S_ARest \/ S_APw \/ S_R5 \/ S_RRest \/ S_UdpHold \/ S_N2 \/ S_NRest \/ S_HFill \/ S_HParse
\* The environment moves only when both parties are blocked.
Env ==
    /\ Quiet
    /\ \/ Proceed \/ (\E c \in AbortCodes : Abort(c)) \/ ClientClose
       \/ \E d \in Dirs :
             \/ \E p \in CutPoints(d) : Deliver(d, p)
             \/ \E n \in WriteSizes : AppWrite(d, n)
             \/ \E n \in ReadSizes : AppRead(d, n)

Next == Client \/ Server \/ Env
Spec == Init /\ [][Next]_vars

-----------------------------------------------------------------------------
\* Properties

TypeOK ==
    /\ \A d \in Dirs : rd[d] <= av[d] /\ av[d] <= Total(d) /\ got[d] <= nd[d]
    /\ crb >= 0 /\ srb >= 0 /\ crb <= rd["s2c"] /\ srb <= rd["c2s"]
    /\ Len(sb) <= BufLen
    /\ sres.st \in {"none", "pending", "udp", "refused", "error"}

\* the length arithmetic used for stream positions agrees with the encodings
LenConsistent == \A d \in Dirs : \A i \in DOMAIN hs[d] : MsgLen(hs[d][i]) = Len(Bytes(hs[d][i]))

Accepted == sres.st \in {"pending", "udp"}

\* C07 (1): the address, command and user identity the server extracts are what the client asked for.
Faithful ==
    Accepted =>
        /\ sres.addr = scn.addr
        /\ (sres.st = "udp") = (scn.proto = "socks5" /\ scn.cmd = CmdUdp)
        /\ scn.auth /\ scn.proto = "socks5" => sres.user = CredU(scn.cred)
        /\ scn.auth /\ scn.proto = "http" => \E j \in 1..HttpLast : sres.user = CredU(Att(j).cred) /\ CredMatches(Att(j).cred)
        /\ ~scn.auth => sres.user = NoBytes

\* C07 (2): with authentication enabled a request is honoured only on credentials of a configured user.
AuthGate ==
    scn.auth /\ Accepted =>
        IF scn.proto = "socks5" THEN CredMatches(scn.cred)
        ELSE \E j \in 1..natt.req : CredMatches(Att(j).cred)
\* ... and nothing of the request is even read before that (SOCKS5: the request is only sent after status 0)
NoRequestBeforeAuth ==
    scn.proto = "socks5" /\ scn.auth /\ spc \in {"r5", "rrest", "pending", "est", "aborted", "udphold", "done"} => CredMatches(scn.cred)

\* C07 (3): the outcome of the onward connection reaches the client as the protocol's reply.
ReplyMatches ==
    /\ cres.st = "ok" /\ scn.proto # "none" => (dec.k = "proceed" \/ sres.st = "udp")
    /\ cres.st = "fail" /\ dec.k = "abort" =>
          IF scn.proto = "socks5" THEN cres.code = ExpectedRep(dec.code) /\ cres.code # RepOK /\ cres.why = "reply"
                                  ELSE cres.code = 502
    /\ dec.k = "proceed" => cres.st # "fail"
SuccessOnlyAfterProceed ==
    [][ \A i \in DOMAIN hs'["s2c"] : i > Len(hs["s2c"]) =>
          LET m == hs'["s2c"][i] IN
          /\ (m.m = "hresp" /\ m.st \in 200..299) => dec'.k = "proceed"
          /\ (m.m = "raw" /\ Len(m.b) > 2 /\ m.b[2] = RepOK /\ scn.proto = "socks5") => (dec'.k = "proceed" \/ sres'.st = "udp") ]_vars

\* C07 (4): after the handshake the connection is a transparent byte stream, in both directions,
\* including what the far side sent before the client had read the reply.
Transparent == ~bad /\ lost = 0
\* ... and the reader's position is exactly "handshake consumed, got[d] data units handed over": nothing is
\* parked where the application does not look (the bufio.Reader of the HTTP client is served first).
Buffered(d) == IF d = "s2c" THEN crb ELSE 0
StreamAligned == \A d \in Dirs : Reader(d) /\ ~bad /\ lost = 0 => rd[d] - Buffered(d) = HSLen(d) + got[d]

\* C07 (5): the outcome does not depend on how the handshake bytes are segmented: whenever the server
\* has reached an outcome it is the one the scenario alone determines.
FragInsensitive ==
    sres.st # "none" /\ sres.e # "eof" =>
        /\ sres.st = Expected.st
        /\ Accepted => sres.addr = Expected.addr /\ sres.user = Expected.user
ExpectedReachable ==    \* nothing else can come out either: a "waiting" scenario never produces an outcome
    Expected.st = "waiting" => sres.st = "none" \/ sres.e = "eof"

\* ... and it is reached: once everything written has been delivered and both parties are blocked, the
\* server has produced the outcome the scenario calls for (unless the client went away first).
Progress ==
    Quiet /\ (\A d \in Dirs : av[d] = Total(d)) /\ Expected.st # "waiting" /\ cpc # "stuck" =>
        sres.st = Expected.st \/ sres.e = "eof"

\* Phases only move forward.
ServerRank(p) == CASE p \in {"m3", "n2", "hread"} -> 0 [] p = "mrest" -> 1 [] p = "a4" -> 2 [] p = "arest" -> 3 [] p = "apw" -> 4
                   [] p = "r5" -> 5 [] p \in {"rrest", "nrest"} -> 6 [] p \in {"pending", "udphold"} -> 7 [] OTHER -> 8
PhasesForward == [][ServerRank(spc') >= ServerRank(spc)]_vars
=============================================================================
