----------------------------- MODULE MCLattice -----------------------------
(* Case generation / model-checking instance of Lattice: the field-class lattices of every entry   *)
(* point.  ${...} placeholders are filled in by lib/props/c06.py (alphabets grow with the tier).   *)
(* For each entry point there are                                                                  *)
(*   - base messages: every field valid, the SOCKS address ranging over the whole address lattice; *)
(*     each is cut at every field boundary ("absent"), one byte into and one byte short of every   *)
(*     field ("truncated here"), and sent whole;                                                   *)
(*   - variations: one or two fields of a base message moved to another class (boundary value,    *)
(*     illegal enum, too long), sent whole.                                                        *)
EXTENDS Lattice, Json

A(t, l, k, p) == [atyp |-> t, dlen |-> l, dk |-> k, port |-> p]
Ports    == ${Ports}
DLens    == ${DLens}
DomKinds == ${DomKinds}
V4Kinds  == ${V4Kinds}
V6Kinds  == ${V6Kinds}
BadAtyps == ${BadAtyps}
PadLens  == ${PadLens}
PayLens  == ${PayLens}
Tails    == ${Tails}
TsOffs   == ${TsOffs}
BadBytes == ${BadBytes}        \* values for one-byte enums outside their legal set
LenBytes == ${LenBytes}        \* values for one-byte length fields
EPs      == ${EPs}
Rich     == ${Rich}       \* thorough tier: more configurations are cut at every field

DomAddrs == {A(AtypDom, l, k, p) : l \in DLens, k \in DomKinds, p \in Ports}
Addrs == {A(AtypV4, 0, k, p) : k \in V4Kinds, p \in Ports} \cup {A(AtypV6, 0, k, p) : k \in V6Kinds, p \in Ports}
         \cup {a \in DomAddrs : a.dk = "hit" => a.dlen >= 11}
         \cup {A(t, 0, "junk", 443) : t \in BadAtyps}
A4 == A(AtypV4, 0, "typ", 443)
A6 == A(AtypV6, 0, "typ", 443)
AD == A(AtypDom, 11, "hit", 443)
\* one address of every shape, for the lattices that already vary much else
FewAddrs == IF Rich THEN {A4, A6, AD, A(AtypDom, 255, "bin", 0), A(AtypDom, 0, "ldh", 443), A(AtypDom, 1, "ldh", 65535),
                           A(AtypV4, 0, "zero", 0)} \cup {A(t, 0, "junk", 443) : t \in BadAtyps}
            ELSE {A4, A6, AD, A(AtypDom, 255, "bin", 0), A(255, 0, "junk", 443)}
Bools == IF Rich THEN BOOLEAN ELSE {FALSE}

AllCuts(e, ms) == {[ep |-> e, m |-> mm, cuts |-> "all"] : mm \in ms}
Whole(e, ms) == {[ep |-> e, m |-> mm, cuts |-> "whole"] : mm \in ms}

-----------------------------------------------------------------------------
(* SOCKS5 *)
S5S0 == [auth |-> FALSE, tcp |-> TRUE, udp |-> TRUE, ver |-> Ver, nm |-> 1, mpos |-> "first", aver |-> AuthVer,
         ulen |-> 1, user |-> "ok", plen |-> 1, pass |-> "ok", rver |-> Ver, cmd |-> CmdConnect, rsv |-> 0, a |-> A4, tail |-> 0]
S5SBase == {[S5S0 EXCEPT !.a = a, !.auth = au] : a \in Addrs, au \in BOOLEAN}
S5SCut  == {[S5S0 EXCEPT !.a = a, !.auth = au, !.nm = n, !.mpos = "last", !.ulen = l, !.plen = l, !.tail = t]
              : a \in FewAddrs, au \in BOOLEAN, n \in (IF Rich THEN {1, 3} ELSE {3}), l \in (IF Rich THEN {1, 11} ELSE {11}),
                t \in (IF Rich THEN {0, 5} ELSE {5})}
S5SVar ==
    {[S5S0 EXCEPT !.ver = v] : v \in BadBytes} \cup {[S5S0 EXCEPT !.rver = v] : v \in BadBytes}
    \cup {[S5S0 EXCEPT !.auth = au, !.nm = n, !.mpos = p] : au \in BOOLEAN, n \in LenBytes, p \in {"first", "last", "none"}}
    \cup {[S5S0 EXCEPT !.auth = TRUE, !.aver = v] : v \in BadBytes \ {AuthVer}}
    \cup {[S5S0 EXCEPT !.auth = TRUE, !.ulen = u, !.user = uk, !.plen = pl, !.pass = pk, !.a = a]
            : u \in LenBytes, uk \in {"ok", "unk"}, pl \in LenBytes, pk \in {"ok", "bad"}, a \in {A4, AD}}
    \cup {[S5S0 EXCEPT !.cmd = c, !.tcp = t, !.udp = u, !.a = a, !.tail = tl]
            : c \in {CmdConnect, CmdBind, CmdUdp} \cup BadBytes, t \in BOOLEAN, u \in BOOLEAN, a \in {A4, A6, AD}, tl \in Tails}
    \cup {[S5S0 EXCEPT !.rsv = v, !.tail = tl] : v \in BadBytes, tl \in Tails}
S5SCases == AllCuts("s5srv", S5SCut) \cup Whole("s5srv", S5SBase \cup S5SVar)

S5C0 == [auth |-> FALSE, sver |-> Ver, meth |-> MNoAuth, aver |-> AuthVer, status |-> 0, rver |-> Ver, rep |-> RepOK, rsv |-> 0,
         a |-> A4, tail |-> 0]
S5CBase == {[S5C0 EXCEPT !.a = a, !.auth = au, !.meth = IF au THEN MUserPass ELSE MNoAuth] : a \in Addrs, au \in BOOLEAN}
S5CCut  == {[S5C0 EXCEPT !.a = a, !.auth = au, !.meth = IF au THEN MUserPass ELSE MNoAuth, !.tail = t]
              : a \in FewAddrs, au \in BOOLEAN, t \in (IF Rich THEN {0, 5} ELSE {5})}
S5CVar ==
    {[S5C0 EXCEPT !.sver = v] : v \in BadBytes} \cup {[S5C0 EXCEPT !.rver = v] : v \in BadBytes}
    \cup {[S5C0 EXCEPT !.auth = au, !.meth = me] : au \in BOOLEAN, me \in {MNoAuth, MUserPass, MNoAccept, 1}}
    \cup {[S5C0 EXCEPT !.auth = TRUE, !.meth = MUserPass, !.aver = v, !.status = s] : v \in {AuthVer} \cup BadBytes, s \in {0, 1, 255}}
    \cup {[S5C0 EXCEPT !.rep = r, !.a = a, !.rsv = v] : r \in 0 .. 9 \cup {255}, a \in FewAddrs, v \in {0, 255}}
S5CCases == AllCuts("s5cli", S5CCut) \cup Whole("s5cli", S5CBase \cup S5CVar)

NoneCases == AllCuts("nonesrv", {[a |-> a, tail |-> t] : a \in Addrs, t \in (IF Rich THEN {0, 5} ELSE {5})})

(* datagram codecs *)
U0 == [a |-> A4, pl |-> 32, frag |-> 0, rsv |-> 0, src |-> "server"]
UBase == {[U0 EXCEPT !.a = a, !.pl = p] : a \in Addrs, p \in PayLens}
UCut == IF Rich THEN UBase ELSE {[U0 EXCEPT !.a = a, !.pl = 32] : a \in {b \in Addrs : b.port = 443 \/ b.dlen = 255}}
UVar == {[U0 EXCEPT !.frag = f, !.rsv = r, !.a = a] : f \in {0, 1, 255}, r \in {0, 65535}, a \in {A4, AD}}
        \cup {[U0 EXCEPT !.src = "other", !.a = a] : a \in {A4, AD}}
S5UCases == AllCuts("s5udpsrv", UCut) \cup Whole("s5udpsrv", UBase \cup UVar) \cup AllCuts("s5udpcli", UCut) \cup Whole("s5udpcli", UBase \cup UVar)
NoneUCases == AllCuts("noneudpsrv", UCut) \cup Whole("noneudpsrv", UBase) \cup AllCuts("noneudpcli", UCut) \cup Whole("noneudpcli", UBase \cup UVar)
DirectCases == Whole("directudp", {[U0 EXCEPT !.pl = p] : p \in PayLens \cup {0, 1472}})

-----------------------------------------------------------------------------
(* Shadowsocks 2022 *)
T0 == [saltlen |-> 32, ursp |-> 0, urspok |-> TRUE, eih |-> FALSE, user |-> "ok", seg |-> "whole", allowseg |-> FALSE,
       fallback |-> FALSE, salt |-> "fresh", auth |-> "ok", type |-> TypeCliStream, ts |-> 0, vk |-> "exact", vauth |-> "ok",
       a |-> A4, padlen |-> 7, pl |-> 5, tail |-> 0, icut |-> -1]
\* inner cuts: a peer with the key seals a prefix of the header, at every field boundary and around it
ICuts(ms, inner(_)) == UNION {{[mm EXCEPT !.icut = h] : h \in Cuts(inner(mm))} : mm \in ms}
TInner == ICuts({[T0 EXCEPT !.a = a, !.padlen = p, !.pl = l, !.fallback = f] : a \in FewAddrs, p \in {0, 7}, l \in {0, 5}, f \in Bools}, SsVarWire)
TBase == {[T0 EXCEPT !.a = a, !.saltlen = s, !.padlen = p, !.pl = l]
            : a \in Addrs, s \in {16, 32}, p \in PadLens, l \in {0, 5}}
TCut  == {[T0 EXCEPT !.a = a, !.saltlen = s, !.eih = e, !.ursp = u, !.fallback = f, !.allowseg = g, !.tail = t]
            : a \in (IF Rich THEN {A4, AD, A(AtypDom, 255, "bin", 0)} ELSE {AD}), s \in (IF Rich THEN {16, 32} ELSE {32}), e \in BOOLEAN,
              u \in (IF Rich THEN {0, 8} ELSE {8}), f \in BOOLEAN, g \in Bools, t \in (IF Rich THEN {0, 5} ELSE {5})}
TVar ==
    {[T0 EXCEPT !.type = v, !.fallback = f] : v \in {TypeSrvStream} \cup BadBytes, f \in BOOLEAN}
    \cup {[T0 EXCEPT !.ts = t, !.fallback = f] : t \in TsOffs, f \in BOOLEAN}
    \cup {[T0 EXCEPT !.auth = "bad", !.fallback = f, !.eih = e] : f \in BOOLEAN, e \in BOOLEAN}
    \cup {[T0 EXCEPT !.salt = "repeat", !.fallback = f] : f \in BOOLEAN}
    \cup {[T0 EXCEPT !.ursp = 8, !.urspok = o, !.fallback = f] : o \in BOOLEAN, f \in BOOLEAN}
    \cup {[T0 EXCEPT !.eih = TRUE, !.user = u, !.fallback = f] : u \in {"ok", "unk"}, f \in BOOLEAN}
    \cup {[T0 EXCEPT !.seg = "split", !.allowseg = g, !.fallback = f, !.eih = e] : g \in BOOLEAN, f \in BOOLEAN, e \in BOOLEAN}
    \cup {[T0 EXCEPT !.vk = k, !.vauth = v, !.a = a, !.fallback = f, !.tail = t]
            : k \in {"exact", "zero", "less", "more"}, v \in {"ok", "bad"}, a \in {A4, AD}, f \in BOOLEAN, t \in {0, 40}}
    \cup {[T0 EXCEPT !.a = a, !.padlen = p, !.pl = l] : a \in FewAddrs, p \in PadLens \cup {0, 65000}, l \in {0, 1}}
TCases == AllCuts("ss22srv", TCut) \cup Whole("ss22srv", TBase \cup TVar \cup TInner)

C0 == [saltlen |-> 32, ursp |-> 0, urspok |-> TRUE, seg |-> "whole", allowseg |-> FALSE, auth |-> "ok", type |-> TypeSrvStream,
       ts |-> 0, rsalt |-> "ok", plen |-> 5, pauth |-> "ok", tail |-> 0]
CCut == {[C0 EXCEPT !.saltlen = s, !.ursp = u, !.allowseg = g, !.plen = p, !.tail = t]
           : s \in {16, 32}, u \in {0, 8}, g \in Bools, p \in (IF Rich THEN {1, 5} ELSE {5}), t \in (IF Rich THEN {0, 5} ELSE {5})}
CVar ==
    {[C0 EXCEPT !.type = v] : v \in {TypeCliStream} \cup BadBytes} \cup {[C0 EXCEPT !.ts = t] : t \in TsOffs}
    \cup {[C0 EXCEPT !.auth = "bad", !.saltlen = s] : s \in {16, 32}} \cup {[C0 EXCEPT !.rsalt = "bad", !.saltlen = s] : s \in {16, 32}}
    \cup {[C0 EXCEPT !.ursp = 8, !.urspok = o] : o \in BOOLEAN}
    \cup {[C0 EXCEPT !.seg = "split", !.allowseg = g] : g \in BOOLEAN}
    \cup {[C0 EXCEPT !.plen = p, !.pauth = v, !.tail = t] : p \in {0, 1, 5, 65535}, v \in {"ok", "bad"}, t \in {0, 40}}
CCases == AllCuts("ss22cli", CCut) \cup Whole("ss22cli", CVar)

K0 == [clen |-> 5, lauth |-> "ok", cauth |-> "ok", tail |-> 0]
KCases == AllCuts("ss22chunk", {[K0 EXCEPT !.clen = c, !.tail = t] : c \in {1, 5, 65535}, t \in {0, 5}})
          \cup Whole("ss22chunk", {[K0 EXCEPT !.clen = c, !.lauth = l, !.cauth = a] : c \in {0, 1, 65535}, l \in {"ok", "bad"}, a \in {"ok", "bad"}})

P0 == [eih |-> FALSE, user |-> "ok", pid |-> "new", auth |-> "ok", type |-> TypeCliPacket, ts |-> 0, padlen |-> 0, a |-> A4, pl |-> 32, icut |-> -1]
PInner == ICuts({[P0 EXCEPT !.a = a, !.padlen = p, !.pl = l, !.eih = e] : a \in FewAddrs, p \in {0, 1, 900}, l \in {0, 32}, e \in Bools}, SsUdpSrvInner)
PBase == {[P0 EXCEPT !.a = a, !.padlen = p, !.pl = l, !.eih = e] : a \in Addrs, p \in PadLens, l \in PayLens, e \in BOOLEAN}
PCut == {[P0 EXCEPT !.a = a, !.padlen = p, !.pl = l, !.eih = e, !.auth = au]
           : a \in FewAddrs, p \in (IF Rich THEN PadLens ELSE {1}), l \in (IF Rich THEN {0, 32} ELSE {32}), e \in BOOLEAN,
             au \in (IF Rich THEN {"ok", "bad"} ELSE {"ok"})}
PVar ==
    {[P0 EXCEPT !.type = v] : v \in {TypeSrvPacket} \cup BadBytes} \cup {[P0 EXCEPT !.ts = t] : t \in TsOffs}
    \cup {[P0 EXCEPT !.pid = "replay", !.eih = e] : e \in BOOLEAN} \cup {[P0 EXCEPT !.eih = TRUE, !.user = "unk"]}
    \cup {[P0 EXCEPT !.padlen = p, !.a = a] : p \in {2000}, a \in FewAddrs}
PCases == AllCuts("ss22udpsrv", PCut) \cup Whole("ss22udpsrv", PBase \cup PVar \cup PInner)

Q0 == [sess |-> "new", pid |-> "new", auth |-> "ok", type |-> TypeSrvPacket, ts |-> 0, csid |-> "ok", padlen |-> 0, a |-> A4, pl |-> 32, icut |-> -1]
QInner == ICuts({[Q0 EXCEPT !.a = a, !.padlen = p, !.pl = l, !.sess = s] : a \in FewAddrs, p \in {0, 1, 900}, l \in {0, 32}, s \in {"new", "cur"}},
                SsUdpCliInner)
QBase == {[Q0 EXCEPT !.a = a, !.padlen = p, !.pl = l, !.sess = s] : a \in Addrs, p \in PadLens, l \in PayLens, s \in {"new", "cur", "old"}}
QCut == {[Q0 EXCEPT !.a = a, !.padlen = p, !.pl = l, !.auth = au, !.sess = s]
           : a \in FewAddrs, p \in (IF Rich THEN PadLens ELSE {1}), l \in (IF Rich THEN {0, 32} ELSE {32}),
             au \in (IF Rich THEN {"ok", "bad"} ELSE {"ok"}), s \in (IF Rich THEN {"new", "cur"} ELSE {"new"})}
QVar ==
    {[Q0 EXCEPT !.type = v] : v \in {TypeCliPacket} \cup BadBytes} \cup {[Q0 EXCEPT !.ts = t] : t \in TsOffs}
    \cup {[Q0 EXCEPT !.pid = "replay", !.sess = s] : s \in {"cur", "old"}} \cup {[Q0 EXCEPT !.sess = "third"]}
    \cup {[Q0 EXCEPT !.csid = "bad", !.sess = s] : s \in {"new", "cur"}}
    \cup {[Q0 EXCEPT !.padlen = p, !.a = a] : p \in {2000}, a \in FewAddrs}
QCases == AllCuts("ss22udpcli", QCut) \cup Whole("ss22udpcli", QBase \cup QVar \cup QInner)

-----------------------------------------------------------------------------
(* HTTP: text, truncation is a class *)
H0 == [auth |-> FALSE, method |-> "CONNECT", host |-> "dom1", port |-> "443", ver |-> "1.1", hosthdr |-> "same", cred |-> "none",
       conn |-> "none", body |-> "none", hdr |-> "ok", cut |-> "full"]
HCuts == {"full", "line", "hdr", "noend", "empty"}
HHosts == {"ip4", "ip6", "dom1", "dom255", "dom256", "empty", "badchar"}
HPorts == {"0", "1", "443", "65535", "65536", "none", "alpha", "neg"}
HttpSrvMsgs ==
    {[H0 EXCEPT !.method = me, !.host = h, !.port = p] : me \in {"CONNECT", "GET"}, h \in HHosts, p \in HPorts}
    \cup {[H0 EXCEPT !.method = me, !.cut = c, !.host = h] : me \in {"CONNECT", "GET", "POST"}, c \in HCuts \cup {"body"}, h \in {"dom1", "ip6"}}
    \cup {[H0 EXCEPT !.method = me, !.ver = v] : me \in {"CONNECT", "GET", "POST", "BAD", "EMPTY", "LOWER"}, v \in {"1.1", "1.0", "2.0", "0.9", "bad", "none"}}
    \cup {[H0 EXCEPT !.auth = TRUE, !.cred = c, !.method = me, !.conn = k] : c \in {"ok", "bad", "none", "nonbasic", "garbage", "short"},
            me \in {"CONNECT", "GET"}, k \in {"none", "close"}}
    \cup {[H0 EXCEPT !.method = me, !.hdr = h] : me \in {"CONNECT", "GET"}, h \in {"ok", "huge", "nocolon", "nul", "fold", "dupcl", "space"}}
    \cup {[H0 EXCEPT !.method = me, !.body = b, !.hosthdr = hh, !.conn = k] : me \in {"GET", "POST"}, b \in {"none", "cl", "chunked", "clbad", "both"},
            hh \in {"same", "other", "none", "dup"}, k \in {"none", "close", "keep", "upgrade"}}
HttpSrvCases == Whole("httpsrv", HttpSrvMsgs)
R0 == [ver |-> "1.1", code |-> "200", hdr |-> "ok", first |-> 0, cut |-> "full"]
HttpCliMsgs ==
    {[R0 EXCEPT !.ver = v, !.code = c] : v \in {"1.1", "1.0", "2.0", "bad", "none"},
        c \in {"200", "204", "299", "100", "199", "300", "407", "502", "999", "1000", "abc", "none", "neg"}}
    \cup {[R0 EXCEPT !.hdr = h, !.first = f, !.cut = c] : h \in {"ok", "cl", "chunked", "nocolon", "huge", "nul"}, f \in {0, 5}, c \in HCuts}
HttpCliCases == Whole("httpcli", HttpCliMsgs)

-----------------------------------------------------------------------------
(* DNS replies *)
D0 == [tcp |-> FALSE, id |-> 4, qr |-> TRUE, ra |-> TRUE, tc |-> FALSE, rcode |-> 0, qd |-> 1, an |-> 1, ns |-> 0, ar |-> 1,
       atype |-> "A", rdlen |-> 4, name |-> "ptr", lenk |-> "exact"]
Canon(t) == CASE t = "A" -> 4 [] t = "AAAA" -> 16 [] OTHER -> 7
DBase == {[D0 EXCEPT !.id = i, !.atype = t, !.rdlen = Canon(t), !.an = n, !.ns = s, !.ar = r, !.name = k, !.rcode = c, !.qd = q]
            : i \in {4, 6}, t \in {"A", "AAAA", "CNAME", "OPT"}, n \in {0, 1, 2}, s \in {0, 1}, r \in {0, 1},
              k \in (IF Rich THEN {"ptr", "q", "root"} ELSE {"ptr", "q"}), c \in {0, 3}, q \in (IF Rich THEN {0, 1, 2} ELSE {1})}
DVar ==
    {[D0 EXCEPT !.id = i] : i \in {0, 5, 65535}} \cup {[D0 EXCEPT !.qr = FALSE]} \cup {[D0 EXCEPT !.ra = FALSE]}
    \cup {[D0 EXCEPT !.tc = TRUE, !.an = n] : n \in {0, 1}}
    \cup {[D0 EXCEPT !.rcode = c, !.an = n, !.ns = s] : c \in 0 .. 15, n \in {0, 1}, s \in {0, 1}}
    \cup {[D0 EXCEPT !.atype = t, !.rdlen = l, !.ns = s] : t \in {"A", "AAAA", "CNAME"}, l \in {0, 3, 4, 5, 16, 17, 300}, s \in {0, 1}}
    \cup {[D0 EXCEPT !.name = k, !.an = n, !.ns = s] : k \in {"loop", "fwd", "label64"}, n \in {0, 1}, s \in {0, 1}}
    \cup {[D0 EXCEPT !.qd = q, !.an = n] : q \in {0, 3, 40}, n \in {0, 1}}
DTcp(ms) == {[mm EXCEPT !.tcp = TRUE] : mm \in ms}
DnsCases == AllCuts("dnsudp", {mm \in DBase : mm.qd = 1 /\ mm.an + mm.ns >= 1 /\ mm.name = "ptr" /\ (Rich \/ (mm.id = 4 /\ mm.ar = 1))})
            \cup Whole("dnsudp", DBase \cup DVar)
            \cup AllCuts("dnstcp", DTcp({mm \in DBase : mm.qd = 1 /\ mm.an = 1 /\ mm.name = "ptr" /\ mm.rcode = 0}))
            \cup Whole("dnstcp", DTcp(DBase \cup DVar) \cup {[mm EXCEPT !.lenk = k] : mm \in DTcp({D0, [D0 EXCEPT !.an = 0, !.ns = 1]}), k \in {"zero", "less", "more"}})

-----------------------------------------------------------------------------
Sel(g, cs) == IF g \in EPs THEN cs ELSE {}
MCMsgs ==
    Sel("s5srv", S5SCases) \cup Sel("s5cli", S5CCases) \cup Sel("nonesrv", NoneCases) \cup Sel("s5udp", S5UCases)
    \cup Sel("noneudp", NoneUCases) \cup Sel("directudp", DirectCases) \cup Sel("ss22srv", TCases) \cup Sel("ss22cli", CCases)
    \cup Sel("ss22chunk", KCases) \cup Sel("ss22udpsrv", PCases) \cup Sel("ss22udpcli", QCases) \cup Sel("httpsrv", HttpSrvCases)
    \cup Sel("httpcli", HttpCliCases) \cup Sel("dns", DnsCases)
MCRouteCfgs == ${RouteCfgs}
MCClients == ${Clients}
MCDialTable == ${DialTable}

\* the router ORs a domain and a prefix criterion of one route; the model takes one at a time
ASSUME \A rc \in MCRouteCfgs : rc.dom = "-" \/ rc.pfx = "-"

View == sv
\* one CASE line per message, printed when its parse ends: what the peer sends and what the model expects
EmitCase ==
    (st = "parse" /\ st' # "parse") =>
        PrintT("CASE " \o ToJson([ep |-> ep, m |-> m, have |-> have, wire |-> Wire(ep, m), need |-> Need(ep, m),
                                  v |-> st', why |-> res'.why, req |-> res'.req, rdpos |-> rdpos', wrote |-> wrote']))
Emit == EmitCase
ASSUME PrintT("CAT " \o ToJson([routes |-> MCRouteCfgs, clients |-> MCClients, dial |-> MCDialTable,
                                msgCount |-> Cardinality(MCMsgs)]))
=============================================================================
