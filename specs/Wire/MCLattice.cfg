CONSTANTS
  Ver = ${Ver}
  AuthVer = ${AuthVer}
  MNoAuth = ${MNoAuth}
  MUserPass = ${MUserPass}
  MNoAccept = ${MNoAccept}
  CmdConnect = ${CmdConnect}
  CmdBind = ${CmdBind}
  CmdUdp = ${CmdUdp}
  AtypV4 = ${AtypV4}
  AtypDom = ${AtypDom}
  AtypV6 = ${AtypV6}
  IPv4AddrLen = ${IPv4AddrLen}
  IPv6AddrLen = ${IPv6AddrLen}
  MaxAddrLen = ${MaxAddrLen}
  RepOK = ${RepOK}
  RepCmd = ${RepCmd}
  TagSize = ${TagSize}
  TcpReqFixed = ${TcpReqFixed}
  UdpSep = ${UdpSep}
  UdpCliFixed = ${UdpCliFixed}
  UdpSrvFixed = ${UdpSrvFixed}
  MaxPadding = ${MaxPadding}
  IdHdr = ${IdHdr}
  MaxEpochDiff = ${MaxEpochDiff}
  TypeCliStream = ${TypeCliStream}
  TypeSrvStream = ${TypeSrvStream}
  TypeCliPacket = ${TypeCliPacket}
  TypeSrvPacket = ${TypeSrvPacket}
  MaxRangeSet = ${MaxRangeSet}
  MaxLinearDomains = ${MaxLinearDomains}
  MaxLinearSuffixes = ${MaxLinearSuffixes}
  DialTable <- MCDialTable
  Msgs <- MCMsgs
  RouteCfgs <- MCRouteCfgs
  Clients <- MCClients
  Variant = "${Variant}"
INIT Init
NEXT Next
VIEW View
${EMIT}
INVARIANTS ${INVARIANTS}
PROPERTIES RejectedStays PhasesForward SuccessOnlyOnProceed
CHECK_DEADLOCK FALSE
